------------------------------ MODULE YangSchema ------------------------------
(* From YANG statement trees to schema trees (RFC 6020 sections 7.9, 7.12, 7.15,
   7.18, 7.19), written as operators (no variables) so that the model checker
   module, the generator and the trace validator can all extend it.

   A statement is [kw, arg, subs, own]: arg is a sequence of strings (plain
   argument <<a>>, identifier reference <<prefix, name>>, schema node path
   <<prefix1, name1, prefix2, name2, ...>>, key/unique <<name, ...>>); own is
   the name of the module or submodule the statement belongs to ("" as
   written; set by Home, changed by re-homing a grouping body).  A module set
   M is a sequence of module/submodule statements.

   Pipeline: Home (tag, resolve prefixes, make shorthand cases explicit)
   -> ExpandAll (uses/refine/uses-augment; groupings disappear)
   -> InlineLocalAug (augments that can be written in place are)   = Inline(M)
   -> ApplyAugments (module level, target by namespace)
   -> ApplyDeviations (deviate = edit of the target's source)
   -> Build (Present, Inherit, per-kind rules, sibling uniqueness)  = Schema(M)
   -> Prune(filter).
   Every prohibition of the RFC is an explicit "!error" marker; everything the
   RFC (or the property statement) leaves open is an "!unjudged" marker (the
   module set is not judged) or an "!open" marker (the compile verdict and one
   attribute are not judged, the rest of the tree is).                         *)
EXTENDS Integers, Sequences, FiniteSets, TLC

MaxDepth == 6

St(kw, arg, subs) == [kw |-> kw, arg |-> arg, subs |-> subs, own |-> "", def |-> ""]
Err(class) == St("!error", <<class>>, <<>>)
Unj(why) == St("!unjudged", <<why>>, <<>>)

Range(s) == {s[i] : i \in 1..Len(s)}
RECURSIVE Concat(_)
Concat(ss) == IF ss = <<>> THEN <<>> ELSE Head(ss) \o Concat(Tail(ss))
MinOf(S) == CHOOSE x \in S : \A y \in S : x <= y

Sub(s, kw) == SelectSeq(s.subs, LAMBDA c : c.kw = kw)
Has(s, kw) == \E i \in 1..Len(s.subs) : s.subs[i].kw = kw
Arg1(s, kw, dflt) == LET x == Sub(s, kw) IN IF x = <<>> THEN dflt ELSE x[1].arg[1]

DataKw == {"container", "leaf", "leaf-list", "list", "choice"}
NodeKw == DataKw \cup {"case"}

RECURSIVE Marks(_, _)
Marks(s, kw) == (IF s.kw = kw THEN {s.arg[1]} ELSE {}) \cup UNION {Marks(s.subs[i], kw) : i \in 1..Len(s.subs)}
MarksAll(M, kw) == UNION {Marks(M[i], kw) : i \in 1..Len(M)}

RECURSIVE SetOwn(_, _)
SetOwn(s, f) == [s EXCEPT !.own = f, !.subs = [i \in 1..Len(s.subs) |-> SetOwn(s.subs[i], f)]]

StRank(s) == CASE s = "current" -> 0 [] s = "deprecated" -> 1 [] s = "obsolete" -> 2 [] OTHER -> 0
StOf(s, inh) == Arg1(s, "status", inh)

\* ------------------------------------------------------------ module sets
IsSubm(f) == f.kw = "submodule"
ModNameOf(f) == IF IsSubm(f) THEN Arg1(f, "belongs-to", "?") ELSE f.arg[1]
OwnPrefix(f) == IF IsSubm(f) THEN (IF Has(f, "belongs-to") THEN Arg1(Sub(f, "belongs-to")[1], "prefix", "?") ELSE "?")
                ELSE Arg1(f, "prefix", "?")
HasFile(M, n) == \E i \in 1..Len(M) : M[i].arg[1] = n
FileOf(M, n) == M[CHOOSE i \in 1..Len(M) : M[i].arg[1] = n]
HasModule(M, m) == \E i \in 1..Len(M) : M[i].kw = "module" /\ M[i].arg[1] = m
NsOfMod(M, m) == IF HasModule(M, m) THEN Arg1(FileOf(M, m), "namespace", "?") ELSE "?ns-" \o m
ModOfFileName(M, n) == IF HasFile(M, n) THEN ModNameOf(FileOf(M, n)) ELSE "?"
NsOfOwn(M, n) == NsOfMod(M, ModOfFileName(M, n))
\* prefix -> module name in the scope of file f ("?" when the prefix is not bound)
Resolve(f, p) ==
  IF p = "" \/ p = OwnPrefix(f) THEN ModNameOf(f)
  ELSE LET im == SelectSeq(Sub(f, "import"), LAMBDA c : Arg1(c, "prefix", "?") = p)
       IN IF im = <<>> THEN "?" ELSE im[1].arg[1]
\* module name -> a prefix usable in file f ("" = no prefix needed)
PrefixFor(f, m) ==
  IF m = ModNameOf(f) THEN ""
  ELSE LET im == SelectSeq(Sub(f, "import"), LAMBDA c : c.arg[1] = m)
       IN IF im = <<>> THEN m ELSE Arg1(im[1], "prefix", m)

\* ------------------------------------------------------------ Home
WrapCase(n) == [kw |-> "case", arg |-> <<n.arg[1]>>, subs |-> <<n>>, own |-> n.own, def |-> n.def]
WrapShort(nodes) == [i \in 1..Len(nodes) |-> IF nodes[i].kw \in DataKw \ {"choice"} THEN WrapCase(nodes[i]) ELSE nodes[i]]
QualAbs(arg, f) == [i \in 1..Len(arg) |-> IF i % 2 = 1 THEN Resolve(f, arg[i]) ELSE arg[i]]
QualRel(arg, f) == [i \in 1..Len(arg) |-> IF i % 2 = 1 /\ arg[i] # "" THEN Resolve(f, arg[i]) ELSE arg[i]]
RECURSIVE Home(_, _, _)
Home(s, f, pk) ==
  LET a == CASE s.kw \in {"uses", "if-feature"} -> QualAbs(s.arg, f)
             [] s.kw = "deviation" \/ (s.kw = "augment" /\ pk # "uses") -> QualAbs(s.arg, f)
             [] s.kw = "refine" \/ (s.kw = "augment" /\ pk = "uses") -> QualRel(s.arg, f)
             [] OTHER -> s.arg
      subs0 == [i \in 1..Len(s.subs) |-> Home(s.subs[i], f, s.kw)]
  IN [kw |-> s.kw, arg |-> a, subs |-> IF s.kw = "choice" THEN WrapShort(subs0) ELSE subs0, own |-> f.arg[1], def |-> f.arg[1]]
HomeAll(M) == [i \in 1..Len(M) |-> Home(M[i], M[i], "")]

\* ------------------------------------------------------------ groupings
IncludedFiles(M, f) == LET inc == Sub(f, "include") IN
  Concat([i \in 1..Len(inc) |-> IF HasFile(M, inc[i].arg[1]) THEN <<FileOf(M, inc[i].arg[1])>> ELSE <<>>])
TopGroupings(M, n) ==
  IF ~HasFile(M, n) THEN <<>>
  ELSE LET f == FileOf(M, n)  inc == IncludedFiles(M, f)
       IN Sub(f, "grouping") \o Concat([i \in 1..Len(inc) |-> Sub(inc[i], "grouping")])
FindLevel(chain, name) ==
  LET ks == {k \in 1..Len(chain) : \E i \in 1..Len(chain[k]) : chain[k][i].arg[1] = name}
  IN IF ks = {} THEN 0 ELSE MinOf(ks)
GetG(gs, name) == gs[MinOf({i \in 1..Len(gs) : gs[i].arg[1] = name})]

\* ------------------------------------------------------------ paths
RECURSIVE Locate(_, _, _)
Locate(nodes, path, M) ==
  IF Len(path) < 2 THEN <<>> ELSE
  LET p == path[1]  nm == path[2]
      is == {i \in 1..Len(nodes) : nodes[i].kw \in NodeKw /\ nodes[i].arg[1] = nm
                                   /\ (p = "" \/ NsOfMod(M, p) = NsOfOwn(M, nodes[i].own))}
  IN IF is = {} THEN <<>>
     ELSE LET i == MinOf(is)
          IN IF Len(path) = 2 THEN <<i>>
             ELSE LET r == Locate(nodes[i].subs, SubSeq(path, 3, Len(path)), M)
                  IN IF r = <<>> THEN <<>> ELSE <<i>> \o r
RECURSIVE GetAt(_, _)
GetAt(nodes, ip) == IF Len(ip) = 1 THEN nodes[ip[1]] ELSE GetAt(nodes[ip[1]].subs, Tail(ip))
RECURSIVE SetAt(_, _, _)     \* replace the node at ip by the sequence of nodes new
SetAt(nodes, ip, new) ==
  IF Len(ip) = 1 THEN SubSeq(nodes, 1, ip[1] - 1) \o new \o SubSeq(nodes, ip[1] + 1, Len(nodes))
  ELSE [nodes EXCEPT ![ip[1]] = [@ EXCEPT !.subs = SetAt(@, Tail(ip), new)]]
RECURSIVE PathStatus(_, _, _)   \* status in force at the node at ip (explicit statements on the way, else inh)
PathStatus(nodes, ip, inh) == LET s == StOf(nodes[ip[1]], inh) IN IF Len(ip) = 1 THEN s ELSE PathStatus(nodes[ip[1]].subs, Tail(ip), s)
RECURSIVE PathStatusOf(_, _, _, _)   \* the same, counting only the explicit statuses of nodes that file f owns
PathStatusOf(nodes, ip, inh, f) == LET n == nodes[ip[1]]  s == IF n.own = f THEN StOf(n, inh) ELSE inh
                                   IN IF Len(ip) = 1 THEN s ELSE PathStatusOf(n.subs, Tail(ip), s, f)
UsesModes == {"uses-file", "uses-module", "uses-other"}
\* rel: "file" (grouping and uses in the same file), "module" (same module, different files), "other".
\* The path of a refine (and of an augment inside uses) refers to the nodes it names: a uses may not reach into nodes
\* that are more obsolete than itself in its own module (status in force along the path = explicit ones on the way).
PathRefMarks(nodes, ip, ust, rel) ==
  IF StRank(ust) >= StRank(PathStatus(nodes, ip, "current")) THEN <<>>
  ELSE IF rel = "file" THEN <<Err("status-reference")>>
  ELSE IF rel = "module" THEN <<Unj("status of a reference between a module and its submodule")>>
  ELSE <<>>
RECURSIVE PathHas(_, _, _)   \* does a node on the way to ip carry a statement kw?
PathHas(nodes, ip, kw) == Has(nodes[ip[1]], kw) \/ (Len(ip) > 1 /\ PathHas(nodes[ip[1]].subs, Tail(ip), kw))

\* ------------------------------------------------------------ distribution of when / if-feature / status
Distribute(nodes, u) ==
  LET iff == Sub(u, "if-feature")
      \* a when of an augment is evaluated on the augment's target ("parent" of the introduced node); for a when of a
      \* uses the RFC says the parent too, the property statement nothing: its context is not judged ("any")
      wh0 == Sub(u, "when")
      wh == [i \in 1..Len(wh0) |-> [wh0[i] EXCEPT !.arg = <<wh0[i].arg[1], IF u.kw = "augment" THEN "parent" ELSE "any">>]]
      stt == Sub(u, "status")
      \* The status of the uses / augment is what an introduced node that states none gets (the statement: it applies to
      \* every node introduced).  A node copied from the grouping / written in the augment keeps what it states itself
      \* (RFC 6020 7.12: the nodes are copied; status is not among the refinements): when its own status is at least as
      \* obsolete as the one on the uses / augment both readings agree and the own status stands.  An own status that is
      \* LESS obsolete than the one on the uses / augment contradicts "applies to every node": not judged.
      \* description and reference of the uses / augment describe that statement, not the nodes: they go nowhere.
      Own(n) == IF stt = <<>> THEN <<>>
                ELSE IF ~Has(n, "status") THEN stt
                ELSE IF StRank(StOf(n, "current")) >= StRank(stt[1].arg[1]) THEN <<>>
                ELSE <<Unj("own status of an introduced node less obsolete than the status on the uses/augment")>>
  IN [i \in 1..Len(nodes) |->
       LET n == nodes[i] IN
       IF n.kw \notin NodeKw THEN n
       ELSE [n EXCEPT !.subs = @ \o iff \o wh \o Own(n)]]

\* ------------------------------------------------------------ refine (RFC 6020 7.12.2)
RefAllowed(kw, kind) ==
  CASE kw \in {"description", "reference"} -> kind \in NodeKw
    [] kw = "config" -> kind \in DataKw
    [] kw = "mandatory" -> kind \in {"leaf", "choice"}
    [] kw = "presence" -> kind = "container"
    [] kw = "must" -> kind \in {"container", "leaf", "leaf-list", "list"}
    [] kw = "default" -> kind \in {"leaf", "choice"}
    [] kw \in {"min-elements", "max-elements"} -> kind \in {"leaf-list", "list"}
    [] OTHER -> FALSE
SetSingle(t, c) ==
  IF Has(t, c.kw) THEN [t EXCEPT !.subs = [i \in 1..Len(t.subs) |-> IF t.subs[i].kw = c.kw THEN c ELSE t.subs[i]]]
  ELSE [t EXCEPT !.subs = @ \o <<c>>]
RefineNode(t, r) ==
  LET F[i \in 0..Len(r.subs)] ==
        IF i = 0 THEN t
        ELSE LET c == r.subs[i]  x == F[i-1] IN
             IF ~RefAllowed(c.kw, t.kw) THEN [x EXCEPT !.subs = @ \o <<Err("refine-not-allowed")>>]
             ELSE IF c.kw = "config" /\ t.kw = "case" THEN [x EXCEPT !.subs = @ \o <<Unj("refine config on a case")>>]
             ELSE IF c.kw = "must" THEN [x EXCEPT !.subs = @ \o <<c>>]
             ELSE SetSingle(x, c)
  IN F[Len(r.subs)]
ApplyRefine(nodes, r, M, ust, rel) ==
  LET ip == Locate(nodes, r.arg, M)
  IN IF ip = <<>> THEN nodes \o <<Err("refine-target")>>
     ELSE SetAt(nodes, ip, <<RefineNode(GetAt(nodes, ip), r)>>) \o PathRefMarks(nodes, ip, ust, rel)

\* ------------------------------------------------------------ mandatory nodes (RFC 6020 section 3.1)
RECURSIVE IsMand(_)
IsMand(n) ==
  CASE n.kw \in {"leaf", "choice"} -> Arg1(n, "mandatory", "false") = "true"
    [] n.kw \in {"leaf-list", "list"} -> Arg1(n, "min-elements", "0") # "0"
    [] n.kw = "container" -> ~Has(n, "presence") /\ \E i \in 1..Len(n.subs) : n.subs[i].kw \in DataKw /\ IsMand(n.subs[i])
    [] OTHER -> FALSE
RECURSIVE HasMandInCase(_)
HasMandInCase(n) == n.kw = "case" /\ \E i \in 1..Len(n.subs) : n.subs[i].kw \in DataKw /\ IsMand(n.subs[i])

\* ------------------------------------------------------------ uses expansion and augment merging
RECURSIVE ExpandBody(_, _, _, _, _), ExpandOne(_, _, _, _, _), ExpandUses(_, _, _, _, _), AugmentAt(_, _, _, _, _, _, _)

\* merge the children of augment a into the node its path designates among nodes.
\* mode: "uses" (augment inside uses), "local" (written in place by Inline), "module" (module level).
AugmentAt(nodes, a, chain, M, st, d, mode) ==
  LET ip == Locate(nodes, a.arg, M)
  IN IF ip = <<>> THEN nodes \o <<Err("augment-target")>>
     ELSE
     LET t == GetAt(nodes, ip)
         \* (what was found wrong while the body of the augment was expanded stays wrong when the body moves)
         kids0 == ExpandBody(SelectSeq(a.subs, LAMBDA c : c.kw \in NodeKw \cup {"uses", "!error", "!unjudged"}), chain, M, StOf(a, st), d + 1)
         kids1 == Distribute(kids0, a)
         kids2 == IF t.kw = "choice" THEN WrapShort(kids1) ELSE kids1
         kids3 == IF mode = "module" THEN [i \in 1..Len(kids2) |-> IF kids2[i].kw \in NodeKw THEN [kids2[i] EXCEPT !.subs = @ \o <<St("!aug", <<"">>, <<>>)>>] ELSE kids2[i]]
                  ELSE kids2
         other == mode = "module" /\ ModOfFileName(M, a.own) # ModOfFileName(M, t.own)
         problems ==
              (IF t.kw \notin {"container", "list", "choice", "case"} THEN <<Err("augment-target-kind")>> ELSE <<>>)
           \o (IF t.kw # "choice" /\ \E i \in 1..Len(kids2) : kids2[i].kw = "case" THEN <<Err("augment-case-outside-choice")>> ELSE <<>>)
           \o (IF t.kw = "choice" /\ \E i \in 1..Len(kids2) : kids2[i].kw = "choice" THEN <<Err("augment-choice-into-choice")>> ELSE <<>>)
           \o (IF t.kw = "choice" /\ Has(a, "uses") THEN <<Err("augment-uses-into-choice")>> ELSE <<>>)
           \o (IF other /\ \E i \in 1..Len(kids2) : IsMand(kids2[i]) THEN <<Err("augment-mandatory")>> ELSE <<>>)
           \o (IF other /\ \E i \in 1..Len(kids2) : HasMandInCase(kids2[i]) THEN <<Unj("case with a mandatory member augmented into another module")>> ELSE <<>>)
           \o (IF mode \in UsesModes THEN PathRefMarks(nodes, ip, st, CASE mode = "uses-file" -> "file" [] mode = "uses-module" -> "module" [] OTHER -> "other") ELSE <<>>)
           \o (IF mode \notin UsesModes /\ StRank(StOf(a, st)) < StRank(PathStatus(nodes, ip, "current"))
               THEN (IF a.own = t.own /\ StRank(StOf(a, st)) < StRank(PathStatusOf(nodes, ip, "current", a.own)) THEN <<Err("status-reference")>>
                     ELSE IF a.own = t.own THEN <<Unj("status inherited along the path from a node of another module")>>
                     ELSE IF ModOfFileName(M, a.own) = ModOfFileName(M, t.own) THEN <<Unj("status of a reference between a module and its submodule")>>
                     ELSE <<>>)
               ELSE <<>>)
     IN IF problems # <<>> /\ \E i \in 1..Len(problems) : problems[i].kw = "!error"
        THEN nodes \o problems
        ELSE SetAt(nodes, ip, <<[t EXCEPT !.subs = @ \o kids3]>>) \o problems

ExpandOne(s, chain, M, st, d) ==
  IF s.kw = "uses" THEN ExpandUses(s, chain, M, st, d)
  ELSE IF s.kw = "grouping"
       THEN \* the definition disappears; what is wrong inside it is wrong whether or not it is used
            LET body == ExpandBody(s.subs, <<Sub(s, "grouping")>> \o chain, M, StOf(s, "current"), d + 1)
                es == UNION {Marks(body[i], "!error") : i \in 1..Len(body)}
                us == UNION {Marks(body[i], "!unjudged") : i \in 1..Len(body)}
                RECURSIVE AsSeq(_, _)
                AsSeq(S, kw) == IF S = {} THEN <<>> ELSE LET x == CHOOSE y \in S : TRUE IN <<St(kw, <<x>>, <<>>)>> \o AsSeq(S \ {x}, kw)
            IN AsSeq(es, "!error") \o AsSeq(us, "!unjudged")
  ELSE IF s.kw \in NodeKw \cup {"augment", "rpc", "input", "output", "notification"}
       THEN << [s EXCEPT !.subs = ExpandBody(@, <<Sub(s, "grouping")>> \o chain, M, StOf(s, st), d)] >>
  ELSE << s >>
ExpandBody(stmts, chain, M, st, d) == Concat([i \in 1..Len(stmts) |-> ExpandOne(stmts[i], chain, M, st, d)])

ExpandUses(u, chain, M, st, d) ==
  LET lm == ModOfFileName(M, u.own)
      rm == u.arg[1]
      gn == u.arg[2]
      ch == IF rm = lm THEN chain ELSE << TopGroupings(M, rm) >>
      k == FindLevel(ch, gn)
  IN IF d > MaxDepth THEN << Err("grouping-cycle") >>
     ELSE IF rm = "?" THEN << Err("unknown-prefix") >>
     ELSE IF k = 0 THEN << Err("unknown-grouping") >>
     ELSE
     LET g == GetG(ch[k], gn)
         gchain == IF k = Len(ch) THEN << TopGroupings(M, g.own) >> ELSE SubSeq(ch, k, Len(ch))
         ust == StOf(u, st)
         gst == StOf(g, "current")
         refErr == IF StRank(ust) >= StRank(gst) THEN <<>>
                   ELSE IF g.own = u.own THEN <<Err("status-reference")>>
                   ELSE IF ModOfFileName(M, g.own) = lm THEN <<Unj("status of a reference between a module and its submodule")>>
                   ELSE <<>>
         body0 == ExpandBody(SelectSeq(g.subs, LAMBDA c : c.kw \in DataKw \cup {"uses"}),
                             <<Sub(g, "grouping")>> \o gchain, M, gst, d + 1)
         body1 == [i \in 1..Len(body0) |-> SetOwn(body0[i], u.own)]
         body2 == Distribute(body1, u)
         refs == Sub(u, "refine")
         rel == IF g.own = u.own THEN "file" ELSE IF ModOfFileName(M, g.own) = lm THEN "module" ELSE "other"
         R[i \in 0..Len(refs)] == IF i = 0 THEN body2 ELSE ApplyRefine(R[i-1], refs[i], M, ust, rel)
         augs == Sub(u, "augment")
         A[i \in 0..Len(augs)] == IF i = 0 THEN R[Len(refs)] ELSE AugmentAt(A[i-1], augs[i], chain, M, ust, d, "uses-" \o rel)
     IN refErr \o A[Len(augs)]

ExpandFile(f, M) == [f EXCEPT !.subs = ExpandBody(@, << TopGroupings(M, f.arg[1]) >>, M, "current", 0)]
ExpandAll(M) == [i \in 1..Len(M) |-> ExpandFile(M[i], M)]

\* ------------------------------------------------------------ augments that can be written in place
Without(subs, a) == SelectSeq(subs, LAMBDA c : c # a)
Inlinable(f, a, M) == /\ ~Has(a, "when")
                      /\ \A i \in 1..Len(a.arg) : i % 2 = 0 \/ a.arg[i] = ModNameOf(f)
                      /\ Locate(Without(f.subs, a), a.arg, M) # <<>>
InlineLocalAugFile(f, M) ==
  LET augs == Sub(f, "augment")
      F[i \in 0..Len(augs)] ==
        IF i = 0 THEN f
        ELSE LET x == F[i-1]  a == augs[i] IN
             IF Inlinable(x, a, M) THEN [x EXCEPT !.subs = AugmentAt(Without(x.subs, a), a, <<>>, M, "current", 0, "local")] ELSE x
      R == F[Len(augs)]
  IN IF \E a \in Range(Sub(R, "augment")) : Inlinable(R, a, M)
     THEN [R EXCEPT !.subs = @ \o <<Unj("augment into a node that a later augment introduces (order)")>>]
     ELSE R
InlineLocalAug(M) == [i \in 1..Len(M) |-> InlineLocalAugFile(M[i], M)]

\* ------------------------------------------------------------ module-level augments and deviations
\* all statements kw at the top of the files, as <<file index, statement>>, in file order
TopStmts(M, kw) == Concat([i \in 1..Len(M) |-> LET s == Sub(M[i], kw) IN [j \in 1..Len(s) |-> <<i, s[j]>>]])
TargetFile(M, path) == LET is == {i \in 1..Len(M) : Locate(M[i].subs, path, M) # <<>>} IN IF is = {} THEN 0 ELSE MinOf(is)

ApplyAugments(M) ==
  LET as == TopStmts(M, "augment")
      F[k \in 0..Len(as)] ==
        IF k = 0 THEN M
        ELSE LET X == F[k-1]  i == as[k][1]  a == as[k][2]
                 X1 == [X EXCEPT ![i] = [@ EXCEPT !.subs = Without(@, a)]]
                 tf == TargetFile(X1, a.arg)
             IN IF tf = 0 THEN [X1 EXCEPT ![i] = [@ EXCEPT !.subs = @ \o <<St("!late", a.arg, <<>>)>>]]
                ELSE [X1 EXCEPT ![tf] = [@ EXCEPT !.subs = AugmentAt(@, a, <<>>, X1, "current", 0, "module")]]
      R == F[Len(as)]
      \* a target that was missing when its augment came up: an error, unless a LATER augment introduces it (the RFC
      \* fixes no order: not judged)
      Settle(st) == IF st.kw # "!late" THEN st ELSE IF TargetFile(R, st.arg) # 0 THEN Unj("augment into a node that a later augment introduces (order)") ELSE Err("augment-target")
  IN [i \in 1..Len(R) |-> [R[i] EXCEPT !.subs = [j \in 1..Len(@) |-> Settle(@[j])]]]

\* which properties the grammar allows on which node kind
AllowedOn(kw, kind) ==
  CASE kw = "config" -> kind \in DataKw
    [] kw \in {"default", "mandatory"} -> kind \in {"leaf", "choice"}
    [] kw \in {"min-elements", "max-elements"} -> kind \in {"leaf-list", "list"}
    [] kw = "must" -> kind \in {"container", "leaf", "leaf-list", "list"}
    [] kw = "unique" -> kind = "list"
    [] kw \in {"units", "type"} -> kind \in {"leaf", "leaf-list"}
    [] OTHER -> FALSE
Multi(kw) == kw \in {"must", "unique"}
AddErr(t, c) == [t EXCEPT !.subs = @ \o <<c>>]
\* one deviate statement as an edit of target t (RFC 6020 7.18.3.2)
DeviateNode(t, dv) ==
  LET how == dv.arg[1]
      F[i \in 0..Len(dv.subs)] ==
        IF i = 0 THEN t
        ELSE LET c == dv.subs[i]  x == F[i-1]
                 same == {j \in 1..Len(x.subs) : x.subs[j].kw = c.kw /\ x.subs[j].arg = c.arg}
             IN
             CASE how = "add" ->
                    IF c.kw \notin {"units", "must", "unique", "default", "config", "mandatory", "min-elements", "max-elements"}
                       \/ ~AllowedOn(c.kw, x.kw) THEN AddErr(x, Err("deviate-add-not-allowed"))
                    ELSE IF ~Multi(c.kw) /\ Has(x, c.kw) THEN AddErr(x, Err("deviate-add-exists"))
                    ELSE [x EXCEPT !.subs = @ \o <<c>>]
               [] how = "replace" ->
                    IF c.kw \notin {"type", "units", "default", "config", "mandatory", "min-elements", "max-elements"}
                       \/ ~AllowedOn(c.kw, x.kw) THEN AddErr(x, Err("deviate-replace-not-allowed"))
                    ELSE IF c.kw = "type" /\ Has(x, "default") THEN AddErr(x, Unj("replacing the type of a leaf that has a default (value spaces are not modelled here)"))
                    ELSE IF Has(x, c.kw) THEN SetSingle(x, c)
                    ELSE IF c.kw \in {"default", "units", "type"} THEN AddErr(x, Err("deviate-replace-missing"))
                    ELSE AddErr(x, Unj("deviate replace of a property that exists only implicitly"))
               [] how = "delete" ->
                    IF c.kw \notin {"units", "must", "unique", "default"} THEN AddErr(x, Err("deviate-delete-not-allowed"))
                    ELSE IF same = {} THEN AddErr(x, Err("deviate-delete-missing"))
                    ELSE [x EXCEPT !.subs = SubSeq(@, 1, MinOf(same) - 1) \o SubSeq(@, MinOf(same) + 1, Len(@))]
               [] OTHER -> AddErr(x, Err("deviate-unknown"))
      \* the grammar of every deviate statement (RFC 6020 7.18.3.2 tables, section 12) takes each property but must and
      \* unique at most once
      twice == \E i, j \in 1..Len(dv.subs) : i < j /\ dv.subs[i].kw = dv.subs[j].kw /\ ~Multi(dv.subs[i].kw)
  \* (such a statement is refused as a whole: what its single properties would do is beside the point)
  IN IF twice THEN AddErr(t, Err("deviate-property-twice")) ELSE F[Len(dv.subs)]
\* a whole deviation on the nodes of the file that holds its target
DeviationAt(nodes, dn, M) ==
  LET ip == Locate(nodes, dn.arg, M)
      t == GetAt(nodes, ip)
      dvs == Sub(dn, "deviate")
      ns == {i \in 1..Len(dvs) : dvs[i].arg[1] = "not-supported"}
      F[i \in 0..Len(dvs)] == IF i = 0 THEN t ELSE DeviateNode(F[i-1], dvs[i])
      \* The RFC fixes no order among the deviate statements of a deviation.  What is prescribed is what does not depend
      \* on it: the edit in document order is judged when the edit in the reverse order is refused as well / gives the
      \* same statements (as a bag); otherwise the module set is not judged.
      G[i \in 0..Len(dvs)] == IF i = 0 THEN t ELSE DeviateNode(G[i-1], dvs[Len(dvs) + 1 - i])
      fwd == F[Len(dvs)]
      bwd == G[Len(dvs)]
      bad(x) == Marks(x, "!error") # {}
      orderDep == Len(dvs) > 1 /\ ns = {} /\ (bad(fwd) # bad(bwd) \/ (~bad(fwd) /\ (Range(fwd.subs) # Range(bwd.subs) \/ Len(fwd.subs) # Len(bwd.subs))))
  IN IF dvs = <<>> THEN nodes \o <<Err("deviation-without-deviate")>>
     ELSE IF ns # {} /\ Len(dvs) > 1 THEN nodes \o <<Err("deviate-not-supported-with-others")>>
     \* the node leaves the tree; the marker left in its place only remembers that a node of this name was there, for the
     \* statements of the parent that refer to it by name (key, unique, default case: see BuildNode)
     ELSE IF ns # {} THEN (IF dvs[1].subs # <<>> THEN nodes \o <<Err("deviate-not-supported-with-properties")>>
                           ELSE SetAt(nodes, ip, <<St("!gone", <<t.arg[1]>>, <<>>)>>))
     ELSE IF orderDep THEN SetAt(nodes, ip, <<AddErr(fwd, Unj("the result depends on the order of the deviate statements"))>>)
     ELSE SetAt(nodes, ip, <<fwd>>)
\* strict: a deviation whose target is not found is an error; otherwise it is left in place
ApplyDeviationsMode(M, strict) ==
  LET ds == TopStmts(M, "deviation")
      F[k \in 0..Len(ds)] ==
        IF k = 0 THEN M
        ELSE LET X == F[k-1]  i == ds[k][1]  dn == ds[k][2]
                 tf == TargetFile(X, dn.arg)
                 X1 == [X EXCEPT ![i] = [@ EXCEPT !.subs = Without(@, dn)]]
             IN IF tf = 0 THEN (IF strict THEN [X1 EXCEPT ![i] = [@ EXCEPT !.subs = @ \o <<Err("deviation-target")>>]]
                                ELSE [X EXCEPT ![i] = [@ EXCEPT !.subs = @ \o <<Unj("deviation of a node that only an augment introduces")>>]])
                ELSE [X1 EXCEPT ![tf] = [@ EXCEPT !.subs = DeviationAt(@, dn, X1)]]
  IN F[Len(ds)]
ApplyDeviations(M) == ApplyDeviationsMode(M, TRUE)

\* ------------------------------------------------------------ features (RFC 6020 7.18.1, 7.18.2)
FeatId(f) == <<f.arg[1], f.arg[2]>>
\* declared features: records [id, deps, status, file]
Features(M) == UNION {{[id |-> <<ModNameOf(M[i]), ft.arg[1]>>,
                        deps |-> {FeatId(x) : x \in Range(Sub(ft, "if-feature"))},
                        status |-> StOf(ft, "current"), file |-> M[i].arg[1]] : ft \in Range(Sub(M[i], "feature"))}
                      : i \in 1..Len(M)}
FeatIds(FS) == {f.id : f \in FS}
FeatRec(FS, id) == CHOOSE f \in FS : f.id = id
RECURSIVE Supported(_, _, _, _)
\* a feature is supported iff it is enabled and every feature it depends on is supported
Supported(FS, E, id, fuel) ==
  /\ fuel > 0 /\ id \in E /\ id \in FeatIds(FS)
  /\ \A dep \in FeatRec(FS, id).deps : Supported(FS, E, dep, fuel - 1)
RECURSIVE Reaches(_, _, _, _)
Reaches(FS, from, to, fuel) == fuel > 0 /\ from \in FeatIds(FS) /\
  \E dep \in FeatRec(FS, from).deps : dep = to \/ Reaches(FS, dep, to, fuel - 1)
FeatureProblems(FS, M) ==
     {"feature-unknown" : f \in {x \in FS : \E dep \in x.deps : dep \notin FeatIds(FS)}}
\cup {"feature-cycle" : f \in {x \in FS : Reaches(FS, x.id, x.id, Cardinality(FS) + 1)}}
\cup (LET ids == Concat([i \in 1..Len(M) |-> LET fs == Sub(M[i], "feature") IN [j \in 1..Len(fs) |-> <<ModNameOf(M[i]), fs[j].arg[1]>>]])
      IN IF Len(ids) # Cardinality(Range(ids)) THEN {"feature-duplicate"} ELSE {})
\cup {"status-reference" : f \in {x \in FS : \E dep \in x.deps : dep \in FeatIds(FS) /\ FeatRec(FS, dep).file = x.file
                                                               /\ StRank(x.status) < StRank(FeatRec(FS, dep).status)}}
FeatureUnjudged(FS, M) ==
  {"status of a reference between a module and its submodule" :
      f \in {x \in FS : \E dep \in x.deps : dep \in FeatIds(FS) /\ FeatRec(FS, dep).file # x.file /\ dep[1] = x.id[1]
                                            /\ StRank(x.status) < StRank(FeatRec(FS, dep).status)}}

\* ------------------------------------------------------------ where the enabled features come from
(* The set of enabled features is an input of the compilation with several ways in (compile/features.go, compile.Config).
   A feature source is a record [op, b, xs, ys, ms] (xs, ys sequences of feature ids <<module, feature>>, ms sources):
     "nil"     no checker at all
     "names"   FeaturesFromNames(b, xs...): the named features are Enabled (b) / Disabled (~b), silent about the others
     "table"   a FeaturesChecker of the caller: Enabled for xs, Disabled for ys, NotPresent for the others
     "dirs"    FeaturesFromLocations(TRUE, loc1 [, loc2]): a file loc/<module>/<feature> exists for xs (loc1), ys (loc2)
     "multi"   MultiFeatureCheckers(ms...): "Check each FeaturesChecker in order, the last to report Enabled or Disabled
               wins.  Disabled is reported if not found."  nil members are skipped.
     "config"  compile.Config{CapsLocation: a directory with files for xs, Features: ms[1]}, compiled from files
   A feature is enabled iff the source reports Enabled for it.  Two things are not documented and are therefore read
   both ways (a source on which the readings give different enabled sets is not judged):
     * the comment on the capability directory ("if the file exists the feature is enabled, otherwise it is disabled")
       leaves open whether a directory WITHOUT the file is silent or reports Disabled when it is combined with other
       checkers (reading off);
     * nothing says whether Config.Features or the capability directory of a Config has the last word (the code
       combines them with MultiFeatureCheckers, directory first): reading swap puts the directory last.  (swap together
       with off would make Config.Features unable to enable anything and is not a reading.)
   So a Config is judged where its two parts agree or one of them is silent, and the precedence documented for
   MultiFeatureCheckers is judged wherever it is used directly.                                                       *)
SrcNil == [op |-> "nil", b |-> FALSE, xs |-> <<>>, ys |-> <<>>, ms |-> <<>>]
SrcNames(b, xs) == [op |-> "names", b |-> b, xs |-> xs, ys |-> <<>>, ms |-> <<>>]
SrcTable(on, off) == [op |-> "table", b |-> FALSE, xs |-> on, ys |-> off, ms |-> <<>>]
SrcDirs(l1, l2) == [op |-> "dirs", b |-> TRUE, xs |-> l1, ys |-> l2, ms |-> <<>>]
SrcMulti(ms) == [op |-> "multi", b |-> FALSE, xs |-> <<>>, ys |-> <<>>, ms |-> ms]
SrcConfig(caps, feat) == [op |-> "config", b |-> FALSE, xs |-> caps, ys |-> <<>>, ms |-> <<feat>>]
MaxOf(S) == CHOOSE x \in S : \A y \in S : x >= y
Reading0 == [off |-> FALSE, swap |-> FALSE]
Readings == {Reading0, [off |-> TRUE, swap |-> FALSE], [off |-> FALSE, swap |-> TRUE]}
RECURSIVE SrcStatus(_, _, _)
SrcStatus(s, id, r) ==
  CASE s.op = "names" -> IF id \in Range(s.xs) THEN (IF s.b THEN "on" ELSE "off") ELSE "silent"
    [] s.op = "table" -> IF id \in Range(s.xs) THEN "on" ELSE IF id \in Range(s.ys) THEN "off" ELSE "silent"
    [] s.op = "dirs" -> IF id \in Range(s.xs) \cup Range(s.ys) THEN "on" ELSE IF r.off THEN "off" ELSE "silent"
    [] s.op = "multi" -> LET def == {i \in 1..Len(s.ms) : SrcStatus(s.ms[i], id, r) # "silent"}
                         IN IF def = {} THEN "off" ELSE SrcStatus(s.ms[MaxOf(def)], id, r)
    [] s.op = "config" -> SrcStatus(SrcMulti(IF r.swap THEN <<s.ms[1], SrcDirs(s.xs, <<>>)>> ELSE <<SrcDirs(s.xs, <<>>), s.ms[1]>>), id, r)
    [] OTHER -> "silent"
\* the features of universe U that source s enables / whether that is prescribed
SrcEnabled(s, U) == {id \in U : SrcStatus(s, id, Reading0) = "on"}
SrcOpen(s, U) == \E r \in Readings : {id \in U : SrcStatus(s, id, r) = "on"} # SrcEnabled(s, U)

\* ------------------------------------------------------------ Build: statement tree -> schema tree
Blank(kind, name) ==
  [kind |-> kind, name |-> name, ns |-> "", module |-> "", submodule |-> "", config |-> TRUE, status |-> "current",
   presence |-> FALSE, mandatory |-> FALSE, hasdef |-> FALSE, def |-> "", keys |-> <<>>, min |-> "0", max |-> "unbounded",
   ordby |-> "system", uniques |-> {}, type |-> "", musts |-> {}, whens |-> <<>>, desc |-> "", children |-> {}]
ErrNode(class) == Blank("!error", class)
UnjNode(why) == Blank("!unjudged", why)
\* The statement prescribes that a node which a feature or a not-supported deviation removes is absent.  It does not say
\* what becomes of a list that names the absent leaf in key / unique or of a choice that names the absent case as its
\* default: whether such a module set compiles is not judged ("open" verdict), and if it does, attribute attr of the
\* parent is not compared - everything else, above all the absence of the node, is.
OpenNode(attr, why) == [Blank("!open", attr) EXCEPT !.desc = why]
GoneNames(s) == {g.arg[1] : g \in Range(Sub(s, "!gone"))}
RECURSIVE NodeMarks(_, _)
NodeMarks(n, kind) == (IF n.kind = kind THEN {n.name} ELSE {}) \cup UNION {NodeMarks(c, kind) : c \in n.children}

Digit == [d \in {"0", "1", "2", "3", "4", "5", "6", "7", "8", "9"} |->
            CASE d = "0" -> 0 [] d = "1" -> 1 [] d = "2" -> 2 [] d = "3" -> 3 [] d = "4" -> 4
              [] d = "5" -> 5 [] d = "6" -> 6 [] d = "7" -> 7 [] d = "8" -> 8 [] d = "9" -> 9]

\* X = [M, FS, eff]: module set, declared features, ids of the supported features
FeatOk(s, X) == \A f \in Range(Sub(s, "if-feature")) : FeatId(f) \in X.eff
\* names (with namespace) of the data nodes that share the sibling name space of stmts:
\* data nodes, descending through choices and cases (RFC 6020 6.2.1, 7.9.2)
RECURSIVE FlatNames(_, _, _)
FlatNames(stmts, X, all) ==
  Concat([i \in 1..Len(stmts) |->
     LET s == stmts[i] IN
     IF s.kw \notin NodeKw \/ (~all /\ ~FeatOk(s, X)) THEN <<>>
     ELSE IF s.kw \in {"choice", "case"} THEN FlatNames(s.subs, X, all)
     ELSE << <<NsOfOwn(X.M, s.own), s.arg[1]>> >>])
Dup(seq) == Len(seq) # Cardinality(Range(seq))
ClashMarks(stmts, X) ==
  LET p == FlatNames(stmts, X, FALSE)
      a == FlatNames(stmts, X, TRUE)
      pn == [i \in 1..Len(p) |-> p[i][2]]
      an == [i \in 1..Len(a) |-> a[i][2]]
  IN IF Dup(p) THEN {ErrNode("name-clash")}
     ELSE IF Dup(pn) THEN {UnjNode("equal names in different namespaces among siblings")}
     ELSE IF Dup(an) THEN {UnjNode("name clash with a node that a feature removes")}
     ELSE {}

\* "a/b/c" -> <<"a", "b", "c">>
RECURSIVE SplitFrom(_, _, _)
SplitFrom(str, start, i) == IF i > Len(str) THEN <<SubSeq(str, start, Len(str))>>
                            ELSE IF SubSeq(str, i, i) = "/" THEN <<SubSeq(str, start, i - 1)>> \o SplitFrom(str, i + 1, i + 1)
                            ELSE SplitFrom(str, start, i + 1)
SplitSlash(str) == SplitFrom(str, 1, 1)
\* what a descendant schema node identifier of a unique statement designates below a list (RFC 6020 7.8.3):
\* "ok" a leaf, "gone" a leaf (or a node on the way) that a feature removes, "gone-ns" that a not-supported deviation
\* removed, "notleaf", "list" (it passes through a list), "missing"
RECURSIVE UniqueResolve(_, _, _)
UniqueResolve(stmts, names, X) ==
  LET is == {i \in 1..Len(stmts) : stmts[i].kw \in NodeKw /\ stmts[i].arg[1] = names[1]} IN
  IF is = {} THEN (IF \E i \in 1..Len(stmts) : stmts[i].kw = "!gone" /\ stmts[i].arg[1] = names[1] THEN "gone-ns" ELSE "missing")
  ELSE LET n == stmts[MinOf(is)] IN
       IF n.kw = "list" THEN "list"
       ELSE IF Len(names) = 1 THEN (IF n.kw # "leaf" THEN "notleaf" ELSE IF FeatOk(n, X) THEN "ok" ELSE "gone")
       ELSE IF n.kw \in {"leaf", "leaf-list"} THEN "missing"
       ELSE IF ~FeatOk(n, X) THEN "gone"
       ELSE UniqueResolve(n.subs, Tail(names), X)

\* operational command nodes (vyatta-opd-extensions): never configuration, never state
OpdKw == {"opd:command", "opd:option", "opd:argument"}
RECURSIVE BuildOpd(_, _, _)
BuildOpd(s, st, X) ==
  [Blank(s.kw, s.arg[1]) EXCEPT
     !.ns = NsOfOwn(X.M, s.own), !.module = s.own,
     !.submodule = IF HasFile(X.M, s.own) /\ IsSubm(FileOf(X.M, s.own)) THEN s.own ELSE "",
     !.config = FALSE, !.status = StOf(s, st), !.desc = Arg1(s, "description", ""),
     !.type = IF s.kw # "opd:command" /\ Has(s, "type") THEN LET a == Sub(s, "type")[1].arg IN a[Len(a)] ELSE "",
     !.children = {BuildOpd(s.subs[i], StOf(s, st), X) : i \in {j \in 1..Len(s.subs) : s.subs[j].kw \in OpdKw}}]

RECURSIVE BuildNode(_, _, _, _, _), BuildKids(_, _, _, _, _)
BuildKids(stmts, cfg, st, keys, X) ==
  LET idx == {i \in 1..Len(stmts) : stmts[i].kw \in NodeKw}
      unk == {i \in idx : \E f \in Range(Sub(stmts[i], "if-feature")) : FeatId(f) \notin FeatIds(X.FS)}
      here == {i \in idx : FeatOk(stmts[i], X)}
      gone == idx \ here
  IN   {BuildNode(stmts[i], cfg, st, stmts[i].kw = "leaf" /\ stmts[i].arg[1] \in Range(keys), X) : i \in here}
  \cup {ErrNode("feature-unknown") : i \in unk}
  \* the reference an if-feature makes is checked whether or not the feature is supported; what else is wrong with a
  \* node that a feature removes is not judged
  \cup UNION {{m \in (BuildNode([stmts[j] EXCEPT !.subs = SelectSeq(@, LAMBDA c : c.kw \notin NodeKw)], cfg, st, FALSE, X)).children : m.kind \in {"!error", "!unjudged"}
                                                            /\ m.name \in {"status-reference", "status-reference-in-grouping", "status of a reference between a module and its submodule"}}
             : j \in gone \ unk}
  \cup {UnjNode("a node that a feature removes is itself invalid") :
          i \in {j \in gone \ unk : NodeMarks(BuildNode([stmts[j] EXCEPT !.subs = SelectSeq(@, LAMBDA c : c.kw # "if-feature")], cfg, st, FALSE, X), "!error") # {}}}
  \cup ClashMarks(stmts, X)
  \cup {BuildOpd(stmts[i], st, X) : i \in {j \in 1..Len(stmts) : stmts[j].kw \in OpdKw}}

BuildNode(s, cfg, st, isKey, X) ==
  LET cs == Sub(s, "config")
      c == IF cs = <<>> \/ s.kw = "case" THEN cfg ELSE cs[1].arg[1] = "true"
      t == StOf(s, st)
      iffs == Range(Sub(s, "if-feature"))
      refBad == {f \in iffs : FeatId(f) \in FeatIds(X.FS) /\ StRank(t) < StRank(FeatRec(X.FS, FeatId(f)).status)}
      keys == IF s.kw = "list" /\ Has(s, "key") THEN Sub(s, "key")[1].arg ELSE <<>>
      kidsS == IF s.kw \in {"leaf", "leaf-list"} THEN <<>> ELSE s.subs
      kids == IF s.kw \in {"leaf", "leaf-list"} THEN {} ELSE BuildKids(kidsS, c, t, keys, X)
      mand == Arg1(s, "mandatory", "false") = "true"
      hasd == Has(s, "default")
      mn == Arg1(s, "min-elements", "0")
      mx == Arg1(s, "max-elements", "unbounded")
      caseNames == [i \in 1..Len(Sub(s, "case")) |-> Sub(s, "case")[i].arg[1]]
      hereCases == {x.arg[1] : x \in {y \in Range(Sub(s, "case")) : FeatOk(y, X)}}
      problems ==
           (IF cs # <<>> /\ s.kw # "case" /\ ~cfg /\ c THEN {ErrNode("config-true-under-false")} ELSE {})
      \cup (IF cs # <<>> /\ s.kw = "case" THEN {ErrNode("config-on-case")} ELSE {})
      \cup (IF StRank(t) < StRank(st) THEN {ErrNode("status-stronger-than-parent")} ELSE {})
      \* the rule is about the module the referencing statement is WRITTEN in (def), also when a uses of another
      \* module brought the node here; such an error is the grouping's own and does not survive inlining
      \cup {ErrNode(IF g.def = g.own THEN "status-reference" ELSE "status-reference-in-grouping") : g \in {h \in refBad : FeatRec(X.FS, FeatId(h)).file = h.def}}
      \cup {UnjNode("status of a reference between a module and its submodule") :
              f \in {g \in refBad : FeatRec(X.FS, FeatId(g)).file # g.def /\ FeatId(g)[1] = ModOfFileName(X.M, g.def)}}
      \cup (IF s.kw \in {"leaf", "choice"} /\ mand /\ hasd THEN {ErrNode("mandatory-with-default")} ELSE {})
      \cup (IF s.kw \in {"list", "leaf-list"} /\ mx # "unbounded" /\ mn \in DOMAIN Digit /\ mx \in DOMAIN Digit /\ Digit[mn] > Digit[mx]
            THEN {ErrNode("min-above-max")} ELSE {})
      \cup (IF s.kw = "list" /\ c /\ keys = <<>> THEN {ErrNode("key-required")} ELSE {})
      \cup {ErrNode("key-not-a-leaf-child") : k \in {x \in Range(keys) \ GoneNames(s) : ~\E i \in 1..Len(s.subs) : s.subs[i].kw = "leaf" /\ s.subs[i].arg[1] = x}}
      \cup {OpenNode("keys", "not-supported") : k \in {x \in Range(keys) \cap GoneNames(s) : ~\E i \in 1..Len(s.subs) : s.subs[i].kw = "leaf" /\ s.subs[i].arg[1] = x}}
      \cup {OpenNode("keys", "feature") : k \in {x \in Range(keys) : \E i \in 1..Len(s.subs) : s.subs[i].kw = "leaf" /\ s.subs[i].arg[1] = x /\ ~FeatOk(s.subs[i], X)}}
      \cup {ErrNode("unique-not-a-descendant-leaf") : u \in {y \in Range(Sub(s, "unique")) : s.kw = "list" /\ \E x \in Range(y.arg) :
                                                          UniqueResolve(s.subs, SplitSlash(x), X) \in {"missing", "notleaf", "list"}}}
      \cup {OpenNode("uniques", "feature") : u \in {y \in Range(Sub(s, "unique")) : s.kw = "list" /\ \E x \in Range(y.arg) :
                                                          UniqueResolve(s.subs, SplitSlash(x), X) = "gone"}}
      \cup {OpenNode("uniques", "not-supported") : u \in {y \in Range(Sub(s, "unique")) : s.kw = "list" /\ \E x \in Range(y.arg) :
                                                          UniqueResolve(s.subs, SplitSlash(x), X) = "gone-ns"}}
      \cup (IF s.kw = "choice" /\ Dup(caseNames) THEN {ErrNode("name-clash")} ELSE {})
      \cup (IF s.kw = "choice" /\ hasd /\ Arg1(s, "default", "") \notin Range(caseNames) \cup GoneNames(s) THEN {ErrNode("choice-default-missing")} ELSE {})
      \cup (IF s.kw = "choice" /\ hasd /\ Arg1(s, "default", "") \in GoneNames(s) \ Range(caseNames) THEN {OpenNode("def", "not-supported")} ELSE {})
      \cup (IF s.kw = "choice" /\ hasd /\ Arg1(s, "default", "") \in Range(caseNames) /\ Arg1(s, "default", "") \notin hereCases
            THEN {OpenNode("def", "feature")} ELSE {})
      \cup (IF s.kw \in {"leaf", "leaf-list"} /\ ~Has(s, "type") THEN {ErrNode("type-required")} ELSE {})
      ns == NsOfOwn(X.M, s.own)
      base == [Blank(s.kw, s.arg[1]) EXCEPT
                 !.ns = ns, !.module = s.own,
                 !.submodule = IF HasFile(X.M, s.own) /\ IsSubm(FileOf(X.M, s.own)) THEN s.own ELSE "",
                 !.config = c, !.status = t,
                 !.desc = Arg1(s, "description", ""),
                 !.whens = LET ws == Sub(s, "when") IN
                           [i \in 1..Len(ws) |-> LET ctx == IF Len(ws[i].arg) > 1 THEN ws[i].arg[2] ELSE "self" IN
                                                  [text |-> ws[i].arg[1], ns |-> NsOfOwn(X.M, ws[i].own), asparent |-> ctx = "parent", ctx |-> ctx]],
                 !.musts = IF s.kw \in {"choice", "case"} THEN {} ELSE {[text |-> m.arg[1], ns |-> NsOfOwn(X.M, m.own)] : m \in Range(Sub(s, "must"))},
                 !.children = kids \cup problems]
  IN CASE s.kw = "container" -> [base EXCEPT !.presence = Has(s, "presence")]
       [] s.kw = "leaf" -> [base EXCEPT !.mandatory = mand /\ ~isKey,
                                        !.hasdef = hasd /\ ~isKey /\ ~mand,
                                        !.def = IF hasd /\ ~isKey /\ ~mand THEN Arg1(s, "default", "") ELSE "",
                                        !.type = IF Has(s, "type") THEN LET a == Sub(s, "type")[1].arg IN a[Len(a)] ELSE ""]
       [] s.kw = "leaf-list" -> [base EXCEPT !.min = mn, !.max = mx, !.ordby = Arg1(s, "ordered-by", "system"),
                                             !.type = IF Has(s, "type") THEN LET a == Sub(s, "type")[1].arg IN a[Len(a)] ELSE ""]
       [] s.kw = "list" -> [base EXCEPT !.min = mn, !.max = mx, !.ordby = Arg1(s, "ordered-by", "system"), !.keys = keys,
                                        !.uniques = {Range(u.arg) : u \in Range(Sub(s, "unique"))}]
       [] s.kw = "choice" -> [base EXCEPT !.mandatory = mand, !.hasdef = hasd, !.def = Arg1(s, "default", "")]
       [] OTHER -> base

\* the whole model set: one tree holding the top-level nodes of every module and submodule
BuildAll(M, E) ==
  LET FS == Features(M)
      eff == {id \in FeatIds(FS) : Supported(FS, E, id, Cardinality(FS) + 1)}
      X == [M |-> M, FS |-> FS, eff |-> eff]
      tops == Concat([i \in 1..Len(M) |-> SelectSeq(M[i].subs, LAMBDA c : c.kw \in DataKw \cup OpdKw)])
      \* the parameters of an rpc and the content of a notification are trees of their own (config true at their root)
      Tree(kind, name, ns, body) == [Blank(kind, name) EXCEPT !.ns = ns, !.children = BuildKids(body, TRUE, "current", <<>>, X)]
      IO(r, k) == Tree(k, k, NsOfOwn(M, r.own), IF Has(r, k) THEN Sub(r, k)[1].subs ELSE <<>>)
      rpcs == UNION {{[Blank("rpc", r.arg[1]) EXCEPT !.ns = NsOfOwn(M, r.own), !.children = {IO(r, "input"), IO(r, "output")}]
                       : r \in Range(Sub(M[i], "rpc"))} : i \in 1..Len(M)}
      nots == UNION {{Tree("notification", n.arg[1], NsOfOwn(M, n.own), n.subs) : n \in Range(Sub(M[i], "notification"))} : i \in 1..Len(M)}
  IN [Blank("tree", "") EXCEPT !.children = BuildKids(tops, TRUE, "current", <<>>, X) \cup rpcs \cup nots
                                              \cup {ErrNode(p) : p \in FeatureProblems(FS, M)}
                                              \cup {UnjNode(p) : p \in FeatureUnjudged(FS, M)}]

RECURSIVE Clean(_)     \* drop the marker nodes
Clean(n) == [n EXCEPT !.children = {Clean(c) : c \in {k \in n.children : k.kind \notin {"!error", "!unjudged", "!open"}}}]
\* the attributes that are not judged: [path (node names from the root), attr, why]
RECURSIVE Opens(_, _)
Opens(n, path) == {[path |-> path, attr |-> c.name, why |-> c.desc] : c \in {k \in n.children : k.kind = "!open"}}
                  \cup UNION {Opens(c, path \o <<c.name>>) : c \in {k \in n.children : k.kind \notin {"!error", "!unjudged", "!open"}}}
\* a schema (set form) with the attributes named in O blanked
RECURSIVE MaskTree(_, _, _)
MaskTree(n, path, O) ==
  LET as == {o.attr : o \in {x \in O : x.path = path}}
  IN [n EXCEPT !.keys = IF "keys" \in as THEN <<>> ELSE @, !.uniques = IF "uniques" \in as THEN {} ELSE @,
               !.hasdef = IF "def" \in as THEN FALSE ELSE @, !.def = IF "def" \in as THEN "" ELSE @,
               !.children = {MaskTree(c, path \o <<c.name>>, O) : c \in n.children}]

\* ------------------------------------------------------------ writing a stage back as source
RECURSIVE WriteBack(_, _)
WriteBack(s, f) ==
  LET deq(arg) == [i \in 1..Len(arg) |-> IF i % 2 = 1 /\ arg[i] # "" THEN PrefixFor(f, arg[i]) ELSE arg[i]]
  IN [s EXCEPT !.arg = IF s.kw \in {"if-feature", "uses", "augment", "deviation", "refine"} THEN deq(s.arg) ELSE s.arg,
               !.subs = LET keep == SelectSeq(s.subs, LAMBDA c : c.kw \notin {"!aug", "!gone"}) IN [i \in 1..Len(keep) |-> WriteBack(keep[i], f)]]
\* modules the text of a file refers to by name
RECURSIVE RefMods(_)
RefMods(s) == (IF s.kw \in {"if-feature", "augment", "deviation"} THEN {s.arg[i] : i \in {j \in 1..Len(s.arg) : j % 2 = 1}} ELSE {})
              \cup UNION {RefMods(s.subs[i]) : i \in 1..Len(s.subs)}
WriteFile(f) ==
  LET need == (RefMods(f) \ {ModNameOf(f), "", "?"}) \ {x.arg[1] : x \in Range(Sub(f, "import"))}
      RECURSIVE Imps(_)
      Imps(S) == IF S = {} THEN <<>> ELSE LET m == CHOOSE x \in S : TRUE IN
                 <<St("import", <<m>>, <<St("prefix", <<m>>, <<>>)>>)>> \o Imps(S \ {m})
      g == [f EXCEPT !.subs = @ \o Imps(need)]
  IN WriteBack(g, g)
WriteAll(M) == [i \in 1..Len(M) |-> WriteFile(M[i])]

\* a node with two when statements (its own and one distributed from a uses) cannot be written as YANG text
RECURSIVE TwoWhens(_)
TwoWhens(st) == (st.kw \in NodeKw /\ Len(Sub(st, "when")) > 1) \/ \E i \in 1..Len(st.subs) : TwoWhens(st.subs[i])

\* ------------------------------------------------------------ the stages and the result
Stage2(M) == InlineLocalAug(ExpandAll(HomeAll(M)))
\* everything the spec says about module set M with enabled features E
Analyse(M, E) ==
  LET T2 == Stage2(M)
      T3 == ApplyAugments(T2)
      T4 == ApplyDeviations(T3)
      B == BuildAll(T4, E)
      errs == MarksAll(T2, "!error") \cup MarksAll(T3, "!error") \cup MarksAll(T4, "!error") \cup NodeMarks(B, "!error")
      unj == MarksAll(T2, "!unjudged") \cup MarksAll(T3, "!unjudged") \cup MarksAll(T4, "!unjudged") \cup NodeMarks(B, "!unjudged")
      ed == ApplyDeviationsMode(T2, FALSE)
      opens == Opens(B, <<>>)
  IN [verdict |-> IF unj # {} THEN "unjudged" ELSE IF errs # {} THEN "err" ELSE IF opens # {} THEN "open" ELSE "ok",
      errs |-> errs, why |-> unj, opens |-> opens,
      schema |-> Clean(B),
      inlineOk |-> MarksAll(T2, "!error") = {} /\ (\A i \in 1..Len(T2) : ~TwoWhens(T2[i])) /\ "status-reference-in-grouping" \notin errs,
      inline |-> WriteAll(T2),
      \* the source with a key / unique leaf / default case edited away is a different matter from the deviation (no Edit form)
      editOk |-> MarksAll(ed, "!error") = {} /\ MarksAll(ed, "!unjudged") = {} /\ (\A i \in 1..Len(ed) : ~TwoWhens(ed[i])) /\ "status-reference-in-grouping" \notin errs
                 /\ ~\E o \in opens : o.why = "not-supported",
      edit |-> WriteAll(ed)]
\* the same with the enabled features coming from a feature source (only the features the module set declares matter)
DeclIds(M) == UNION {{<<ModNameOf(M[i]), ft.arg[1]>> : ft \in Range(Sub(M[i], "feature"))} : i \in 1..Len(M)}
AnalyseSrc(M, src) ==
  LET U == DeclIds(M)
      a == Analyse(M, SrcEnabled(src, U))
  IN IF SrcOpen(src, U) THEN [a EXCEPT !.verdict = "unjudged", !.why = @ \cup {"feature source whose outcome rests on an undocumented precedence (capability directory without the file / Config.Features against the capability directory)"}]
     ELSE a
Schema(M, E) == LET a == Analyse(M, E) IN [verdict |-> a.verdict, schema |-> IF a.verdict \in {"ok", "open"} THEN MaskTree(a.schema, <<>>, a.opens) ELSE Blank("tree", "")]
Inline(M) == Analyse(M, {}).inline
Edit(M) == Analyse(M, {}).edit

\* ------------------------------------------------------------ filters (compile_filters.go as documented)
FNone == [op |-> "none", fs |-> <<>>, b |-> FALSE]
FIs(x) == [op |-> x, fs |-> <<>>, b |-> FALSE]
FInc(fs) == [op |-> "include", fs |-> fs, b |-> FALSE]
FExc(fs) == [op |-> "exclude", fs |-> fs, b |-> FALSE]
FIncState(b) == [op |-> "includestate", fs |-> <<>>, b |-> b]
OpdKinds == {"opd:command", "opd:option", "opd:argument"}
\* rpc, input, output and notification are not schema nodes the filter is asked about: only their content is
StructKinds == {"rpc", "input", "output", "notification"}
RECURSIVE Pass(_, _)
Pass(f, n) ==
  CASE n.kind \in StructKinds -> TRUE
    [] f.op = "none" -> TRUE
    [] f.op = "config" -> n.config
    [] f.op = "opd" -> n.kind \in OpdKinds
    [] f.op = "state" -> ~n.config /\ n.kind \notin OpdKinds
    [] f.op = "configorstate" -> n.config \/ (~n.config /\ n.kind \notin OpdKinds)
    [] f.op = "include" -> \E i \in 1..Len(f.fs) : Pass(f.fs[i], n)
    [] f.op = "exclude" -> ~\E i \in 1..Len(f.fs) : Pass(f.fs[i], n)
    [] f.op = "includestate" -> IF f.b THEN (~n.config /\ n.kind \notin OpdKinds) ELSE ~(~n.config /\ n.kind \notin OpdKinds)
\* remove every node that fails the filter, with its subtree; nothing else changes
RECURSIVE Prune(_, _)
Prune(n, f) == [n EXCEPT !.children = {Prune(c, f) : c \in {k \in n.children : Pass(f, k)}}]
\* the same on dumps read from JSON (children are sequences)
RECURSIVE PruneSeq(_, _)
PruneSeq(n, f) == LET keep == SelectSeq(n.children, LAMBDA k : Pass(f, k))
                  IN [n EXCEPT !.children = [i \in 1..Len(keep) |-> PruneSeq(keep[i], f)]]
\* every node of a pruned tree passes the filter
RECURSIVE AllPass(_, _)
AllPass(n, f) == \A c \in n.children : Pass(f, c) /\ AllPass(c, f)
\* top-down: the pruned tree's nodes are exactly the nodes reachable from the root through passing nodes
RECURSIVE Paths(_, _), PassingPaths(_, _, _)
Paths(n, pre) == UNION {{pre \o <<c.name>>} \cup Paths(c, pre \o <<c.name>>) : c \in n.children}
PassingPaths(n, f, pre) == UNION {{pre \o <<c.name>>} \cup PassingPaths(c, f, pre \o <<c.name>>) : c \in {k \in n.children : Pass(f, k)}}
=============================================================================
