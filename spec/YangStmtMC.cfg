INIT MCInit
NEXT MCNext
CONSTANT MaxCount = 2
INVARIANT TablesOK
INVARIANT CardMinimal
INVARIANT ArgMinimal
INVARIANT OrderMinimal
INVARIANT ExtAnywhere
CHECK_DEADLOCK FALSE
INVARIANT BigConsistent
INVARIANT InterleaveNeutral
INVARIANT OddWsRejected
CONSTANT Thorough = FALSE
INVARIANT ExtMinimal
INVARIANT KwExact
INVARIANT ArgUnderMinimal
