--------------------------- MODULE YangStmtTrace ---------------------------
(* Code -> model.  The harness takes TLC-sampled statement trees, mutates them with
   its own seeded edits (duplicate, drop, swap, move, graft, take another argument),
   feeds each to the real parser (and compiler when the parser accepted) and logs
   one event per tree: the tree it actually ran, the verdicts, where the error was
   located (path of the statement starting at the reported line) and the words of
   the error text.  Every event is judged here by the same Valid(tree) as the probes:

     Expect = accept  =>  the parser accepted (these trees are not semantically clean,
                          so nothing is demanded of the compiler)
     Expect = reject  =>  parser or compiler rejected; if the parser rejected and every
                          finding is judged, the error is located at one of the findings
                          (statement or parent) and names that statement or the offending one
   A disagreement is printed (FAILJSON) and validation continues.  An accepted invalid
   tree is reported once per violation it contains, so that a recorded defect never
   hides another one in the same tree.                                             *)
EXTENDS YangStmt, Json, SequencesExt
CONSTANT EventFile
Events == ndJsonDeserialize(EventFile)
VARIABLES l, nfail, cnt

RECURSIVE StmtAt(_, _)
StmtAt(t, path) == IF path = << >> THEN t
                   ELSE IF Head(path) \in 1..Len(t.subs) THEN StmtAt(t.subs[Head(path)], Tail(path)) ELSE t
ParentKwOf(t, path) == IF path = << >> THEN "" ELSE StmtAt(t, SubSeq(path, 1, Len(path) - 1)).kw
Names(e, kw) == \E i \in 1..Len(e.named) : e.named[i] = kw
Judge(e, x) ==
  LET hit == \E b \in x.bad : e.atStmt /\ e.errPath \in b.at /\ (Names(e, b.kw) \/ Names(e, StmtAt(e.tree, e.errPath).kw)) IN
  IF e.panic THEN "panic"
  ELSE IF e.skipped /\ x.verdict = "reject" THEN "none"       \* parsed, compile not attempted (possible definition cycle: fatal in the compiler)
  ELSE IF x.verdict = "accept" /\ ~e.parseOk THEN "valid-rejected-by-parse"
  ELSE IF x.verdict = "reject" /\ e.ok THEN "invalid-accepted"
  ELSE IF x.verdict = "reject" /\ ~e.parseOk /\ x.locate /\ ~e.located THEN "rejected-without-location"
  ELSE IF x.verdict = "reject" /\ ~e.parseOk /\ x.locate /\ ~hit THEN "rejected-but-misattributed"
  ELSE "none"
Phase(e) == IF e.parseOk THEN (IF e.ok THEN "none" ELSE "compile") ELSE "parse"
\* one record per violation for accepted invalid trees, else one record for the event
FindingRec(e, what, f) ==
  LET s == StmtAt(e.tree, f.path) IN
  [id |-> e.id, mut |-> e.mut, what |-> what, phase |-> Phase(e), vkind |-> f.kind, kw |-> f.kw, site |-> PId(s),
   argkind |-> IF f.kind = "argument" THEN ArgKind(s.kw, ParentKwOf(e.tree, f.path)) ELSE "",
   arg |-> IF f.kind = "argument" THEN s.arg ELSE "", path |-> f.path, err |-> e.err, named |-> e.named]
EventRec(e, what) ==
  LET s == StmtAt(e.tree, e.errPath) IN
  [id |-> e.id, mut |-> e.mut, what |-> what, phase |-> Phase(e), vkind |-> "none", kw |-> "", site |-> IF e.atStmt THEN PId(s) ELSE "",
   argkind |-> "", arg |-> "", path |-> e.errPath, err |-> e.err, named |-> e.named]
Recs(e, x, what) == IF what = "invalid-accepted" THEN {FindingRec(e, what, f) : f \in x.bad} ELSE {EventRec(e, what)}

TInit == l = 1 /\ nfail = 0 /\ cnt = [accept |-> 0, reject |-> 0, unjudged |-> 0]
TNext == /\ l <= Len(Events)
         /\ LET e == Events[l]  x == ExpectX(e.tree, ExtFns[e.ext])  w == Judge(e, x) IN
              /\ cnt' = [cnt EXCEPT ![x.verdict] = @ + 1]
              /\ IF w = "none" THEN UNCHANGED nfail
                 ELSE LET rs == Recs(e, x, w) IN
                      /\ \A r \in rs : PrintT("FAILJSON " \o ToJson(r))
                      /\ nfail' = nfail + Cardinality(rs)
         /\ l' = l + 1
Consumed == l = Len(Events) + 1
Report == Consumed => PrintT(<<"TRACE-RESULT", Len(Events), nfail, cnt.accept, cnt.reject, cnt.unjudged>>)
=============================================================================
