----------------------------- MODULE SchemaWalkMC -----------------------------
(* Exhaustive model for FindOrWalk (X-walk part 1).  One initial state per shape; the
   first step picks the query (and checks the converse inclusion for it); then the
   work-list machine of SchemaWalk runs with every sibling order.
     Refines     every terminal state of the machine is a behaviour of the meaning
                 (Behaviours: the pre-orders of the tree, cut at the first done call)
     Covers      (in the state after Pick) every behaviour of the meaning drives the machine
                 to the same outcome: mechanism = meaning
     Laws        the order-free laws hold for every outcome (WalkLaws)
     Progress    a state is terminal, or can end, or has a node to visit (no stuck walk)
     Judged      JudgeWalk accepts every outcome of the machine, and rejects an outcome whose
                 result is perturbed (the trace validator is not vacuous)              *)
EXTENDS SchemaWalk
CONSTANTS Shapes
VARIABLES shape, q, w
vars == <<shape, q, w>>
Sch == WalkShape(shape)
NoQ == Q("-", << >>, "")
Law(name, holds) == holds \/ (PrintT(<<"LAW VIOLATED", name, shape, q>>) /\ FALSE)

Covers == (q # NoQ /\ w = W0) =>
  \A b \in Behaviours(Sch, q) : Law("Covers", JudgeWalk(Sch, q, b) = "") /\ Law("CoversLaws", WalkLaws(Sch, q, b))
MCInit == shape \in Shapes /\ q = NoQ /\ w = W0
Pick == /\ q = NoQ
        /\ \E qq \in Queries(Sch) : q' = qq
        /\ UNCHANGED <<shape, w>>
Step == /\ q # NoQ /\ ~Terminal(w)
        /\ \/ \E fp \in NextFps(Sch, w) : w' = Visit(Sch, q, w, fp)
           \/ CanEnd(w) /\ w' = End(w)
        /\ UNCHANGED <<shape, q>>
MCNext == Pick \/ Step

Refines == Terminal(w) => Law("Refines", Outcome(w) \in Behaviours(Sch, q))
Laws == Terminal(w) => Law("Laws", WalkLaws(Sch, q, Outcome(w)))
Progress == (q # NoQ /\ ~Terminal(w)) => Law("Progress", NextFps(Sch, w) # {} \/ CanEnd(w))
Judged == Terminal(w) =>
  LET o == Outcome(w) IN
  /\ Law("Judged", q.mode = "nil" \/ JudgeWalk(Sch, q, o) = "")
  /\ Law("JudgedNot", q.mode = "nil" \/ JudgeWalk(Sch, q, [o EXCEPT !.ok = ~@]) # "")
  /\ Law("JudgedNot2", q.mode = "nil" \/ o.calls = << >> \/ JudgeWalk(Sch, q, [o EXCEPT !.calls = Tail(@)]) # "")
=============================================================================
