INIT TInit
NEXT TNext
CONSTANT SortMode = "topo"
CONSTANT TraceFile = "trace.ndjson"
CONSTANT MaxFail = 1000000
INVARIANT Report
CHECK_DEADLOCK FALSE
