---------------------------- MODULE SchemaPathMC ----------------------------
(* Exhaustive model for C17.  The walk machine reads a token stream; TLC explores,
   for every shape, every token sequence that keeps the walk alive plus every
   continuation of a rejected walk by Ext further tokens, up to MaxLen tokens, and
   checks on every state (= every such path, in both modes) that
     - the machine's verdict at end of input is the recursive definition's (Refines);
     - the offending index is the first non-viable prefix, or Len+1 when every
       prefix is viable (PrefixChar): "first offending element" does not depend on
       how the walk is organised;
     - strict acceptance implies acceptance with incomplete paths allowed, and the
       incomplete-mode language is prefix closed (Modes);
     - no verdict is prescribed exactly for the paths that go on (or, in strict mode, end) after the
       first key value of a list with several keys (UnjudgedWhere);
     - the generated language is exactly the recognised one (LangAgrees, on the
       initial state of every shape, paths to LangLen tokens).
   One initial state per shape so that all workers are used.                     *)
EXTENDS SchemaPath, TLC
CONSTANTS Shapes, MaxLen, Ext, LangLen
VARIABLES shape, path, st
vars == <<shape, path, st>>
Sch == PathShape(shape)

MCInit == shape \in Shapes /\ path = << >> /\ st = InitSt(PathShape(shape))
MCNext == /\ Len(path) < MaxLen
          /\ st.ph = "rej" => Len(path) < st.at + Ext
          /\ st.ph # "unk"
          /\ \E tok \in PathTokens(Sch) :
               /\ path' = Append(path, tok)
               /\ st' = StepTok(st, tok, Len(path) + 1)
          /\ UNCHANGED shape
MCSpec == MCInit /\ [][MCNext]_vars

Refines == \A inc \in BOOLEAN : EndVerdict(st, Len(path), inc) = Rec(Sch, path, inc)
PrefixChar == \A inc \in BOOLEAN :
   LET r == Rec(Sch, path, inc) IN
   (~r.ok /\ r.at # -1) => r.at = (IF Accepted(Sch, path, TRUE) THEN Len(path) + 1 ELSE FirstNonViable(Sch, path))
Modes == /\ Accepted(Sch, path, FALSE) => Accepted(Sch, path, TRUE)
         /\ Accepted(Sch, path, TRUE) => \A i \in 0..Len(path) : Viable(Sch, path, i)
\* no verdict is prescribed exactly past the first key value of a list with several keys (for ending on that
\* value: in strict mode only); whatever is judged when incomplete paths are refused is judged when they are allowed
UnjudgedWhere == /\ (st.ph = "unk") = ~Judged(Sch, path, TRUE)
                 /\ (st.ph \in {"keys", "unk"}) = ~Judged(Sch, path, FALSE)
LangAgrees == path = << >> =>
   LangKids(Sch, LangLen, PathTokens(Sch)) = {p \in TokSeqs(PathTokens(Sch), LangLen) : Accepted(Sch, p, TRUE)}
=============================================================================
