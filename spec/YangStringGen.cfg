INIT GInit
NEXT GNext
CONSTANT Size = "quick"
CONSTANT NRand = 1000
CHECK_DEADLOCK FALSE
