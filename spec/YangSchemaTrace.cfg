INIT TInit
NEXT TNext
CONSTANT TraceFile = "trace.ndjson"
CONSTANT MaxFail = 100000
INVARIANT Report
CHECK_DEADLOCK FALSE
