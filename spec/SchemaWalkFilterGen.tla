-------------------------- MODULE SchemaWalkFilterGen --------------------------
(* Behaviour generator for FilterTree (model -> code).  Per shape: the schema records with
   the names of the config false nodes, and for every ordered data tree and every predicate
   of the menu what the post-order machine prescribes: the view (a tree) and the sequence of
   keep calls.  The harness builds the tree with datanode.CreateDataNode, calls the real
   FilterTree with the Go twin of the predicate and compares: the view read through
   YangDataChildren / YangDataChildrenNoSorting / YangDataName / YangDataValues, the calls of
   the predicate, the view of the view (the same, by law Idempotent), and the underlying tree
   read again afterwards (the same as before).                                          *)
EXTENDS SchemaWalkFilter, Json, SequencesExt
CONSTANTS Shapes, MaxEntries, MaxLL
VARIABLES shape, done
Sfx(n) == ToString(n) \o ".ndjson"
PJ(p) == [id |-> p.id, names |-> SetToSeq(p.names), kinds |-> SetToSeq(p.kinds)]
Vec(F, d, p) == LET m == Filter(F, p, d) IN [d |-> d, p |-> PJ(p), view |-> m.view, keeps |-> m.keeps]
GInit == shape \in Shapes /\ done = FALSE
GNext == /\ ~done /\ done' = TRUE /\ UNCHANGED shape
         /\ LET F == FilterShape(shape) IN
            /\ ndJsonSerialize("sfs_" \o Sfx(shape), <<[id |-> shape, kids |-> F.kids, ro |-> SetToSeq(F.ro)]>>)
            /\ ndJsonSerialize("sfv_" \o Sfx(shape), SetToSeq({Vec(F, d, p) : d \in FTrees(F, MaxEntries, MaxLL), p \in Preds(F)}))
=============================================================================
