INIT GInit
NEXT GNext
CONSTANT Fams = {1,2,3,4,5,6,7,8,9,10,11,12,13,14,15,16,17,18,19,20,21,22,23,24,25,26,27,28,29,30,31,32,33,34,35,36,37,38,39,40,41,42,43,44,45,46,47,48,49,50,51,52,53,54,55,56,57,58,59,60,61,62,63,64,65,66,67,68,101,102,103,104,105,106,107,108,109,110,111,112,113,114,115,116,117,118,200,201,202,203,300}
CONSTANT MaxCount = 2
CONSTANT NRand = 300
CONSTANT RandDepth = 3
CONSTANT Thorough = FALSE
CHECK_DEADLOCK FALSE
CONSTANT BigK = 2
CONSTANT HistBad = 3
CONSTANT HistOk = 2
