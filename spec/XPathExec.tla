----------------------------- MODULE XPathExec -----------------------------
(* The XPath stack machine of xpath/context.go + xpath/program.go as a transition
   system: same instruction set, same state components (datum stack ds, path stack
   ps, predicate key stack ks, the two predicate counters, the two flags, run error,
   result, log of data-tree calls), one step per instruction.  The instruction
   semantics are the *intended* ones (XPath 1.0 values from XPathValues; '/' makes the
   path absolute); trace validation reports where the code differs.

   The step is a function Apply(prog, st, failAt) so that the exhaustive model, the
   behaviour generator and the trace validator share it.  failAt = k > 0 makes the
   k-th data-tree callback fail (fault injection); 0 = no fault.                  *)
EXTENDS XPathAst

InitState == [pc |-> 1, ds |-> << >>, ps |-> <<EmptyPath>>, ks |-> << >>,
              predCount |-> 0, predEval |-> 0, llf |-> FALSE, prevELP |-> TRUE,
              err |-> "none", hasRes |-> FALSE, res |-> VB(FALSE), calls |-> << >>, j |-> TRUE]

Top(st) == st.ps[Len(st.ps)]
PopPs(st) == SubSeq(st.ps, 1, Len(st.ps) - 1)
SetTop(st, p) == [st.ps EXCEPT ![Len(st.ps)] = p]
PopN(ds, k) == SubSeq(ds, 1, Len(ds) - k)
RunErr(st) == [st EXCEPT !.err = "run"]
EnvErr(st, k) == [st EXCEPT !.err = "env:" \o ToString(k)]
Reseed(rest) == IF rest = << >> THEN <<EmptyPath>> ELSE Append(rest, rest[Len(rest)])   \* NewPathFromActual

Arity(f) == IF f \in F0 THEN 0 ELSE IF f \in F1 THEN 1 ELSE IF f \in F2 THEN 2 ELSE IF f \in F3 THEN 3 ELSE -1
BinOfIns(i) == CASE i = "add" -> "+" [] i = "sub" -> "-" [] i = "mul" -> "*" [] i = "div" -> "div" [] i = "mod" -> "mod"
                 [] i = "eq" -> "=" [] i = "ne" -> "!=" [] i = "lt" -> "<" [] i = "le" -> "<=" [] i = "gt" -> ">" [] i = "ge" -> ">="
                 [] i = "and" -> "and" [] i = "or" -> "or"
BinIns == {"add", "sub", "mul", "div", "mod", "ne", "lt", "le", "gt", "ge", "and", "or"}

\* resolve the top path against the data tree: Navigate, GetValue, push value, re-seed the path stack
Resolve(st, failAt) ==
  LET p == Top(st)
      rest == PopPs(st)
      k1 == Len(st.calls) + 1
  IN IF failAt = k1 THEN EnvErr([st EXCEPT !.ps = rest, !.calls = Append(@, Call("nav", p))], k1)
     ELSE IF failAt = k1 + 1 THEN EnvErr([st EXCEPT !.ps = rest, !.calls = @ \o <<Call("nav", p), Call("get", p)>>], k1 + 1)
     ELSE [st EXCEPT !.ps = Reseed(rest), !.ds = Append(@, TreeVal(p)),
                     !.calls = @ \o <<Call("nav", p), Call("get", p)>>]

Exec(I, st, failAt) ==
  LET ds == st.ds  n == Len(st.ds) IN
  CASE I.i = "numpush" -> [st EXCEPT !.ds = Append(@, VN(I.n))]
    [] I.i = "litpush" -> [st EXCEPT !.ds = Append(@, VS(I.s))]
    [] I.i = "bltin" ->
         LET a == Arity(I.s) IN
         IF a < 0 THEN [st EXCEPT !.j = FALSE]     \* function outside the modelled library: run not judged further
         ELSE IF n < a THEN RunErr(st)
         ELSE LET v == CASE a = 0 -> Fn0(I.s) [] a = 1 -> Fn1(I.s, ds[n])
                         [] a = 2 -> Fn2(I.s, ds[n - 1], ds[n]) [] a = 3 -> Fn3(I.s, ds[n - 2], ds[n - 1], ds[n])
              IN [st EXCEPT !.ds = Append(PopN(ds, a), v)]
    [] I.i \in BinIns -> IF n < 2 THEN RunErr(st)
                         ELSE [st EXCEPT !.ds = Append(PopN(ds, 2), Bin(BinOfIns(I.i), ds[n - 1], ds[n]))]
    [] I.i = "union" -> IF n < 2 THEN RunErr(st)
                        ELSE IF ds[n].t = "abs" /\ ds[n - 1].t = "abs" THEN [st EXCEPT !.ds = Append(PopN(ds, 2), VAbsent)]
                        ELSE RunErr(st)          \* a literal, number or leaf-list is not a node-set
    [] I.i = "negate" -> IF n < 1 THEN RunErr(st) ELSE [st EXCEPT !.ds = Append(PopN(ds, 1), NegV(ds[n]))]
    [] I.i = "eq" ->
         IF n < 2 THEN RunErr(st)
         ELSE LET d1 == ds[n]  d2 == ds[n - 1] IN
              IF d2.t = "multi"
              THEN [st EXCEPT !.ds = Append(PopN(ds, 2), Bin("=", d2, d1)), !.llf = TRUE]
              ELSE IF st.predCount = 0 \/ st.llf
              THEN [st EXCEPT !.ds = Append(PopN(ds, 2), Bin("=", d2, d1))]
              ELSE \* inside a predicate: [key = operand] sets a key of the step being filtered
                   IF st.ks = << >> \/ st.ps = << >> THEN RunErr(st)
                   ELSE [st EXCEPT !.ds = PopN(ds, 2),
                                   !.ks = [st.ks EXCEPT ![Len(st.ks)] = (ToStr(d2) :> ToStr(d1)) @@ st.ks[Len(st.ks)]],
                                   !.ps = Reseed(PopPs(st)),
                                   !.prevELP = TRUE,
                                   !.j = st.j /\ d1.j /\ d2.j]
    [] I.i = "root" -> IF st.ps = << >> THEN RunErr(st) ELSE [st EXCEPT !.ps = SetTop(st, RootPath)]
    [] I.i = "pathsetcurrent" -> IF st.ps = << >> THEN RunErr(st) ELSE [st EXCEPT !.ps = SetTop(st, EmptyPath)]
    [] I.i = "dotdot" -> IF st.ps = << >> THEN RunErr(st)
                         ELSE [st EXCEPT !.ps = SetTop(st, [Top(st) EXCEPT !.elems = Append(@, Elem(".."))])]
    [] I.i = "name" -> IF st.predCount > 0 /\ st.predEval % 2 = 0
                       THEN [st EXCEPT !.ds = Append(@, VS(I.s))]          \* a key name stays a literal
                       ELSE IF st.ps = << >> THEN RunErr(st)
                       ELSE [st EXCEPT !.ps = SetTop(st, [Top(st) EXCEPT !.elems = Append(@, Elem(I.s))])]
    [] I.i = "PredicatesStart" -> [st EXCEPT !.ks = Append(@, EmptyMap)]
    [] I.i = "PredicatesEnd" ->
         IF st.ks = << >> \/ st.ps = << >> THEN RunErr(st)
         ELSE LET m == st.ks[Len(st.ks)]  t == Top(st) IN
              IF t.elems = << >> THEN RunErr(st)
              ELSE LET last == t.elems[Len(t.elems)]
                       last2 == [last EXCEPT !.keys = m @@ last.keys]
                   IN [st EXCEPT !.ks = SubSeq(st.ks, 1, Len(st.ks) - 1),
                                 !.ps = SetTop(st, [t EXCEPT !.elems = [t.elems EXCEPT ![Len(t.elems)] = last2]])]
    [] I.i = "PREDSTART" -> [st EXCEPT !.ps = Reseed(st.ps), !.predCount = @ + 1, !.llf = FALSE, !.prevELP = FALSE]
    [] I.i = "PREDEND" -> IF st.ps = << >> THEN RunErr(st)
                          ELSE [st EXCEPT !.predCount = @ - 1, !.predEval = 0, !.llf = FALSE, !.ps = PopPs(st)]
    [] I.i = "evalLocPath" ->
         IF st.predCount > 0
         THEN LET st1 == [st EXCEPT !.predEval = @ + 1] IN
              IF st1.predEval % 2 = 1 THEN st1
              ELSE IF st.ps = << >> THEN RunErr(st1) ELSE Resolve(st1, failAt)
         ELSE IF ~st.prevELP THEN st
         ELSE IF st.ps = << >> THEN RunErr(st) ELSE Resolve(st, failAt)
    [] I.i = "deref" ->
         IF st.ps = << >> THEN RunErr(st)
         ELSE LET p == Top(st)  rest == PopPs(st)  k1 == Len(st.calls) + 1 IN
              IF failAt = k1 THEN EnvErr([st EXCEPT !.ps = rest, !.calls = Append(@, Call("nav", p))], k1)
              ELSE IF failAt = k1 + 1 THEN EnvErr([st EXCEPT !.ps = rest, !.calls = @ \o <<Call("nav", p), Call("follow", p)>>], k1 + 1)
              ELSE [st EXCEPT !.ps = Append(rest, DerefTarget(p)), !.calls = @ \o <<Call("nav", p), Call("follow", p)>>]
    [] I.i = "store" -> IF n # 1 THEN RunErr(st)
                        ELSE [st EXCEPT !.ds = << >>, !.hasRes = TRUE, !.res = ds[1]]
    [] OTHER -> RunErr(st)     \* instruction outside the modelled set

Halted(prog, st) == st.err # "none" \/ st.pc > Len(prog)
Apply(prog, st, failAt) == [Exec(prog[st.pc], st, failAt) EXCEPT !.pc = st.pc + 1]

=============================================================================
