INIT GInit
NEXT GNext
CONSTANTS
  Shapes = {1, 2, 3, 4, 5, 6, 7, 8, 9, 10, 11, 12, 13}
  MaxEntries = 3
  Wide = {}
  MaxLL = 2
  StateShapes = {4, 13}
CHECK_DEADLOCK FALSE
