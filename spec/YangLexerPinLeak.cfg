SPECIFICATION Spec
CONSTANT MaxLen = 3
CONSTANT Alphabet = {97, 32, 10, 13, 34, 39, 92, 123, 125, 59, 43, 47, 42, 233, 1114367}
CONSTANT EofIsTerminator = TRUE
CONSTANT DrainOnAbort = FALSE
INVARIANT TypeOK
PROPERTY NoLeak
CHECK_DEADLOCK FALSE
