--------------------------- MODULE SchemaWalkFilter ---------------------------
(* Extension module X-walk, part 2: schema.FilterTree(schema, under, keep)
   (schema/filtered_tree.go) - "a wrapper around a datanode that filters out unwanted
   nodes".  keep(schemaNode, dataNode, filteredChildren) is asked about every data node
   below the root.

   Meaning (from the doc comment, the comments in the code and the repository's tests
   TestContainer / TestDropEmptyContainer / TestKeepPresenceContainer / TestKeepListKeys):
   a node SURVIVES iff keep says so about it - being shown the children of it that survive -
   and, for a non-presence container, at least one child survives ("Don't include empty
   non-presence containers").  The view SHOWS the root, and a node iff its parent is shown
   and it survives or it is a key leaf of the (shown) list entry it sits in ("If it's a list
   entry, then ensure keys are included").  Hence: a node that does not survive hides its
   whole subtree; the view is a sub-tree of the underlying tree (names and values
   unchanged); the underlying tree is never altered; filtering the view again with the same
   predicate changes nothing.

   Mechanism (what the code does, named where it is more special than the doc says):
     1. the view is built EAGERLY and bottom-up, not lazily: FilterTree recurses over every
        data node once, post-order, and keep is called exactly once per non-root node -
        also below nodes that are dropped afterwards;
     2. keep sees the surviving children BEFORE keys are put back (a list entry whose only
        content is its key has no children for keep);
     3. keys that did not survive are put back unfiltered and IN FRONT of the surviving
        children, whatever their place in the underlying entry; otherwise the order of the
        underlying children is kept;
     4. a list entry is an ordinary node for keep (schema node = the ListEntry); a list
        without surviving entries is shown (empty) if keep accepts it: only containers
        are dropped for emptiness;
     5. YangDataChildren and YangDataChildrenNoSorting both return the cached child list;
        name and values come from the underlying node.
   Idempotence holds for predicates that are functions of the schema node, the data node's
   name and values and the children handed over - the menu below; a predicate that looks at
   dataNode.YangDataChildren() itself sees the raw children in the first pass and the
   filtered ones in the second and is outside this specification.

   Data nodes are [name, vals, kids] with kids a SEQUENCE (order is observable); a list node
   has one child per entry, named by the key value, holding the entry's nodes.   *)
EXTENDS SchemaNodes, TLC

DN(name, vals, kids) == [name |-> name, vals |-> vals, kids |-> kids]
Nil == [name |-> "!nil", vals |-> << >>, kids |-> << >>]
RangeOf(s) == {s[i] : i \in 1..Len(s)}
RECURSIVE CatSeq(_)
CatSeq(ss) == IF ss = << >> THEN << >> ELSE ss[1] \o CatSeq(Tail(ss))

\* ------------------------------------------------------------ schema cursor
\* what keep is told about the schema node of a data node: kind ("tree" for the root, "entry" for a
\* list entry), name, presence, key, cfg (Config(): inherited, FALSE from a node in the shape's ro set
\* downwards), and the schema children below it
Cur(kind, name, presence, key, cfg, kids) == [kind |-> kind, name |-> name, presence |-> presence, key |-> key, cfg |-> cfg, kids |-> kids]
RootCur(F) == Cur("tree", "", TRUE, "", TRUE, F.kids)
ChildCur(F, s, nm) ==
  IF s.kind = "list" THEN Cur("entry", s.name, TRUE, s.key, s.cfg, s.kids)
  ELSE LET n == VisibleNamed(s.kids, nm) IN Cur(n.kind, n.name, n.presence, n.key, s.cfg /\ n.name \notin F.ro, n.kids)

\* ------------------------------------------------------------ the predicate menu
\* has = "some child survives" (the code passes the list; the menu only asks whether it is empty)
P(id, names, kinds) == [id |-> id, names |-> names, kinds |-> kinds]
Keep(p, s, d, has) ==
  CASE p.id = "all"       -> TRUE
    [] p.id = "none"      -> FALSE
    [] p.id = "config"    -> s.cfg
    [] p.id = "state"     -> ~s.cfg \/ has
    [] p.id = "kids"      -> has
    [] p.id = "val"       -> has \/ "2" \in RangeOf(d.vals)
    [] p.id = "named"     -> d.name \in p.names
    [] p.id = "namedkids" -> has \/ d.name \in p.names
    [] p.id = "kind"      -> s.kind \in p.kinds
    [] OTHER              -> FALSE
\* predicates that do not look at the children (for the monotonicity law)
Flat1(p) == p.id \in {"all", "none", "config", "named", "kind"}

\* ------------------------------------------------------------ mechanism: post-order machine
\* frame [d, s, i, acc]: data node, its cursor, next child to filter, views of the children that survived
\* m = [stack, keeps, view]: keeps = the calls of keep so far [name, kind, cfg, nk]; view = result (Nil until done)
Frame(d, s) == [d |-> d, s |-> s, i |-> 1, acc |-> << >>]
M0(F, d) == [stack |-> <<Frame(d, RootCur(F))>>, keeps |-> << >>, view |-> Nil, done |-> FALSE]
RECURSIVE Descend(_, _)
Descend(F, stack) ==
  LET f == stack[Len(stack)] IN
  IF f.i <= Len(f.d.kids) THEN Descend(F, Append(stack, Frame(f.d.kids[f.i], ChildCur(F, f.s, f.d.kids[f.i].name)))) ELSE stack
MissingKeys(f) ==
  IF f.s.kind # "entry" \/ f.s.key = "" \/ (\E i \in 1..Len(f.acc) : f.acc[i].name = f.s.key) THEN << >>
  ELSE LET K == {i \in 1..Len(f.d.kids) : f.d.kids[i].name = f.s.key} IN
       IF K = {} THEN << >> ELSE <<f.d.kids[CHOOSE i \in K : \A j \in K : i <= j]>>
Verdict(p, f) ==
  IF f.s.kind = "tree" THEN DN(f.d.name, f.d.vals, f.acc)
  ELSE IF ~Keep(p, f.s, f.d, f.acc # << >>) THEN Nil
  ELSE IF f.s.kind = "entry" THEN DN(f.d.name, f.d.vals, MissingKeys(f) \o f.acc)
  ELSE IF f.s.kind = "container" /\ ~f.s.presence /\ f.acc = << >> THEN Nil
  ELSE DN(f.d.name, f.d.vals, f.acc)
KeepCall(f) == [name |-> f.d.name, kind |-> f.s.kind, cfg |-> f.s.cfg, nk |-> Len(f.acc)]
\* one step: go down to the next node whose children are all done, finish it, hand the view to its parent
FStep(F, p, m) ==
  LET st == Descend(F, m.stack)
      f  == st[Len(st)]
      v  == Verdict(p, f)
      ks == IF f.s.kind = "tree" THEN m.keeps ELSE Append(m.keeps, KeepCall(f))
  IN IF Len(st) = 1 THEN [stack |-> << >>, keeps |-> ks, view |-> v, done |-> TRUE]
     ELSE LET up == st[Len(st) - 1] IN
          [stack |-> SubSeq(st, 1, Len(st) - 2) \o <<[up EXCEPT !.i = @ + 1, !.acc = IF v = Nil THEN @ ELSE Append(@, v)]>>,
           keeps |-> ks, view |-> Nil, done |-> FALSE]
RECURSIVE FRun(_, _, _)
FRun(F, p, m) == IF m.done THEN m ELSE FRun(F, p, FStep(F, p, m))
Filter(F, p, d) == FRun(F, p, M0(F, d))

\* ------------------------------------------------------------ meaning: who survives, who is shown
RECURSIVE Survives(_, _, _, _)
Survives(F, p, s, d) ==
  LET has == \E i \in 1..Len(d.kids) : Survives(F, p, ChildCur(F, s, d.kids[i].name), d.kids[i]) IN
  /\ Keep(p, s, d, has)
  /\ (s.kind = "container" /\ ~s.presence) => has
IsKeyOf(s, d, i) == s.kind = "entry" /\ s.key # "" /\ d.kids[i].name = s.key /\ \A j \in 1..(i - 1) : d.kids[j].name # s.key
\* the nodes shown below d (d itself is shown), as name paths relative to d
RECURSIVE ShownBelow(_, _, _, _)
ShownBelow(F, p, s, d) ==
  UNION {LET c == d.kids[i]  cs == ChildCur(F, s, c.name) IN
         IF Survives(F, p, cs, c) THEN {<<c.name>>} \cup {<<c.name>> \o x : x \in ShownBelow(F, p, cs, c)}
         ELSE IF IsKeyOf(s, d, i) THEN {<<c.name>>} ELSE {}
         : i \in 1..Len(d.kids)}
Shown(F, p, d) == ShownBelow(F, p, RootCur(F), d)
\* the order the shown children of d appear in: keys that were put back, then the survivors in their order
ShownOrder(F, p, s, d) ==
  LET surv(i) == Survives(F, p, ChildCur(F, s, d.kids[i].name), d.kids[i])
      back == CatSeq([i \in 1..Len(d.kids) |-> IF ~surv(i) /\ IsKeyOf(s, d, i) THEN <<d.kids[i].name>> ELSE << >>])
      rest == CatSeq([i \in 1..Len(d.kids) |-> IF surv(i) THEN <<d.kids[i].name>> ELSE << >>])
  IN back \o rest

\* flattening of data trees / views
RECURSIVE PathsOf(_)
PathsOf(d) == UNION {{<<d.kids[i].name>>} \cup {<<d.kids[i].name>> \o x : x \in PathsOf(d.kids[i])} : i \in 1..Len(d.kids)}
RECURSIVE AtPath(_, _)
AtPath(d, path) == IF path = << >> THEN d
                   ELSE AtPath(d.kids[CHOOSE i \in 1..Len(d.kids) : d.kids[i].name = path[1]], Tail(path))
RECURSIVE CurAt(_, _, _, _)
CurAt(F, s, d, path) == IF path = << >> THEN s
                        ELSE LET c == d.kids[CHOOSE i \in 1..Len(d.kids) : d.kids[i].name = path[1]] IN
                             CurAt(F, ChildCur(F, s, c.name), c, Tail(path))
KidNamesSeq(d) == [i \in 1..Len(d.kids) |-> d.kids[i].name]
RECURSIVE IsSubSeq(_, _)
IsSubSeq(a, b) == IF a = << >> THEN TRUE ELSE IF b = << >> THEN FALSE
                  ELSE IF a[1] = b[1] THEN IsSubSeq(Tail(a), Tail(b)) ELSE IsSubSeq(a, Tail(b))
\* empty non-presence containers removed, bottom-up: what keep-all shows
RECURSIVE PruneNP(_, _, _)
PruneNP(F, s, d) ==
  LET ks == CatSeq([i \in 1..Len(d.kids) |->
                     LET c == d.kids[i]  cs == ChildCur(F, s, c.name)  pc == PruneNP(F, cs, c) IN
                     IF cs.kind = "container" /\ ~cs.presence /\ pc.kids = << >> THEN << >> ELSE <<pc>>])
  IN DN(d.name, d.vals, ks)

\* ------------------------------------------------------------ the laws (checked by SchemaWalkFilterMC)
FLaw(name, holds, ctx) == holds \/ (PrintT(<<"LAW VIOLATED", name, ctx>>) /\ FALSE)
FilterLaws(F, p, d, ctx) ==
  LET m   == Filter(F, p, d)
      v   == m.view
      sh  == Shown(F, p, d)
      r   == RootCur(F)
  IN /\ FLaw("MechanismIsMeaning-nodes", PathsOf(v) = sh, ctx)
     /\ FLaw("MechanismIsMeaning-order",
             \A x \in sh \cup {<< >>} : KidNamesSeq(AtPath(v, x)) = ShownOrder(F, p, CurAt(F, r, d, x), AtPath(d, x)), ctx)
     /\ FLaw("RootShown", v # Nil /\ v.name = d.name, ctx)
     /\ FLaw("SubTree", \A x \in PathsOf(v) : x \in PathsOf(d) /\ AtPath(v, x).vals = AtPath(d, x).vals, ctx)
     /\ FLaw("PrefixClosed", \A x \in sh : Len(x) = 1 \/ SubSeq(x, 1, Len(x) - 1) \in sh, ctx)
     /\ FLaw("DroppedHidesSubtree",
             \A x \in PathsOf(d) : (Len(x) > 0 /\ x \notin sh) => \A y \in sh : ~(Len(y) > Len(x) /\ SubSeq(y, 1, Len(x)) = x), ctx)
     /\ FLaw("OrderKept", \A x \in sh \cup {<< >>} :
                LET s == CurAt(F, r, d, x)
                    names == KidNamesSeq(AtPath(v, x))
                    nokey == SelectSeq(names, LAMBDA n : ~(s.kind = "entry" /\ n = s.key))
                IN IsSubSeq(nokey, KidNamesSeq(AtPath(d, x))), ctx)
     /\ FLaw("KeysShown", \A x \in sh : LET s == CurAt(F, r, d, x) IN
                (s.kind = "entry" /\ \E i \in 1..Len(AtPath(d, x).kids) : AtPath(d, x).kids[i].name = s.key)
                   => x \o <<s.key>> \in sh, ctx)
     /\ FLaw("Idempotent", Filter(F, p, v).view = v, ctx)
     /\ FLaw("KeepOncePerNode", Len(m.keeps) = Cardinality(PathsOf(d)), ctx)
     /\ FLaw("KeepAll", p.id = "all" => v = PruneNP(F, r, d), ctx)
     /\ FLaw("KeepNone", p.id = "none" => v.kids = << >>, ctx)
\* a predicate that accepts more (and does not look at the children) shows more
Monotone(F, p1, p2, d) == PathsOf(Filter(F, p1, d).view) \subseteq PathsOf(Filter(F, p2, d).view)

\* ------------------------------------------------------------ data trees (ordered) of a shape
KeyValF(i) == CASE i = 1 -> "2" [] i = 2 -> "10" [] OTHER -> "9"
LLValsF(n) == SubSeq(<<"2", "10", "9">>, 1, n)
CaseKidsF(c) == IF c.kind = "case" THEN c.kids ELSE <<c>>
RECURSIVE FSeqs(_, _, _, _, _), FEntries(_, _, _, _, _)
FOpts(c, TV, me, ml, keyv) ==
  CASE c.kind = "leaf" ->
         IF keyv # << >> /\ c.name = keyv[1] THEN {<<DN(c.name, <<keyv[2]>>, << >>)>>}
         ELSE {<< >>} \cup (IF IsEmptyType(c.typ) THEN {<<DN(c.name, << >>, << >>)>>}
                            ELSE {<<DN(c.name, <<v>>, << >>)>> : v \in (IF c.name \in TV THEN {"2", "10"} ELSE {"2"})})
    [] c.kind = "leaflist" -> {<< >>} \cup {<<DN(c.name, LLValsF(n), << >>)>> : n \in 1..ml}
    [] c.kind = "container" -> {<< >>} \cup {<<DN(c.name, << >>, k)>> : k \in FSeqs(c.kids, TV, me, ml, << >>)}
    [] c.kind = "list" -> {<< >>} \cup {<<DN(c.name, << >>, es)>> : es \in UNION {FEntries(c, TV, n, me, ml) : n \in 0..me}}
    [] c.kind = "choice" -> {<< >>} \cup UNION {FSeqs(CaseKidsF(c.kids[i]), TV, me, ml, << >>) \ {<< >>} : i \in 1..Len(c.kids)}
    [] OTHER -> {<< >>}
FSeqs(sk, TV, me, ml, keyv) ==
  IF sk = << >> THEN {<< >>}
  ELSE {a \o b : a \in FOpts(sk[1], TV, me, ml, keyv), b \in FSeqs(Tail(sk), TV, me, ml, keyv)}
FEntries(c, TV, n, me, ml) ==
  IF n = 0 THEN {<< >>}
  ELSE {es \o <<DN(KeyValF(n), << >>, b)>> : es \in FEntries(c, TV, n - 1, me, ml), b \in FSeqs(c.kids, TV, me, ml, <<c.key, KeyValF(n)>>)}
FTrees(F, me, ml) == {DN("root", << >>, k) : k \in FSeqs(F.kids, F.tv, me, ml, << >>)}

\* ------------------------------------------------------------ shapes
\* [kids, ro (names of config false nodes), tv (leaves that take two values)]
FS(kids, ro, tv) == [kids |-> kids, ro |-> ro, tv |-> tv]
FilterShape(id) ==
  CASE id = 1 ->   \* the repository's own test shapes in one: leaves, non-presence and presence container
         FS(<< Leaf("matchLeaf", "string"), Leaf("skipLeaf", "string"),
               Cont("np", << Leaf("m", "string"), Leaf("s", "string") >>),
               PCont("pc", << Leaf("m", "string"), Leaf("s", "string") >>) >>, {}, {})
    [] id = 2 ->   \* list with the key in front / at the end of the entry; state leaf in an entry
         FS(<< List("l", "k", << Leaf("k", "string"), Leaf("v", "string"), Leaf("st", "string") >>),
               List("r", "k", << Leaf("w", "string"), Leaf("k", "string") >>) >>, {"st"}, {"v"})
    [] id = 3 ->   \* nested non-presence containers; a state container; a leaf-list
         FS(<< Cont("a", << Cont("b", << Cont("c", << Leaf("x", "string") >>), Leaf("y", "string") >>), LL("ll", "string") >>),
               Cont("ro", << Leaf("x", "string"), PCont("p", << >>) >>) >>, {"ro"}, {"x"})
    [] id = 4 ->   \* choice / cases (not visible in data), list inside a container inside a list
         FS(<< Choice("ch", << Case("c1", << Leaf("x", "string"), Cont("n", << Leaf("y", "string") >>) >>), Leaf("z", "string") >>),
               List("o", "k", << Leaf("k", "string"), Cont("in", << List("i", "k", << Leaf("k", "string"), Leaf("v", "string") >>) >>) >>) >>, {}, {})
    [] id = 5 ->   \* list entries without anything but the key; presence container in an entry; empty type
         FS(<< List("l", "k", << Leaf("k", "int8"), PCont("p", << Leaf("e", "empty") >>), Cont("n", << Leaf("st", "string") >>) >>),
               Leaf("k", "string") >>, {"st"}, {})
    [] OTHER -> FS(<< Leaf("a", "string") >>, {}, {})
NFilterShapes == 6

RECURSIVE DataNames(_)
DataNames(kids) == UNION {(IF IsData(kids[i]) THEN {kids[i].name} ELSE {}) \cup DataNames(kids[i].kids) : i \in 1..Len(kids)}
Preds(F) ==
  LET names == DataNames(F.kids) IN
  {P(x, {}, {}) : x \in {"all", "none", "config", "state", "kids", "val"}}
  \* (list entries are named by their key value: "2" "10" "9")
  \cup {P("named", {n, "2", "10", "9"}, {}) : n \in names} \cup {P("namedkids", {n}, {}) : n \in names}
  \cup {P("named", names, {}), P("named", names \cup {"2", "10", "9"}, {}), P("named", {"2"}, {}), P("namedkids", {"2", "10"}, {})}
  \cup {P("kind", {}, K) : K \in {{"container", "list", "entry"}, {"leaf", "leaflist"}, {"leaf", "leaflist", "entry", "list"}, {"entry", "list", "leaf"}}}
=============================================================================
