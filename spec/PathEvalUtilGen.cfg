INIT GInit
NEXT GNext
CONSTANT Kinds = {"toks", "wf", "filter", "warn", "ref"}
CONSTANT MaxToks = 3
CHECK_DEADLOCK FALSE
