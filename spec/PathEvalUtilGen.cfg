INIT GInit
NEXT GNext
CONSTANT Kinds = {"toks", "wf", "filter", "warn", "ref"}
CONSTANT MaxToks = 3
CONSTANT WfMax = 2
CHECK_DEADLOCK FALSE
