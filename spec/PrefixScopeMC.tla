----------------------------- MODULE PrefixScopeMC -----------------------------
(* The compiler's mechanism for prefix scope, as a transition system, checked
   against the meaning of PrefixScope on every reachable state.

   A parse node carries `tree` (the module whose text it comes from) and `useTree`
   (set by Clone(m) when a `uses` copies it into module m; each later clone
   overwrites it).  An augment moves the node object into another module's tree
   without cloning.  The machine of a must / when / path is built, at the end,
   from the node as it then is:
      prefixed name   -> GetModuleByPrefix: looked up in the import map of Root() = tree
      unprefixed name -> namespace of UsesRoot() = useTree if set, else tree.
   TLC explores every configuration, every textual module and every sequence of
   up to MaxSteps clone / augment steps the imports allow, and checks that the
   mechanism resolves every prefix exactly as the textual module declares it, also
   after cloning, and an unprefixed name to the module of the outermost use.    *)
EXTENDS PrefixScope
CONSTANT MaxSteps
VARIABLES cfg, node, hist
mvars == <<cfg, node, hist>>
\* hist: the modules into which the statement was copied by uses, innermost first
MInit == /\ cfg \in Cfgs /\ node = [tree |-> "", useTree |-> "", at |-> ""] /\ hist = << >>
Write == /\ node.tree = ""
         /\ \E t \in Units(cfg) : node' = [tree |-> t, useTree |-> "", at |-> t]
         /\ UNCHANGED <<cfg, hist>>
\* a grouping holding the node (it sits in module node.at) is used by module u (u = at, or u imports at)
CloneByUses == /\ node.tree # "" /\ Len(hist) < MaxSteps
               /\ \E u \in Units(cfg) : /\ (u = node.at \/ Sees(cfg, u, node.at) \/ (IsSub(node.at) /\ u = ModOf(node.at)))
                                          /\ node' = [node EXCEPT !.useTree = u, !.at = u]
                                          /\ hist' = Append(hist, u)
               /\ UNCHANGED cfg
\* the node (written under an augment of module at) is moved into module u's tree
MoveByAugment == /\ node.tree # "" /\ Len(hist) < MaxSteps
                 /\ \E u \in Present(cfg) : ImportsMod(cfg, node.at, u) /\ ModOf(node.at) # u /\ node' = [node EXCEPT !.at = u]
                 /\ UNCHANGED <<cfg, hist>>
MNext == Write \/ CloneByUses \/ MoveByAugment
\* --- what the compiler computes from the node (Root() of a statement written in a submodule is the
\*     submodule: its own import statements, and its belongs-to prefix for its module)
MechKnown(p) == Known(cfg, node.tree, p)
MechLookup(p) == Lookup(cfg, node.tree, p)
MechCurrent == IF node.useTree # "" THEN node.useTree ELSE node.tree
\* --- the meaning
Textual == node.tree
OutermostUse == IF hist = << >> THEN node.tree ELSE hist[Len(hist)]
ScopeIsTextual == node.tree # "" =>
   /\ \A p \in AllPrefixes(cfg) \cup {"zz"} : MechKnown(p) = Known(cfg, Textual, p)
   /\ \A p \in {b[1] : b \in PMap(cfg, Textual)} : MechLookup(p) = Lookup(cfg, Textual, p)
   /\ MechCurrent = OutermostUse
\* the hazard the property is about: some reachable state has the statement sitting in a module that
\* binds one of its prefixes differently (otherwise the check above would be vacuous)
Hazard == node.tree # "" /\ \E p \in {b[1] : b \in PMap(cfg, node.tree)} :
             Known(cfg, node.at, p) /\ Lookup(cfg, node.at, p) # Lookup(cfg, node.tree, p)
NoHazard == ~Hazard
=============================================================================
