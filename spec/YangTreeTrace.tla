---------------------------- MODULE YangTreeTrace ----------------------------
(* C10, code -> model.  One event per parse.Parse call of the harness: the text,
   what the call returned and, when it returned a tree, the tree the walker found
   through Children()/Statement()/Argument()/ErrorContext().  The spec reads the
   same text (ParseText) and the walked tree must be that tree: keywords,
   judged arguments, order, nesting, line, and byte column where the line prefix
   is ASCII.  An event with base > 0 is a re-laid-out form of the text of event
   `base`: if the spec reads both as the same tree up to positions and the code
   accepted the original, the code must accept the new form and return the same
   tree up to positions.  Not judged: texts the spec cannot read as a statement
   (no source tree to compare with) and texts the code rejects on their own
   (statement grammar, property C09).                                            *)
EXTENDS YangTree, Json
CONSTANT TraceFile, MaxFail
Trace == ndJsonDeserialize(TraceFile)
VARIABLES l, nfail, njudged
tvars == <<l, nfail, njudged>>

\* Not a source statement, deliberately not judged: under a `choice` the code wraps a shorthand case (container, leaf,
\* leaf-list, list) in an implicit `case` node (ChildrenByType, reached from Parse through buildSymbols).  The walked
\* node is then compared through that wrapper.
Shorthand == {C("container"), C("leaf"), C("leaf-list"), C("list")}
Unwrap(p, w, inChoice) == IF inChoice /\ p.kw \in Shorthand /\ w.kw = C("case") /\ Len(w.subs) = 1 THEN w.subs[1] ELSE w
RECURSIVE Diff(_, _, _)
Diff(p, w, pos) ==
  IF p.kw # w.kw /\ p.kwAlt # w.kw THEN "keyword"
  ELSE IF p.argJ /\ p.arg # w.arg THEN "argument"
  ELSE IF pos /\ p.line # w.line THEN "line"
  ELSE IF pos /\ p.colJ /\ p.col # w.col THEN "column"
  ELSE IF Len(p.subs) > Len(w.subs) THEN "missing-substatement"
  ELSE IF Len(p.subs) < Len(w.subs) THEN "extra-substatement"
  ELSE LET ch == p.kw = C("choice")
           bad == {i \in 1..Len(p.subs) : Diff(p.subs[i], Unwrap(p.subs[i], w.subs[i], ch), pos) # "none"} IN
       IF bad = {} THEN "none"
       ELSE LET i == CHOOSE i \in bad : \A j \in bad : i <= j IN Diff(p.subs[i], Unwrap(p.subs[i], w.subs[i], ch), pos)
\* two spec trees equal up to positions (and only where both arguments are judged)
RECURSIVE SameModPos(_, _)
SameModPos(a, b) == /\ a.kw = b.kw /\ a.argJ /\ b.argJ /\ a.arg = b.arg /\ Len(a.subs) = Len(b.subs)
                    /\ \A i \in 1..Len(a.subs) : SameModPos(a.subs[i], b.subs[i])
\* the walked tree as a spec tree (for comparing two walked trees)
RECURSIVE AsSpec(_)
AsSpec(w) == [kw |-> w.kw, kwAlt |-> w.kw, arg |-> w.arg, argJ |-> TRUE, line |-> w.line, col |-> w.col, colJ |-> TRUE, subs |-> [i \in 1..Len(w.subs) |-> AsSpec(w.subs[i])]]

TInit == l = 1 /\ nfail = 0 /\ njudged = 0
AddFail(f) == /\ nfail' = nfail + 1
              /\ (nfail >= MaxFail \/ PrintT("FAILJSON " \o ToJson(f)))
Verdict(e) ==
  LET its == LexAll(e.text, Intended)
      p == ParseItems(its, e.text)
      wtc == WordThenComment(its, e.text)
      \* ("walk-panic": the text was accepted, but walking the tree through Children / Statement / Argument / ErrorContext
      \* panicked - a statement of an accepted text that cannot say where it is)
      direct == IF p.ok /\ e.ret = "ok" THEN Diff(p.tree, e.walked, TRUE) ELSE IF p.ok /\ e.ret = "walk-panic" THEN "walk-panic" ELSE "none"
      rel == IF e.base > 0 /\ p.ok
             THEN LET o == Trace[e.base]  q == ParseText(o.text) IN
                  IF q.ok /\ o.ret = "ok" /\ SameModPos(q.tree, p.tree)
                  THEN (IF e.ret # "ok" THEN "layout-rejected" ELSE LET d == Diff(AsSpec(o.walked), e.walked, FALSE) IN IF d = "none" THEN "none" ELSE "layout-" \o d)
                  ELSE "none"
             ELSE "none"
  IN [judged |-> p.ok /\ e.ret \in {"ok", "walk-panic"}, what |-> IF direct # "none" THEN direct ELSE rel, wtc |-> wtc]
TStep == /\ l <= Len(Trace) /\ l' = l + 1
         /\ LET e == Trace[l]  v == Verdict(e) IN
            /\ njudged' = njudged + (IF v.judged THEN 1 ELSE 0)
            /\ IF v.what = "none" THEN UNCHANGED nfail
               ELSE AddFail([id |-> e.id, at |-> l, what |-> v.what, wordThenComment |-> v.wtc, relaid |-> e.base > 0, ret |-> e.ret])
TNext == TStep
Consumed == l = Len(Trace) + 1
Report == Consumed => PrintT(<<"TRACE-RESULT", Len(Trace), njudged, nfail>>)
=============================================================================
