SPECIFICATION MCSpec
CONSTANT Shapes = {11}
CONSTANT MaxEntries = 2
CONSTANT Wide = {}
CONSTANT MaxLL = 2
CONSTANT StateShapes = {}
CONSTANT Odd = TRUE
CONSTANT LRun = TRUE
CONSTANT CacheAll = TRUE
INVARIANT CacheSound
CHECK_DEADLOCK FALSE
