INIT MCInit
NEXT MCNext
CONSTANTS
  Shapes = {14}
  MaxEntries = 2
  Wide = {}
  MaxLL = 2
  StateShapes = {}
  Odd = TRUE
  LRun = TRUE
  CacheAll = TRUE
INVARIANT CacheSound
CHECK_DEADLOCK FALSE
