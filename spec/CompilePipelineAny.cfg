INIT MCInit
NEXT MCNext
CONSTANT SortMode = "any"
CONSTANT Size = "s"
CONSTANT Only = {"augdev"}
INVARIANT Confluent
PROPERTY MCProgress
CHECK_DEADLOCK TRUE
