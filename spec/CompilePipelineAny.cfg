INIT MCInit
NEXT MCNext
CONSTANT SortMode = "any"
CONSTANT Size = "s"
CONSTANT Positions = {"direct", "container", "list", "choice", "augment", "inner", "union"}
CONSTANT Only = {"augdev"}
INVARIANT Confluent
PROPERTY MCProgress
CHECK_DEADLOCK TRUE
