INIT MCInit
NEXT MCNext
CONSTANT Fams = {"F1"}
INVARIANT InlineEq
INVARIANT InlineFixed
INVARIANT EditEq
INVARIANT PruneIdem
INVARIANT PruneTopDown
CHECK_DEADLOCK FALSE
