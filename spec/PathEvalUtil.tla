---------------------------- MODULE PathEvalUtil ----------------------------
(* The pure helpers of xpath/xutils that the path evaluation and leafref error reporting use:
   path_type.go (PathType, NewPathType, String, SpacedString, EqualTo, GetAbsPath and its two string
   strippers, MatchFilter), warning.go (GetUniqueString, Match / MatchDebugContains,
   RemoveNPContainerWarnings) and node_ref.go (NodeRef of a node, String, EqualTo, FindNode).

   Two layers, kept apart:
     MEANING   what the doc comments promise, defined on well-formed inputs only (AbsPathIntent on a
               parsed path expression; FindNodeIntent).
     MECHANISM what the Go text computes on any string, character by character (RemovePreds,
               RemovePrefixes, GetAbsPath, NewPathType, PTString, SpacedString ...).  Oddities of the
               mechanism, modelled deliberately:
        U1  removePredicatesFromPathString re-counts the '[' of the already shortened string in its loop
            condition, so only ceil(n/2) of n predicates are removed (`/a[k='v']/b[k='v']/c` keeps the
            second).  RemovePreds(s, FALSE) is the code, RemovePreds(s, TRUE) the repaired loop; TLC
            checks that the repaired mechanism meets the meaning everywhere and the code's wherever a
            well-formed expression has at most one predicate.
        U2  GetAbsPath counts every "../" of the stripped string, wherever it stands, and then cuts
            3 x count characters off the front; PTString of the root path <<"/">> is "".
            Only the mechanism speaks about such inputs (no meaning is claimed).
        U3  FindNode returns the start node, not nil, when no node has the reference (WalkTree hands back
            its argument when the walk finishes unsuccessfully).  FindNodeIntent says nil.
   Strings are TLC strings (Len, SubSeq and \o only).                                              *)
EXTENDS Integers, Sequences, FiniteSets, TLC

\* ----------------------------------------------------------- string toolkit
At(s, i) == SubSeq(s, i, i)
RECURSIVE IndexFrom(_, _, _)
IndexFrom(s, sub, i) == IF i + Len(sub) - 1 > Len(s) THEN -1          \* 0-based index of the first occurrence at or after i (1-based scan)
                        ELSE IF SubSeq(s, i, i + Len(sub) - 1) = sub THEN i - 1 ELSE IndexFrom(s, sub, i + 1)
Index(s, sub) == IndexFrom(s, sub, 1)                                  \* strings.Index
RECURSIVE CountFrom(_, _, _)
CountFrom(s, sub, i) == IF i + Len(sub) - 1 > Len(s) THEN 0            \* strings.Count: non-overlapping
                        ELSE IF SubSeq(s, i, i + Len(sub) - 1) = sub THEN 1 + CountFrom(s, sub, i + Len(sub))
                        ELSE CountFrom(s, sub, i + 1)
Count(s, sub) == CountFrom(s, sub, 1)
HasSub(s, sub) == Index(s, sub) >= 0
IsWs(c) == c \in {" ", "\t", "\n", "\r"}
RECURSIVE TrimLeft(_), TrimRight(_)
TrimLeft(s) == IF Len(s) > 0 /\ IsWs(At(s, 1)) THEN TrimLeft(SubSeq(s, 2, Len(s))) ELSE s
TrimRight(s) == IF Len(s) > 0 /\ IsWs(At(s, Len(s))) THEN TrimRight(SubSeq(s, 1, Len(s) - 1)) ELSE s
TrimSpace(s) == TrimRight(TrimLeft(s))
RECURSIVE SplitFrom(_, _, _)
\* strings.Split(s, sep) for a one-character separator: always at least one element
SplitFrom(s, sep, acc) == IF s = "" THEN <<acc>>
                          ELSE IF At(s, 1) = sep THEN <<acc>> \o SplitFrom(SubSeq(s, 2, Len(s)), sep, "")
                          ELSE SplitFrom(SubSeq(s, 2, Len(s)), sep, acc \o At(s, 1))
Split(s, sep) == SplitFrom(s, sep, "")
RECURSIVE JoinWith(_, _)
JoinWith(ss, sep) == IF ss = << >> THEN "" ELSE IF Len(ss) = 1 THEN ss[1] ELSE ss[1] \o sep \o JoinWith(Tail(ss), sep)

\* ------------------------------------------------------------------ PathType
NewPathType(path0) ==
  LET path == TrimSpace(path0) IN
  IF path = "" THEN << >>
  ELSE IF At(path, 1) = "/"
       THEN (IF Len(path) = 1 THEN <<"/">> ELSE <<"/">> \o Split(SubSeq(path, 2, Len(path)), "/"))
       ELSE Split(path, "/")
RECURSIVE SlashJoin(_)
SlashJoin(p) == IF p = << >> THEN "" ELSE "/" \o p[1] \o SlashJoin(Tail(p))
PTString(p) == IF p = << >> THEN "" ELSE (IF p[1] # "/" THEN p[1] ELSE "") \o SlashJoin(Tail(p))
SpacedString(p) == IF p = << >> THEN ""
                   ELSE IF p[1] = "/" THEN (IF Len(p) = 1 THEN "" ELSE TrimSpace(JoinWith(Tail(p), " ")))
                   ELSE TrimSpace(JoinWith(p, " "))
PTEqual(p, q) == p = q

\* ------------------------------------------------ the two strippers, GetAbsPath
RECURSIVE RPLoop(_, _, _)
RPLoop(expr, i, repaired) ==
  IF (IF repaired THEN ~HasSub(expr, "[") ELSE ~(i < Count(expr, "["))) THEN expr
  ELSE LET start == Index(expr, "[")  end == Index(expr, "]") IN
       IF end < start THEN expr
       ELSE IF end >= Len(expr) - 1 THEN SubSeq(expr, 1, start)
       ELSE RPLoop(SubSeq(expr, 1, start) \o SubSeq(expr, end + 2, Len(expr)), i + 1, repaired)
RemovePreds(expr, repaired) == RPLoop(expr, 0, repaired)
RECURSIVE RPfx(_, _, _)
RPfx(s, newEntry, subEntry) ==
  IF s = "" THEN newEntry \o subEntry
  ELSE LET c == At(s, 1)  r == SubSeq(s, 2, Len(s)) IN
       IF c = "/" THEN RPfx(r, newEntry \o subEntry \o "/", "")
       ELSE IF c = ":" THEN RPfx(r, newEntry, "")
       ELSE RPfx(r, newEntry, subEntry \o c)
RemovePrefixes(expr) == IF Count(expr, ":") > 0 THEN RPfx(expr, "", "") ELSE expr
GetAbsPath(expr0, cur, repaired) ==
  LET expr == RemovePrefixes(RemovePreds(expr0, repaired))
      steps == Count(expr, "../")
  IN IF steps = 0 THEN NewPathType(expr)
     ELSE IF Len(expr) <= steps * 3 THEN NewPathType(expr)
     ELSE LET lr == NewPathType(SubSeq(expr, steps * 3 + 1, Len(expr)))
              rem == steps + 1
          IN IF rem < Len(cur) THEN SubSeq(cur, 1, Len(cur) - rem) \o lr
             ELSE <<"(unknown)">> \o lr

\* ------------------------------------------------------------------- meaning
(* A well-formed path expression, as token sequence:
     abs   ("/" Name)+            rel   (".." "/")+ Name ("/" Name)*
     Name  [pfx] name pred*       pfx in PfxToks, name in NameToks, pred in PredToks
   The absolute path it stands for, seen from the node whose path-with-value is cur (the last element of cur
   is the leaf's value, so k up-steps drop k + 1 elements): names only, no prefixes, no predicates; when cur
   is too short the unknown part is shown as "(unknown)".                                             *)
NameToks == {"a", "b"}
PfxToks == {"p:", "q:"}
PredToks == {"[k='v']", "[j=current()/../v]"}
RECURSIVE SkipPreds(_, _)
SkipPreds(ts, i) == IF i <= Len(ts) /\ ts[i] \in PredToks THEN SkipPreds(ts, i + 1) ELSE i
\* parse Name at i: [ok, next, n]
PName(ts, i) == LET j == IF i <= Len(ts) /\ ts[i] \in PfxToks THEN i + 1 ELSE i IN
                IF j <= Len(ts) /\ ts[j] \in NameToks THEN [ok |-> TRUE, next |-> SkipPreds(ts, j + 1), n |-> ts[j]]
                ELSE [ok |-> FALSE, next |-> j, n |-> ""]
RECURSIVE PNames(_, _, _)
\* Name ("/" Name)* to the end of ts
PNames(ts, i, acc) == LET r == PName(ts, i) IN
                      IF ~r.ok THEN [ok |-> FALSE, names |-> acc]
                      ELSE IF r.next > Len(ts) THEN [ok |-> TRUE, names |-> Append(acc, r.n)]
                      ELSE IF ts[r.next] = "/" THEN PNames(ts, r.next + 1, Append(acc, r.n))
                      ELSE [ok |-> FALSE, names |-> acc]
RECURSIVE CountUps(_, _)
CountUps(ts, i) == IF i + 1 <= Len(ts) /\ ts[i] = ".." /\ ts[i + 1] = "/" THEN 1 + CountUps(ts, i + 2) ELSE 0
ParsePathExpr(ts) ==
  IF ts # << >> /\ ts[1] = "/" THEN LET r == PNames(ts, 2, << >>) IN [ok |-> r.ok, abs |-> TRUE, ups |-> 0, names |-> r.names]
  ELSE LET k == CountUps(ts, 1) IN
       IF k = 0 THEN [ok |-> FALSE, abs |-> FALSE, ups |-> 0, names |-> << >>]
       ELSE LET r == PNames(ts, 2 * k + 1, << >>) IN [ok |-> r.ok, abs |-> FALSE, ups |-> k, names |-> r.names]
AbsPathIntent(px, cur) ==
  IF px.abs THEN <<"/">> \o px.names
  ELSE IF px.ups + 1 < Len(cur) THEN SubSeq(cur, 1, Len(cur) - (px.ups + 1)) \o px.names
  ELSE <<"(unknown)">> \o px.names
NPreds(ts) == Cardinality({i \in 1..Len(ts) : ts[i] \in PredToks})
RECURSIVE Concat(_)
Concat(ts) == IF ts = << >> THEN "" ELSE ts[1] \o Concat(Tail(ts))

\* ---------------------------------------------------------------- MatchFilter
\* filter [space, local, on] on in "full" "config" "opd"; target [space, local, tt] tt in "none" "config" "opd"
MatchFilter(f, t) ==
  IF t.tt # "config" /\ f.on = "config" THEN FALSE
  ELSE IF f.space = "" /\ f.local = "*" THEN TRUE                     \* the global wildcard
  ELSE IF f.space = "" THEN f.local = t.local                           \* unqualified name
  ELSE IF f.local = "*" THEN f.space = t.space                          \* wildcard within a namespace
  ELSE f.space = t.space /\ f.local = t.local

\* ------------------------------------------------------------------ Warning
\* warning [typ 0..7, node, stmt, loc, test, dbg]
UniqueString(w, strip) == IF strip THEN w.loc \o ":" \o RemovePrefixes(w.test) ELSE w.loc \o w.test
MatchW(w, e, exact) ==
  IF e.node # "" /\ e.node # w.node THEN "Start node values don't match"
  ELSE IF e.stmt # "" /\ e.stmt # w.stmt THEN "Xpath statements don't match"
  ELSE IF e.loc # "" /\ e.loc # w.loc THEN "Xpath locations don't match"
  ELSE IF e.test # "" /\ e.test # w.test THEN "Warning text doesn't match"
  ELSE IF e.typ # w.typ THEN "Warning type doesn't match"
  ELSE IF e.dbg # "" /\ exact /\ e.dbg # w.dbg THEN "Debug strings don't match"
  ELSE IF e.dbg # "" /\ ~exact /\ ~HasSub(w.dbg, e.dbg) THEN "Debug string doesn't contain expected text"
  ELSE ""
NPTypes == {3, 4, 5}      \* MustOnNPContainer, MustOnNPContWithNPChild, RefNPContainer
RemoveNP(ws) == SelectSeq(ws, LAMBDA w : w.typ \notin NPTypes)

\* ------------------------------------------------------------------ NodeRef
(* A data tree: nodes are numbered 1..N in document (pre-)order, node 1 is the root; tree[i] = [parent, name, keys]
   (parent 0 for the root; keys a sequence of <<keyName, value>>).  The reference of a node: the (name, keys) of the
   nodes from below the root down to it; the root's reference is empty.                                 *)
RECURSIVE RefOf(_, _)
RefOf(tree, i) == IF i = 0 \/ tree[i].parent = 0 THEN << >>
                  ELSE Append(RefOf(tree, tree[i].parent), [name |-> tree[i].name, keys |-> tree[i].keys])
RECURSIVE KeysStr(_)
KeysStr(ks) == IF ks = << >> THEN "" ELSE "[" \o ks[1][1] \o "='" \o ks[1][2] \o "']" \o KeysStr(Tail(ks))
RECURSIVE RefStr(_)
RefStr(r) == IF r = << >> THEN "" ELSE "/" \o r[1].name \o KeysStr(r[1].keys) \o RefStr(Tail(r))
RefEqual(r1, r2) == r1 = r2
RECURSIVE InSubtree(_, _, _)
InSubtree(tree, i, start) == i = start \/ (i # 0 /\ tree[i].parent # 0 /\ InSubtree(tree, tree[i].parent, start))
\* first node, in document order, of the subtree of start that has the reference; 0 = none (nil)
FindNodeIntent(tree, start, ref) ==
  LET hits == {i \in 1..Len(tree) : InSubtree(tree, i, start) /\ RefOf(tree, i) = ref} IN
  IF hits = {} THEN 0 ELSE CHOOSE i \in hits : \A j \in hits : i <= j
FindNodeMech(tree, start, ref) == LET r == FindNodeIntent(tree, start, ref) IN IF r = 0 THEN start ELSE r     \* U3
=============================================================================
