--------------------------- MODULE DataValidateMC ---------------------------
(* Exhaustive model for C18: for every shape and every data tree within the bounds
   TLC checks the laws the statement asks of the decorated view and the consistency
   of the two violation sets:
     Idempotent      Decorate(Decorate(d)) = Decorate(d)
     ExplicitKept    every explicit node is in Decorate(d) with its values
     OnlyDefaults    whatever Decorate adds is a leaf holding its schema default, or a
                     non-presence container made of such
     Verdict         decoration changes no verdict: Violations(Decorate(d)) = Violations(d)
     WellFormedDeco  the decorated tree has one node per name below a parent
     AbsentAsEmpty   Decorate of a tree = Decorate of the tree with every absent non-presence
                     container (outside cases) made present and empty
     MustSound       MustReport is a subset of Violations and empty only with it
   Shapes in Wide are explored with MaxEntries list entries, the others with 2.
   One initial state per shape; the first step picks the data tree.            *)
EXTENDS DataValidate, TLC
CONSTANTS Shapes, MaxEntries, Wide, MaxLL
VARIABLES shape, picked, data
vars == <<shape, picked, data>>
Sch == DataShape(shape)
MCInit == shape \in Shapes /\ picked = FALSE /\ data = {}
MCNext == /\ ~picked /\ picked' = TRUE /\ UNCHANGED shape
          /\ \E d \in DataTrees(Sch, IF shape \in Wide THEN MaxEntries ELSE 2, MaxLL) : data' = d
\* All laws in one invariant so that Decorate / Prune / Violations are evaluated once per tree; a law
\* that fails is named on the output ("LAW VIOLATED") before TLC reports the invariant.
Law(name, holds) == holds \/ (PrintT(<<"LAW VIOLATED", name>>) /\ FALSE)
Laws == picked =>
  LET d1 == Decorate(Sch, data)
      p1 == Prune(Sch, d1)
      v  == Violations(Sch, data)
      m  == MustReport(Sch, data)
  IN /\ Law("Idempotent", Decorate(Sch, d1) = d1)
     /\ Law("ExplicitKept", SubTree(data, d1))
     /\ Law("OnlyDefaultsAdded", OnlyDefaults(Sch, data, d1))
     /\ Law("Verdict", Violations(Sch, d1) = v)
     /\ Law("MustSound", m \subseteq v /\ (m = {}) = (v = {}))
     /\ Law("WellFormedDeco", WellFormed(data) /\ WellFormed(d1) /\ WellFormed(p1))
     \* an absent non-presence container is decorated like the same container present and empty
     /\ Law("AbsentAsEmpty", Prune(Sch, Decorate(Sch, Materialise(Sch, data))) = p1)
     /\ Law("PruneIdem", Prune(Sch, p1) = p1)
=============================================================================
