--------------------------- MODULE DataValidateMC ---------------------------
(* Exhaustive model for C18: for every shape and every data tree within the bounds
   TLC checks the laws the statement asks of the decorated view and the consistency
   of the two violation sets:
     Idempotent      Decorate(Decorate(d)) = Decorate(d)
     ExplicitKept    every explicit node is in Decorate(d) with its values
     OnlyDefaults    whatever Decorate adds is a leaf holding its schema default, or a
                     non-presence container made of such
     Verdict         decoration changes no verdict: Violations(Decorate(d)) = Violations(d)
     WellFormedDeco  the decorated tree has one node per name below a parent
     MustSound       MustReport is a subset of Violations and empty only with it
   Shapes in Wide are explored with MaxEntries list entries, the others with 2.
   One initial state per shape; the first step picks the data tree.            *)
EXTENDS DataValidate, TLC
CONSTANTS Shapes, MaxEntries, Wide, MaxLL
VARIABLES shape, picked, data
vars == <<shape, picked, data>>
Sch == DataShape(shape)
MCInit == shape \in Shapes /\ picked = FALSE /\ data = {}
MCNext == /\ ~picked /\ picked' = TRUE /\ UNCHANGED shape
          /\ \E d \in DataTrees(Sch, IF shape \in Wide THEN MaxEntries ELSE 2, MaxLL) : data' = d
Deco1 == Decorate(Sch, data)
Idempotent   == picked => Decorate(Sch, Deco1) = Deco1
ExplicitKept == picked => SubTree(data, Deco1)
OnlyDefaultsAdded == picked => OnlyDefaults(Sch, data, Deco1)
Verdict      == picked => Violations(Sch, Deco1) = Violations(Sch, data)
MustSound    == picked => /\ MustReport(Sch, data) \subseteq Violations(Sch, data)
                          /\ (MustReport(Sch, data) = {}) = (Violations(Sch, data) = {})
WellFormedDeco == picked => WellFormed(data) /\ WellFormed(Deco1) /\ WellFormed(Prune(Sch, Deco1))
PruneIdem    == picked => Prune(Sch, Prune(Sch, Deco1)) = Prune(Sch, Deco1)
=============================================================================
