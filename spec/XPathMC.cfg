INIT MCInit
NEXT MCNext
CONSTANT Fams = {4, 6, 11, 14, 15}
CONSTANT Faults = 3
CONSTANT NChunks = 12
INVARIANT MCCorrect
INVARIANT MCValueXorError
INVARIANT MCFaultFaithful
INVARIANT NoRunError
CHECK_DEADLOCK FALSE
