--------------------------- MODULE XPathGrammarGen ---------------------------
(* Generator of token sequences with the verdict XPathGrammar prescribes.
   Kinds:  "full"   all sequences over the full alphabet up to MaxFull tokens
           "core"   all sequences over the core alphabet up to MaxCore tokens
           "mutant" every single-token mutant (delete / replace / insert / swap) of the
                    minimal rendering of the ASTs of XPathSets families MutFams
           "lref"   all sequences over the leafref alphabet up to MaxLref tokens, plus
                    single-token mutants of a pool of valid path-args
   One initial state per (kind, first token) so that all workers are used.     *)
EXTENDS XPathSets, XPathLex, Json, SequencesExt
CONSTANTS Kinds, MaxFull, MaxCore, MaxTiny, MaxLref, MutFams, NChunks, MutEvery, MaxChars

FullAlpha == <<"1", "2.5", ".5", "5.", "'s'", "\"d\"", "a", "b", "p:a", "p:*", "zz:a", "not", "concat", "true", "substring",
               "string-length", "count", "current", "deref", "nosuch", "node", "text", "comment", "and", "or", "div", "mod",
               "child", "self", "::", "*", "/", "//", ".", "..", "(", ")", "[", "]", ",", "|", "-", "+", "=", "!=", "<", "<=",
               ">", ">=", "@", "$", "!", "#", "1.2.3",
               \* prefixed names whose local half is no NCName (a digit, '-' or '.' first)
               "p:1", "p:-a", "p:.x">>
CoreAlpha == <<"1", "'s'", "a", "p:a", "not", "concat", "current", "and", "div", "*", "/", ".", "..", "(", ")", "[", "]", ",", "-", "=", "<">>
TinyAlpha == <<"1", "a", "and", "*", "/", "(", ")", "[", "]", "-", "=", "not">>
LrefAlpha == <<"a", "p:b", "zz:c", "current", "/", "..", "[", "]", "=", "(", ")", ".", "*", "1", "'s'", "//">>
SeqsFrom(alpha, first, maxlen) ==
  LET A == {alpha[i] : i \in 1..Len(alpha)}
  IN UNION {{<<first>> \o s : s \in [1..n -> A]} : n \in 0..(maxlen - 1)}

\* mutants of a token sequence
Repl == {"(", ")", "[", "]", "/", "*", "and", "a", "1", ",", "=", "-", "'s'", "@", "//", "nosuch", "1e5", "'s"}
Mutants(ts) ==
  {SubSeq(ts, 1, i - 1) \o SubSeq(ts, i + 1, Len(ts)) : i \in 1..Len(ts)}
  \cup {[ts EXCEPT ![i] = r] : i \in 1..Len(ts), r \in Repl}
  \cup {SubSeq(ts, 1, i) \o <<r>> \o SubSeq(ts, i + 1, Len(ts)) : i \in 0..Len(ts), r \in Repl}
  \cup {[ts EXCEPT ![i] = ts[i + 1], ![i + 1] = ts[i]] : i \in 1..(Len(ts) - 1)}
\* a quote character inside a replacement token would glue tokens together at text level: such mutants are kept
\* only when the odd quote is in the last token (unterminated literal at the end of the text)
QuoteSafe(ts) == \A i \in 1..Len(ts) : ts[i] # "'s" \/ i = Len(ts)
ExprVerdict(ts) == IF \E i \in 1..Len(ts) : ts[i] = "'s" THEN [v |-> "reject", why |-> "err:unterminated-literal"]
                   ELSE IF \E i \in 1..Len(ts) : ts[i] = "1e5" THEN [v |-> "reject", why |-> "err:number-exponent"]
                   ELSE [v |-> Verdict(ts), why |-> Why(ts)]
\* The prefix environment is an input of acceptance.  Environment A knows KnownPrefixes ("", p, q); environment B knows
\* "", zz and q.  Which prefixes an environment knows enters the verdict only through membership, so the verdict of ts
\* under B is the verdict under A of ts with the prefixes p and zz exchanged (v2).  The harness compiles every text under
\* A, then B, then A again in one process: the verdict may depend on the environment of THIS call only.
SwapTok(t) == IF ~IsNameTok(t) \/ ColonPos(t) = 0 THEN t
              ELSE IF PrefixOf(t) = "p" THEN "zz" \o SubSeq(t, ColonPos(t), Len(t))
              ELSE IF PrefixOf(t) = "zz" THEN "p" \o SubSeq(t, ColonPos(t), Len(t)) ELSE t
SwapPfx(ts) == [i \in 1..Len(ts) |-> SwapTok(ts[i])]
VecE(kind, ts) == LET r == ExprVerdict(ts) IN [kind |-> kind, lang |-> "expr", ts |-> ts, v |-> r.v, why |-> r.why, v2 |-> ExprVerdict(SwapPfx(ts)).v]
VecL(kind, ts) == [kind |-> kind, lang |-> "leafref", ts |-> ts, v |-> LeafrefVerdict(ts), why |-> "", v2 |-> LeafrefVerdict(SwapPfx(ts))]

LrefPool == {<<"/", "a">>, <<"/", "a", "/", "p:b">>, <<"..", "/", "a">>, <<"..", "/", "..", "/", "a", "/", "p:b">>,
             <<"/", "a", "[", "a", "=", "current", "(", ")", "/", "..", "/", "p:b", "]">>,
             <<"/", "a", "[", "a", "=", "current", "(", ")", "/", "..", "/", "..", "/", "a", "/", "p:b", "]", "/", "a">>,
             <<"..", "/", "a", "[", "p:b", "=", "current", "(", ")", "/", "..", "/", "a", "]", "/", "a">>,
             <<"/", "a", "[", "a", "=", "current", "(", ")", "/", "..", "/", "a", "]", "[", "p:b", "=", "current", "(", ")", "/", "..", "/", "a", "]", "/", "a">>}

\* character classes, one representative each (the harness substitutes the placeholders)
\* "~" non-ASCII name character, "`" invalid UTF-8 byte 0xFF, "^" vertical tab, "{" NUL, "}" no-break space, "\f" form feed
CharAlpha == <<"a", "d", "1", ".", "'", "\"", " ", ":", "*", "/", "(", ")", "[", "]", ",", "-", "=", "<", "!", "$", "@", "|", "~", "`", "e", "\f", "^", "{", "}", "\n", "%">>
RECURSIVE Concat(_)
Concat(s) == IF s = << >> THEN "" ELSE s[1] \o Concat(Tail(s))
CharStrings(firstc, maxlen) ==
  LET A == {CharAlpha[i] : i \in 1..Len(CharAlpha)}
  IN UNION {{firstc \o Concat(s) : s \in [1..n -> A]} : n \in 0..(maxlen - 1)}
LrefCharAlpha == <<"a", "b", "~", "/", ".", "[", "]", "=", ":", " ", "*", "1", "-", "`">>
LrefCharStrings(firstc, maxlen) ==
  LET A == {LrefCharAlpha[i] : i \in 1..Len(LrefCharAlpha)}
  IN UNION {{firstc \o Concat(s) : s \in [1..n -> A]} : n \in 0..(maxlen - 1)}
\* identifiers around the reserved 'xml' start, in every position of a path-arg a node-identifier can take
LrefNames == {h \o t : h \in XmlHeads, t \in {"", "a", "ns", "_1", "-x", ".y", "0"}}
             \cup {"xm", "xlm", "axml", "_xml", "x", "xm_l", "mxl", "lmx", "xXml", "XM", "xmL0", "x.ml"}
LrefNameToks == LrefNames \cup {"p:" \o n : n \in LrefNames} \cup {n \o ":a" : n \in LrefNames}
LrefNameSeqs == UNION {{<<"/", n>>, <<"..", "/", n>>, <<"/", n, "/", "a">>, <<"..", "/", "..", "/", "a", "/", n>>,
                        <<"/", "a", "[", n, "=", "current", "(", ")", "/", "..", "/", "b", "]", "/", "c">>,
                        <<"/", "a", "[", "k", "=", "current", "(", ")", "/", "..", "/", n, "]">>,
                        <<"/", "a", "[", "k", "=", "current", "(", ")", "/", "..", "/", n, "/", "b", "]", "/", n>>} : n \in LrefNameToks}
XmlCharAlpha == {"x", "m", "l", "X", "M", "a", ":", "/", "_"}
XmlCharStrings(maxlen) == UNION {{"/" \o Concat(s) : s \in [1..n -> XmlCharAlpha]} : n \in 1..maxlen}
VecLC(cs) == [kind |-> "chars", lang |-> "leafref", ts |-> <<cs>>, v |-> LeafrefCharVerdict(cs), why |-> "", v2 |-> ""]
VecC(cs) == LET r == CharVerdict(cs) IN [kind |-> "chars", lang |-> "expr", ts |-> <<cs>>, v |-> r.v, why |-> r.why, v2 |-> ""]
VARIABLES kind, first, chunk, done
Jobs == {<<"full", i, 0>> : i \in 1..Len(FullAlpha)} \cup {<<"core", i, 0>> : i \in 1..Len(CoreAlpha)} \cup {<<"tiny", i, 0>> : i \in 1..Len(TinyAlpha)}
        \cup {<<"mutant", f, c>> : f \in MutFams, c \in 1..NChunks} \cup {<<"lref", i, 0>> : i \in 1..Len(LrefAlpha)} \cup {<<"lref", 0, 0>>}
        \cup {<<"chars", i, 0>> : i \in 1..Len(CharAlpha)} \cup {<<"lchars", i, 0>> : i \in 1..Len(LrefCharAlpha)} \cup {<<"lref", 99, 0>>, <<"lchars", 99, 0>>}
GInit == \E j \in Jobs : kind = j[1] /\ first = j[2] /\ chunk = j[3] /\ kind \in Kinds /\ done = FALSE
File == "gvec_" \o kind \o "_" \o ToString(first) \o "_" \o ToString(chunk) \o ".ndjson"
\* the ASTs of a family that fall into this chunk (every MutEvery-th AST of the family is used)
ChunkAsts == LET S == SetToSeq(Family(first))
             IN {S[i] : i \in {j \in 1..Len(S) : j % MutEvery = 0 /\ (j \div MutEvery) % NChunks = chunk - 1}}
GNext == /\ ~done /\ done' = TRUE /\ UNCHANGED <<kind, first, chunk>>
         /\ CASE kind = "full" -> ndJsonSerialize(File, SetToSeq({VecE(kind, ts) : ts \in SeqsFrom(FullAlpha, FullAlpha[first], MaxFull)}))
              [] kind = "tiny" -> ndJsonSerialize(File, SetToSeq({VecE(kind, ts) : ts \in SeqsFrom(TinyAlpha, TinyAlpha[first], MaxTiny)}))
              [] kind = "core" -> ndJsonSerialize(File, SetToSeq({VecE(kind, ts) : ts \in SeqsFrom(CoreAlpha, CoreAlpha[first], MaxCore)}))
              [] kind = "mutant" -> ndJsonSerialize(File, SetToSeq({VecE(kind, m) : m \in {x \in UNION {Mutants(Toks(e, "min")) \cup {Toks(e, "min")} : e \in ChunkAsts} : QuoteSafe(x)}}))
                                    \* sanity of the spec itself: every rendered AST is a sentence of the language
                                    /\ Assert(\A e \in ChunkAsts : Verdict(Toks(e, "min")) # "reject" /\ Verdict(Toks(e, "full")) # "reject", "rendered AST rejected by the grammar spec")
              [] kind = "lchars" /\ first = 99 -> ndJsonSerialize(File, SetToSeq({VecLC(cs) : cs \in XmlCharStrings(MaxChars + 1)}))
              [] kind = "lchars" /\ first # 99 -> ndJsonSerialize(File, SetToSeq({VecLC(cs) : cs \in LrefCharStrings(LrefCharAlpha[first], MaxChars + 1)}))
              [] kind = "chars" -> ndJsonSerialize(File, SetToSeq({VecC(cs) : cs \in CharStrings(CharAlpha[first], MaxChars)}))
              [] kind = "lref" -> IF first = 99 THEN ndJsonSerialize(File, SetToSeq({VecL(kind, ts) : ts \in LrefNameSeqs}))
                                  ELSE IF first = 0
                                  THEN ndJsonSerialize(File, SetToSeq({VecL(kind, m) : m \in UNION {Mutants(p) \cup {p} : p \in LrefPool}}))
                                  ELSE ndJsonSerialize(File, SetToSeq({VecL(kind, ts) : ts \in SeqsFrom(LrefAlpha, LrefAlpha[first], MaxLref)}))
=============================================================================
