----------------------------- MODULE PrefixScopeGen -----------------------------
(* Generator (model -> code): instances of PrefixScope with what the meaning
   prescribes: the verdict, the statements an error may name, and for every
   statement the text of its argument and the namespace of each name test.  The
   import maps travel with the instance so that the driver can render the YANG.
   One initial state per (configuration, kind, place) - and one per configuration
   for the seeded multi-statement instances.                                   *)
EXTENDS PrefixScope, Json, SequencesExt
CONSTANTS NSample, NRand, NStack, NMut, NCtl, NSp
VARIABLES chunk, done
GChunks == UNION {UNION {{<<c, k, p>> : p \in Places(k)} : k \in Kinds} : c \in Cfgs} \cup {<<c, "multi", "multi">> : c \in Cfgs} \cup {<<c, "stack", "stack">> : c \in Cfgs} \cup {<<c, "mutated", "mutated">> : c \in Cfgs} \cup {<<c, "ctl", "ctl">> : c \in Cfgs}
MapsOf(c) == [m \in Units(c) |-> [own |-> Own(c, m), imports |-> SetToSeq(ImportsOf(c, m)), belongs |-> IF IsSub(m) THEN ModOf(m) ELSE ""]]
StmtOut(c, s) == [kind |-> s.kind, place |-> s.place, T |-> s.T, U |-> s.U, V |-> s.V, e |-> s.e, pf |-> s.pf, on |-> s.on, hp |-> s.hp, sp |-> s.sp,
                  text |-> SText(s), mut |-> s.mut, bad |-> Bad(c, s), loose |-> Loose(c, s), syntax |-> SyntaxOK(s),
                  names |-> Names(c, s), namedJudged |-> NamedJudged(s), observable |-> Observable(s)]
Vec(I) == [cfg |-> I.cfg, maps |-> MapsOf(I.cfg), stmts |-> [i \in 1..Len(I.stmts) |-> StmtOut(I.cfg, I.stmts[i])],
           verdict |-> Verdict(I), badStmts |-> SetToSeq(BadStmts(I))]
InstancesOf(ch) == IF ch[2] = "multi" THEN Multi(ch[1], NRand)
                   ELSE IF ch[2] = "stack" THEN Stacks(ch[1], NStack)
                   ELSE IF ch[2] = "mutated" THEN Mutated(ch[1], NMut) \cup (IF NSample = 0 THEN MutAll(ch[1]) ELSE MutBoundary(ch[1]))
                   \* control characters: seeded samples for every character and kind; thorough: one configuration exhaustively
                   ELSE IF ch[2] = "ctl" THEN Ctl(ch[1], NCtl) \cup (IF NSample = 0 /\ ch[1] = "swap" THEN CtlAll(ch[1]) ELSE {})
                   \* thorough: every statement with plain colons, and NSp seeded statements with blanks around the colons
                   ELSE IF NSample = 0 THEN Single(ch[1], ch[2], ch[3]) \cup {[cfg |-> ch[1], stmts |-> <<s>>] : s \in SpacedStmts(ch[1], ch[2], ch[3], NSp)}
                   ELSE {[cfg |-> ch[1], stmts |-> <<s>>] : s \in SampleStmts(ch[1], ch[2], ch[3], NSample)}
FileOf(ch) == "pvec_" \o ch[1] \o "_" \o ch[2] \o "_" \o ch[3] \o ".ndjson"
GInit == chunk \in GChunks /\ done = FALSE
GNext == /\ ~done /\ done' = TRUE /\ UNCHANGED chunk
         /\ ndJsonSerialize(FileOf(chunk), SetToSeq({Vec(I) : I \in InstancesOf(chunk)}))
=============================================================================
