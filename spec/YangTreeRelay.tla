---------------------------- MODULE YangTreeRelay ----------------------------
(* C10, repository-derived inputs: every given text (YANG files and snippets of
   the repository) is cut into the items of the intended lexer and put together
   again NVar times with other trivia: every separator is replaced by a random
   separator trivia, comments are dropped, random optional trivia is inserted at
   the other token boundaries (never inside a quoted string).  The re-laid-out
   texts go to the real parser; YangTreeTrace judges what it returns.             *)
EXTENDS YangTree, Json, SequencesExt
CONSTANTS InFile, NVar
VARIABLES done
Texts == ndJsonDeserialize(InFile)
RE(seq) == seq[RandomElement(1..Len(seq))]
E0 == << >>
\* separator trivia that keep two words apart whatever follows
SafeSep == SubSeq(TrivSep, 1, 6) \o SubSeq(TrivSep, 8, Len(TrivSep))
RECURSIVE Relaid(_, _, _, _)
Relaid(t, its, i, inq) ==
  IF i > Len(its) THEN << >>
  ELSE LET it == its[i] IN
       IF it.typ \in {"EOF", "Error"} THEN << >>
       ELSE IF it.typ = "Separator" THEN RE(SafeSep) \o Relaid(t, its, i + 1, inq)
       ELSE IF it.typ = "Quote" THEN (IF inq THEN << >> ELSE RE(TrivOpt)) \o Txt(t, it) \o Relaid(t, its, i + 1, ~inq)
       ELSE IF inq THEN Txt(t, it) \o Relaid(t, its, i + 1, inq)
       ELSE (IF it.typ = "String" /\ i > 1 /\ its[i - 1].typ = "String" THEN <<SP>>          \* two words a comment kept apart
             ELSE IF it.typ = "String" /\ i > 1 /\ its[i - 1].typ # "Separator" THEN RE(<<E0, <<LF>>, <<SP>>>>)
             ELSE IF it.typ = "String" THEN E0 ELSE RE(TrivOpt)) \o Txt(t, it) \o Relaid(t, its, i + 1, inq)
\* a word directly followed by a word cannot be pulled apart or pushed together: only texts whose items end in EOF are used
Usable(its) == its # << >> /\ its[Len(its)].typ = "EOF"
One(e, v) == LET its == LexAll(e.text, Intended) IN
             \* (entry: the way into the parser the text is to be handed to - any of YangChars!AllEntries; the driver gives a second
             \* Parse on the same Tree the original text as the one parsed before)
             [base |-> e.id, variant |-> v, entry |-> RE(AllEntries), text |-> IF Usable(its) THEN Relaid(e.text, its, 1, FALSE) \o RE(TrivEnd) ELSE e.text]
GInit == done = FALSE
GNext == /\ ~done /\ done' = TRUE
         /\ ndJsonSerialize("relay.ndjson", [k \in 1..(Len(Texts) * NVar) |-> One(Texts[1 + ((k - 1) \div NVar)], 1 + ((k - 1) % NVar))])
=============================================================================
