--------------------------- MODULE YangLexerTrace ---------------------------
(* C07, code -> model.  The harness runs parse.Parse with the lexer hooks on and
   logs per call: "init" (the text), "emit" (lexer goroutine, before each send:
   item type and extent in characters), "recv" (parser, after each receive; placed
   directly after the emit it completes), "exit" (the lexer's run has ended) and
   "ret" (what the caller saw: ok/err/panic/hang, root set, lexer goroutines left).
   Every event must be a step of the intended mechanism (YangLexerMC with
   EofIsTerminator and DrainOnAbort): the significant items (all but Separator) are
   the ones LStep produces on that text, Separator items are optional silent steps, an item nobody received is legal only as one discarded by a stopping
   parser, the lexer has ended when Parse returns, success follows EOF.  Where
   the code and RFC 6020 differ on token boundaries without any bearing on C07
   (flags wec, lce of YangLexer) either behaviour is accepted here; C10 judges
   those.  A run that deviates is reported once (FAILJSON) and skipped.          *)
EXTENDS YangLexer, Json, TLC
CONSTANT TraceFile, MaxFail
Trace == ndJsonDeserialize(TraceFile)

VARIABLES l, nfail, runs, inp, L, lastRecv, drained, bad,
          sep       \* separators: [floor: where the last significant item ended, pend: a Separator item sent and not yet received]
tvars == <<l, nfail, runs, inp, L, lastRecv, drained, bad, sep>>

FlagSets == {[eof |-> TRUE, wec |-> w, lce |-> c] : w \in BOOLEAN, c \in BOOLEAN}
Sep0 == [floor |-> 0, pend |-> NoItem]

(* What is compared is the lexer's stream of SIGNIFICANT items (everything but Separator): type, extent, order.
   Whether, and in how many pieces, a run of blanks travels over the channel is internal step granularity of the
   implementation, not part of C07: the model's own Separator items are skipped (NextSig), and a Separator item of
   the code is a silent step that only has to be a non-empty run of separator characters lying between the last
   significant item and the next one, after any earlier such item.  The k-th receive is written directly after the
   k-th emit (FIFO is all that is assumed of the channel: with a buffered channel the emits run ahead of the
   receives in time, the pairing is the same).                                                                     *)
RECURSIVE NextSig(_, _, _)
NextSig(M0, t, F) == LET M == RunToEmit(M0, t, F) IN
                     IF Blocked(M) /\ M.pend.typ = "Separator" THEN NextSig(Took(M), t, F) ELSE M

TInit == /\ l = 1 /\ nfail = 0 /\ runs = 0 /\ inp = << >> /\ L = L0
         /\ lastRecv = "none" /\ drained = FALSE /\ bad = FALSE /\ sep = Sep0

AddFail(f) == /\ nfail' = nfail + 1
              /\ (nfail >= MaxFail \/ PrintT("FAILJSON " \o ToJson(f)))
\* an item still pending was not received: a stopping parser discarded it
Base == IF Blocked(L) THEN Took(L) ELSE L
\* where the intended lexer stands (state function it is in, or the significant item it offers next)
Where == LET M == NextSig(Base, inp, Intended) IN
         IF Blocked(M) THEN "offers:" \o M.pend.typ ELSE M.fn
Failure(e, what) == [id |-> e.id, at |-> l, what |-> what, ev |-> e.ev, typ |-> e.typ, where |-> Where, depth |-> L.depth > 0]
Fail(e, what) == AddFail(Failure(e, what)) /\ bad' = TRUE /\ UNCHANGED <<inp, L, lastRecv, drained, runs, sep>>
Skip == UNCHANGED <<nfail, inp, L, lastRecv, drained, bad, runs, sep>>
Unreceived == Blocked(L) \/ sep.pend.typ # "none"

TReset == /\ Trace[l].ev = "init"
          /\ inp' = Trace[l].text /\ L' = L0 /\ lastRecv' = "none" /\ drained' = FALSE /\ bad' = FALSE /\ sep' = Sep0
          /\ runs' = runs + 1 /\ UNCHANGED nfail

\* a Separator item of the code: a silent step
SepOk(e) == LET nxt == {NextSig(Base, inp, F) : F \in FlagSets}
                lim == {IF Blocked(M) THEN M.pend.pos ELSE Len(inp) : M \in nxt} IN
            /\ e.pos >= sep.floor /\ e.pos < e.end /\ e.end <= Len(inp)
            /\ \A i \in (e.pos + 1)..e.end : IsSep(inp[i])
            /\ \E m \in lim : e.end <= m

TEmit == /\ Trace[l].ev = "emit"
         /\ IF bad THEN Skip
            ELSE LET e == Trace[l]
                     good == {M \in {NextSig(Base, inp, F) : F \in FlagSets} : Blocked(M) /\ M.pend = Item(e.typ, e.pos, e.end)}
                 IN IF L.fn = "done" THEN Fail(e, "emit-after-exit")
                    ELSE IF e.typ = "Separator"
                    THEN IF ~SepOk(e) THEN Fail(e, "separator-item-is-not-a-run-of-blanks-between-items")
                         ELSE /\ sep' = [floor |-> e.end, pend |-> Item(e.typ, e.pos, e.end)]
                              /\ drained' = (drained \/ Unreceived)
                              /\ L' = Base
                              /\ UNCHANGED <<nfail, inp, lastRecv, bad, runs>>
                    ELSE IF good = {} THEN Fail(e, "emit-not-the-item-of-the-model")
                    ELSE /\ L' = CHOOSE M \in good : TRUE
                         /\ drained' = (drained \/ Unreceived)
                         /\ sep' = [floor |-> e.end, pend |-> NoItem]
                         /\ UNCHANGED <<nfail, inp, lastRecv, bad, runs>>

TRecv == /\ Trace[l].ev = "recv"
         /\ IF bad THEN Skip
            ELSE LET e == Trace[l] IN
                 IF e.typ = "Separator"
                 THEN IF sep.pend # Item(e.typ, e.pos, e.end) THEN Fail(e, "recv-not-the-item-sent")
                      ELSE IF drained THEN Fail(e, "recv-after-stop")
                      ELSE sep' = [sep EXCEPT !.pend = NoItem] /\ UNCHANGED <<nfail, inp, L, lastRecv, drained, bad, runs>>
                 ELSE IF ~Blocked(L) \/ L.pend # Item(e.typ, e.pos, e.end) THEN Fail(e, "recv-not-the-item-sent")
                 ELSE IF drained THEN Fail(e, "recv-after-stop")
                 ELSE L' = Took(L) /\ lastRecv' = e.typ /\ UNCHANGED <<nfail, inp, drained, bad, runs, sep>>

TExit == /\ Trace[l].ev = "exit"
         /\ IF bad THEN Skip
            ELSE LET e == Trace[l]
                     good == {M \in {NextSig(Base, inp, F) : F \in FlagSets} : ~Blocked(M) /\ M.fn = "done"}
                 IN IF L.fn = "done" THEN Fail(e, "exit-twice")
                    ELSE IF good = {} THEN Fail(e, "exit-before-the-end")
                    ELSE /\ L' = CHOOSE M \in good : TRUE
                         /\ drained' = (drained \/ Unreceived)
                         /\ sep' = [sep EXCEPT !.pend = NoItem]
                         /\ UNCHANGED <<nfail, inp, lastRecv, bad, runs>>

TRet == /\ Trace[l].ev = "ret"
        /\ IF bad THEN Skip
           ELSE LET e == Trace[l]
                    what == CASE e.ret = "hang" -> "hang"
                              [] e.ret = "skipped" -> "none"          \* not executed (hang budget of the harness used up)
                              [] e.ret = "panic" -> "panic"
                              [] e.ret = "crash" -> "crash"           \* the process died (a panic outside Parse's recover)
                              [] L.fn # "done" \/ e.leak > 0 -> "lexer-running-at-return"
                              [] e.ret = "ok" /\ (lastRecv # "EOF" \/ drained) -> "ok-without-eof"
                              [] e.ret = "ok" /\ ~e.root -> "ok-without-root"
                              [] e.ret \notin {"ok", "err"} -> "unknown-return"
                              [] OTHER -> "none"
                IN IF what = "none" THEN Skip ELSE Fail(e, what)

TOther == /\ Trace[l].ev \notin {"init", "emit", "recv", "exit", "ret"}
          /\ IF bad THEN Skip ELSE Fail(Trace[l], "unexpected-event")

TNext == /\ l <= Len(Trace) /\ l' = l + 1
         /\ (TReset \/ TEmit \/ TRecv \/ TExit \/ TRet \/ TOther)
TSpec == TInit /\ [][TNext]_tvars

Consumed == l = Len(Trace) + 1
Report == Consumed => PrintT(<<"TRACE-RESULT", Len(Trace), runs, nfail>>)
=============================================================================
