INIT MCInit
NEXT MCNext
CONSTANT Shapes = {1, 2, 3, 4, 5, 6, 7, 8, 9}
INVARIANT Covers
INVARIANT Refines
INVARIANT Laws
INVARIANT Progress
INVARIANT Judged
CHECK_DEADLOCK FALSE
