INIT MCInit
NEXT MCNext
CONSTANTS
  Shapes = {7, 11, 14}
  MaxEntries = 2
  Wide = {}
  MaxLL = 2
  StateShapes = {}
  Odd = TRUE
  LRun = TRUE
  CacheAll = FALSE
INVARIANT CacheSound
CHECK_DEADLOCK FALSE
