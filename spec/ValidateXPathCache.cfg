SPECIFICATION MCSpec
CONSTANT Shapes = {7, 11}
CONSTANT MaxEntries = 2
CONSTANT Wide = {}
CONSTANT MaxLL = 2
CONSTANT StateShapes = {}
CONSTANT Odd = TRUE
CONSTANT LRun = TRUE
CONSTANT CacheAll = FALSE
INVARIANT CacheSound
CHECK_DEADLOCK FALSE
