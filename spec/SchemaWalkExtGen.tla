---------------------------- MODULE SchemaWalkExtGen ----------------------------
(* Behaviour generator for the Extensions hooks (model -> code).  Per module-set shape one
   vector: the module statements (rendered to YANG by the harness), the call sequence of every
   module (ModuleCalls) and the model set's call; for every (hook, argument) pair that can be
   refused, per module the position of the first refused call (0 = none) and whether the model
   set's call is refused; for every replacement expression ExtendMust may return, the must
   expressions each node ends up with.  The harness compiles with a recording Extensions
   (wrapping / identity / refusing / must-replacing) and compares.
   Family "F": module sets of the C12 / C14 input families (YangSchemaSets) whose verdict is
   "ok" and that use no if-feature, deviation or submodule, sampled with RandomElement (-seed).        *)
EXTENDS SchemaWalkExt, Json, SequencesExt
CONSTANTS Shapes, NFam
VARIABLES shape, done
RECURSIVE MustNodes(_, _, _)
MustNodes(stmts, path, ext) ==
  UNION {LET s == stmts[i]  p == path \o <<s.arg[1]>> IN
         (IF s.kw \in {"container", "list", "leaf", "leaf-list"} /\ Has(s, "must")
          THEN {[path |-> p, texts |-> [k \in 1..Len(Sub(s, "must")) |-> MustText(Sub(s, "must")[k].arg[1], ext)]]} ELSE {})
         \cup MustNodes(s.subs, p, ext)
         : i \in {j \in 1..Len(stmts) : stmts[j].kw \in NodeKw}}
FirstRefused(fail, cs) == LET R == {i \in 1..Len(cs) : Refused(fail, cs[i])} IN IF R = {} THEN 0 ELSE CHOOSE i \in R : \A j \in R : i <= j
Vec(id, M) ==
  LET T  == Expanded(M)
      ms == SetToSeq(ModIdx(T))
      fs == {[hook |-> c.hook, arg |-> c.arg] : c \in BagToSet(CallBag(T))}
  IN [id |-> id, mods |-> M,
      calls |-> [k \in 1..Len(ms) |-> [mod |-> T[ms[k]].arg[1], seq |-> ModuleCalls(T, T[ms[k]])]],
      setcall |-> SetCall(T),
      fails |-> SetToSeq({[fail |-> f, at |-> [k \in 1..Len(ms) |-> [mod |-> T[ms[k]].arg[1], n |-> FirstRefused(f, ModuleCalls(T, T[ms[k]]))]],
                           set |-> Refused(f, SetCall(T))] : f \in fs}),
      musts |-> [e \in 1..2 |-> LET ext == IF e = 1 THEN "true()" ELSE "1 +" IN
                  [ext |-> ext, nodes |-> SetToSeq(UNION {MustNodes(T[i].subs, <<MLabel(T[i])>>, ext) : i \in ModIdx(T)})]]]
\* sampled cases of the C12 / C14 families: plain module sets (no features, deviations, submodules), verdict ok
Plain(c) == /\ \A i \in 1..Len(c.m) : c.m[i].kw = "module" /\ ~DeepHas(c.m[i], "deviation") /\ ~DeepHas(c.m[i], "if-feature") /\ ~DeepHas(c.m[i], "include")
FamCases(name, n) ==
  LET S == {c \in Family(name) : Plain(c)} IN
  IF S = {} THEN {} ELSE {RandomElement(S) : k \in 1..n}
FamNames == <<"F1", "F2", "F5", "F6", "F12">>
GInit == shape \in Shapes /\ done = FALSE
GNext == /\ ~done /\ done' = TRUE /\ UNCHANGED shape
         /\ IF shape >= 100
            THEN LET cs == {c \in FamCases(FamNames[shape - 99], NFam) : Analyse(c.m, c.e).verdict = "ok"}
                     q  == SetToSeq(cs) IN
                 ndJsonSerialize("sxv_" \o ToString(shape) \o ".ndjson", [k \in 1..Len(q) |-> Vec(shape * 1000 + k, q[k].m)])
            ELSE ndJsonSerialize("sxv_" \o ToString(shape) \o ".ndjson", <<Vec(shape, ExtShape(shape))>>)
=============================================================================
