---------------------------- MODULE SchemaWalkTrace ----------------------------
(* Trace validation for FindOrWalk (code -> model).  The harness compiles TLC-sampled
   schemas (and the shapes), runs seeded queries through ModelSet.FindOrWalk and logs one
   event per call of FindOrWalk:
     [sid, q, o]   o = [calls, found, node, ok, ret]: the calls of the action function in
                   order (name, kind, path, par as the action saw them), whether a node came
                   back and which, the success flag, the returned slice
   JudgeWalk drives the work-list machine of SchemaWalk with the observed calls: every call
   must be a Visit the machine can do next (any remaining child of the innermost unfinished
   frame), with exactly the arguments CallOf prescribes; the walk must have ended where the
   machine ends; the result must be the machine's outcome.  A deviating event is reported
   (FAILJSON) with the reason in specification terms.                            *)
EXTENDS SchemaWalk, Json
CONSTANTS TraceFile, SchemaFile, MaxFail
Trace   == ndJsonDeserialize(TraceFile)
Schemas == ndJsonDeserialize(SchemaFile)
SchemaOf(sid) == Schemas[CHOOSE i \in 1..Len(Schemas) : Schemas[i].id = sid].kids

VARIABLES l, nfail
TInit == l = 1 /\ nfail = 0
TStep == /\ l <= Len(Trace) /\ l' = l + 1
         /\ LET e == Trace[l]
                v == JudgeWalk(SchemaOf(e.sid), e.q, e.o) IN
            IF v = "" THEN UNCHANGED nfail
            ELSE /\ nfail' = nfail + 1
                 /\ (nfail >= MaxFail \/ PrintT("FAILJSON " \o ToJson([sid |-> e.sid, q |-> e.q, why |-> v, o |-> e.o])))
Consumed == l = Len(Trace) + 1
Report == Consumed => PrintT(<<"TRACE-RESULT", Len(Trace), nfail>>)
=============================================================================
