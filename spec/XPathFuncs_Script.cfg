SPECIFICATION SSpec
CONSTANT MaxSteps = 99
CONSTANT MaxGen = 99
CONSTANT MaxMachs = 99
CONSTANT Emit = TRUE
INVARIANT CoreKept
INVARIANT Gate
INVARIANT OnlyValidNames
INVARIANT StampInv
INVARIANT EmitScript
CHECK_DEADLOCK FALSE
