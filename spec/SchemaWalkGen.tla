----------------------------- MODULE SchemaWalkGen -----------------------------
(* Behaviour generator for FindOrWalk (model -> code).  Per shape: the schema records
   (rendered to YANG by the harness, compiled by the real compiler) and, for every query,
   the complete set of behaviours the specification allows (one per sibling order that
   makes a difference): call sequence, node returned, success flag, returned slice.  The
   harness runs each query several times (Go's map order changes between calls) and every
   observation has to be a member of the set.
   Shape 100: NRand schemas sampled with RandomElement (-seed), written without
   expectations: the harness walks them with seeded queries and SchemaWalkTrace judges
   the recorded observations with the work-list machine.                        *)
EXTENDS SchemaWalk, SchemaRand, Json, SequencesExt
CONSTANTS Shapes, NRand, RandDepth
VARIABLES shape, done

Sfx(n) == ToString(n) \o ".ndjson"
Vec(sch, qq) == [q |-> qq, behs |-> SetToSeq(Behaviours(sch, qq))]
RECURSIVE RandSchemas(_)
RandSchemas(n) == IF n = 0 THEN << >> ELSE RandSchemas(n - 1) \o <<[id |-> 1000 + n, kids |-> RandSchema(RandDepth, "path")]>>

GInit == shape \in Shapes /\ done = FALSE
GNext == /\ ~done /\ done' = TRUE /\ UNCHANGED shape
         /\ IF shape = 100
            THEN ndJsonSerialize("swrand.ndjson", RandSchemas(NRand))
            ELSE LET sch == WalkShape(shape) IN
                 /\ ndJsonSerialize("sws_" \o Sfx(shape), <<[id |-> shape, kids |-> sch]>>)
                 /\ ndJsonSerialize("swv_" \o Sfx(shape), SetToSeq({Vec(sch, qq) : qq \in Queries(sch)}))
=============================================================================
