INIT MCInit
NEXT MCNext
CONSTANT Fams = {4, 11, 14}
CONSTANT NChunks = 12
INVARIANT ListingIsPaths
INVARIANT LeakIsOnlyNames
INVARIANT IntentCorrect
INVARIANT StackBalanced
INVARIANT ForkAsDescribed
INVARIANT ForkVsMeaning
INVARIANT ValueXorError
INVARIANT NoRunError
CHECK_DEADLOCK FALSE
