------------------------------- MODULE YangTree -------------------------------
(* C10: statement trees, their layouts as YANG text, and the reading of a text
   back into a tree.

   A tree node is [kw, hasArg, arg, subs, raw]; kw and arg are texts (YangChars);
   raw, if not empty, gives the argument in a fixed source form instead (RawNode).
   Lay... renders a tree: the trivia placed at every token boundary and the
   quoting form of every argument are chosen by the picks P (boundary number ->
   menu index) and Q (argument number -> form), and the rendering returns the text
   together with the tree annotated with what a reader must find: decoded argument,
   line (from 1) and byte column (from 0) of each keyword - in the text as a whole,
   whatever it starts with (LayoutFrom: a byte order mark).

   ParseText reads a text with the intended lexer (YangLexer!LexAll) and the
   statement grammar of RFC 6020 section 6.3:
       statement = keyword [argument] (";" / "{" *statement "}")
       argument  = unquoted string / quoted string *("+" quoted string)
   decoding arguments with YangString.  TLC checks on every generated layout that
   ParseText inverts the rendering (YangTreeGen).                                  *)
EXTENDS YangLexer, YangString, TLC

Node(kw, hasArg, arg, subs) == [kw |-> kw, hasArg |-> hasArg, arg |-> IF hasArg THEN arg ELSE << >>, subs |-> subs, raw |-> << >>]
\* a statement whose argument is given in its source form (pieces as in YangString!RenderArg): what it stands for
\* depends on where the rendering puts its opening quotes - the value is that of its own source form at its own place
RawNode(kw, pieces, subs) == [kw |-> kw, hasArg |-> TRUE, arg |-> << >>, subs |-> subs, raw |-> pieces]
IsRaw(n) == n.raw # << >>

\* ------------------------------------------------------------------ reading
Typ(its, i) == IF i <= Len(its) THEN its[i].typ ELSE "END"
RECURSIVE SkipSep(_, _)
SkipSep(its, i) == IF Typ(its, i) = "Separator" THEN SkipSep(its, i + 1) ELSE i
Txt(t, it) == SubSeq(t, it.pos + 1, it.end)
NoLF(s) == \A i \in 1..Len(s) : s[i] # LF

PFail == [ok |-> FALSE, val |-> << >>, judged |-> TRUE, next |-> 0]
\* Quote String Quote
ParseQuoted(its, t, i) ==
  IF Typ(its, i) = "Quote" /\ Typ(its, i + 1) = "String" /\ Typ(its, i + 2) = "Quote"
  THEN LET src == Txt(t, its[i + 1])  e == its[i].end IN
       IF t[e] = SQ THEN [ok |-> TRUE, val |-> src, judged |-> TRUE, next |-> i + 3]
       ELSE LET qc == WidthBack(t, e) IN
            [ok |-> TRUE, val |-> DecodeDQ(src, qc), judged |-> JudgedDQ(src, qc), next |-> i + 3]
  ELSE PFail
RECURSIVE ParseConcat(_, _, _, _, _)
ParseConcat(its, t, i, val, j) ==
  LET k == SkipSep(its, i) IN
  IF Typ(its, k) = "Plus"
  THEN LET q == ParseQuoted(its, t, SkipSep(its, k + 1)) IN
       IF q.ok THEN ParseConcat(its, t, q.next, val \o q.val, j /\ q.judged) ELSE PFail
  ELSE [ok |-> TRUE, val |-> val, judged |-> j, next |-> i]

SFail == [ok |-> FALSE, tree |-> << >>, next |-> 0]
RECURSIVE ParseStmt(_, _, _), ParseStmts(_, _, _, _)
ParseStmt(its, t, i0) ==
  LET i == SkipSep(its, i0) IN
  IF Typ(its, i) # "String" THEN SFail
  ELSE LET kw0 == Txt(t, its[i])
           \* a byte order mark at the very start of the text: RFC 6020 does not say whether it belongs to the first word;
           \* the keyword is read without it, kwAlt is the other acceptable reading (everywhere else kwAlt = kw)
           bomKw == its[i].pos = 0 /\ Len(kw0) > 1 /\ kw0[1] = BOM
           kwi == its[i].pos + 1 + (IF bomKw THEN 1 ELSE 0)
           j == SkipSep(its, i + 1)
           a == IF Typ(its, j) = "String" THEN [ok |-> TRUE, val |-> Txt(t, its[j]), judged |-> TRUE, next |-> j + 1, has |-> TRUE]
                ELSE IF Typ(its, j) = "Quote"
                THEN LET q == ParseQuoted(its, t, j) IN
                     IF q.ok THEN [has |-> TRUE] @@ ParseConcat(its, t, q.next, q.val, q.judged) ELSE [has |-> TRUE] @@ PFail
                ELSE [ok |-> TRUE, val |-> << >>, judged |-> TRUE, next |-> i + 1, has |-> FALSE]
       IN IF ~a.ok THEN SFail
          ELSE LET k == SkipSep(its, a.next)
                   mk(subs) == [kw |-> IF bomKw THEN Tail(kw0) ELSE kw0, kwAlt |-> kw0, hasArg |-> a.has, arg |-> a.val, argJ |-> a.judged,
                                line |-> LineOf(t, kwi), col |-> ColOf(t, kwi), colJ |-> AsciiBack(t, kwi - 1), subs |-> subs]
               IN IF Typ(its, k) = "SemiColon" THEN [ok |-> TRUE, tree |-> mk(<< >>), next |-> k + 1]
                  ELSE IF Typ(its, k) = "LBrace"
                  THEN LET b == ParseStmts(its, t, k + 1, << >>) IN
                       IF b.ok THEN [ok |-> TRUE, tree |-> mk(b.tree), next |-> b.next] ELSE SFail
                  ELSE SFail
ParseStmts(its, t, i0, acc) ==
  LET i == SkipSep(its, i0) IN
  IF Typ(its, i) = "RBrace" THEN [ok |-> TRUE, tree |-> acc, next |-> i + 1]
  ELSE LET s == ParseStmt(its, t, i) IN
       IF s.ok THEN ParseStmts(its, t, s.next, Append(acc, s.tree)) ELSE SFail
\* a text is one statement followed by the end of the text
ParseItems(its, t) ==
  LET s == ParseStmt(its, t, 1) IN
  IF s.ok /\ Typ(its, SkipSep(its, s.next)) = "EOF" THEN s ELSE SFail
ParseText(t) == ParseItems(LexAll(t, Intended), t)
\* an unquoted word directly followed by a comment (RFC 6020 6.1.3: the word ends there)
WordThenComment(its, t) ==
  \E i \in 1..Len(its) : /\ its[i].typ = "String" /\ (i = 1 \/ its[i - 1].typ # "Quote")
                         /\ At(t, its[i].end + 1) = SLASH /\ At(t, its[i].end + 2) \in {SLASH, STAR}

\* ---------------------------------------------------------------- rendering
C(s) == S2C(s)
\* (the comment bodies BlockBodies / LineBodies and CmtBlock / CmtLine are defined in YangString)
Blanks == << <<SP>>, <<TAB>>, <<LF>>, <<CR, LF>>, C("   "), <<LF>> \o C("    ") >>
\* trivia where separation is required (keyword -> argument): blanks, and comments with a blank on either side
\* (entry 7 has the comment directly after the word: RFC 6020 ends the word there)
TrivSep == Blanks \o << C("/* c */ ") >> \o [i \in 1..Len(BlockBodies) |-> <<SP>> \o CmtBlock(BlockBodies[i]) \o <<SP>>]
           \o [i \in 1..Len(LineBodies) |-> <<SP>> \o CmtLine(LineBodies[i])] \o << <<LF>> \o C("// x") \o <<LF, TAB>> >>
\* trivia where none is required
TrivOpt == << << >> >> \o Blanks \o << <<LF, LF>> \o C("      ") >> \o [i \in 1..Len(BlockBodies) |-> CmtBlock(BlockBodies[i])]
           \o [i \in 1..Len(LineBodies) |-> CmtLine(LineBodies[i])] \o << C(" /* c */ "), C(" // c") \o <<LF>> >>
\* after the last token a // comment may also end with the text
TrivEnd == TrivOpt \o [i \in 1..Len(LineBodies) |-> C("//") \o LineBodies[i]]
Pick(menu, P, b) == menu[1 + (P[1 + ((b - 1) % Len(P))] % Len(menu))]

\* quoting forms of a value
\* (HasCh, HasPair, EscDQ: YangString)
UnqOK(v) == /\ Len(v) > 0 /\ v[1] # PLUS
            /\ \A i \in 1..Len(v) : ~IsSep(v[i]) /\ v[i] \notin {DQ, SQ, SEMI, LBR, RBR}
            /\ ~HasPair(v, SLASH, SLASH) /\ ~HasPair(v, SLASH, STAR) /\ ~HasPair(v, STAR, SLASH)
Dq(v) == [q |-> "d", src |-> EscDQ(v, 1)]
Sq(v) == IF HasCh(v, SQ) THEN Dq(v) ELSE [q |-> "s", src |-> v]
Uq(v) == IF UnqOK(v) THEN [q |-> "u", src |-> v] ELSE Dq(v)
Pieces(v, form) ==
  LET h == Len(v) \div 2  l == SubSeq(v, 1, h)  r == SubSeq(v, h + 1, Len(v)) IN
  CASE form % 6 = 0 -> <<Uq(v)>>
    [] form % 6 = 1 -> <<Dq(v)>>
    [] form % 6 = 2 -> <<Sq(v)>>
    [] form % 6 = 3 -> <<Dq(l), Sq(r)>>
    [] form % 6 = 4 -> <<Sq(l), Dq(r)>>
    [] OTHER -> <<Dq(<< >>), Dq(l), Dq(r)>>

\* boundaries used by one statement: b (before the keyword), b+1 (keyword -> argument), b+2 .. b+5 (around the + of
\* up to two joins), b+6 (before ; or {), b+7 (";" or an empty block "{}"), b+8 (before }).  Q is indexed by the same b.
\* `used` lists the boundaries the rendering consulted: <<slot, "o" | "s" | "c">> (optional trivia, separator, choice).
Slots == 9
RECURSIVE LayStmt(_, _, _, _, _), LaySubs(_, _, _, _, _, _, _)
LayStmt(P, Q, tx, b, n) ==
  LET t1 == tx \o Pick(TrivOpt, P, b)
      kwi == Len(t1) + 1
      t2 == t1 \o n.kw
      ps == IF IsRaw(n) THEN n.raw ELSE Pieces(n.arg, Q[1 + ((b - 1) % Len(Q))])
      r == IF n.hasArg
           THEN RenderArg(t2 \o Pick(TrivSep, P, b + 1), ps,
                          [k \in 1..(Len(ps) - 1) |-> Pick(TrivOpt, P, b + 2 * k) \o <<PLUS>> \o Pick(TrivOpt, P, b + 2 * k + 1)])
           ELSE [text |-> t2, value |-> << >>, judged |-> TRUE]
      t3 == r.text \o Pick(TrivOpt, P, b + 6)
      ann(subs) == [kw |-> n.kw, kwAlt |-> IF t1 = <<BOM>> THEN <<BOM>> \o n.kw ELSE n.kw, hasArg |-> n.hasArg, arg |-> r.value, argJ |-> r.judged,
                    line |-> LineOf(t1, kwi), col |-> ColOf(t1, kwi), colJ |-> AsciiBack(t1, kwi - 1), subs |-> subs]
      u1 == <<<<b, "o">>>> \o (IF n.hasArg THEN <<<<b + 1, "s">>>> \o [k \in 1..(2 * (Len(ps) - 1)) |-> <<b + 1 + k, "o">>] ELSE << >>) \o <<<<b + 6, "o">>>>
      block == P[1 + ((b + 6) % Len(P))] % 5 = 4
  IN IF n.subs = << >>
     THEN IF block
          THEN [text |-> t3 \o <<LBR>> \o Pick(TrivOpt, P, b + 8) \o <<RBR>>, tree |-> ann(<< >>), b |-> b + Slots, used |-> u1 \o <<<<b + 7, "c">>, <<b + 8, "o">>>>]
          ELSE [text |-> t3 \o <<SEMI>>, tree |-> ann(<< >>), b |-> b + Slots, used |-> Append(u1, <<b + 7, "c">>)]
     ELSE LET s == LaySubs(P, Q, Append(t3, LBR), b + Slots, n.subs, << >>, Append(u1, <<b + 8, "o">>)) IN
          [text |-> s.text \o Pick(TrivOpt, P, b + 8) \o <<RBR>>, tree |-> ann(s.tree), b |-> s.b, used |-> s.used]
LaySubs(P, Q, tx, b, subs, acc, used) ==
  IF subs = << >> THEN [text |-> tx, tree |-> acc, b |-> b, used |-> used]
  ELSE LET s == LayStmt(P, Q, tx, b, subs[1]) IN LaySubs(P, Q, s.text, s.b, Tail(subs), Append(acc, s.tree), used \o s.used)
\* the whole text: the statement, then trailing trivia chosen by `last`
\* (pre: what the text starts with - nothing, or a byte order mark; every position refers to the whole text, pre included)
LayoutFrom(pre, P, Q, n, last) == LET s == LayStmt(P, Q, pre, 1, n) IN
  [text |-> s.text \o TrivEnd[1 + (last % Len(TrivEnd))], tree |-> s.tree, nb |-> s.b - 1, used |-> s.used]
Layout(P, Q, n, last) == LayoutFrom(<< >>, P, Q, n, last)

\* a value the renderings stand for: every judged argument decodes to the source argument
RECURSIVE ArgsKept(_, _)
ArgsKept(src, ann) == /\ (ann.argJ /\ ~IsRaw(src) => ann.arg = src.arg) /\ ann.kw = src.kw /\ Len(ann.subs) = Len(src.subs)
                      /\ \A i \in 1..Len(src.subs) : ArgsKept(src.subs[i], ann.subs[i])
RECURSIVE HasRaw(_)
HasRaw(n) == IsRaw(n) \/ \E i \in 1..Len(n.subs) : HasRaw(n.subs[i])
RECURSIVE AllJudged(_)
AllJudged(ann) == ann.argJ /\ \A i \in 1..Len(ann.subs) : AllJudged(ann.subs[i])
=============================================================================
