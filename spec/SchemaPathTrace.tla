--------------------------- MODULE SchemaPathTrace ---------------------------
(* Trace validation for C17 (code -> model).  The harness walks schemas (sampled by
   TLC, SchemaPathGen shape 100, and the enumerated shapes) with seeded random
   paths - valid prefixes, one-token corruptions, over-long tails, longer than the
   enumerated ones - calls ModelSet.Validate and logs one event per call:
     [sid, p, inc, ok, at, tok]   (at / tok decoded from the structured error).
   Every event must be what the recursive definition prescribes for that schema:
   same verdict, and for a rejection the same offending position and that token.
   A deviating event is reported (FAILJSON) and validation continues.           *)
EXTENDS SchemaPath, Json, TLC
CONSTANTS TraceFile, SchemaFile, MaxFail
Trace   == ndJsonDeserialize(TraceFile)
Schemas == ndJsonDeserialize(SchemaFile)
SchemaOf(sid) == Schemas[CHOOSE i \in 1..Len(Schemas) : Schemas[i].id = sid].kids

VARIABLES l, nfail
TInit == l = 1 /\ nfail = 0
Judge(e) ==
  LET sch  == SchemaOf(e.sid)
      want == Rec(sch, e.p, e.inc)
      good == /\ want.ok = e.ok
              /\ ~want.ok => /\ e.at = want.at
                             /\ want.at <= Len(e.p) => e.tok = e.p[want.at]
  IN IF good THEN [good |-> TRUE]
     ELSE [good |-> FALSE, sid |-> e.sid, p |-> e.p, inc |-> e.inc, wantok |-> want.ok, wantat |-> want.at,
           gotok |-> e.ok, gotat |-> e.at, gottok |-> e.tok, err |-> e.err,
           ph |-> IF want.ok THEN "end:" \o Run(sch, e.p).ph ELSE PhaseBefore(sch, e.p, want.at)]
TStep == /\ l <= Len(Trace) /\ l' = l + 1
         /\ LET j == Judge(Trace[l]) IN
            IF j.good THEN UNCHANGED nfail
            ELSE /\ nfail' = nfail + 1
                 /\ (nfail >= MaxFail \/ PrintT("FAILJSON " \o ToJson(j)))
Consumed == l = Len(Trace) + 1
Report == Consumed => PrintT(<<"TRACE-RESULT", Len(Trace), nfail>>)
=============================================================================
