--------------------------- MODULE SchemaPathTrace ---------------------------
(* Trace validation for C17 (code -> model).  The harness walks schemas (sampled by
   TLC, SchemaPathGen shape 100, and the enumerated shapes) with seeded random
   paths - valid prefixes, one-token corruptions, over-long tails, longer than the
   enumerated ones - calls ModelSet.Validate and logs one event per call:
     [sid, p, inc, ok, form, epath, tok, mv]   (type class, decoded Path and info tag of the error).
   Every event must be what the recursive definition prescribes for that schema:
   same verdict, and for a rejection the same offending position and that token.
   A deviating event is reported (FAILJSON) and validation continues; an event for which
   the definition prescribes no verdict (Unj) is counted and passes.             *)
EXTENDS SchemaPath, Json, TLC
CONSTANTS TraceFile, SchemaFile, MaxFail
Trace   == ndJsonDeserialize(TraceFile)
Schemas == ndJsonDeserialize(SchemaFile)
SchemaOf(sid) == Schemas[CHOOSE i \in 1..Len(Schemas) : Schemas[i].id = sid].kids

VARIABLES l, nfail, nunj
TInit == l = 1 /\ nfail = 0 /\ nunj = 0
\* Does the structured error identify element `at` of the input (Len+1 = something is missing
\* after the end)?  Only the error's type and fields count (decoded Path `epath`, info tag `tok`),
\* not its wording:
\*   unknown  (unknown-element error)  epath = the elements before `at`, info tag = that element
\*   missing  (missing-element error)  epath = the whole input
\*   value    (invalid-value error)    epath ends with the offending value; when epath is the whole
\*            input it may also say that a value is missing after it (same type, same fields) -
\*            unless the optional refinement mv holds (the message is the one of the code's own
\*            missing-value constructor), then it says exactly that
Identifies(e, at) ==
  LET L == Len(e.epath) n == Len(e.p) IN
  /\ L <= n /\ e.epath = SubSeq(e.p, 1, L)
  /\ CASE e.form = "unknown" -> at = L + 1 /\ L < n /\ e.tok = e.p[L + 1]
        [] e.form = "missing" -> at = L + 1 /\ L = n
        [] e.form = "value"   -> IF L = n /\ e.mv THEN at = L + 1
                                 ELSE (at = L /\ L > 0) \/ (at = L + 1 /\ L = n)
        [] OTHER -> FALSE
\* the position the error names, for the report (0 = none)
GotAt(e) == IF e.ok THEN 0 ELSE IF \E a \in 1..(Len(e.p) + 1) : Identifies(e, a)
            THEN CHOOSE a \in 1..(Len(e.p) + 1) : Identifies(e, a) /\ \A b \in 1..(a - 1) : ~Identifies(e, b) ELSE 0
Judge(e) ==
  LET sch  == SchemaOf(e.sid)
      want == Rec(sch, e.p, e.inc)
      good == /\ want.ok = e.ok
              /\ ~want.ok => Identifies(e, want.at)
  IN IF want.at = -1 THEN [good |-> TRUE, unj |-> TRUE]      \* no verdict prescribed (past the first key of a multi-key list)
     ELSE IF good THEN [good |-> TRUE, unj |-> FALSE]
     ELSE [good |-> FALSE, sid |-> e.sid, p |-> e.p, inc |-> e.inc, wantok |-> want.ok, wantat |-> want.at,
           gotok |-> e.ok, gotat |-> GotAt(e), gottok |-> e.tok, form |-> e.form, epath |-> e.epath,
           ph |-> IF want.ok THEN "end:" \o Run(sch, e.p).ph ELSE PhaseBefore(sch, e.p, want.at)]
TStep == /\ l <= Len(Trace) /\ l' = l + 1
         /\ LET j == Judge(Trace[l]) IN
            IF j.good THEN UNCHANGED nfail /\ nunj' = nunj + (IF j.unj THEN 1 ELSE 0)
            ELSE /\ nfail' = nfail + 1 /\ UNCHANGED nunj
                 /\ (nfail >= MaxFail \/ PrintT("FAILJSON " \o ToJson(j)))
Consumed == l = Len(Trace) + 1
Report == Consumed => PrintT(<<"TRACE-RESULT", Len(Trace), nfail>>) /\ PrintT(<<"TRACE-UNJUDGED", nunj>>)
=============================================================================
