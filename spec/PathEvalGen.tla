----------------------------- MODULE PathEvalGen -----------------------------
(* Behaviour generator (model -> code).  For every AST of a family one vector: the rendered
   expression (and two other renderings), the listing the grammar prescribes (prog), the listing with
   the fork's name leak F1 (progFork), whether the fork's grammar rejects it (F2), the tested paths,
   the behaviours (state after each instruction) of the fork's machine on both kinds of context,
   the outcome the meaning prescribes on the schema tree for two context nodes, and what compile.go
   makes of a when / must with this expression on each kind of holder node (intended and fork).   *)
EXTENDS PathEval, XPathSets, Json
CONSTANTS Fams, NRand, RandKind, NChunks
VARIABLES fam, chunk, done

StOut(s) == [ps |-> s.ps, nilps |-> s.nilps, nds |-> Len(s.ds), err |-> s.err, hasRes |-> s.hasRes, res |-> s.hasRes /\ s.res]
BehOut(prog, kind) == LET b == PEBehaviour(prog, PEInit(kind), "fork", << >>) IN [i \in 1..Len(b) |-> StOut(b[i])]
\* holder nodes of the compile.go stage: name, context node of the statement, non-presence class
Holders == <<[h |-> "leaf", ctx |-> <<"a", "b", "c">>, npc |-> "no"],
             [h |-> "np", ctx |-> <<"a", "b">>, npc |-> "np"],
             [h |-> "pres", ctx |-> <<"a", "b">>, npc |-> "no"],
             [h |-> "npdef", ctx |-> <<"a", "b">>, npc |-> "no"],
             [h |-> "npchild", ctx |-> <<"a", "b">>, npc |-> "npchild"]>>
NInvalid(e, ctx) == LET P == PathsOf(e)  m == MeaningOutcome(e, ctx) IN
                    Cardinality({i \in 1..m.ntested : ~ValidPath(P[i], ctx)})
UV(u) == <<IF u.error THEN 1 ELSE 0, u.compilerError, u.configdError, u.badFields, u.invalidPath, u.onNPCont, u.onNPContNPChild>>
UseOut(e) == [i \in 1..(2 * Len(Holders)) |->
               LET H == Holders[((i - 1) \div 2) + 1]  stmt == IF i % 2 = 1 THEN "when" ELSE "must" IN
               [h |-> H.h, stmt |-> stmt,
                i |-> UV(UseOutcome(stmt, TRUE, TRUE, H.npc, NInvalid(e, H.ctx))),          \* the meaning
                f |-> UV(UseOutcome(stmt, TRUE, ~ForkRejects(e), H.npc, 0)),               \* F2 and F3
                g |-> UV(UseOutcome(stmt, TRUE, TRUE, H.npc, 0))]]                          \* F3 alone (the grammar accepts, nothing is validated)
Vec(e, f) ==
  LET pf == PathEvalCompileFork(e) IN
  [fam |-> f,
   expr |-> Render(e, "min", 0),
   variants |-> <<Render(e, "full", 0), Render(e, "min", 2)>>,
   prog |-> PathEvalCompile(e), progFork |-> pf, rejects |-> ForkRejects(e), hasPreds |-> HasPreds(e),
   behCur |-> BehOut(pf, "cur"), behCurI |-> BehOut(PathEvalCompile(e), "cur"),
   forkMach |-> ForkOutcome(e, "mach"),
   meanB |-> MeaningOutcome(e, <<"a", "b">>), meanC |-> MeaningOutcome(e, <<"a", "b", "c">>),
   use |-> UseOut(e)]
GInit == fam \in Fams /\ chunk \in 0..(NChunks - 1) /\ done = FALSE
GNext == /\ ~done /\ done' = TRUE /\ UNCHANGED <<fam, chunk>>
         /\ LET S == IF fam = 100 THEN (IF chunk = 0 THEN RandFamily(RandKind, NRand) ELSE {}) ELSE Chunk(Family(fam), chunk, NChunks)
            IN S = {} \/ ndJsonSerialize("pvec_" \o ToString(fam) \o "_" \o ToString(chunk) \o ".ndjson", SetToSeq({Vec(e, fam) : e \in S}))
=============================================================================
