--------------------------- MODULE YangTypesTrace ---------------------------
(* Trace validation (code -> model).  The harness renders a chain to a YANG
   module, compiles it with the real compiler and validates lexemes with
   Type().Validate; it logs one event per chain: the chain, the compile verdict,
   Default(), and per lexeme the verdict, where the error path points, the
   message and the app-tag.  Every logged fact must be the one YangTypes
   prescribes; each deviation is reported (site, kind, expected verdict, reason or
   lexeme class) and validation continues.                                      *)
EXTENDS YangTypes, Json
CONSTANT TraceFile
Trace == ndJsonDeserialize(TraceFile)
VARIABLES l, nfail
F(e, site, want, why, pi, v) == [id |-> e.id, site |-> site, kc |-> KindClass(e.chain.k), want |-> want, why |-> why, pi |-> pi, v |-> v]
ProbeFails(e, t) ==
  UNION {LET p == e.probes[i]
             a == Accepts(t, p.v)
         IN IF ~ProbeJudged(t, p.v) THEN {}
            ELSE IF a # p.ok THEN {F(e, "accept", IF a THEN "accept" ELSE "reject", LexClass(t, p.v), i, p.v)}
            ELSE IF a THEN {}
            ELSE (IF p.pc \notin PathModes(t) THEN {F(e, "path", "reject", p.pc, i, p.v)} ELSE {})
                 \cup (IF MsgJudged(t, p.v) /\ p.msg \notin Msgs(t, p.v) THEN {F(e, "message", "reject", "custom-message", i, p.v)} ELSE {})
                 \cup (IF TagJudged(t, p.v) /\ p.tag \notin Tags(t, p.v) THEN {F(e, "app-tag", "reject", "custom-app-tag", i, p.v)} ELSE {})
         : i \in 1..Len(e.probes)}
Fails(e) ==
  LET r == CompileChain(e.chain)
      d == DefaultOf(e.chain)
  IN IF ~r.j THEN {}
     ELSE IF r.ok # e.compiled THEN {F(e, "compile", IF r.ok THEN "ok" ELSE "refuse", r.why, 0, << >>)}
     ELSE IF ~r.ok THEN {}
     ELSE (IF d.has # e.hasDef \/ (d.has /\ d.v # e.def) THEN {F(e, "default", "ok", IF d.has THEN "inherited-default" ELSE "no-default", 0, d.v)} ELSE {})
          \cup ProbeFails(e, r.t)
TInit == l = 1 /\ nfail = 0
TNext == /\ l <= Len(Trace) /\ l' = l + 1
         /\ LET fs == Fails(Trace[l]) IN
            /\ nfail' = nfail + Cardinality(fs)
            /\ \A f \in fs : PrintT("FAILJSON " \o ToJson(f))
Consumed == l = Len(Trace) + 1
Report == Consumed => PrintT(<<"TRACE-RESULT", Len(Trace), nfail>>)
=============================================================================
