--------------------------- MODULE YangTypesTrace ---------------------------
(* Trace validation (code -> model).  The harness renders a chain to a YANG
   module, compiles it with the real compiler and validates lexemes with
   Type().Validate; it logs one event per chain: the chain, the compile verdict,
   Default(), and per lexeme the verdict, where the error path points, the
   message and the app-tag.  Every logged fact must be the one YangTypes
   prescribes; each deviation is reported (site, kind, expected verdict, reason or
   lexeme class) and validation continues.                                      *)
EXTENDS YangTypes, Json
CONSTANT TraceFile
Trace == ndJsonDeserialize(TraceFile)
VARIABLES l, nfail
F(e, site, want, why, pi, v) == [id |-> e.id, site |-> site, kc |-> KindClass(e.chain.k), want |-> want, why |-> why, pi |-> pi, v |-> v]
ProbeFails(e, t) ==
  UNION {LET p == e.probes[i]
             a == Accepts(t, p.v)
         IN IF ~ProbeJudged(t, p.v) THEN {}
            ELSE IF a # p.ok THEN {F(e, "accept", IF a THEN "accept" ELSE "reject", LexClass(t, p.v), i, p.v)}
            ELSE IF a THEN {}
            ELSE (IF p.pc \notin PathModes(t) THEN {F(e, "path", "reject", p.pc, i, p.v)} ELSE {})
                 \cup (IF MsgJudged(t, p.v) /\ p.msg \notin Msgs(t, p.v) THEN {F(e, "message", "reject", "custom-message", i, p.v)} ELSE {})
                 \cup (IF TagJudged(t, p.v) /\ p.tag \notin Tags(t, p.v) THEN {F(e, "app-tag", "reject", "custom-app-tag", i, p.v)} ELSE {})
         : i \in 1..Len(e.probes)}
\* e.sibs: the chains of the sibling leaves compiled in the same module set (e.mi: position of this leaf among
\* them).  The module set compiles iff every chain does; everything else about a leaf depends on its own chain only.
Fails(e) ==
  LET r == CompileChain(e.chain)
      d == DefaultOf(e.chain)
      rs == [i \in 1..Len(e.sibs) |-> CompileChain(e.sibs[i])]
      allok == r.ok /\ \A i \in 1..Len(rs) : rs[i].ok
      gj == (r.j /\ \A i \in 1..Len(rs) : rs[i].j) \/ (r.j /\ ~r.ok) \/ \E i \in 1..Len(rs) : rs[i].j /\ ~rs[i].ok
      why == IF ~r.ok THEN r.why ELSE IF allok THEN "ok" ELSE rs[CHOOSE i \in 1..Len(rs) : ~rs[i].ok].why
  IN IF ~gj THEN (IF allok /\ e.compiled THEN ProbeFails(e, r.t) ELSE {})     \* verdict not judged; what compiled is still probed
     ELSE IF allok # e.compiled THEN (IF e.mi = 1 THEN {F(e, "compile", IF allok THEN "ok" ELSE "refuse", why, 0, << >>)} ELSE {})
     ELSE IF ~allok THEN {}
     ELSE (IF DefaultJudged(e.chain) /\ (d.has # e.hasDef \/ (d.has /\ d.v # e.def)) THEN {F(e, "default", "ok", IF d.has THEN "inherited-default" ELSE "no-default", 0, d.v)} ELSE {})
          \cup ProbeFails(e, r.t)
TInit == l = 1 /\ nfail = 0
TNext == /\ l <= Len(Trace) /\ l' = l + 1
         /\ LET fs == Fails(Trace[l]) IN
            /\ nfail' = nfail + Cardinality(fs)
            /\ \A f \in fs : PrintT("FAILJSON " \o ToJson(f))
Consumed == l = Len(Trace) + 1
Report == Consumed => PrintT(<<"TRACE-RESULT", Len(Trace), nfail>>)
=============================================================================
