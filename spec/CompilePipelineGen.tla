-------------------------- MODULE CompilePipelineGen --------------------------
(* Generator (model -> code): for every instance of a chunk (or NSample seeded
   samples of it) the vector holds the instance and its meaning: the verdict and,
   for accepted instances, the set of data nodes of the compiled schema.  The
   driver renders the instance to YANG modules and compiles them with the real
   compiler.  One chunk per initial state.                                     *)
EXTENDS CompileSets, Json, SequencesExt
CONSTANTS Size, Only, NSample, NCombo
VARIABLES chunk, done
GChunks == {c \in Chunks(Size) : Only = {} \/ c[1] \in Only} \cup (IF NCombo > 0 THEN {<<"combo", "-", Size>>} ELSE {})
Vec(I) == [inst |-> I, verdict |-> Verdict(I), schema |-> Schema(I), judgeSchema |-> SchemaJudged(I), judgeVerdict |-> JudgeVerdict(I),
           cyclic |-> (IncludeCycle(I) \/ ImportCycle(I) \/ DefCycle(I)), defects |-> SetToSeq(Defects(I))]
PickN(S, n) == IF n = 0 \/ Cardinality(S) <= n THEN S ELSE {RandomElement(S) : i \in 1..n}
FileOf(c) == "cvec_" \o c[1] \o "_" \o c[2] \o ".ndjson"
\* (the mechanism's variables are not used by the generator)
GInit == /\ chunk \in GChunks /\ done = FALSE
         /\ inst = Base /\ phase = "pick" /\ todo = {} /\ order = << >> /\ pos = 1 /\ trees = << >>
         /\ out = [verdict |-> "none", schema |-> {}]
GNext == /\ ~done /\ done' = TRUE /\ UNCHANGED <<chunk, pvars>>
         /\ ndJsonSerialize(FileOf(chunk), SetToSeq({Vec(I) : I \in (IF chunk[1] = "combo" THEN Combos(NCombo, AllPlaces(Size)) ELSE PickN(Chunk(chunk), IF chunk[2] = "twin" THEN 3 * NSample ELSE IF chunk[1] = "subimport" THEN 0 ELSE NSample))}))
=============================================================================
