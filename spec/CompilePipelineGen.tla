-------------------------- MODULE CompilePipelineGen --------------------------
(* Generator (model -> code): for every instance of a chunk (or NSample seeded
   samples of it) the vector holds the instance and its meaning: the verdict and,
   for accepted instances, the set of data nodes of the compiled schema.  The
   driver renders the instance to YANG modules and compiles them with the real
   compiler.  One chunk per initial state.                                     *)
EXTENDS CompileSets, Json, SequencesExt
CONSTANTS Size, Only, NSample, NCombo, NScoped
VARIABLES chunk, done
GChunks == {c \in Chunks(Size) : Only = {} \/ c[1] \in Only} \cup (IF NCombo > 0 THEN {<<"combo", "-", Size>>} ELSE {})
Vec(I) == [inst |-> I, verdict |-> Verdict(I), schema |-> Schema(I), judgeSchema |-> SchemaJudged(I), judgeVerdict |-> JudgeVerdict(I),
           cyclic |-> (IncludeCycle(I) \/ ImportCycle(I) \/ DefCycle(I)), defects |-> SetToSeq(Defects(I)),
           \* C11 is about PARSEABLE module sets: only these may be refused by the parser (then counted, not judged)
           mayNotParse |-> ((\E d \in I.defs : Scoped(d.home)) \/ IllArgKind(I))]
\* (SS is bound once: the set is built a single time, not per draw)
PickN(S, n) == UNION {IF n = 0 \/ Cardinality(SS) <= n THEN SS ELSE {RandomElement(SS) : i \in 1..n} : SS \in {S}}
\* all of the chunk, or (NSample > 0) seeded samples of it; the subimport and include families are always taken whole
\* (few of their instances carry a given dependency shape: sampling 40 of them left single-instance margins)
InstancesOf(c) == IF c[1] = "combo" THEN Combos(NCombo, AllPlaces(Size))
                  ELSE IF NSample = 0 /\ c[1] \in Kinds /\ c[2] = "scoped" THEN Chunk(c) \cup SampleScopeds(c[1], NScoped)
                  ELSE IF NSample = 0 \/ c[1] \in {"subimport", "include", "homonym"} THEN Chunk(c)
                  ELSE IF c[1] \in Kinds /\ c[2] = "twin" THEN SampleTwins(c[1], 3 * NSample)
                  ELSE IF c[1] \in Kinds /\ c[2] = "scoped" THEN SampleScopeds(c[1], NScoped)
                  ELSE IF c[1] \in Kinds THEN SampleDefs(c[1], c[2], AllPlaces(c[3]), NSample)
                  ELSE PickN(Chunk(c), IF c[1] \in {"kindmix", "illformed"} THEN 2 * NSample ELSE NSample)
FileOf(c) == "cvec_" \o c[1] \o "_" \o c[2] \o ".ndjson"
\* (the mechanism's variables are not used by the generator)
GInit == /\ chunk \in GChunks /\ done = FALSE
         /\ inst = Base /\ phase = "pick" /\ todo = {} /\ order = << >> /\ pos = 1 /\ trees = << >>
         /\ out = [verdict |-> "none", schema |-> {}]
GNext == /\ ~done /\ done' = TRUE /\ UNCHANGED <<chunk, pvars>>
         /\ ndJsonSerialize(FileOf(chunk), SetToSeq({Vec(I) : I \in InstancesOf(chunk)}))
=============================================================================
