INIT TInit
NEXT TStep
CONSTANT TraceFile = "trace.ndjson"
CONSTANT SchemaFile = "schemas.ndjson"
CONSTANT MaxFail = 100000
INVARIANT Report
CHECK_DEADLOCK FALSE
