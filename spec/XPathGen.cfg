INIT GInit
NEXT GNext
CONSTANT Fams = {4}
CONSTANT NRand = 100
CONSTANT RandKind = "scalar"
CHECK_DEADLOCK FALSE
