INIT GInit
NEXT GNext
CONSTANT Fams = {4}
CONSTANT NRand = 100
CONSTANT RandKind = "scalar"
CONSTANT NChunks = 12
CONSTANT WsEach = 0
CHECK_DEADLOCK FALSE
