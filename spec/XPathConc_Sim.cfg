SPECIFICATION Spec
CONSTANT Comps = {1, 2}
CONSTANT Runs = {3, 4}
INVARIANT MutualExclusion
INVARIANT LoadOnce
INVARIANT EmitSchedule
CHECK_DEADLOCK FALSE
