-------------------------- MODULE SchemaWalkFilterMC --------------------------
(* Exhaustive model for FilterTree (X-walk part 2): for every shape, every ordered data
   tree within the bounds and every predicate of the menu, TLC runs the post-order machine
   and checks FilterLaws (mechanism = meaning in nodes and order, sub-tree, prefix closed,
   a dropped node hides its subtree, order kept, keys shown, idempotent, keep asked once per
   node, keep-all = only empty non-presence containers go, keep-none = bare root) and
   monotonicity for predicates that do not look at the children.
   One initial state per shape; the first step picks the tree, the second the predicate. *)
EXTENDS SchemaWalkFilter
CONSTANTS Shapes, MaxEntries, MaxLL
VARIABLES shape, stage, data, pred
F == FilterShape(shape)
NoP == P("-", {}, {})
MCInit == shape \in Shapes /\ stage = 0 /\ data = Nil /\ pred = NoP
MCNext == \/ /\ stage = 0 /\ stage' = 1 /\ UNCHANGED <<shape, pred>>
             /\ \E d \in FTrees(F, MaxEntries, MaxLL) : data' = d
          \/ /\ stage = 1 /\ stage' = 2 /\ UNCHANGED <<shape, data>>
             /\ \E p \in Preds(F) : pred' = p
Laws == stage = 2 => FilterLaws(F, pred, data, <<shape, pred, data>>)
Mono == stage = 2 =>
  /\ FLaw("Monotone-all", Flat1(pred) => Monotone(F, pred, P("all", {}, {}), data), <<shape, pred, data>>)
  /\ FLaw("Monotone-none", Monotone(F, P("none", {}, {}), pred, data), <<shape, pred, data>>)
  /\ FLaw("Monotone-named", pred.id = "named" => Monotone(F, pred, [pred EXCEPT !.names = @ \cup {"2", "x", "k"}], data), <<shape, pred, data>>)
=============================================================================
