------------------------- MODULE ValidateXPathShapes -------------------------
(* Schema shapes, the enumeration of their data trees, seeded re-decoration of the shapes
   (RandomElement, -seed) and the adapter view written for the replay - for the extension
   module X-validate-xpath (see ValidateXPath).

   Sibling names and key / leaf-list values are chosen so that schema order, data order, byte
   order and natural order all differ: x10 x9 b a2 a10;  k9 k10 k2;  9 10 2.                  *)
EXTENDS ValidateXPath

MF(e, msg, tag) == Must(e, msg, tag)
\* ------------------------------------------------------------------ shapes
XShape(id) ==
  CASE id = 1 ->   \* musts of a container (custom message / app-tag, default, true ones), a when that
                   \* suppresses a must, expressions that fail to run, unconfigured non-presence containers two deep
         << Ms(PCont("c", << Ms(W(Leaf("a"), EF1), <<M0(EF2)>>),
                             Ms(Leaf("b"), <<M0(EF1), MF(EF4, "b says no", "")>>),
                             Ms(Leaf("x"), <<M0(EX1), M0(ET2), M0(EX4)>>),
                             Ms(Cont("np", << Ms(Cont("np2", << Leaf("z") >>), <<MF(EF2, "", "tag-np2")>>), Leaf("y") >>), <<M0(EF1)>>) >>),
               <<MF(EF1, "c must", "tagc"), M0(EF2), M0(ET1), M0(ET2), M0(EX3)>>) >>
    [] id = 2 ->   \* list entries (natural order of keys), key leaf, leaf of type empty, leaf-lists system / user ordered
         << PCont("c", << Ms(W(ListN("l", "k", << Ms(Leaf("k"), <<MF(EF1, "km", "")>>),
                                                   Ms(Leaf("v"), <<MF(EF1, "vm", "")>>),
                                                   Ms(LeafE("e"), <<MF(EF1, "em", "tage")>>),
                                                   Ms(LL("ll"), <<MF(EF3, "llm", "")>>) >>), ET3), <<MF(EF5, "lm", "")>>),
                          Ms(User(LL("lu")), <<M0(EF6)>>) >>) >>
    [] id = 3 ->   \* a list with a false when; a when handed on by a uses (leaf, presence container)
         << PCont("c", << Ms(W(ListN("l", "k", << Leaf("k"), Ms(Leaf("v"), <<M0(EF1)>>) >>), EF2), <<M0(EF1)>>),
                          Uses(EF1, << Leaf("ul"), Ms(PCont("uc", << Leaf("ucl") >>), <<M0(EF2)>>) >>),
                          Ms(Leaf("own"), <<M0(EF4)>>) >>) >>
    [] id = 4 ->   \* config false subtrees and the four validation types; non-presence containers on both sides
         << Ms(PCont("c", << Ms(Leaf("cl"), <<M0(EF1)>>),
                             Ms(State(PCont("st", << Ms(Leaf("sl"), <<M0(EF2)>>), Ms(Cont("snp", << >>), <<MF(EF1, "snp", "")>>),
                                                     Ms(LL("sll"), <<M0(EF3)>>) >>)), <<M0(EF1)>>),
                             Ms(State(Cont("cnp", << >>)), <<MF(EF1, "cnp", "")>>),
                             Ms(Cont("np", << Ms(State(Leaf("nps")), <<M0(EF1)>>) >>), <<MF(EF2, "np", "")>>) >>), <<M0(EF4)>>) >>
    [] id = 5 ->   \* whens on a choice, on cases, handed on by an augment of the choice (O2); an augment of a case
         << PCont("c", << W(Choice("ch", << W(Case("ca", << Ms(Leaf("x"), <<M0(EF1)>>), Aug(EF1, << Leaf("cal") >>) >>), EF2),
                                            Case("cb", << Leaf("y") >>),
                                            Aug(EF4, << Case("cc", << Leaf("z") >>) >>),
                                            W(Case("cd", << Leaf("w") >>), ET1) >>), EF1),
                          Choice("c2", << Leaf("s1"), W(Case("c2b", << Ms(PCont("s2", << >>), <<M0(EF1)>>) >>), EF5) >>) >>) >>
    [] id = 6 ->   \* O1: unconfigured non-presence containers with false / true whens (own, from uses, from augment), nested
         << PCont("c", << Ms(W(Cont("np1", << Ms(Cont("np11", << >>), <<MF(EF1, "np11", "")>>) >>), EF1), <<MF(EF1, "np1", "")>>),
                          Ms(W(Cont("np2", << >>), ET1), <<MF(EF1, "np2", ""), M0(ET1), MF(EF2, "np2b", "t2")>>),
                          Ms(Cont("np3", << Leaf("q"), Ms(W(Cont("np31", << >>), EF2), <<MF(EF1, "np31", "")>>) >>), <<MF(EF1, "np3", "")>>),
                          Uses(EF1, << Ms(Cont("unp", << >>), <<MF(EF1, "unp", "")>>) >>),
                          Aug(EF2, << Ms(Cont("anp", << >>), <<MF(EX1, "anp", "")>>) >>) >>) >>
    [] id = 7 ->   \* leafref leaves and leaf-lists (relative, absolute): every check fails to run (O6)
         << PCont("c", << Leaf("a"), LL("al"),
                          LeafR("r1", Lref("../a", 1, <<"a">>, 0)),
                          Ms(W(LeafR("r2", Lref("/v:c/v:a", -1, <<"c", "a">>, 0)), EF1), <<M0(EF1)>>),
                          LLR("r3", Lref("/v:c/v:al", -1, <<"c", "al">>, 0)),
                          State(LeafR("rs", Lref("/v:c/v:a", -1, <<"c", "a">>, 0))) >>) >>
    [] id = 8 ->   \* inside list entries: presence / non-presence containers, a nested user-ordered list, key musts
         << User(ListN("l", "k", << Leaf("k"),
                                    Ms(PCont("ec", << Ms(Leaf("el"), <<M0(EF1)>>) >>), <<MF(EF1, "ec", "")>>),
                                    Ms(Cont("enp", << >>), <<MF(EF2, "enp", "")>>),
                                    Ms(ListN("m", "j", << Ms(Leaf("j"), <<MF(EF1, "jm", "")>>) >>), <<MF(EF4, "mm", "")>>) >>)) >>
    [] id = 9 ->   \* the top level: non-presence containers of the root, top-level leaves and leaf-lists, augment of the module
         << Ms(Cont("t1", << Leaf("p") >>), <<MF(EF1, "t1", "")>>),
            Ms(Leaf("tl"), <<M0(EF1), M0(EX2)>>),
            Ms(Cont("t2", << Ms(Cont("t21", << >>), <<MF(EF2, "t21", "")>>) >>), << >>),
            Ms(LL("tll"), <<MF(EF1, "tll", "")>>) >>
    [] id = 10 ->  \* sibling order: names whose schema, byte and natural orders differ, each with a failing must; augment kids
         << PCont("c", << Ms(Leaf("x10"), <<M0(EF1)>>), Ms(Leaf("x9"), <<M0(EF1)>>), Ms(PCont("b", << >>), <<M0(EF1)>>),
                          Ms(Leaf("a2"), <<M0(EF1)>>), Ms(LL("a10"), <<M0(EF1)>>),
                          Aug(ET1, << Ms(Leaf("a9"), <<M0(EF1)>>) >>) >>) >>
    [] id = 11 ->  \* leafrefs inside list entries: relative (its value set differs per entry), absolute, with a predicate
         << PCont("c", << ListN("l", "k", << Leaf("k"), Leaf("w"),
                                             LeafR("rr", Lref("../w", 1, <<"w">>, 0)),
                                             LeafR("ra", Lref("/v:c/v:l/v:w", -1, <<"c", "l", "w">>, 0)),
                                             LeafR("rp", Lref("/v:c/v:l[v:k = current()/../v:k]/v:w", -1, <<"c", "l", "w">>, 2)) >>) >>) >>
    [] id = 12 ->  \* whens handed on by an augment (on a leaf with its own when, a presence container, list entries), a uses
                   \* inside the augment
         << PCont("c", << Ms(Leaf("own"), <<M0(EF4)>>),
                          Aug(EF2, << Ms(W(Leaf("al"), EF4), <<M0(EF1)>>),
                                      Ms(PCont("ac", << Ms(Leaf("acl"), <<M0(EF1)>>) >>), <<M0(EF1)>>),
                                      ListN("alist", "k", << Leaf("k") >>),
                                      Uses(EF5, << W(Leaf("gl"), EF6) >>) >>) >>) >>
    [] id = 13 ->  \* a top-level config false container, an expression that fails to run below it
         << Ms(State(PCont("s2", << Ms(Leaf("t"), <<M0(EX1)>>) >>)), <<M0(EF1)>>), Ms(Leaf("top"), <<M0(EF2)>>) >>
    [] id = 14 ->  \* the smallest schema on which caching a relative leafref would be wrong (cache models only)
         << ListN("l", "k", << Leaf("k"), Leaf("w"), LeafR("rr", Lref("../w", 1, <<"w">>, 0)) >>) >>
NXShapes == 13

\* ------------------------------------------------ enumeration of data trees
KeyVals == <<"k9", "k10", "k2">>
LLVals == <<"9", "10", "2">>
CaseKids(c) == IF c.kind = "case" THEN c.kids ELSE <<c>>
\* sets of sequences of data nodes for the schema children sk; key = the key leaf of the enclosing list
RECURSIVE DataSeqs(_, _, _, _), EntrySeqs(_, _, _, _, _)
Opts(c, key, me, ml) ==
  CASE c.kind \in {"augment", "uses"} -> DataSeqs(c.kids, key, me, ml)
    [] c.kind = "choice" -> {<< >>} \cup UNION {DataSeqs(CaseKids(c.kids[i]), key, me, ml) \ {<< >>} : i \in {j \in 1..Len(c.kids) : c.kids[j].kind # "augment"}}
                                    \cup UNION {UNION {DataSeqs(CaseKids(c.kids[i].kids[j]), key, me, ml) \ {<< >>} : j \in 1..Len(c.kids[i].kids)}
                                                : i \in {j \in 1..Len(c.kids) : c.kids[j].kind = "augment"}}
    [] c.kind = "leaf" -> IF c.name = key THEN {<< >>}      \* added by EntrySeqs
                          ELSE {<< >>, << D(c.name, IF c.typ = "empty" THEN << >> ELSE <<"1">>, << >>) >>}
    [] c.kind = "leaflist" -> {<< >>} \cup {<< D(c.name, SubSeq(LLVals, 1, n), << >>) >> : n \in 1..ml}
    [] c.kind = "container" -> {<< >>} \cup {<< D(c.name, << >>, k) >> : k \in DataSeqs(c.kids, "", me, ml)}
    [] c.kind = "list" -> {<< >>} \cup {<< D(c.name, << >>, es) >> : es \in UNION {EntrySeqs(c, DataSeqs(c.kids, c.key, me, ml), n, 1, me) : n \in 1..me}}
\* n entries (keys in data order k9 k10 k2), every combination of bodies; the key leaf comes last in the entry
EntrySeqs(c, bodies, n, i, me) ==
  IF i > n THEN {<< >>}
  ELSE {<< D(KeyVals[i], << >>, b \o << D(c.key, <<KeyVals[i]>>, << >>) >>) >> \o r : b \in bodies, r \in EntrySeqs(c, bodies, n, i + 1, me)}
DataSeqs(sk, key, me, ml) ==
  IF sk = << >> THEN {<< >>} ELSE {a \o b : a \in Opts(sk[1], key, me, ml), b \in DataSeqs(Tail(sk), key, me, ml)}
DataTrees(schema, me, ml) == DataSeqs(schema, "", me, ml)

\* ---------------------------------- seeded re-decoration of a shape (Gen, shape ids 101..)
\* every when / must slot of the structure is drawn again: whens of non-presence containers, choices
\* and cases from the true / false expressions only (what a when that fails to run means for a node
\* that is not in the data is not modelled), others from all expressions
TFExprs == <<ET1, ET2, ET3, ET4, ET5, EF1, EF2, EF3, EF4, EF5, EF6>>
RandWhen(pool) == LET r == RandomElement(1..3) IN IF r = 1 THEN << >> ELSE << pool[RandomElement(1..Len(pool))] >>
RandMust(u_) == LET e == AllExprs[RandomElement(1..Len(AllExprs))]  r == RandomElement(1..4) IN
                Must(e, IF r = 1 THEN "custom message" ELSE IF r = 2 THEN "m2" ELSE "", IF r \in {1, 3} THEN "app-tag-1" ELSE "")
RandMusts(u_) == LET r == RandomElement(1..4) IN
                 IF r = 1 THEN << >> ELSE IF r = 2 THEN <<RandMust(0)>> ELSE IF r = 3 THEN <<RandMust(0), RandMust(1)>> ELSE <<RandMust(0), RandMust(1), RandMust(2)>>
RandWhen1(pool) == << pool[RandomElement(1..Len(pool))] >>
\* a handed-on when reaches the non-presence containers among the nodes it is handed to
RECURSIVE HasNP(_)
HasNP(sk) == \E i \in 1..Len(sk) : (sk[i].kind = "container" /\ ~sk[i].presence) \/ (sk[i].kind \in {"uses", "augment", "choice", "case"} /\ HasNP(sk[i].kids))
RECURSIVE Redecorate(_)
RedecOne(s) ==
  LET kids == Redecorate(s.kids) IN
  CASE s.kind \in {"augment", "uses"} -> [s EXCEPT !.when = IF HasNP(s.kids) THEN RandWhen1(TFExprs) ELSE RandWhen1(AllExprs), !.kids = kids]
    [] s.kind \in {"choice", "case"} -> [s EXCEPT !.when = RandWhen(TFExprs), !.kids = kids]
    [] s.kind = "container" /\ ~s.presence -> [s EXCEPT !.when = RandWhen(TFExprs), !.musts = RandMusts(0), !.kids = kids]
    [] OTHER -> [s EXCEPT !.when = RandWhen(AllExprs), !.musts = RandMusts(0), !.kids = kids]
Redecorate(sk) == IF sk = << >> THEN << >> ELSE <<RedecOne(sk[1])>> \o Redecorate(Tail(sk))
RandShape(base) == Redecorate(XShape(base))

RECURSIVE SetAsSeq(_)
SetAsSeq(S) == IF S = {} THEN << >> ELSE LET x == CHOOSE x \in S : TRUE IN <<x>> \o SetAsSeq(S \ {x})

\* ------------------------------------------------ the adapter view, for the replay
NV(x) == [n |-> XName(x), v |-> XValue(x)]
NVs(xs) == [i \in 1..Len(xs) |-> NV(xs[i])]
ParentTag(x) == LET p == XParentOf(x) IN
  IF p = Nil THEN [nil |-> TRUE, n |-> "", v |-> "", xp |-> << >>] ELSE [nil |-> FALSE, n |-> XName(p), v |-> XValue(p), xp |-> XPathOf(p)]
KidNames(x) == IF x.t \in {"tree", "cont", "entry"} THEN {c.name : c \in SeqSet(DataKids(x.sch.kids))} ELSE {}
Filters(x) == {Flt("*", "", FALSE), Flt("*", "", TRUE), Flt("*", "own", FALSE), Flt("*", "own", TRUE), Flt("*", "other", FALSE), Flt("nosuch", "", FALSE)}
              \cup UNION {{Flt(nm, "", FALSE), Flt(nm, "", TRUE), Flt(nm, "own", FALSE), Flt(nm, "other", FALSE)} : nm \in KidNames(x)}
KeyProbes(x) == LET ks == {"k", "j", "v"} \cup (IF x.t = "entry" THEN {x.sch.key} ELSE {})
                    vs == {"k9", "k2", "zz"} \cup {XValue(x)} IN
                {[ns |-> ns, key |-> k, val |-> v, res |-> XListKeyMatches(x, ns, k, v)] : ns \in {"own", "other"}, k \in ks, v \in vs}
RECURSIVE XT(_)
XT(x) ==
  LET ks == XChildren(x, AllKids, TRUE) IN
  [n |-> XName(x), v |-> XValue(x), xp |-> XPathOf(x), leaf |-> XIsLeaf(x), ll |-> XIsLeafList(x), npc |-> XIsNPCont(x),
   keys |-> XListKeys(x), km |-> KeyProbes(x), par |-> ParentTag(x),
   flt |-> {[f |-> f, srt |-> NVs(XChildren(x, f, TRUE)), uns |-> NVs(XChildren(x, f, FALSE))] : f \in Filters(x)},
   kids |-> [i \in 1..Len(ks) |-> XT(ks[i])]]
View(schema, data) == XT(RootX(schema, data))

\* the schema walker XNode (node_xpath.go) shows the compiled schema itself: the children (choices and
\* cases looked through; as a SET - Node.Children() ranges over a map, the replay ignores the order of
\* kids), the path from the start node, the kind of node
RECURSIVE SW(_, _)
SW(c, xp) ==
  LET ks == DataKids(c.kids) IN
  [n |-> c.name, xp |-> xp, leaf |-> c.kind = "leaf", ll |-> c.kind = "leaflist", npc |-> c.kind = "container" /\ ~c.presence,
   kids |-> [i \in 1..Len(ks) |-> SW(ks[i], Append(xp, ks[i].name))]]
SchemaView(schema) == SW(TreeNode(schema), << >>)
=============================================================================
