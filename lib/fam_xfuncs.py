"""Function-table stage shared by C04, C05 and C06 (no property of its own).

XPathFuncs.tla: the XPath function table as package state - registration of custom
functions (name rule, replacement, shadowing of core names), lookup with the custom
gate and the user checker, compilation against the table of the moment (unknown
function / declared arity), and runs of machines that keep the symbols they were
compiled with (argument conversion, panicking custom functions and their default).
TLC explores the small model exhaustively (XPathFuncsMC: table only grows, core names
stay, `loaded` stable, machines immutable, runs repeat, gate) and samples complete
behaviours (-simulate, seeded) that `xp funcs` replays on the real package, comparing
every observation.  A disagreement is reported by the property it falls under:
  C04  lookup / compile verdicts (registered functions with exactly their declared arity)
  C05  a panic escaping registration or a run; value-xor-error of runs
  C06  results of runs of machines compiled earlier (histories of registrations and runs)
"""
import json
from vlib import Infra, read_ndjson

OWNER = {"lookup": "C04", "compile": "C04", "run-panic": "C05", "register-panic": "C05", "run-outcome": "C05",
         "run-boolean": "C06", "run-string": "C06", "run-number": "C06"}


def stage(ctx, prop, binary="xp"):
    quick = ctx.quick()
    ctx.tlc("XPathFuncsMC", "XPathFuncs_MC.cfg", workers=8, timeout=900, heap="6g",
            consts=None if quick else {"MaxMachs": 2, "MaxGen": 4})
    nbeh = 300 if quick else 3000
    files = []
    for k in range(1 if quick else 3):
        r = ctx.tlc("XPathFuncs", "XPathFuncs_Sim.cfg", workers=1, timeout=1800, heap="4g",
                    consts={"MaxSteps": 14 if k == 0 else 10 + 6 * k},
                    simulate=f"num={nbeh if quick else nbeh // 3}", extra=["-depth", "40", "-seed", str(ctx.seed * 7 + k)])
        p = ctx.path(f"fbeh_{k}.ndjson")
        n = 0
        with open(p, "w") as f:
            for l in r["out"].splitlines():
                if l.startswith('"FUNCJSON '):
                    f.write(json.loads(l)[len("FUNCJSON "):] + "\n")
                    n += 1
        if n == 0:
            raise Infra("TLC simulation of XPathFuncs produced no complete behaviour")
        files.append(p)
    # directed behaviours: every history of two machines over one function that fails for one operand class only
    r = ctx.tlc("XPathFuncsScript", "XPathFuncs_Script.cfg", workers=4, timeout=1800, heap="4g")
    p = ctx.path("fbeh_script.ndjson")
    n = 0
    with open(p, "w") as f:
        for l in r["out"].splitlines():
            if l.startswith('"FUNCJSON '):
                f.write(json.loads(l)[len("FUNCJSON "):] + "\n")
                n += 1
    if n == 0:
        raise Infra("XPathFuncsScript produced no behaviour")
    files.append(p)
    out = ctx.path("fmism.ndjson")
    r = ctx.run_bin(binary, ["funcs", "-out", out] + files, timeout=1200)
    stats = json.loads(r.stdout.strip().splitlines()[-1])
    for m in read_ndjson(out):
        owner = OWNER.get(m["what"], "C05")
        # a run that ends in an error where a value was due (or the reverse) on a machine compiled earlier is also a
        # history matter; it is reported once, by C05
        if owner != prop:
            continue
        last = m["steps"][-1]
        sig = dict(site="function-table", what=m["what"], step=last["a"])
        ctx.disagree(sig, f"function table: {m['what']} at step {m['step']} ({last['a']} {last.get('expr') or last.get('name') or ''}): "
                          f"specification says {m['want']!r}, code says {m['got']!r}",
                     dict(kind="function-table", behaviour=m["steps"], step=m["step"], want=m["want"], got=m["got"],
                          how="xp funcs on this behaviour (one line of ndjson: {\"steps\": [...]})"))
    return stats
