"""Extension module X-walk: three traversal APIs of a compiled schema that no listed property decides.

  part 1  ModelSet.FindOrWalk (schema/walk.go)              spec SchemaWalk / MC / Gen / Trace
  part 2  schema.FilterTree (schema/filtered_tree.go)       spec SchemaWalkFilter / MC / Gen
  part 3  compile.Extensions hooks (compile/extensions.go)  spec SchemaWalkExt / MC / Gen

Per part: TLC checks the mechanism (a work-list machine) against the meaning on bounded inputs, a TLC
generator writes behaviours which `wk replay-*` runs through the real packages, and (part 1) recorded
observations on TLC-sampled schemas are judged by the machine in SchemaWalkTrace.  Every stage has a
binding self-test: a perturbed expectation / corrupted event must be reported, otherwise exit 2."""
import copy, json, os, re, concurrent.futures as cf
from vlib import Infra, log, read_ndjson, write_ndjson

WALK_SHAPES = list(range(1, 10))
FILTER_SHAPES = list(range(1, 7))
EXT_SHAPES = list(range(1, 10))
EXT_FAMS = [100, 101, 102, 103, 104]


def set_lit(xs):
    return "{" + ", ".join(str(x) for x in xs) + "}"


def last_json(r):
    lines = [l for l in r.stdout.strip().splitlines() if l.startswith("{")]
    if not lines:
        raise Infra("harness printed no summary:\n" + r.stderr[-2000:])
    return json.loads(lines[-1])


def parse_fails(out):
    fs, seen = [], set()
    for l in out.splitlines():
        if l.startswith('"FAILJSON '):
            if l in seen:
                continue
            seen.add(l)
            fs.append(json.loads(json.loads(l)[len("FAILJSON "):]))
    return fs


def law_violations(out):
    return sorted(set(re.findall(r'"LAW VIOLATED",\s*"([^"]+)"', out)))


def mc(ctx, module, consts, timeout):
    """A model-checking run whose failure is a specification problem (exit 2), with the violated law named."""
    r = ctx.tlc(module, module + ".cfg", workers=6, timeout=timeout, heap="6g", consts=consts, expect_ok=False)
    if not r["ok"]:
        raise Infra(f"{module}: TLC reports a problem of the specification itself (laws violated: {law_violations(r['out'])}):\n" + r["out"][-1500:])
    return r


# ---------------------------------------------------------------------------------------------- part 1
def walk_part(ctx):
    q = ctx.quick()
    mc_shapes = [1, 2, 3, 4, 6, 7, 9] if q else WALK_SHAPES
    nrand, nq, runs = (30, 25, 6) if q else (200, 60, 20)

    def replay(d):
        pairs = []
        for s in WALK_SHAPES:
            pairs += [os.path.join(d, f"sws_{s}.ndjson"), os.path.join(d, f"swv_{s}.ndjson")]
        if not all(os.path.exists(p) for p in pairs):
            raise Infra("SchemaWalkGen did not write all vector files")
        res = ctx.path("res_walk.ndjson")
        stat = last_json(ctx.run_bin("wk", ["replay-walk", "-runs", str(runs), "-out", res] + pairs, timeout=600))
        # self-test: a query whose every allowed behaviour is perturbed must be reported
        vs = read_ndjson(pairs[3])[:3]
        for b in vs[0]["behs"]:
            b["ok"] = not b["ok"]
        stv, sto = ctx.path("selftest", "swv.ndjson"), ctx.path("selftest", "res_walk.ndjson")
        write_ndjson(stv, vs)
        st = last_json(ctx.run_bin("wk", ["replay-walk", "-runs", "2", "-out", sto, pairs[2], stv], timeout=120))
        if st["mismatches"] < 1:
            raise Infra("self-test: replay-walk accepted a perturbed expectation")
        nvec = sum(len(read_ndjson(pairs[i + 1])) for i in range(0, len(pairs), 2))
        return stat, read_ndjson(res), nvec

    def trace(d):
        schemas = ctx.path("schemas_walk.ndjson")
        with open(schemas, "w") as f:
            f.write(open(os.path.join(d, "swrand.ndjson")).read())
            for s in WALK_SHAPES:
                f.write(open(os.path.join(d, f"sws_{s}.ndjson")).read())
        tr = ctx.path("trace_walk.ndjson")
        rstat = last_json(ctx.run_bin("wk", ["record-walk", "-schemas", schemas, "-n", str(nq), "-trace", tr], timeout=600))
        if rstat["uncompilable"] * 5 > nrand:
            raise Infra(f"{rstat['uncompilable']} of {nrand} sampled schemas do not compile")
        lines = [l for l in open(tr).read().splitlines() if l]
        if not lines:
            raise Infra("record-walk recorded nothing")
        nproc = 2 if q else 6
        per = (len(lines) + nproc - 1) // nproc
        chunks = []
        for i in range(0, len(lines), per):
            p = ctx.path("chunks", f"walk_{len(chunks)}.ndjson")
            open(p, "w").write("\n".join(lines[i:i + per]) + "\n")
            chunks.append((p, len(lines[i:i + per]), False))
        # self-test: the first event that made calls, with its success flag flipped, must be rejected
        ev = next((json.loads(l) for l in lines if json.loads(l)["o"]["calls"]), None)
        if ev is None:
            raise Infra("no event with calls")
        ev["o"]["ok"] = not ev["o"]["ok"]
        p = ctx.path("selftest", "trace_walk.ndjson")
        open(p, "w").write("\n".join(lines[:5] + [json.dumps(ev)]) + "\n")
        chunks.append((p, len(lines[:5]) + 1, True))

        def one(ch):
            p, n, selftest = ch
            r = ctx.tlc("SchemaWalkTrace", "SchemaWalkTrace.cfg", data={"trace.ndjson": p, "schemas.ndjson": schemas}, workers=1, timeout=900, heap="3g")
            m = re.search(r'<<"TRACE-RESULT", (\d+), (\d+)>>', r["out"])
            if not m or int(m.group(1)) != n:
                raise Infra(f"SchemaWalkTrace did not consume its {n} events:\n" + r["out"][-2000:])
            fs = parse_fails(r["out"])
            if selftest:
                if int(m.group(2)) < 1 or not fs:
                    raise Infra("self-test: SchemaWalkTrace accepted a corrupted event")
                return [], 0
            return fs, n
        fails, events = [], 0
        with cf.ThreadPoolExecutor(max_workers=len(chunks)) as ex:
            for fs, n in ex.map(one, chunks):
                fails += fs
                events += n
        if events != rstat["events"]:
            raise Infra("event count mismatch")
        return fails, events, rstat, tr

    with cf.ThreadPoolExecutor(max_workers=4) as ex:
        fmc = ex.submit(mc, ctx, "SchemaWalkMC", {"Shapes": set_lit(mc_shapes)}, 1200)
        g = ctx.tlc("SchemaWalkGen", "SchemaWalkGen.cfg", workers=4, timeout=900, heap="4g",
                    consts={"Shapes": set_lit(WALK_SHAPES + [100]), "NRand": nrand, "RandDepth": 3}, extra=["-seed", str(ctx.seed)])
        f1, f2 = ex.submit(replay, g["dir"]), ex.submit(trace, g["dir"])
        stat, mism, nvec = f1.result()
        fails, events, rstat, tr = f2.result()
        fmc.result()
    ctx.traces += events
    for m in mism:
        sig = dict(part="walk", site="replay", mode=m["q"]["mode"], why=m["why"])
        ctx.disagree(sig, f"FindOrWalk, shape {m['shape']}, query {m['q']}: the observation is none of the {m['nbehs']} behaviours the specification allows ({m['why']})",
                     dict(part="walk", kind="replay", shape=m["shape"], query=m["q"], got=m["got"], one_allowed_behaviour=m["want1"],
                          how=f"bin/extra X-walk --tier {ctx.tier}; wk replay-walk sws_{m['shape']}.ndjson swv_{m['shape']}.ndjson"))
    for f in fails:
        sig = dict(part="walk", site="trace", mode=f["q"]["mode"], why=f["why"])
        ctx.disagree(sig, f"FindOrWalk, schema {f['sid']}, query {f['q']}: {f['why']}",
                     dict(part="walk", kind="trace", failure=f, how=f"bin/extra X-walk --tier {ctx.tier} --seed {ctx.seed}"))
    sample = read_ndjson(tr)[:1]
    return dict(walk_vectors=nvec, walk_replay_evaluations=stat["evaluations"], walk_distinct_observations=stat["distinct_observations"],
                walk_trace_events=events, walk_sampled_schemas=nrand, walk_uncompilable=rstat["uncompilable"]), \
        [dict(part="walk", event=e) for e in sample], stat["evaluations"] + events, stat["distinct_observations"]


# ---------------------------------------------------------------------------------------------- part 2
def filter_part(ctx):
    q = ctx.quick()
    me, ml = (1, 2) if q else (2, 2)
    with cf.ThreadPoolExecutor(max_workers=2) as ex:
        fmc = ex.submit(mc, ctx, "SchemaWalkFilterMC", {"Shapes": set_lit(FILTER_SHAPES), "MaxEntries": me, "MaxLL": ml}, 1500)
        g = ctx.tlc("SchemaWalkFilterGen", "SchemaWalkFilterGen.cfg", workers=6, timeout=1500, heap="6g",
                    consts={"Shapes": set_lit(FILTER_SHAPES), "MaxEntries": me, "MaxLL": ml})
        d = g["dir"]
        pairs = []
        for s in FILTER_SHAPES:
            pairs += [os.path.join(d, f"sfs_{s}.ndjson"), os.path.join(d, f"sfv_{s}.ndjson")]
        if not all(os.path.exists(p) for p in pairs):
            raise Infra("SchemaWalkFilterGen did not write all vector files")
        res = ctx.path("res_filter.ndjson")
        stat = last_json(ctx.run_bin("wk", ["replay-filter", "-out", res] + pairs, timeout=900))
        # self-test: a vector whose expected view lost a node, and one whose keep calls lost a call
        vs = [v for v in read_ndjson(pairs[1]) if v["view"]["kids"] and v["keeps"]][:2]
        if len(vs) < 2:
            raise Infra("no vector for the filter self-test")
        vs[0]["view"]["kids"] = vs[0]["view"]["kids"][1:]
        vs[1]["keeps"] = vs[1]["keeps"][:-1]
        stv, sto = ctx.path("selftest", "sfv.ndjson"), ctx.path("selftest", "res_filter.ndjson")
        write_ndjson(stv, vs)
        st = last_json(ctx.run_bin("wk", ["replay-filter", "-out", sto, pairs[0], stv], timeout=120))
        if st["mismatches"] < 2:
            raise Infra("self-test: replay-filter accepted a perturbed expectation")
        fmc.result()
    for m in read_ndjson(res):
        sig = dict(part="filter", what=m["what"], diff=m["diff"], pred=m["p"]["id"])
        ctx.disagree(sig, f"FilterTree, shape {m['shape']}, predicate {m['p']['id']}: {m['what']}" + (f" ({m['diff']})" if m["diff"] else ""),
                     dict(part="filter", shape=m["shape"], predicate=m["p"], data=m["d"], want_view=m["want"], want_keep_calls=m["wantkeeps"], got=m["got"],
                          how=f"bin/extra X-walk --tier {ctx.tier}; wk replay-filter sfs_{m['shape']}.ndjson sfv_{m['shape']}.ndjson"))
    sample = [v for v in read_ndjson(pairs[3]) if v["view"] != v["d"] and v["view"]["kids"]][:1]
    return dict(filter_evaluations=stat["evaluations"], filter_views_differing_from_the_tree=stat["nontrivial"], filter_bounds=dict(MaxEntries=me, MaxLL=ml)), \
        [dict(part="filter", vector=v) for v in sample], stat["evaluations"], stat["nontrivial"]


# ---------------------------------------------------------------------------------------------- part 3
def ext_part(ctx):
    q = ctx.quick()
    nfam = 4 if q else 40
    fams = [100, 102] if q else EXT_FAMS
    with cf.ThreadPoolExecutor(max_workers=2) as ex:
        fmc = ex.submit(mc, ctx, "SchemaWalkExtMC", {"Shapes": set_lit(EXT_SHAPES)}, 1500)
        g = ctx.tlc("SchemaWalkExtGen", "SchemaWalkExtGen.cfg", workers=6, timeout=1500, heap="6g",
                    consts={"Shapes": set_lit(EXT_SHAPES + fams), "NFam": nfam}, extra=["-seed", str(ctx.seed)])
        d = g["dir"]
        files = [os.path.join(d, f"sxv_{s}.ndjson") for s in EXT_SHAPES + fams]
        if not all(os.path.exists(p) for p in files):
            raise Infra("SchemaWalkExtGen did not write all vector files")
        res = ctx.path("res_ext.ndjson")
        stat = last_json(ctx.run_bin("wk", ["replay-ext", "-out", res] + files, timeout=900))
        # self-test: a vector without the last call of its first module, and one whose must replacement is not expected
        v = read_ndjson(files[0])[0]
        v1, v2 = copy.deepcopy(v), copy.deepcopy(v)
        v1["calls"][0]["seq"] = v1["calls"][0]["seq"][:-2] + v1["calls"][0]["seq"][-1:]
        v1["fails"], v1["musts"], v1["id"] = [], [], 9001
        v2["fails"], v2["id"] = [], 9002
        for m in v2["musts"]:
            if m["ext"] == "true()":
                for n in m["nodes"]:
                    n["texts"] = ["never"] * len(n["texts"])
        stv, sto = ctx.path("selftest", "sxv.ndjson"), ctx.path("selftest", "res_ext.ndjson")
        write_ndjson(stv, [v1, v2])
        st = last_json(ctx.run_bin("wk", ["replay-ext", "-out", sto, stv], timeout=120))
        hit = {m["id"] for m in read_ndjson(sto)}
        if not ({9001, 9002} <= hit):
            raise Infra(f"self-test: replay-ext accepted a perturbed expectation (reported only for {sorted(hit)})")
        fmc.result()
    for m in read_ndjson(res):
        sig = dict(part="ext", what=m["what"], hook=m["hook"])
        ctx.disagree(sig, f"Extensions hooks, module set {m['id']}: {m['what']}" + (f" (hook {m['hook']}, call {m['call']})" if m["hook"] else ""),
                     dict(part="ext", id=m["id"], what=m["what"], call=m["call"], detail=m["detail"], yang=m["texts"],
                          how=f"bin/extra X-walk --tier {ctx.tier} --seed {ctx.seed}; wk probe-ext <the yang texts>"))
    v = read_ndjson(files[3])[0]
    sample = dict(part="ext", module_set=v["id"], calls=[dict(mod=c["mod"], seq=c["seq"][:8]) for c in v["calls"]])
    return dict(ext_vectors=stat["vectors"], ext_compilations=stat["evaluations"], ext_hook_calls_compared=stat["hook_calls"], ext_sampled_per_family=nfam), \
        [sample], stat["evaluations"], stat["vectors"]


def run(ctx):
    ctx.build(["wk"])
    with cf.ThreadPoolExecutor(max_workers=3) as ex:
        fs = [ex.submit(walk_part, ctx), ex.submit(filter_part, ctx), ex.submit(ext_part, ctx)]
        parts = [f.result() for f in fs]
    cov, samples, evals, distinct = {}, [], 0, 0
    for c, s, e, dn in parts:
        cov.update(c)
        samples += s
        evals += e
        distinct += dn
    cov.update(evaluations=evals, distinct_nontrivial=distinct, samples=samples, exhaustive=True,
               rule="walk: every query of the menu (nil / walk / find / match / name x every node path, junk paths, the model set's own path) on 9 shapes, each run "
                    "several times, every observation a member of the TLC-written behaviour set; seeded queries on TLC-sampled schemas judged by the work-list machine; "
                    "filter: every ordered data tree within the bounds x every predicate of the menu on 6 shapes: view, keep calls, view of the view, underlying tree; "
                    "ext: 9 module-set shapes + sampled cases of the C12/C14 families: call sequence per module, placement of the replacements, refusal of every "
                    "(hook, argument), must replacement; distinct = distinct walk observations + filter views that differ from the tree + module sets",
               explanation="TLC checked each mechanism (work-list machine) against its meaning on the bounded inputs (SchemaWalkMC: machine = pre-orders cut at the first done call; "
                           "SchemaWalkFilterMC: post-order machine = survive/shown definition, idempotence, sub-tree, order, keys, monotonicity; SchemaWalkExtMC: machine = "
                           "recursive call bag, bottom-up, once per schema object of YangSchema's Schema(M), refusal stops) and generated the behaviours that the real "
                           "FindOrWalk, FilterTree and compiler (with a recording Extensions) were run against")
    return ctx.finish(cov, [
        "walk: sibling order is Go map order, so a behaviour is any pre-order; the action functions are the menu of SchemaWalk.tla (functions of the call alone)",
        "filter: predicates are functions of schema node, data node name / values and the children handed over; data trees conform to the schema (one node per name, "
        "entries named by key value); single-key lists",
        "ext: module sets without if-feature, deviation, submodule; typedefs at module level; ExtendType only recorded (returns its argument); opd hooks not exercised; "
        "the order of modules is free, the order inside a module is the statement order of the expanded tree",
    ])


EXT = {"X-walk": run}
DOC = {"X-walk": dict(
    title="Traversal APIs of a compiled schema: FindOrWalk, FilterTree, Extensions hooks",
    covers="schema/walk.go (ModelSet.FindOrWalk, findOrWalkWorker); schema/filtered_tree.go (FilterTree, filteredTree.YangDataChildren*); "
           "compile/extensions.go (Extensions, extendModelSet/Model/Rpc/Notification/Tree/Container/List/Leaf/LeafList/Choice/Case/Type/Must) and their call sites in compile/compile.go",
    spec=["SchemaWalk", "SchemaWalkMC", "SchemaWalkGen", "SchemaWalkTrace", "SchemaWalkFilter", "SchemaWalkFilterMC", "SchemaWalkFilterGen",
          "SchemaWalkExt", "SchemaWalkExtMC", "SchemaWalkExtGen"],
    binding="TLC-generated behaviours replayed on the real packages by harness/cmd/wk (replay-walk: membership in the allowed behaviour set over repeated runs; "
            "replay-filter: view / keep calls / idempotence / underlying tree; replay-ext: recording Extensions, per-module call sequences, wrapper placement, "
            "refusals, must replacement, identity vs nil dumps) and recorded FindOrWalk observations on TLC-sampled schemas validated by SchemaWalkTrace",
    not_judged="NodeSpec contents beyond being passed through (Data / NotPresent flags are interpreted only by test helpers); predicates that inspect "
               "dataNode.YangDataChildren() themselves; data not conforming to the schema; ExtendOpd* hooks, NodeCardinality, wrapped types; if-feature / deviation / submodules under hooks")}
