"""Type families: C13 (derived types narrow their base and inherit its default) and
C16 (type validation accepts exactly the YANG value space).

One specification (spec/YangTypes.tla: digit-string arithmetic, typedef chains, legal
narrowing, defaults, Accepts, violated restrictions), three uses of TLC:
  1. YangTypesMC     design laws on every chain of the families and on small exhaustive domains
                     (narrowing soundness, Derive law, default, subset = value-set inclusion,
                     arithmetic, unions, identity closure, pattern matcher = denotation).
  2. YangTypesGen    per chain the vector: chain to render, compile verdict, default, and for each
                     probe lexeme the verdict / error path / custom message / app-tag;
     ty run          renders every chain to YANG modules, compiles them with the real compiler and
                     validates the probes with Type().Validate; the driver compares (model -> code).
  3. YangTypesTrace  the recorded observations (chain, verdicts, error details) of the seeded random
                     chains and a sample of the others are validated event by event by the
                     specification (code -> model).
"""
import json, os, re, time, concurrent.futures as cf
from decimal import Decimal
from vlib import Infra, log, read_ndjson, write_ndjson, VERIF


def set_lit(xs):
    return "{" + ", ".join(str(x) for x in xs) + "}"


def fams_for(prop, quick):
    """family ids (see YangTypesSets.tla ChainsOf) and the design-law items for a property and tier"""
    if prop == "C13":
        if quick:
            f = [1000 + 100 * b + i for b in (1, 4) for i in (1, 4, 5, 6, 10, 11, 13, 16)]
            f += [2000 + 100 * 4 + 10 * i1 + i2 for i1 in (2, 3) for i2 in (1, 2)]
            f += [3000 + 100 * fd + i for fd in (1, 3) for i in (1, 4, 5, 6, 9, 12)]
            f += [4002, 5002, 5003, 5004, 5008, 6001, 6003, 7001, 7002, 7003]
            rand = [9001, 9002, 9003, 9004]
        else:
            f = [1000 + 100 * b + i for b in range(1, 9) for i in range(1, 18)]
            f += [2000 + 100 * b + 10 * i1 + i2 for b in (1, 4, 5, 8) for i1 in range(1, 5) for i2 in range(1, 5)]
            f += [3000 + 100 * fd + i for fd in range(1, 7) for i in range(1, 17)]
            f += [4000 + i for i in range(1, 7)] + [5000 + i for i in range(1, 13)] + [6001, 6002, 6003, 7001, 7002, 7003]
            rand = list(range(9001, 9025))
        laws = [20001, 20002]
        # groups of sibling leaves: 100xx the same typedef chain refined differently, 101tx identical restriction texts over different bases
        if quick:
            f += [10001, 10003, 10004, 10006, 10011, 10013, 10022, 10111, 10112, 10116, 10121, 10131, 10140]
            # 1200b parts at both extremes of the type, 12010 the same for lengths, 121xx inherited default under a level adding one restriction kind
            f += [12003, 12004, 12010, 12111, 12102, 12105]
            # 1202b / 12030 / 1204f representation limits as range / length bounds; 102xx histories of one typedef in one compilation
            f += [12023, 12024, 12030, 12041, 10201, 10202, 10203, 10205]
            # 122xx every probe lexeme of a type (incl. multi-byte strings, lexical variants, anchoring probes) as default at every level
            f += [12201, 12203, 12204, 12206, 12210, 12211, 12214, 12218, 12220]
            f += [12050]     # base-only substatements (fraction-digits) on a typedef reference
            # 123xx default / narrowing at every level of the chain in every leaf context (mandatory, config false, status,
            # if-feature, choice / case, list, presence container, grouping + uses, refine); 103xx the same chain as sibling
            # leaves in different contexts
            f += [12311, 12312, 10311]
            # 140fj decimal64 bounds one unit apart at every fraction-digits value (f = 1..18) and magnitude (j), within 15 significant
            # digits; 142xx typedef chains of depth 4-5 in every layout over two modules (where the chain leaves module b, local names
            # that coincide between the modules, bare / own-prefix links); 1041x the same chain in two layouts as sibling leaves
            f += [14000 + 10 * fd + 6 for fd in range(1, 19)] + [14000 + 10 * fd + 4 for fd in (1, 10, 18)]
            f += [14211, 14212, 10411]
            rand += [11001]
        else:
            f += [10000 + i for i in (1, 2, 3, 4, 5, 6, 11, 12, 13, 21, 22)] + [10110 + i for i in range(1, 9)] + [10120 + i for i in range(1, 7)] + [10131, 10132, 10133, 10140]
            f += [12001, 12002, 12003, 12004, 12010, 12101, 12102, 12103, 12104, 12105]
            f += [12020 + i for i in range(1, 9)] + [12030] + [12040 + i for i in range(1, 7)] + [10200 + i for i in range(1, 8)]
            f += [12200 + i for i in range(1, 22)] + [12050]
            f += [12300 + i for i in range(1, 7)] + [10300 + i for i in range(1, 7)]
            f += [14000 + 10 * fd + jj for fd in range(1, 19) for jj in (1, 2, 3)]
            f += [14201, 14202, 14203, 14204, 14205, 10411, 10412, 10413]
            rand += list(range(11001, 11007))
    else:
        f = [8000 + i for i in range(1, 9)] + [8010 + i for i in range(1, 7)] + [8020, 8021, 8022]
        rand = [9101, 9102, 9103, 9104, 9105, 9106] if quick else list(range(9101, 9125))
        laws = [20002, 20003, 20004, 20005]
        # 1300x types with a large value set (also validated concurrently on first use); 12030 length limits
        f += [13001, 13002, 13003, 13004, 12030]
        # 803x unions whose members refine the same typedef (side by side, through nested typedef'd / inline unions), typedefs
        # of the same name in two modules; 92xx seeded random unions of that shape; 12306 such unions with defaults in every leaf context
        f += [8038, 8039, 8040] if quick else [8030 + i for i in range(1, 8)] + [12306]
        # 8051 / 8052 unions with a member that spans the whole type but has holes (multi-part lengths / ranges from min to max), with
        # patterns and further lengths at other typedef levels, flat and nested; 8053 identityref types on leaves whose statement is
        # written in another file than the module they belong to (grouping of the other module, augment, submodule) and 10420 leaves of
        # both modules sharing one identityref typedef; 81fj decimal64 bounds one unit apart (see C13) with the rich probes
        f += [8052, 8053, 10420] if quick else [8051, 8053, 10420, 14204]
        f += [8100 + 10 * fd + 6 for fd in (1, 6, 12, 18)] if quick else [8100 + 10 * fd + jj for fd in range(1, 19) for jj in (1, 3)]
        rand += [9201, 9202] if quick else list(range(9201, 9213))
        if quick:
            f += [10003, 10006, 10012, 10111, 10112, 10113, 10114, 10116, 10118, 10121, 10124, 10131, 10140]
            rand += [11101]
        else:
            f += [10000 + i for i in (1, 2, 3, 4, 5, 6, 11, 12, 13, 21, 22)] + [10110 + i for i in range(1, 9)] + [10120 + i for i in range(1, 7)] + [10131, 10132, 10133, 10140]
            rand += list(range(11101, 11107))
    return f, rand, laws


def txt(cps):
    return "".join(chr(c) for c in cps)


def dec_or_none(s):
    try:
        return Decimal(s)
    except Exception:
        return None


def f64_collapse(texts, probe=None):
    """Do two different decimal numbers among texts (or probe and one of texts) round to the same float64?
    (attributes a disagreement to the float64 representation of decimal64 range bounds)"""
    vals = [(dec_or_none(t), t) for t in texts]
    vals = [(d, t) for d, t in vals if d is not None and d.is_finite()]
    if probe is not None:
        p = dec_or_none(probe)
        if p is None or not p.is_finite():
            return False
        return any(d != p and float(d) == float(p) for d, _ in vals)
    for i in range(len(vals)):
        for j in range(i + 1, len(vals)):
            if vals[i][0] != vals[j][0] and float(vals[i][0]) == float(vals[j][0]):
                return True
    return False


def chain_bound_texts(ch):
    """bound and default texts of the decimal64 chains in ch (ch itself or, for a union, its members at any depth)"""
    out = []
    for lv in ch["levels"]:
        if ch["k"] == "decimal64":
            for p in lv["rng"]:
                out += [txt(p["lo"]), txt(p["hi"])]
            if lv["hasDef"]:
                out.append(txt(lv["def"]))
        for m in lv["members"]:
            out += chain_bound_texts(m)
    if ch["k"] == "decimal64":
        fd = ch["levels"][0]["fd"]
        if 1 <= fd <= 18:
            out += [str(Decimal(-2 ** 63).scaleb(-fd)), str(Decimal(2 ** 63 - 1).scaleb(-fd))]
    return out


def single_minmax(ch):
    for lv in ch["levels"]:
        for p in lv["rng"] + lv["len"]:
            if p["single"] and txt(p["lo"]) in ("min", "max"):
                return True
        if any(single_minmax(m) for m in lv["members"]):
            return True
    return False


def chain_form(ch):
    """syntactic class of a chain, used to attribute compile disagreements"""
    if single_minmax(ch):
        return "single-min-or-max-part"
    return "plain"


def describe(ch):
    def lv(l):
        s = []
        if l["fd"]:
            s.append("fraction-digits %d" % l["fd"])
        if l["rng"]:
            s.append("range " + "|".join(txt(p["lo"]) if p["single"] else txt(p["lo"]) + ".." + txt(p["hi"]) for p in l["rng"]))
        if l["len"]:
            s.append("length " + "|".join(txt(p["lo"]) if p["single"] else txt(p["lo"]) + ".." + txt(p["hi"]) for p in l["len"]))
        for p in l["pats"]:
            s.append("pattern " + txt(p["txt"]))
        if l["enums"]:
            s.append("enums")
        if l["members"]:
            s.append("union(" + ", ".join(describe(m) for m in l["members"]) + ")")
        if l["idbase"]["n"]:
            s.append("base %s:%s" % (l["idbase"]["m"], l["idbase"]["n"]))
        if l["hasDef"]:
            s.append("default %r" % txt(l["def"]))
        return "{" + "; ".join(s) + "}"
    where = "" if ch.get("ctx", "plain") == "plain" else " [leaf: %s]" % ch["ctx"]
    if ch.get("lay") == "xmod" and ch.get("mod") == "b" or ch.get("lay") == "xmod" and len(ch["levels"]) > 1:
        where = " [innermost typedef in module a, used from module b]" + where
    elif ch.get("lay", "").startswith("xm-"):
        _, sp, naming, spell = ch["lay"].split("-")
        where = " [%s innermost typedefs in module a, the others in module %s; local names of the two modules: %s; links inside a module: %s]" % (
            sp, ch.get("mod"), {"same": "numbered per module (coincide)", "mirror": "coincide in reverse order", "uniq": "all different"}.get(naming, naming),
            "own prefix" if spell == "own" else "bare") + where
    if ch.get("ctx", "plain") != "plain" and ch.get("mod") == "b":
        where += " [leaf belongs to module b]"
    return ch["k"] + " " + " <- ".join(lv(l) for l in ch["levels"]) + where


def compare(ctx, vec, obs, sites, found):
    """replay binding: every prescribed fact of the vector against the observation; disagreements are added to
    found[(id, site, probe index)]; returns the number of judged facts"""
    ch = vec["chain"]
    kind = vec["kc"]
    judged = 0
    cur = [0]

    def rep(sig, what, extra):
        r = dict(kind="replay", chain=describe(ch), siblings=[describe(c) for c in vec["sibs"]], leaf="x%d" % vec["mi"], yang=obs.get("yang"), id=obs["id"], vector="%s:%d" % (os.path.basename(obs["file"]), obs["line"]),
                 how="bin/check %s --tier %s --seed %d (VERIF_KEEP=1 keeps the vectors; `ty render < vector` prints the modules)" % (ctx.prop, ctx.tier, ctx.seed))
        r.update(extra)
        found[(obs["id"], sig["site"], cur[0])] = (sig, what, r)

    if obs.get("panic"):
        rep(dict(site="compile", kind=kind, want="no-crash", why="panic"), "compiler panicked on " + describe(ch), dict(panic=obs["panic"]))
        return 1
    # the module set compiles iff every sibling chain does (g* = verdict over the whole group)
    # where the compile verdict is not judged, what does compile is still probed (e.g. a derived type may not accept what its base rejects)
    if not vec["gj"] and not (vec["gok"] and obs["compiled"]):
        return 0
    judged += 1 if vec["mi"] == 1 and vec["gj"] else 0
    if vec["gok"] != obs["compiled"]:
        if "compile" in sites and vec["mi"] == 1:
            chains = [ch] + vec["sibs"]
            whole = describe(ch) + "".join("  ||  " + describe(c) for c in vec["sibs"])
            sig = dict(site="compile", kind=vec["gkind"], want="ok" if vec["gok"] else "refuse", why=vec["gwhy"],
                       form="single-min-or-max-part" if any(single_minmax(c) for c in chains) else "plain")
            if len(chains) > 1:
                sig["leaves"] = len(chains)
            if any(c.get("ctx", "plain") != "plain" for c in chains):
                sig["leafctx"] = sorted(set(c["ctx"] for c in chains if c.get("ctx", "plain") != "plain"))[0]
            if sig["kind"] in ("decimal64", "union"):
                sig["f64"] = "collapse" if any(f64_collapse(chain_bound_texts(c)) for c in chains) else "exact"
            rep(sig, "compile verdict: specification says %s (%s), compiler %s: %s" % ("ok" if vec["gok"] else "refuse", vec["gwhy"], "compiled" if obs["compiled"] else "refused", whole),
                dict(want=dict(ok=vec["gok"], why=vec["gwhy"]), got=dict(compiled=obs["compiled"], error=obs.get("cerr"))))
        return judged
    if not vec["gok"]:
        return judged
    judged += 1
    # (dj: what Default() of a mandatory leaf reports is not judged)
    if vec["gj"] and vec["dj"] and (vec["hasDef"] != obs["hasDef"] or (vec["hasDef"] and vec["def"] != obs["def"])) and "default" in sites:
        rep(dict(site="default", kind=kind, want="default" if vec["hasDef"] else "no-default"), "Default() of " + describe(ch),
            dict(want=dict(hasDef=vec["hasDef"], default=txt(vec["def"])), got=dict(hasDef=obs["hasDef"], default=txt(obs["def"]))))
    # every pass of the harness (kept errors inspected after the pass; forward through Type().Validate, reverse through
    # ModelSet.Validate; repeated compilations) must show the same, prescribed outcome for every probe
    if any(len(vec["probes"]) != len(pas) for pas in obs["passes"]) or not obs["passes"]:
        raise Infra("observation does not match its vector (probe count)")
    for pi, (p, q) in enumerate(all_probes(vec, obs)):
        cur[0] = pi + 1
        if not p["j"]:
            continue
        judged += 1
        v = txt(p["v"])
        if p["acc"] != q["ok"]:
            if "accept" in sites:
                sig = dict(site="accept", kind=kind, want="accept" if p["acc"] else "reject", lex=p["cls"])
                if ch.get("ctx", "plain") != "plain":
                    sig["leafctx"] = ch["ctx"]
                if kind in ("decimal64", "union"):
                    sig["f64"] = "collapse" if f64_collapse([txt(b) for b in vec["bounds"]], v) else "exact"
                rep(sig, "Validate(%r): specification %s, code %s; type %s" % (v, "accepts" if p["acc"] else "rejects", "accepts" if q["ok"] else "rejects", describe(ch)),
                    dict(lexeme=v, codepoints=p["v"], want=p["acc"], got=q))
            continue
        if p["acc"]:
            continue
        if q["pc"] not in p["pm"] and "path" in sites:
            rep(dict(site="path", kind=kind, got=q["pc"]), "error path of the rejection of %r is %r; type %s" % (v, q["path"], describe(ch)), dict(lexeme=v, want=p["pm"], got=q))
        if p["mj"] and q["msg"] not in p["msgs"] and "message" in sites:
            rep(dict(site="message", kind=kind), "rejection of %r does not carry the custom error-message; type %s" % (v, describe(ch)), dict(lexeme=v, want=p["msgs"], got=q))
        if p["tj"] and q["tag"] not in p["tags"] and "app-tag" in sites:
            rep(dict(site="app-tag", kind=kind), "rejection of %r does not carry the custom error-app-tag; type %s" % (v, describe(ch)), dict(lexeme=v, want=p["tags"], got=q))
    return judged


def all_probes(vec, obs):
    """(expectation, observation) of every probe in every pass, in one fixed order"""
    return [(p, q) for pas in obs["passes"] for p, q in zip(vec["probes"], pas)]


def validate_trace(ctx, events, nproc, selftest):
    """YangTypesTrace over the events, chunked and in parallel; returns the failures.  selftest is a corrupted
    event (id 0) validated in a chunk of its own: the specification must reject exactly its flipped verdict."""
    per = max(1, (len(events) + nproc - 1) // nproc)
    chunks = []
    for c in range(0, len(events), per):
        p = ctx.path("chunks", "trace_%d.ndjson" % len(chunks))
        write_ndjson(p, events[c:c + per])
        chunks.append((p, len(events[c:c + per])))
    p = ctx.path("chunks", "selftest.ndjson")
    write_ndjson(p, [selftest])
    chunks.append((p, 1))

    def one(ch):
        p, n = ch
        r = ctx.tlc("YangTypesTrace", "YangTypesTrace.cfg", data={"trace.ndjson": p}, workers=1, timeout=1500, heap="3g")
        m = re.search(r'<<"TRACE-RESULT", (\d+), (\d+)>>', r["out"])
        if not m or int(m.group(1)) != n:
            raise Infra("trace validation did not consume the trace:\n" + r["out"][-3000:])
        fs = []
        for l in r["out"].splitlines():
            if l.startswith('"FAILJSON '):
                fs.append(json.loads(json.loads(l)[len("FAILJSON "):]))
        if len(fs) != int(m.group(2)):
            log("note: %s failures counted, %d reported" % (m.group(2), len(fs)))
        return fs

    out = []
    with cf.ThreadPoolExecutor(max_workers=nproc) as ex:
        futs = []
        for ch in chunks:
            futs.append(ex.submit(one, ch))
            time.sleep(0.3)      # vlib allocates the scratch directory of a run at the start of the call
        for f in futs[:-1]:
            out += f.result()
        st = futs[-1].result()
    if not any(f["id"] == 0 and f["site"] == "accept" for f in st):
        raise Infra("binding self-test failed: a flipped verdict was not rejected by YangTypesTrace")
    return out


SITES = {
    "C13": {"compile", "default", "accept"},
    "C16": {"compile", "default", "accept", "path", "message", "app-tag"},
}


def run(ctx):
    prop = ctx.prop
    quick = ctx.quick()
    fams, rand, laws = fams_for(prop, quick)
    sites = SITES[prop]
    ctx.build(["ty"])
    maxd = 3
    conc_fams = [f for f in fams if f // 1000 == 13]
    # 1. design laws
    mcf = laws + ([f for f in fams if f // 1000 in (1, 3, 5, 6, 7, 8, 12, 14) and f != 7003][::4] if quick else [f for f in fams if f // 1000 not in (10, 11)])
    def design_laws():
        ctx.tlc("YangTypesMC", "YangTypesMC.cfg", workers=6, timeout=1200, heap="8g",
                consts={"Fams": set_lit(mcf), "MaxDepth": maxd})
    # 2. behaviour generator: the exhaustive families in one TLC run (one family per initial state), the seeded random
    #    families in single-worker runs (seed derived from ctx.seed; one worker draws in a fixed order: reproducible)
    nrand = 40 if quick else 400
    vfiles = []

    def gen_random(gi, group):
        r = ctx.tlc("YangTypesGen", "YangTypesGen.cfg", workers=1, timeout=1500, heap="3g",
                    consts={"Fams": set_lit(group), "MaxDepth": maxd, "NRand": nrand}, extra=["-seed", str(ctx.seed * 1000 + gi)])
        return [os.path.join(r["dir"], "vec_%d.ndjson" % fam) for fam in group]

    ngroups = 1 if quick else 6
    groups = [rand[i::ngroups] for i in range(ngroups)]
    with cf.ThreadPoolExecutor(max_workers=ngroups + 1) as ex:
        mc = ex.submit(design_laws)       # the design laws are checked while the vectors are generated
        # the harness once more under the race detector, for the concurrent first-use stage
        racebuild = ex.submit(ctx.build, ["ty"], True) if conc_fams else None
        time.sleep(0.3)
        futs = []
        for gi, group in enumerate(groups):
            futs.append(ex.submit(gen_random, gi, group))
            time.sleep(0.3)      # vlib allocates the scratch directory of a run at the start of the call
        g = ctx.tlc("YangTypesGen", "YangTypesGen.cfg", workers=10, timeout=1500, heap="10g",
                    consts={"Fams": set_lit(fams), "MaxDepth": maxd, "NRand": 0})
        vfiles = sorted(os.path.join(g["dir"], f) for f in os.listdir(g["dir"]) if re.match(r"vec_\d+\.ndjson$", f))
        for f in futs:
            vfiles += f.result()
        mc.result()
        if racebuild:
            racebuild.result()
    if not vfiles or any(not os.path.exists(f) for f in vfiles):
        raise Infra("generator produced no vectors")
    obsf = ctx.path("obs.ndjson")
    ctx.run_bin("ty", ["run", "-out", obsf, "-yang"] + vfiles, timeout=900)
    rawv = []
    for f in vfiles:
        rawv += read_ndjson(f)
    rawo = read_ndjson(obsf)
    # concurrent stage: types with a large value set are compiled afresh and validated by 16 goroutines released
    # together, 6 times, in a binary built with the race detector; every verdict must be the sequential oracle's
    # (the conjunction and the disjunction of the verdicts come back as two passes), and no race may be reported
    nconc = 0
    if conc_fams:
        cfiles = [f for f in vfiles if int(re.search(r"vec_(\d+)", f).group(1)) in conc_fams]
        cobs = ctx.path("conc.ndjson")
        r = ctx.run_bin("ty-race", ["conc", "-out", cobs] + cfiles, timeout=600, check=False)
        if "DATA RACE" in r.stderr:
            m = re.search(r"WARNING: DATA RACE(.*?)={10,}", r.stderr, re.S)
            where = re.findall(r"\n  ([\w./*()]+)\(\)\n", m.group(1) if m else r.stderr)
            ctx.disagree(dict(site="concurrency", what="data-race", where=next((w for w in where if "yang-parser" in w), "?")),
                         "data race while one freshly compiled type is validated from several goroutines",
                         dict(kind="race", report=(m.group(0) if m else r.stderr)[:3000], how="ty-race conc <vec_1300x.ndjson> (bin/check C16)"))
        elif r.returncode != 0:
            raise Infra("ty-race conc failed rc=%d:\n%s" % (r.returncode, r.stderr[-3000:]))
        for f in cfiles:
            rawv += read_ndjson(f)
        co = read_ndjson(cobs) if os.path.exists(cobs) else []
        nconc = len(co)
        if len(co) != sum(1 for f in cfiles for _ in open(f)):
            if "DATA RACE" not in r.stderr:
                raise Infra("concurrent stage returned %d observations" % len(co))
            rawv = rawv[:len(rawo) + len(co)]
        rawo += co
    if len(rawv) != len(rawo):
        raise Infra("harness returned %d observations for %d vectors" % (len(rawo), len(rawv)))
    # a vector is one chain or a group of chains compiled together (sibling leaves); flatten to one entry per leaf
    vecs, obs, nsib = [], [], 0
    for rv, ro in zip(rawv, rawo):
        ms = rv.get("grp") or [rv]
        if len(ms) != len(ro["grp"]):
            raise Infra("observation does not match its vector (member count)")
        nsib += 1 if len(ms) > 1 else 0
        bad = [m for m in ms if m["cj"] and not m["ok"]]
        gok = all(m["ok"] for m in ms)
        gj = all(m["cj"] for m in ms) or bool(bad)
        for mi, (m, o) in enumerate(zip(ms, ro["grp"])):
            m.update(mi=mi + 1, sibs=[x["chain"] for k, x in enumerate(ms) if k != mi], gok=gok, gj=gj,
                     gwhy=bad[0]["why"] if bad else "ok", gkind=bad[0]["kc"] if bad else m["kc"])
            o.update(id=ro["id"] * 64 + mi + 1, file=ro["file"], line=ro["line"])
            vecs.append(m)
            obs.append(o)
    # 3. replay comparison (model -> code)
    judged = unjudged = nprobes = 0
    shapes = set()
    samples = []
    found = {}
    for v, o in zip(vecs, obs):
        judged += compare(ctx, v, o, sites, found)
        if not v["gj"]:
            unjudged += 1
        unjudged += sum(1 for p in v["probes"] if not p["j"])
        nprobes += len(v["probes"])
        shapes.add(re.sub(r"[0-9]+", "#", describe(v["chain"])))
        if len(samples) < 3 and len(v["chain"]["levels"]) == 3 and v["ok"] and all(l["rng"] or l["len"] or l["pats"] for l in v["chain"]["levels"]) \
                and v["fam"] // 100 not in [x["fam"] // 100 for x in samples]:
            samples.append(dict(fam=v["fam"], chain=describe(v["chain"]), default=txt(v["def"]) if v["hasDef"] else None,
                                probes=[dict(v=txt(p["v"]), accept=p["acc"]) for p in v["probes"][:6]]))
    # 4. trace validation (code -> model): all seeded random chains and a slice of the others
    budget = 900 if quick else 16000
    nr = sum(1 for v in vecs if v["fam"] // 1000 in (9, 11))
    step = max(1, (len(vecs) - nr) // max(1, budget - nr))
    events, sampled = [], set()
    for i, (v, o) in enumerate(zip(vecs, obs)):
        if (v["fam"] // 1000 not in (9, 11) and i % step != 0) or o.get("panic"):
            continue
        sampled.add(o["id"])
        events.append(dict(id=o["id"], chain=v["chain"], sibs=v["sibs"], mi=v["mi"], compiled=o["compiled"], hasDef=o["hasDef"], **{"def": o["def"]},
                           probes=[dict(v=p["v"], ok=q["ok"], pc=q["pc"], msg=q["msg"], tag=q["tag"]) for p, q in all_probes(v, o)]))
    # binding self-test: an observation with one flipped verdict must be rejected by the trace specification and
    # a vector with one flipped expectation must be reported by the comparison
    st = next(((v, o) for v, o in zip(vecs, obs) if o["compiled"] and v["gj"] and v["gok"] and v["cj"] and any(p["j"] for p in v["probes"])), None)
    if st is None:
        raise Infra("no compiled chain with a judged probe: nothing was exercised")
    sv, so = st
    k = next(i for i, p in enumerate(sv["probes"]) if p["j"])
    bad_obs = json.loads(json.dumps(so))
    bad_obs["passes"][0][k]["ok"] = not sv["probes"][k]["acc"]
    bad_obs["id"] = 0
    bad_vec = json.loads(json.dumps(sv))
    bad_vec["probes"][k]["acc"] = not so["passes"][0][k]["ok"]
    probe_found = {}
    compare(ctx, bad_vec, so, sites, probe_found)
    if not any(key[1] == "accept" and key[2] == k + 1 for key in probe_found):
        raise Infra("binding self-test failed: a perturbed expectation was not reported by the replay comparison")
    selftest = dict(id=0, chain=sv["chain"], sibs=[], mi=1, compiled=True, hasDef=so["hasDef"], **{"def": so["def"]},
                    probes=[dict(v=p["v"], ok=q["ok"], pc=q["pc"], msg=q["msg"], tag=q["tag"]) for p, q in all_probes(sv, bad_obs)])
    fails = validate_trace(ctx, events, 4 if quick else 8, selftest)
    ctx.traces += len(events)
    tkeys = set((f["id"], f["site"], f["pi"]) for f in fails if f["site"] in sites)
    rkeys = set(k for k in found if k[0] in sampled)
    if tkeys != rkeys:
        # both directions evaluate the same operators on the same observation: they must report the same facts
        raise Infra("replay comparison and trace validation disagree on the sampled chains: only-trace %s only-replay %s"
                    % (sorted(tkeys - rkeys)[:5], sorted(rkeys - tkeys)[:5]))
    for k in sorted(found):
        sig, what, r = found[k]
        if k in tkeys:
            r["also"] = "rejected by YangTypesTrace (event id %d)" % k[0]
        ctx.disagree(sig, what, r)
    cov = dict(
        evaluations=judged, distinct_nontrivial=len(shapes),
        rule="evaluations = judged facts (compile verdicts, defaults, probe verdicts); distinct = chain shapes after erasing numbers",
        samples=samples, families=fams + rand, chains=len(vecs), probes=nprobes, unjudged=unjudged,
        random_chains=nr, groups_of_sibling_leaves=nsib, concurrent_first_use_types=nconc, trace_events=len(events), trace_failures=len(fails), exhaustive=True,
        explanation="TLC checked the design laws on every chain of the listed families, generated one vector per chain (and per seeded random chain); "
                    "every vector was rendered to YANG, compiled by the real compiler and probed through Type().Validate / Default(); "
                    "the observations of the random chains and of a slice of the others were validated by YangTypesTrace")
    return ctx.finish(cov, [
        "types are observed through compile.CompileParseTrees on rendered modules and schema Type().Validate / Leaf.Default()",
        "range / length bound texts are canonical numbers (no '+', no leading zeros, no hexadecimal): other forms are not generated",
        "patterns are drawn from a subset common to XSD and RE2 (literals, '.', classes, alternation, grouping, * + ? {m,n})",
        "default app-tags and default messages are not judged, only custom error-message / error-app-tag of violated restrictions",
        "identityref lexemes: bare name for identities of the leaf's module, module:name for others; the two other forms are unjudged",
        "the module of a leaf is the module whose statements put it into the data tree (the using / augmenting module, the module a submodule belongs to)",
        "a decimal64 range part spanning two base parts exactly one unit apart is judged as not narrowing (parts of a decimal64 range are never contiguous)",
    ])


PROPS = {"C13": run, "C16": run}

TY = ("TLA+ spec YangTypes (digit-string arithmetic, typedef chains, legal narrowing, defaults, Accepts, violated restrictions): TLC checks the design laws, "
      "generates one vector per typedef chain replayed on the real compiler and Type().Validate, and validates recorded observations with YangTypesTrace")
MANIFEST = {
 "C13": dict(text="TLC enumerates typedef chains to depth 3 over int8/uint8/int64/uint64, decimal64 (fraction-digits 1, 2, 18), string length and pattern, "
             "enumeration, boolean, empty, union and identityref, with restriction menus built from boundary coincidences (equal bounds, adjacent parts, min/max, "
             "overlap, descending, outside the base, wrong kind for the base) and defaults at each level; for each chain the spec prescribes the compile verdict, "
             "Default() and the verdict of probes at every bound +/- one unit (computed on digit strings). Each chain is rendered to a YANG module, compiled by the "
             "real compiler and probed; seeded random chains with random multi-part ranges are recorded and validated by the trace spec. Groups of 2-3 sibling "
             "leaves compiled in one module set (the same typedef chain of depth 2-4 refined differently, textually identical min/max restrictions over different "
             "bases, both orders, one and two modules, random groups) are judged leaf by leaf: a leaf's type depends only on its own chain. The verdicts are also probed with the leaf in every context it can stand in "
             "(mandatory, config false, status, if-feature, choice / case, list, presence container, grouping + uses, refine; statement written in a grouping of the other module, "
             "in an augment, in a submodule). Chains of depth 2-5 are laid out over two modules in every way (where the chain leaves the importing module, typedefs of the two modules "
             "with the same local name, bare and own-prefix references); decimal64 bounds one unit apart are enumerated for every fraction-digits value 1..18 at three magnitudes "
             "within 15 significant digits. TLC also proves on the "
             "spec that legal narrowing makes the innermost range sufficient and that Covered equals value-set inclusion.",
             note="bound texts in canonical form only; decimal64 parts one unit apart are judged non-contiguous; string length bounds stay below 2^31",
             design="4 C13", technique=TY),
 "C16": dict(text="For directly constructed types of all eight integer widths, decimal64 with fraction-digits 1, 2, 3, 9, 17, 18, strings with lengths and patterns, "
             "enumerations, booleans, empty, nested unions and identity hierarchies over two modules the spec gives the verdict of every probe: each bound +/- one "
             "unit, 18-20 digit values, signs, leading zeros, malformed numbers, multi-byte strings at each length bound, substring-only pattern matches, and for "
             "rejections the path and the custom error-message / error-app-tag of the violated restrictions. Probes are validated by Type().Validate of the compiled "
             "leaf; seeded random lexemes (digit strings around bounds, random Unicode) are recorded and validated by the trace spec. Several types with "
             "textually identical restriction arguments over different bases are compiled together (one module, two modules parsed with shared interners, both "
             "orders) and each is judged by its own Accepts with the probes of all of them. Unions whose members refine the same typedef "
             "(different / equal / no inline restrictions; side by side, through nested typedef'd and inline unions, typedefs of the same name in two "
             "modules; seeded random unions) are accepted iff some member accepts, also when a member spans the whole type with holes (length 0..3 | 8..max). "
             "Identityref values are spelt relative to the module the leaf belongs to wherever its statement is written (grouping of the other module, augment, submodule).",
             note="default messages and app-tags are not judged; union rejections carry no judged message; leading/trailing whitespace is not generated",
             design="4 C16", technique=TY),
}
