"""Statement grammar family: C09 (cardinality, ordering and argument syntax are enforced).

Pipeline (one spec, three uses of TLC):
  1. YangStmtMC    design-level checks of the spec itself: table well-formedness, every template is
                   valid and minimal (the only violation of a probe is the one it was built for).
  2. YangStmtGen   probe generator: every (parent, child, count) triple, section orders, revision
                   lists, argument strings per kind, keyword table; each probe embedded by the spec in a
                   minimal valid module and labelled with Expect(tree).
     ys run        renders, runs parse.Parse and compile.CompileParseTrees, reports what happened.
  3. YangStmtTrace code -> model: TLC-sampled trees are mutated by the harness (seeded), fed to the real
                   code, and every (tree, verdict, error location) event is judged by Valid(tree).
"""
import json, os, re, time, concurrent.futures as cf
from vlib import Infra, log, read_ndjson, write_ndjson, VERIF, REPO

NPARENTS = 68
NKINDS = 18
SELFTEST_ID = 99999999


def set_lit(xs):
    return "{" + ", ".join(str(x) for x in xs) + "}"


def is_event_source(f):
    """vec_300 (random bases), vec_302/303 and vec_5xx (histories) feed `ys record`, not `ys run`."""
    n = int(re.match(r"vec_(\d+)", f).group(1))
    return n in (300, 302, 303, 304) or 500 <= n < 600


def judge_probe(p, r):
    """Compare one observation with the verdict the spec prescribes. Returns (status, what)
    with status in ok | unjudged | disagree."""
    o = r["obs"]
    e = p["exp"]
    if o["panic"]:
        return "disagree", "panic"
    if e["verdict"] == "unjudged":
        return "unjudged", ""
    if e["verdict"] == "accept":
        if not o["parseOk"]:
            return "disagree", "valid-rejected-by-parse"
        if p["clean"] and o["compiled"] and not o["compileOk"]:
            return "disagree", "valid-rejected-by-compile"
        return "ok", ""
    # reject
    if o["parseOk"] and not o["compiled"]:
        return "unjudged", ""          # the parser may defer the check to the compiler, which was not run
    if o["parseOk"] and o["compileOk"]:
        return "disagree", "invalid-accepted"
    if e["locate"]:
        if not o["located"]:
            return "disagree", "rejected-without-location"
        hit = False
        for b in e["bad"]:
            # located at the offending statement or its parent, naming the statement it points at or the offending one
            at = o["errPathSeq"] in b["at"] or (bool(p.get("expand")) and o["errPathSeq"][:-1] in b["at"])   # any of the written-out copies
            if o["errPath"] != "-" and at and (b["kw"] in o["named"] or o["errAtKw"] in o["named"]):
                hit = True
        if not hit:
            return "disagree", "rejected-but-misattributed"
    return "ok", ""


def probe_sig(p, what, o):
    """What failed, in spec terms (same vocabulary as the records of YangStmtTrace)."""
    lab = p["lab"]
    phase = "parse" if not o["parseOk"] else ("compile" if o["compiled"] and not o["compileOk"] else "none")
    bad = p["exp"]["bad"]
    vkind = bad[0]["kind"] if bad else "none"
    err = re.sub(r"^.*?probe:\d+:\d+: ", "", o["parseErr"] or o["compileErr"] or "")
    names = "|".join(o["named"])       # the words of the error text: which statements it names (never its wording) may be matched
    if lab[0] in ("card", "big", "extname"):
        return dict(fam=lab[0], what=what, phase=phase, site=lab[1], kw=lab[2], n=lab[3], vkind=vkind, argkind="", arg="", err=err, names=names)
    if lab[0] == "argin":      # a closed-list argument under parent lab[1]
        return dict(fam="argin", what=what, phase=phase, site=lab[1], kw=lab[2], vkind="argument", argkind="", arg=lab[3], err=err, names=names)
    if lab[0] == "arg":
        return dict(fam="arg", what=what, phase=phase, site=lab[2], kw=lab[2], vkind="argument", argkind=lab[1], arg=lab[3], err=err, names=names)
    return dict(fam=lab[0], what=what, phase=phase, site=lab[1], kw=bad[0]["kw"] if bad else "", vkind=vkind, argkind="", arg="", err=err, names=names)


def run(ctx):
    quick = ctx.quick()
    ctx.build(["ys"])
    # 1. the spec's own well-formedness (design level; a failure is my fault, exit 2)
    pool = cf.ThreadPoolExecutor(max_workers=1)
    mc = pool.submit(ctx.tlc, "YangStmtMC", "YangStmtMC.cfg", workers=8, timeout=800, heap="6g",
                     consts={"MaxCount": 2 if quick else 3, "Thorough": "FALSE" if quick else "TRUE"})
    time.sleep(0.3)      # let the MC run take its scratch directory number first
    # 2. probes
    # every family the spec defines: 1..68 parents, 101.. (argument kind, statement) pairs, 200.. order / revision / keyword table / random
    nrand = 300 if quick else 4000
    g = ctx.tlc("YangStmtGen", "YangStmtGen.cfg", workers=8, timeout=800, heap="8g",
                consts={"Fams": set_lit(range(1, 1000)), "MaxCount": 2 if quick else 3, "NRand": nrand,
                        "RandDepth": 3 if quick else 4, "Thorough": "FALSE" if quick else "TRUE",
                        "BigK": 2 if quick else 6, "HistBad": 3 if quick else 12, "HistOk": 2 if quick else 3},
                extra=["-seed", str(ctx.seed)])
    vecs = sorted(f for f in os.listdir(g["dir"]) if re.match(r"vec_\d+\.ndjson$", f))
    if len(vecs) < NPARENTS + NKINDS + 5 or 2 * len(vecs) != g["distinct"]:
        raise Infra(f"generator wrote {len(vecs)} files for {g['distinct']} states")

    def replay(f):
        src = os.path.join(g["dir"], f)
        out = ctx.path("res", f)
        ctx.run_bin("ys", ["run", "-in", src, "-out", out], timeout=600)
        return f, read_ndjson(src), read_ndjson(out)

    stats = dict(probes=0, accept=0, reject=0, unjudged=0, compiled=0, by_family={})
    samples, distinct = [], set()
    selftest = None
    with cf.ThreadPoolExecutor(max_workers=8) as ex:
        results = list(ex.map(replay, [f for f in vecs if not is_event_source(f)]))
    for f, probes, res in results:
        if len(probes) != len(res):
            raise Infra(f"{f}: {len(probes)} probes, {len(res)} results")
        for p, r in zip(probes, res):
            stats["probes"] += 1
            famname = p["lab"][0]
            stats["by_family"][famname] = stats["by_family"].get(famname, 0) + 1
            if famname == "kw":
                distinct.add(("kw", p["kwq"]))
                if r["kwKnown"] != p["known"]:
                    ctx.disagree(dict(fam="kw", what="keyword-table", kw=p["kwq"], known=p["known"]),
                                 f"keyword {p['kwq']!r}: spec says known={p['known']}, parser's table says {r['kwKnown']}",
                                 dict(kind="kwtable", kw=p["kwq"], how="parse.NodeTypeFromName(kw, \"\") != NodeUnknown"))
                continue
            o = r["obs"]
            stats["compiled"] += 1 if o["compiled"] else 0
            stats[p["exp"]["verdict"]] += 1
            distinct.add(tuple(p["lab"][:4 if famname == "big" else 3]) + (p["exp"]["verdict"],))
            status, what = judge_probe(p, r)
            if selftest is None and status == "ok" and p["exp"]["verdict"] == "accept" and p["clean"]:
                selftest = (p, r)
            if len(samples) < 4 and p["exp"]["verdict"] == "reject" and famname in ("card", "arg") and stats["probes"] % 97 == 0:
                samples.append(dict(label=p["lab"], verdict=p["exp"]["verdict"], text=r["text"][:300]))
            if status == "disagree":
                ctx.disagree(probe_sig(p, what, o), f"{what}: {' '.join(p['lab'])}",
                             dict(kind="probe", label=p["lab"], expect=p["exp"], clean=p["clean"], text=r["text"], companions=r.get("comp", []),
                                  observed={k: o[k] for k in ("parseOk", "parseErr", "compiled", "compileOk", "compileErr", "panic", "errLine", "errPath", "named")},
                                  how="write text to probe.yang; <scratch>/bin/ys text -compile probe.yang (VERIF_KEEP=1 bin/check C09 keeps the binary)"))
    # binding self-test (model -> code): an observation that contradicts the prescription must be reported
    if selftest is None:
        raise Infra("no accepted clean probe to run the replay self-test on")
    sp, sr = selftest
    flipped = dict(sp, exp=dict(verdict="reject", locate=False, bad=[]))
    if judge_probe(flipped, sr)[0] != "disagree" or judge_probe(sp, dict(sr, obs=dict(sr["obs"], parseOk=False)))[0] != "disagree":
        raise Infra("replay self-test failed: a perturbed expectation / observation was not reported")
    # 3. code -> model
    bases = os.path.join(g["dir"], "vec_300.ndjson")
    events = ctx.path("events.ndjson")
    hists = [os.path.join(g["dir"], f) for f in vecs if is_event_source(f) and f != "vec_300.ndjson"]
    ctx.run_bin("ys", ["record", "-in", bases, "-out", events, "-per", "6" if quick else "10"] + hists, timeout=900)
    # binding self-test (code -> model): one corrupted event must be rejected by the trace spec
    evs = read_ndjson(events)
    nhist = sum(1 for e in evs if e["mut"].startswith("hist:"))
    nxhist = sum(1 for e in evs if e["mut"].startswith("xhist:"))
    good = next((e for e in evs if e["parseOk"] and e["ok"] and e["mut"] == "none"), None)
    if good is None:
        raise Infra("no accepted unmutated event to corrupt for the trace self-test")
    with open(events, "a") as fh:
        fh.write(json.dumps(dict(good, id=SELFTEST_ID, parseOk=False, ok=False, err="self-test: corrupted event"), separators=(",", ":")) + "\n")
    fails, nev, evverd = validate_events(ctx, events, nproc=4 if quick else 8)
    st = [f for f in fails if f["id"] == SELFTEST_ID]
    if len(st) != 1 or st[0]["what"] != "valid-rejected-by-parse":
        raise Infra("trace self-test failed: the corrupted event was not rejected by YangStmtTrace")
    fails = [f for f in fails if f["id"] != SELFTEST_ID]
    nev -= 1
    evverd["accept"] -= 1        # the corrupted copy of an accepted event
    ctx.traces += nev
    mc.result()          # raises Infra if the spec's own checks failed
    for f in fails:
        err = re.sub(r"^.*?probe:\d+:\d+: ", "", f["err"])
        ctx.disagree(dict(fam="trace", what=f["what"], phase=f["phase"], site=f["site"], kw=f["kw"], vkind=f["vkind"],
                          argkind=f["argkind"], arg=f["arg"], err=err, names="|".join(f["named"])),
                     f"event {f['id']} ({f['mut']}): {f['what']} {f['vkind']} {f['kw']} in {f['site']}",
                     dict(kind="trace", failure=f, how="event id in events.ndjson of bin/check C09 (VERIF_KEEP=1)"))
    cov = dict(
        evaluations=stats["probes"] + nev, distinct_nontrivial=len(distinct),
        rule="probes = every (parent, child, count >= 1) triple over 68 parents x 67 keywords (count 0 once per parent and for every required child), every section order / revision list / argument candidate of the spec; "
             "distinct = (family, parent-or-kind, child-or-keyword, verdict) classes; events = mutated TLC-sampled trees judged by YangStmtTrace",
        samples=samples, probes=stats, events=nev, history_events=nhist, extension_function_history_events=nxhist, event_verdicts=evverd, exhaustive=True,
        explanation="TLC checked table well-formedness and that every probe's only violation is the intended one (YangStmtMC), generated the probes with their "
                    "prescribed verdicts (YangStmtGen); every probe was run through parse.Parse and compile.CompileParseTrees; mutated random trees were run and judged by TLC (YangStmtTrace)")
    return ctx.finish(cov, [
        "RFC 6020 tables and ABNF transcribed from memory; cells where table and ABNF disagree (uses augment/refine > 1, deviate substatements by kind, bodies of list/augment/input/output) are unjudged",
        "a rejected probe must carry name:line:col of the offending statement or its parent and name the offending keyword",
        "compile success of a valid probe is demanded only for templates the spec marks semantically clean",
        "dates outside month 01-12 / day 01-28, integers of 10+ digits, range/length expressions that are lexically fine but not surely ascending, leading/trailing blanks in key/unique/range are unjudged",
    ])


def validate_events(ctx, events, nproc=8):
    lines = open(events).read().splitlines()
    if not lines:
        raise Infra("no events recorded")
    per = max(1, (len(lines) + nproc - 1) // nproc)
    chunks = []
    for i in range(0, len(lines), per):
        p = ctx.path("chunks", f"events_{len(chunks)}.ndjson")
        open(p, "w").write("\n".join(lines[i:i + per]) + "\n")
        chunks.append((p, len(lines[i:i + per])))

    def one(ch):
        p, n = ch
        r = ctx.tlc("YangStmtTrace", "YangStmtTrace.cfg", data={"events.ndjson": p}, workers=1, timeout=900, heap="3g")
        m = re.search(r'<<"TRACE-RESULT", (\d+), (\d+), (\d+), (\d+), (\d+)>>', r["out"])
        if not m or int(m.group(1)) != n:
            raise Infra("event validation did not consume all events:\n" + r["out"][-2000:])
        fs = []
        for l in r["out"].splitlines():
            if l.startswith('"FAILJSON '):
                fs.append(json.loads(json.loads(l)[len("FAILJSON "):]))
        if len(fs) != int(m.group(2)):
            raise Infra(f"{m.group(2)} failures counted, {len(fs)} reported")
        return fs, n, [int(m.group(i)) for i in (3, 4, 5)]

    fails, total, verd = [], 0, [0, 0, 0]
    with cf.ThreadPoolExecutor(max_workers=nproc) as ex:
        for fs, n, v in ex.map(one, chunks):
            fails += fs
            total += n
            verd = [a + b for a, b in zip(verd, v)]
    return fails, total, dict(accept=verd[0], reject=verd[1], unjudged=verd[2])


PROPS = {"C09": run}

MANIFEST = {
 "C09": dict(text="YangStmt.tla holds the RFC 6020 section 7 substatement tables as data, the module/submodule section order, the strictly-descending "
             "revision rule and one lexical predicate per argument kind from the section 12 ABNF; Valid(tree) returns every violation with the statements an error may "
             "be located at. TLC checks the tables and that every template is minimal, then generates every (parent, child, count) triple, every section order, revision "
             "lists and the argument candidates per kind, each embedded in a minimal valid module with the prescribed verdict; the harness renders each probe, runs "
             "parse.Parse and compile.CompileParseTrees and the two-sided, phase-aware oracle compares. Mutated TLC-sampled trees are judged by the same Valid(tree) "
             "in the code-to-model direction (YangStmtTrace).",
             note="cells where the RFC's table and ABNF disagree, semantic-only constraints and argument forms the ABNF leaves open are unjudged and counted; "
                  "patterns are judged on a small regex subset common to XSD and RE2; vyatta configd:/opd: extensions are outside the judged space",
             design="4 C09", technique="TLA+ spec YangStmt/YangStmtTpl: TLC design checks, TLC-generated probes replayed on parse+compile, TLC-judged events of mutated trees"),
}
