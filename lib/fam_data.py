"""Schema path validation (C17) and structural data validation / default decoration (C18).

One specification per property, three uses of TLC each:
  1. SchemaPathMC / DataValidateMC   exhaustive model: the walk machine refines the recursive
                                     definition (C17); the laws of Decorate and Violations (C18).
  2. SchemaPathGen / DataValidateGen behaviour generator: schema records (rendered to YANG by the
                                     harness, compiled by the real compiler) x all bounded paths /
                                     data trees with the prescribed outcome; `dv replay-*` compares.
  3. SchemaPathTrace / DataValidateTrace  code -> model: TLC-sampled larger schemas (RandomElement,
                                     -seed), harness-made seeded paths / data mutations run through the
                                     real code, every recorded event judged by the same operators.
"""
import json, os, re, concurrent.futures as cf
from vlib import Infra, log, read_ndjson, write_ndjson

PATH_SHAPES = list(range(1, 29))     # 15-24: key leaf not the first child, lists with two and three keys; 25-28: every type x leaf / leaf-list / key leaf
ALL_DATA_SHAPES = list(range(1, 62))


def set_lit(xs):
    return "{" + ", ".join(str(x) for x in xs) + "}"


def files_of(d, pat):
    return sorted((f for f in os.listdir(d) if re.match(pat, f)), key=lambda f: int(re.findall(r"\d+", f)[0]))


def parse_fails(out):
    fs, seen = [], set()
    for l in out.splitlines():
        if l.startswith('"FAILJSON '):
            if l in seen:
                continue
            seen.add(l)
            fs.append(json.loads(json.loads(l)[len("FAILJSON "):]))
    return fs


def validate_trace(ctx, module, trace, schemas, corrupt, nproc=8):
    """Run the trace spec over the events (chunked, in parallel). Returns (failures, events, unjudged).
    One more chunk is the binding self-test: 20 events plus a corrupted copy of each of them
    (corrupt(ev)); the trace spec has to reject at least one (an event the spec leaves unjudged
    passes whatever it says) - otherwise exit 2."""
    lines = [l for l in open(trace).read().splitlines() if l]
    if not lines:
        raise Infra("the harness recorded no events")
    per = max(1, (len(lines) + nproc - 1) // nproc)
    chunks = []
    for i in range(0, len(lines), per):
        p = ctx.path("chunks", f"{module}_{len(chunks)}.ndjson")
        open(p, "w").write("\n".join(lines[i:i + per]) + "\n")
        chunks.append((p, len(lines[i:i + per]), False))
    bad = []
    for l in lines[:20]:
        ev = json.loads(l)
        corrupt(ev)
        bad.append(json.dumps(ev))
    p = ctx.path("selftest", module + ".ndjson")
    open(p, "w").write("\n".join(lines[:20] + bad) + "\n")
    chunks.append((p, len(lines[:20]) + len(bad), True))

    def one(ch):
        p, n, selftest = ch
        r = ctx.tlc(module, module + ".cfg", data={"trace.ndjson": p, "schemas.ndjson": schemas}, workers=1, timeout=1500, heap="3g")
        m = re.search(r'<<"TRACE-RESULT", (\d+), (\d+)>>', r["out"])
        if not m or int(m.group(1)) != n:
            raise Infra(f"{module} did not consume its {n} events:\n" + r["out"][-2000:])
        fs = parse_fails(r["out"])
        if len(fs) > int(m.group(2)):
            raise Infra(f"{module}: {len(fs)} failures printed, {m.group(2)} counted")
        if selftest:
            if int(m.group(2)) < 1 or not fs:
                raise Infra(f"self-test: {module} accepted a corrupted event")
            return [], 0, 0
        u = re.search(r'<<"TRACE-UNJUDGED", (\d+)>>', r["out"])
        return fs, n, int(u.group(1)) if u else 0

    fails, events, unj = [], 0, 0
    with cf.ThreadPoolExecutor(max_workers=nproc + 1) as ex:
        for fs, n, u in ex.map(one, chunks):
            fails += fs
            events += n
            unj += u
    return fails, events, unj


def sample_pairs(ctx, pairs, per_shape, tag):
    """(schema file, vector file) pairs with a seeded random sample of each vector file: the slow
    race-detector build reads only what it runs."""
    import random
    rnd = random.Random(ctx.seed)
    out = []
    for i in range(0, len(pairs), 2):
        lines = open(pairs[i + 1]).read().splitlines()
        if len(lines) > per_shape:
            lines = rnd.sample(lines, per_shape)
        p = ctx.path("conc", "%s_%d.ndjson" % (tag, i // 2))
        open(p, "w").write("\n".join(lines) + "\n")
        out += [pairs[i], p]
    return out


def conc_stage(ctx, cmd, args, what, how):
    """Concurrent stage: the race-detector build of dv shares ONE compiled schema per shape between 16
    goroutines working on different inputs at the same time.  Returns (counts, mismatches, race report or
    None); the caller records a race report as a violation and judges the mismatches like replay mismatches."""
    out = ctx.path("conc_%s.ndjson" % cmd)
    race = None
    r = ctx.run_bin("dv-race", [cmd, "-out", out] + args, timeout=900, check=False)
    if "DATA RACE" in r.stderr:
        m = re.search(r"WARNING: DATA RACE(.*?)={10,}", r.stderr, re.S)
        where = re.findall(r"\n  ([\w./*()\[\]]+)\(\)\n", m.group(1) if m else r.stderr)
        race = (dict(site="concurrency", what="data-race", where=next((w for w in where if "yang-parser" in w), "?")),
                "data race while " + what, dict(kind="race", report=(m.group(0) if m else r.stderr)[:3000], how=how))
    elif r.returncode != 0:
        raise Infra("dv-race %s failed rc=%d:\n%s" % (cmd, r.returncode, r.stderr[-3000:]))
    lines = [l for l in r.stdout.strip().splitlines() if l.startswith("{")]
    stat = json.loads(lines[-1]) if lines else dict(evaluations=0, mismatches=0)
    return stat, (read_ndjson(out) if os.path.exists(out) else []), race


# ------------------------------------------------------------------------ C17
def path_sig(site, want_ok, want_at, got_ok, got_at, ph, inc):
    return dict(site=site, phase=ph, want="accept" if want_ok else "reject", got="accept" if got_ok else "reject",
                delta=0 if (want_ok or got_ok) else ((got_at - want_at) if got_at > 0 else "names-no-element-of-the-input"),
                incomplete_allowed=bool(inc))


PHASE_TEXT = {"key": "the token after a list name: a value of the first key of the key statement", "in": "a child name (container / top level)",
              "entry": "a child name (list entry)", "val": "the value after a leaf / leaf-list name", "done": "nothing: a value was the last element",
              "end:key": "end of input on a list name", "end:keys": "end of input on the first key value of a list with several keys",
              "end:in": "end of input on a container", "end:entry": "end of input on a list entry", "end:val": "end of input on a leaf / leaf-list name (only the name of a LEAF of type empty is complete without a value)",
              "end:done": "end of input on a value"}


def phase_text(ph):
    return f" [the walk expects {PHASE_TEXT.get(ph, ph)}]"


def run_c17(ctx):
    ctx.build(["dv"])
    q = ctx.quick()
    maxlen, ext_mc, ext_gen = (5, 1, 2) if q else (6, 1, 2)
    maxlen_mc = 4 if q else 6       # the model check (spec-internal) is smaller at the quick tier
    nrand, npaths = (40, 100) if q else (300, 800)
    # the six three-key shapes differ in the types of the keys only: the spec-internal model check takes two of them at the quick tier
    mc_shapes = [s for s in PATH_SHAPES if not (q and s in (19, 20, 22, 23))]
    # 1. exhaustive model: walk machine = recursive definition = generated language
    # 2. behaviour generator (run side by side, two TLC processes) + replay
    def corrupt(ev):
        ev["ok"] = not ev["ok"]
        ev.update(form="" if ev["ok"] else "unknown", epath=[], tok="" if ev["ok"] else ev["p"][0], mv=False)

    def replay_stage(pairs):
        res = ctx.path("res_path.ndjson")
        r = ctx.run_bin("dv", ["replay-path", "-out", res] + pairs, timeout=1500)
        stat = json.loads(r.stdout.strip().splitlines()[-1])
        # self-test of the replay binding: a perturbed expectation must be reported
        first = read_ndjson(pairs[1])[:5]
        first[0]["s"]["ok"] = not first[0]["s"]["ok"]
        first[0]["s"]["at"] = 0 if first[0]["s"]["ok"] else 1
        stv, sto = ctx.path("selftest", "spv.ndjson"), ctx.path("selftest", "res.ndjson")
        write_ndjson(stv, first)
        r2 = ctx.run_bin("dv", ["replay-path", "-out", sto, pairs[0], stv], timeout=300)
        if json.loads(r2.stdout.strip().splitlines()[-1])["mismatches"] < 1:
            raise Infra("self-test: replay-path accepted a perturbed expectation")
        return stat, read_ndjson(res)

    def conc(pairs, frace):
        frace.result()
        # concurrent stage: 16 goroutines validate different paths against one shared ModelSet (race build)
        return conc_stage(ctx, "conc-path", sample_pairs(ctx, pairs, 1500, "spc"), "several goroutines validate different paths against one compiled ModelSet",
                          f"bin/check C17 --tier {ctx.tier}: dv-race conc-path <sps_N.ndjson> <spv_N.ndjson>")

    def trace_stage(d):
        # 3. code -> model: seeded random paths on sampled schemas and on the shapes
        schemas = ctx.path("schemas_path.ndjson")
        with open(schemas, "w") as f:
            f.write(open(os.path.join(d, "sprand.ndjson")).read())
            for s in PATH_SHAPES:
                f.write(open(os.path.join(d, f"sps_{s}.ndjson")).read())
        trace = ctx.path("trace_path.ndjson")
        r = ctx.run_bin("dv", ["record-path", "-schemas", schemas, "-n", str(npaths), "-trace", trace], timeout=900)
        rstat = json.loads(r.stdout.strip().splitlines()[-1])
        if rstat["uncompilable"] * 5 > nrand:
            raise Infra(f"{rstat['uncompilable']} of {nrand} sampled schemas do not compile")
        fails, events, unj = validate_trace(ctx, "SchemaPathTrace", trace, schemas, corrupt)
        if events != rstat["events"]:
            raise Infra("event count mismatch")
        rstat["unjudged"] = unj
        return fails, events, rstat, trace

    # 1. exhaustive model, 2. behaviour generator, race build: side by side; then replay, the concurrent
    # stage and the trace stage side by side (the verdicts are collected here, in one thread)
    with cf.ThreadPoolExecutor(max_workers=6) as ex:
        fmc = ex.submit(ctx.tlc, "SchemaPathMC", "SchemaPathMC.cfg", workers=8, timeout=2400, heap="10g",
                        consts={"Shapes": set_lit(mc_shapes), "MaxLen": maxlen_mc, "Ext": ext_mc, "LangLen": 3})
        fg = ex.submit(ctx.tlc, "SchemaPathGen", "SchemaPathGen.cfg", workers=6, timeout=2400, heap="10g",
                       consts={"Shapes": set_lit(PATH_SHAPES + [100]), "MaxLen": maxlen, "Ext": ext_gen, "FullTails": "FALSE" if q else "TRUE", "NRand": nrand, "RandDepth": 3},
                       extra=["-seed", str(ctx.seed)])
        frace = ex.submit(ctx.build, ["dv"], True)     # the harness once more under the race detector
        d = fg.result()["dir"]
        pairs = []
        for s in PATH_SHAPES:
            pairs += [os.path.join(d, f"sps_{s}.ndjson"), os.path.join(d, f"spv_{s}.ndjson")]
        if not all(os.path.exists(p) for p in pairs):
            raise Infra("SchemaPathGen did not write all vector files")
        f1, f2, f3 = ex.submit(replay_stage, pairs), ex.submit(conc, pairs, frace), ex.submit(trace_stage, d)
        stat, rmism = f1.result()
        cstat, cmism, race = f2.result()
        fails, events, rstat, trace = f3.result()
        fmc.result()
    ctx.traces += events
    if race:
        ctx.disagree(*race)
    mism = [dict(m, site="replay") for m in rmism] + [dict(m, site="concurrent") for m in cmism]
    for m in mism:
        sig = path_sig(m["site"], m["want"]["ok"], m["want"]["at"], m["got"]["ok"], m["gotat"], m["want"]["ph"], m["inc"])
        ctx.disagree(sig, f"path {m['p']} (shape {m['shape']}, incomplete allowed={m['inc']}): spec "
                     + ("accepts" if m["want"]["ok"] else f"rejects at element {m['want']['at']}") + ", code "
                     + ("accepts" if m["got"]["ok"] else f"identifies element {m['gotat']} ({m['got']['form']} error, path {m['got']['epath']}, tag {m['got']['tok']!r}; -1 = none of the input)") + phase_text(m["want"]["ph"]),
                     dict(kind=m["site"], shape=m["shape"], path=m["p"], incomplete_allowed=m["inc"], want=m["want"], got=m["got"],
                          how=f"bin/check C17 --tier {ctx.tier}; dv probe <sps_{m['shape']}.ndjson> {' '.join(m['p'])}"))
    for f in fails:
        sig = path_sig("trace", f["wantok"], f["wantat"], f["gotok"], f["gotat"], f["ph"], f["inc"])
        ctx.disagree(sig, f"path {f['p']} (schema {f['sid']}, incomplete allowed={f['inc']}): spec "
                     + ("accepts" if f["wantok"] else f"rejects at element {f['wantat']}") + ", code "
                     + ("accepts" if f["gotok"] else f"identifies element {f['gotat']} ({f['form']} error, path {f['epath']}, tag {f['gottok']!r}; 0 = none of the input)") + phase_text(f["ph"]),
                     dict(kind="trace", failure=f, how=f"bin/check C17 --tier {ctx.tier} --seed {ctx.seed}"))
    distinct = set()
    samples = []
    nvec = 0
    past_first_key = 0        # generated paths without a prescribed verdict in either mode (left out of the vector files)
    for s in PATH_SHAPES:
        u = read_ndjson(os.path.join(d, f"spu_{s}.ndjson"))[0]
        past_first_key += u["paths"] - u["judged"]
        for v in read_ndjson(os.path.join(d, f"spv_{s}.ndjson")):
            nvec += 1
            if len(v["p"]) >= 2:
                distinct.add((s, tuple(v["p"])))
            if len(samples) < 3 and len(v["p"]) >= 4 and not v["s"]["ok"] and v["i"]["ok"]:
                samples.append(dict(shape=s, path=v["p"], strict=v["s"], incomplete_allowed=v["i"]))
    for e in read_ndjson(trace)[:2]:
        samples.append(dict(event=e))
    cov = dict(evaluations=stat["evaluations"] + events, distinct_nontrivial=len(distinct),
               rule="replay: every viable path (accepted with incomplete paths allowed) of <= MaxLen tokens continued by every sequence of <= Ext tokens "
                    "over {all node names incl. choice/case, valid value, invalid value, unknown}, both modes; distinct = (shape, path) with >= 2 tokens; "
                    "trace: seeded random walks with one-token corruptions and over-long tails on TLC-sampled schemas and the shapes; "
                    "lists with one, two and three keys (three value spaces, key leaves declared in every order and between non-key leaves): the token after "
                    "the list name is judged against the first key of the key statement, nothing after it",
               samples=samples, shapes=len(PATH_SHAPES), vectors=nvec, replay_evaluations=stat["evaluations"], concurrent_evaluations=cstat["evaluations"], trace_events=events,
               sampled_schemas=nrand, unjudged=dict(empty_path=1, sampled_schemas_refused_by_compiler=rstat["uncompilable"],
                             generated_paths_past_the_first_key_value_of_a_multi_key_list=past_first_key,
                             replay_evaluations_without_prescribed_verdict=stat.get("unjudged", 0), trace_events_without_prescribed_verdict=rstat["unjudged"]),
               bounds=dict(MaxLen=maxlen, Ext=ext_gen, full_tail_alphabet_after_first_tail_token=not q, MaxLenMC=maxlen_mc, ExtMC=ext_mc),
               exhaustive=True,
               explanation="TLC explored the walk machine on every token sequence that keeps the walk alive (plus Ext tokens past a rejection) for %d schema shapes " % len(PATH_SHAPES) +
                           "and checked it against the recursive definition, the prefix characterisation of 'first offending' and the generated language; "
                           "every generated path was replayed on ModelSet.Validate in both modes (verdict, offending position and token decoded from the structured error); "
                           "recorded events of random walks on sampled schemas were judged by the same operators in SchemaPathTrace")
    return ctx.finish(cov, [
        "value spaces: string accepts every token, int8 accepts the tokens 5 7 -3 and rejects identifiers, empty accepts the empty token, boolean true / false, "
        "enumeration { on, off } its names, union { int8, boolean } what a member accepts (type validation itself is C16)",
        "a path that stops at a leaf / leaf-list name is complete only for a LEAF of type empty (RFC 6020 9.11); an entry of a leaf-list is identified by its value (7.7) "
        "whatever its type, so the name of a leaf-list of type empty is accepted only when incomplete paths are allowed",
        "the offending element is decoded from the structured error: unknown-element -> Path + info tag, invalid value -> last element of Path, "
        "missing value / child -> one past Path (message of schema.NewMissingValueError distinguishes it)",
        "the empty path is not judged; no must/when/leafref, one module",
        "a list with several keys: the token after its name is a value of the first key of the key statement (RFC 6020 7.8.2); what follows that value, "
        "and whether ending on it is complete, is not prescribed by the statement and not judged (counted under unjudged)",
    ])


# ------------------------------------------------------------------------ C18
def find_child(kids, name):
    for k in kids:
        if k["kind"] in ("choice", "case"):
            r = find_child(k["kids"], name)
            if r:
                return r
        elif k["name"] == name:
            return k
    return None


def under_choice(kids, path):
    """is the schema node a data path designates below a choice?"""
    if not path:
        return False
    s = find_child(kids, path[0])
    if s is None:
        return False
    direct = any(k["name"] == path[0] for k in kids if k["kind"] not in ("choice", "case"))
    if not direct:
        return True
    rest = path[2:] if s["kind"] == "list" else path[1:]
    return under_choice(s["kids"], rest)


def flat(kids, path=()):
    """the nodes of a tree as (path, vals)"""
    out = set()
    for k in kids:
        p = path + (k["name"],)
        out.add((p, tuple(k["vals"])))
        out |= flat(k["kids"], p)
    return out


def deco_class(schema, d, want, got):
    extra, lost = flat(got) - flat(want), flat(want) - flat(got)
    if lost & flat(d):
        what = "explicit-data-altered"
    elif extra:
        what = "extra-node"
    else:
        what = "default-missing"
    pool = sorted(extra or lost, key=lambda e: (not e[1], e))      # prefer a node that carries a value
    x = pool[0][0] if pool else ()
    return what, under_choice(schema, list(x)), list(x)


def data_sig(site, kind, vk, what, inchoice):
    return dict(site=site, kind=kind, violation=vk, diff=what, in_choice=bool(inchoice))


def run_c18(ctx):
    ctx.build(["dv"])
    q = ctx.quick()
    DATA_SHAPES = [s for s in ALL_DATA_SHAPES if not (q and s in (55, 58))]   # quick: two of the four list-hosted nested-default shapes
    me, ml = 3, 3        # (shape 61 is wide: its list and leaf-list go to 3; MaxLL is 3 for all)
    wide = [5, 7, 12, 15, 61] if q else [s for s in DATA_SHAPES if (s not in (6, 11, 14, 18) and s < 19) or s == 61]     # shapes explored with 3 list entries (the others with 2)
    nrand, nmut = (600, 4) if q else (2000, 6)
    def corrupt(ev):
        ev["errs"] = ev["errs"] + [dict(t="exec", k="", n="", path=["no-such-node"])]

    def replay_stage(pairs):
        res = ctx.path("res_data.ndjson")
        r = ctx.run_bin("dv", ["replay-data", "-out", res] + pairs, timeout=1500)
        stat = json.loads(r.stdout.strip().splitlines()[-1])
        # self-test of the replay binding
        first = read_ndjson(pairs[1])[:5]
        first[0]["viol"] = first[0]["viol"] + [dict(k="missing", n="no-such-node", path=[], sp=[])]
        first[0]["must"] = first[0]["viol"]
        stv, sto = ctx.path("selftest", "dvv.ndjson"), ctx.path("selftest", "res.ndjson")
        write_ndjson(stv, first)
        r2 = ctx.run_bin("dv", ["replay-data", "-out", sto, pairs[0], stv], timeout=300)
        if json.loads(r2.stdout.strip().splitlines()[-1])["mismatches"] < 1:
            raise Infra("self-test: replay-data accepted a perturbed expectation")
        return stat, read_ndjson(res)

    def conc(pairs, frace):
        frace.result()
        # concurrent stage: 16 goroutines validate / decorate distinct trees against one shared schema (race build)
        return conc_stage(ctx, "conc-data", sample_pairs(ctx, pairs, 120, "dvc"), "several goroutines run ValidateSchema / AddDefaults on distinct trees against one compiled schema",
                          f"bin/check C18 --tier {ctx.tier}: dv-race conc-data <dvs_N.ndjson> <dvv_N.ndjson>")

    def trace_stage(d):
        # code -> model
        trace, schemas = ctx.path("trace_data.ndjson"), ctx.path("schemas_data.ndjson")
        r = ctx.run_bin("dv", ["record-data", "-cases", os.path.join(d, "dvrand.ndjson"), "-mut", str(nmut), "-trace", trace, "-schemas", schemas], timeout=900)
        rstat = json.loads(r.stdout.strip().splitlines()[-1])
        if rstat["uncompilable"] * 5 > nrand:
            raise Infra(f"{rstat['uncompilable']} of {nrand} sampled schemas do not compile")
        fails, events, _ = validate_trace(ctx, "DataValidateTrace", trace, schemas, corrupt)
        if events != rstat["events"]:
            raise Infra("event count mismatch")
        return fails, events, rstat, trace

    # model, generator and race build side by side; then replay, concurrent stage and trace stage side by side
    with cf.ThreadPoolExecutor(max_workers=6) as ex:
        fmc = ex.submit(ctx.tlc, "DataValidateMC", "DataValidateMC.cfg", workers=8, timeout=2400, heap="10g",
                        consts={"Shapes": set_lit(DATA_SHAPES), "MaxEntries": me, "Wide": set_lit(wide), "MaxLL": ml})
        fg = ex.submit(ctx.tlc, "DataValidateGen", "DataValidateGen.cfg", workers=8, timeout=2400, heap="10g",
                       consts={"Shapes": set_lit(DATA_SHAPES + [100]), "MaxEntries": me, "Wide": set_lit(wide), "MaxLL": ml, "NRand": nrand, "RandDepth": 3},
                       extra=["-seed", str(ctx.seed)])
        frace = ex.submit(ctx.build, ["dv"], True)     # the harness once more under the race detector
        d = fg.result()["dir"]
        pairs = []
        for s in DATA_SHAPES:
            pairs += [os.path.join(d, f"dvs_{s}.ndjson"), os.path.join(d, f"dvv_{s}.ndjson")]
        if not all(os.path.exists(p) for p in pairs):
            raise Infra("DataValidateGen did not write all vector files")
        f1, f2, f3 = ex.submit(replay_stage, pairs), ex.submit(conc, pairs, frace), ex.submit(trace_stage, d)
        stat, rmism = f1.result()
        cstat, cmism, race = f2.result()
        fails, events, rstat, trace = f3.result()
        fmc.result()
    ctx.traces += events
    if race:
        ctx.disagree(*race)
    shapes = {s: read_ndjson(os.path.join(d, f"dvs_{s}.ndjson"))[0]["kids"] for s in DATA_SHAPES}
    for m in [dict(m, site="replay") for m in rmism] + [dict(m, site="concurrent") for m in cmism]:
        v = m.get("v") or {}
        what, inch, leaf = ("", False, [])
        if m["kind"] in ("decorate", "twice", "explicit-altered"):
            what, inch, leaf = deco_class(shapes[m["shape"]], m["d"], m["want"], m["got"])
        sig = data_sig(m["site"], m["kind"], v.get("k") or v.get("t", ""), what, inch)
        ctx.disagree(sig, f"shape {m['shape']}: {m['kind']} " + (f"{v.get('k')} {v.get('n')} at /{'/'.join(v.get('path') or [])}" if v else f"{what} {'/'.join(leaf)}"),
                     dict(kind=m["site"], shape=m["shape"], mismatch=m["kind"], data=m["d"], want=m["want"], got=m["got"], violation=v,
                          how=f"bin/check C18 --tier {ctx.tier}; dv probe <dvs_{m['shape']}.ndjson> -data '<data json>'"))
    for f in fails:
        for kind in ([f["vbad"]] if f["vbad"] else []) + ([f["dbad"]] if f["dbad"] else []):
            isd = kind in ("decorate", "twice", "explicit-altered")
            sig = data_sig("trace", kind, "" if isd else f["vk"], f["diff"]["what"] if isd else "", f["diff"]["inchoice"] if isd else False)
            ctx.disagree(sig, f"schema {f['sid']}: {kind} " + (f"{f['diff']['what']} {'/'.join(f['diff']['leaf'])}" if isd else f"{f['vk']} ({f['vt']} error at /{'/'.join(f['vpath'])})"),
                         dict(kind="trace", failure=f, how=f"bin/check C18 --tier {ctx.tier} --seed {ctx.seed}"))
    samples = []
    for s in (4, 5):
        for v in read_ndjson(os.path.join(d, f"dvv_{s}.ndjson")):
            if v["viol"] and v["deco"] and len(samples) < 3:
                samples.append(dict(shape=s, data=v["d"], violations=v["viol"], decorated=v["deco"]))
                break
    for e in read_ndjson(trace)[:1]:
        samples.append(dict(event=e))
    cov = dict(evaluations=stat["evaluations"] + events, distinct_nontrivial=stat["with_violations"] + stat["with_defaults_added"],
               rule="replay: every data tree of 15 schema shapes within MaxEntries list entries / MaxLL leaf-list values (conforming names, at most one case per "
                    "choice, no empty list / leaf-list / non-presence container); distinct = trees with at least one violation + trees that gain at least one default; "
                    "trace: TLC-sampled schema/data pairs and harness-made seeded mutations (node deleted, entry duplicated, value appended)",
               samples=samples, shapes=len(DATA_SHAPES), replay_evaluations=stat["evaluations"], concurrent_evaluations=cstat["evaluations"], trees_with_violations=stat["with_violations"],
               trees_with_defaults_added=stat["with_defaults_added"], trace_events=events, sampled_pairs=nrand, unjudged=dict(sampled_schemas_refused_by_compiler=rstat["uncompilable"]),
               bounds=dict(MaxEntries=me, shapes_with_MaxEntries=wide, others=2, MaxLL=ml), exhaustive=True,
               explanation="TLC checked Decorate o Decorate = Decorate, explicit data kept, only defaults added, verdict unchanged by decoration on every tree; "
                           "generated per tree the violation set and the decorated tree; the real ValidateSchema / AddDefaults (applied once and twice) were "
                           "compared on every tree; events of sampled pairs were judged by the same operators in DataValidateTrace")
    return ctx.finish(cov, [
        "errors are decoded by message and type: Missing mandatory node X (path = existing ancestor + non-presence containers), requires one of (mandatory choice, "
        "not named), Invalid number of nodes (schema path), must be unique (list path)",
        "every reported error must be a violation, every violation outside a list that already violates its cardinality must be reported, error iff violation",
        "decorated trees are compared modulo non-presence containers without children; unique leaves carry no defaults; no must/when/leafref; "
        "data with two active cases, empty lists or empty non-presence containers is not judged (not generated)",
    ])


PROPS = {"C17": run_c17, "C18": run_c18}

TECH = ("TLA+ spec SchemaNodes/SchemaPath/DataValidate: TLC exhaustive model, TLC-generated behaviours replayed on the real schema package through "
        "schema records rendered to YANG and compiled by the real compiler, recorded events of TLC-sampled larger inputs validated by trace specs")
MANIFEST = {
 "C17": dict(text="SchemaPath.tla defines acceptance of a token path recursively over the schema (children by name through transparent choices/cases, key after a list "
             "name, typed last value after a leaf name, endings by mode) and the first offending element; TLC proves a per-token walk machine, the generated "
             "language and the prefix characterisation of 'first offending' agree on 24 shapes; every bounded path (viable prefixes, corruptions, over-long tails) "
             "is replayed on ModelSet.Validate in both modes comparing verdict, offending position and token; random walks on TLC-sampled schemas are judged by SchemaPathTrace.",
             note="types string/int8/empty/boolean/enumeration/union, direct and through typedefs, for leaves, leaf-lists and key leaves (C16 owns value spaces: only tokens beyond doubt are used); lists with several keys are judged up to their first key value only; the empty path is unjudged", design="4 C17", technique=TECH),
 "C18": dict(text="DataValidate.tla defines Violations (mandatory leaf/choice, min-elements nodes missing under an existing parent through non-presence containers and "
             "active cases; min/max-elements; unique over descendant leaves) and Decorate (defaults under existing parents and non-presence containers, active else "
             "default case) from RFC 6020; TLC checks idempotence, explicit data kept, only defaults added; all data trees of 15 shapes within bounds are replayed on "
             "ValidateSchema and AddDefaults (once and twice); TLC-sampled schema/data pairs plus seeded mutations are judged by DataValidateTrace.",
             note="no must/when/leafref; unique leaves without defaults; trees compared modulo empty non-presence containers", design="4 C18", technique=TECH),
}
