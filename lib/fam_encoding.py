"""Data codecs family: C19 (encoders and decoders round-trip and decoding is total).

One spec (Encoding.tla: data trees over a schema, abstract JSON / RFC 7951 / XML documents,
Enc*/Dec* written from RFC 7951 and the RFC 6020 XML mapping rules, token-level
well-formedness recognisers, Conforms, NotAltered), three uses of TLC:
  1. EncodingMC     exhaustive model: on every schema x valid tree of the bounded space
                    Dec(Parse(Tokens(Enc(t)))) is "must return t" for the three codecs, every
                    single-point mutant is classified, predicted trees conform / are unaltered.
  2. EncodingGen    generator: schemas (rendered to YANG), all valid trees, token-level
                    mutants of the three encodings, the alphabets of the totality runs.
     en replay/fuzz builds the trees, runs the real encoders and decoders (mutants, all class
                    strings to a length, seeded random bytes, in child processes) and records.
  3. EncodingTrace  judges every recorded event: written document = Enc(t); decoder outcome
                    allowed by Dec(Parse(input)); no panic; returned trees conform and their
                    values are literals of the input; round trip returns the tree.
"""
import copy, itertools, json, os, random, re, threading, concurrent.futures as cf
from vlib import Infra, log, read_ndjson

NMENU = 44
NOLD = 31        # EncodingSets.SizedFullMax: the later items repeat node kinds with other key / entry types, unions, choice members
FUZZ_ITEMS = [1, 6, 7, 8, 10, 12, 13, 16, 20]
# menu items that are or contain a list / leaf-list (EncodingSets.Menu); only used to make sure that some of the
# larger schemas hold collections next to other nodes, the sized trees themselves come from EncodingSets.SizedTrees
COLLECTIONS = [13, 14, 15, 16, 17, 23, 25, 27, 28, 29, 30, 31, 34, 35, 36, 37, 38, 39, 43, 44]
# entries per collection in the sized trees: around the thresholds at which sort / hash / buffer strategies change
SIZES = "{1, 2, 12, 13, 20, 40, 100}"
SIZES_MANY = "{2, 13, 40}"        # schemas with two and more items


def set_lit(sets):
    return "{" + ", ".join("{" + ", ".join(str(i) for i in s) + "}" for s in sets) + "}"


def schema_sets(ctx):
    """Which menu subsets become schemas: every single item (all value classes), pairs (all in
    thorough, a seeded third in quick), seeded triples and a few larger ones (random trees)."""
    rnd = random.Random(ctx.seed)
    singles = [(i,) for i in range(1, NMENU + 1)]
    pairs = list(itertools.combinations(range(1, NMENU + 1), 2))
    triples = list(itertools.combinations(range(1, NMENU + 1), 3))
    if ctx.quick():
        pairs = rnd.sample(pairs, 30)
        big = rnd.sample(triples, 6) + [tuple(sorted(rnd.sample(range(1, NMENU + 1), 8)))]
    else:
        # all pairs of the items up to NOLD, a seeded sample of the pairs with a later item (same node kinds, other types)
        pairs = [p for p in pairs if p[1] <= NOLD] + rnd.sample([p for p in pairs if p[1] > NOLD], 150)
        big = rnd.sample(triples, 150) + [tuple(sorted(rnd.sample(range(1, NMENU + 1), k))) for k in (5, 8, 12, NMENU)]
    # collections among many siblings: two collections and four other items; every item of the menu
    others = [i for i in range(1, NMENU + 1) if i not in COLLECTIONS]
    big.append(tuple(sorted(rnd.sample(COLLECTIONS, 2) + rnd.sample(others, 4))))
    if tuple(range(1, NMENU + 1)) not in big:
        big.append(tuple(range(1, NMENU + 1)))
    return singles, pairs, big


def split_events(ctx, paths, nchunks):
    """Concatenate the event files and deal them into nchunks files of equal size."""
    lines = []
    for p in paths:
        lines += open(p).read().splitlines()
    if not lines:
        return []
    nchunks = min(nchunks, len(lines))
    out = []
    for i in range(nchunks):         # round robin: mutant-heavy and cheap events are spread evenly
        part = lines[i::nchunks]
        p = ctx.path("chunks", f"chunk_{i}.ndjson")
        open(p, "w").write("\n".join(part) + "\n")
        out.append((p, len(part)))
    return out


_LOCK = threading.Lock()
_UID = itertools.count(1000)


def tlc_isolated(ctx, *a, **kw):
    """ctx.tlc from a worker thread: vlib's run counter (scratch directory name) and state counters
    are plain attributes, so each call works on a shallow copy with its own counter value and the
    counts are added back under a lock."""
    with _LOCK:
        sub = copy.copy(ctx)
        sub.n_tlc = next(_UID)
        sub.states = sub.transitions = 0
    r = sub.tlc(*a, **kw)
    with _LOCK:
        ctx.states += sub.states
        ctx.transitions += sub.transitions
    return r


def validate(ctx, files, nproc=8):
    """Run EncodingTrace over event files (in parallel, one worker each). Returns failures."""
    fails = []

    def one(ch):
        p, n = ch
        r = tlc_isolated(ctx, "EncodingTrace", "EncodingTrace.cfg", data={"trace.ndjson": p}, workers=1, timeout=1500, heap="3g")
        m = re.search(r'<<"TRACE-RESULT", (\d+), (\d+)>>', r["out"])
        if not m:
            raise Infra("trace validation did not consume the trace:\n" + r["out"][-3000:])
        if int(m.group(1)) != n:
            raise Infra(f"trace validation consumed {m.group(1)} events, expected {n}")
        fs = []
        for l in r["out"].splitlines():
            if l.startswith('"FAILJSON '):
                j = json.loads(json.loads(l)[len("FAILJSON "):])
                j["file"] = p
                fs.append(j)
        if len(fs) != int(m.group(2)):
            raise Infra(f"{m.group(2)} failures counted, {len(fs)} reported")
        return fs

    with cf.ThreadPoolExecutor(max_workers=nproc) as ex:
        for fs in ex.map(one, files):
            fails += fs
    return fails


def show_tokens(e):
    if not e["hastoks"]:
        return "bytes: " + e["in"]
    if e["enc"] == "xml":
        def st(t):
            return "<%s%s%s>" % (t["n"], ' xmlns="%s"' % t["ns"] if t["ns"] else "", "".join(' xmlns:%s="%s"' % (d["p"], d["uri"]) for d in t["decl"]))
        return "".join(st(t) if t["c"] == "start" else "</%s>" % t["n"] if t["c"] == "end" else t["s"] for t in e["xtoks"])
    return " ".join(t["s"] if t["c"] in ("num", "raw") else json.dumps(t["s"]) if t["c"] == "str" else t["c"] for t in e["toks"])


def find_event(path, at):
    """The event at line `at` (1-based) of a chunk file."""
    with open(path) as f:
        for i, line in enumerate(f, 1):
            if i == at:
                return json.loads(line)
    return None


def run(ctx):
    ctx.build(["en"])
    nproc = 8
    singles, pairs, big = schema_sets(ctx)
    exh = singles + pairs

    # 1. exhaustive model on the spec
    ctx.tlc("EncodingMC", "EncodingMC.cfg", workers=12, timeout=3000, heap="8g",
            consts={"Sets": set_lit(exh), "MutMax": 1, "Sizes": SIZES, "SizesMany": SIZES_MANY, "ManyMin": 2})
    # 2. generator: schemas, trees, mutants, alphabets
    g = ctx.tlc("EncodingGen", "EncodingGen.cfg", workers=12, timeout=3000, heap="8g",
                consts={"Sets": set_lit(exh + big), "MutMax": 1, "ExhMax": 2,
                        "RandPer": 40 if ctx.quick() else 150, "Fuzz": "TRUE", "Sizes": SIZES, "SizesMany": SIZES_MANY, "ManyMin": 2,
                        "MutAll": "FALSE" if ctx.quick() else "TRUE"},
                extra=["-seed", str(ctx.seed)])
    vecs = sorted(os.path.join(g["dir"], f) for f in os.listdir(g["dir"]) if re.match(r"vec(_\d+)+\.ndjson$", f))
    fuzzspec = os.path.join(g["dir"], "fuzz.ndjson")
    if len(vecs) != len(exh) + len(big) or not os.path.exists(fuzzspec):
        raise Infra(f"generator wrote {len(vecs)} vector files for {len(exh) + len(big)} schemas")
    # model -> code: replay (in parallel groups)
    groups = [vecs[i::nproc] for i in range(nproc)]
    rfiles, ntrees, nonempty, nreplay = [], 0, 0, 0

    def rep(ig):
        i, grp = ig
        out = ctx.path("events", f"replay_{i}.ndjson")
        r = ctx.run_bin("en", ["replay", "-out", out] + grp, timeout=1200)
        return out, json.loads(r.stdout.strip().splitlines()[-1])

    with cf.ThreadPoolExecutor(max_workers=nproc) as ex:
        for out, st in ex.map(rep, [(i, grp) for i, grp in enumerate(groups) if grp]):
            rfiles.append(out)
            ntrees += st["trees"]
            nonempty += st["nonempty"]
            nreplay += st["events"]
    # code -> model: class strings and seeded random bytes through the decoders, in child processes
    maxlen, nrand = (3, 4000) if ctx.quick() else (4, 100000)
    r = ctx.run_bin("en", ["fuzz", "-spec", fuzzspec, "-out", ctx.path("events", "fuzz"), "-maxlen", str(maxlen),
                           "-nrand", str(nrand), "-nshards", str(nproc)], timeout=1500)
    fst = json.loads(r.stdout.strip().splitlines()[-1])
    ffiles = [ctx.path("events", f"fuzz_{i}.ndjson") for i in range(nproc)]

    # 3. every event judged by the trace spec
    chunks = split_events(ctx, rfiles + ffiles, nproc if ctx.quick() else 4 * nproc)
    nevents = sum(n for _, n in chunks)
    if nevents != nreplay + fst["events"]:
        raise Infra(f"{nevents} events in files, harness reported {nreplay + fst['events']}")
    fails = validate(ctx, chunks, nproc)
    ctx.traces += nevents

    # binding self-test: a corrupted outcome must be rejected
    selftest(ctx, rfiles[0])

    # ---- verdicts
    for f in fails:
        sig = dict(site=f["site"], enc=f["enc"], what=f["what"], detail=f["detail"], pred=f["pred"], ev=f["ev"],
                   null=f["null"], frac=f["frac"], big=f["big"])
        e = find_event(f["file"], f["at"]) or {}
        ctx.disagree(sig, f"{f['ev']} {f['enc']} {f['site']}: {f['what']} {f['detail']} (spec: {f['pred'] or '-'})",
                     dict(kind="trace", failure={k: v for k, v in f.items() if k != "file"},
                          input=show_tokens(e) if e else None, items=f["items"], tree_encoded=e.get("t"),
                          outcome=e.get("out"), tree_returned=e.get("tree"), detail=e.get("detail"),
                          how=f"bin/check C19 --tier {ctx.tier} --seed {ctx.seed}; schema = menu items {f['items']} of EncodingSets.tla"))
    samples = []
    for p in rfiles[:1]:
        for e in read_ndjson(p)[:400]:
            if e["ev"] == "rt" and len(e["t"]["kids"]) and len(samples) < 3:
                samples.append(dict(items=e["items"], enc=e["enc"], written=show_tokens(e), outcome=e["out"]))
    cov = dict(
        evaluations=nevents, distinct_nontrivial=nonempty,
        rule="evaluations = recorded events judged by EncodingTrace (round trips x 3 codecs, mutants, class strings, random bytes); "
             "distinct = distinct (schema, tree) pairs generated by TLC whose tree has at least one data node",
        samples=samples, schemas=len(exh) + len(big), schemas_exhaustive=len(exh), trees=ntrees, replay_events=nreplay,
        fuzz_events=fst["events"], fuzz_fatal=fst["fatal"], class_string_maxlen=maxlen, random_inputs=nrand, exhaustive=True,
        explanation="TLC explored every valid tree of every selected one- and two-item schema of the menu (thorough: all 44 + 465 + 150) on the spec (round trip, mutants), "
                    "plus the sized trees (every list / leaf-list with 1, 2, 12, 13, 20, 40, 100 entries - 2, 13, 40 beside other items - in four arrangements "
                    "of the children of every node, and their XML documents with entries interleaved with sibling elements), "
                    "generated them with single-point mutants of the three encodings (value spellings from the JSON grammar, module-prefixed spellings of the value "
                    "at every scalar position, values / content of the wrong shape at every position of the document); the real encoders/decoders were run on all of "
                    "them, on every class string up to the length bound in three contexts and on seeded random bytes; every outcome "
                    "was judged by EncodingTrace")
    return ctx.finish(cov, [
        "schemas are subsets of a 44-item menu (EncodingSets.tla): built-in types without restrictions (one pattern string), unions without / with an identityref member (one nested), "
        "one choice with three cases (one shorthand), one augmenting module, one level of identity derivation",
        "collection sizes are 1, 2, 12, 13, 20, 40, 100 entries (one-item schemas) and 2, 13, 40 (larger schemas); at most 31 + entries sibling nodes under one parent",
        "values are canonical lexical forms; accepted but non-canonical numeric lexemes, white space around XML values, wrong member-name prefixes, trailing content after the XML root and empty leaf-list nodes are not judged",
        "plain JSON = RFC 7951 with unqualified names, all integers as numbers, empty as null",
        "outputs are re-read with encoding/json (UseNumber) and encoding/xml before TLC compares them with the predicted document",
    ])


def selftest(ctx, evfile):
    """The validator must reject a corrupted record (altered value in a returned tree)."""
    for line in open(evfile):
        e = json.loads(line)
        if e["ev"] == "rt" and e["out"] == "tree" and e["tree"]["kids"]:
            def corrupt(t):
                if t["vals"] and t["vals"][0] != "":
                    t["vals"][0] = t["vals"][0] + "9"
                    return True
                return any(corrupt(k) for k in t["kids"])
            if not corrupt(e["tree"]):
                continue
            p = ctx.path("chunks", "selftest.ndjson")
            open(p, "w").write(json.dumps(e) + "\n")
            fs = validate(ctx, [(p, 1)], 1)
            if not fs:
                raise Infra("binding self-test failed: corrupted outcome accepted by EncodingTrace")
            return
    raise Infra("binding self-test found no event to corrupt")


PROPS = {"C19": run}

MANIFEST = {
 "C19": dict(text="Encoding.tla holds data trees over a schema and abstract JSON / RFC 7951 / XML documents with Enc*/Dec* operators written "
             "from RFC 7951 and the RFC 6020 XML mapping rules, token-level recognisers, Conforms and NotAltered. TLC checks on every valid tree "
             "of every one- and two-item schema of a 44-item menu (all built-in types with 64-bit extremes, decimal64, empty, foreign identities, "
             "strings needing escaping, unions with and without identityref members, both list orderings, list keys and leaf-list entries of every type with a "
             "lexical space of its own, nesting, an augment, members of the cases of a choice; collections with 1 to 100 entries in several arrangements of the "
             "sibling nodes, entries interleaved with siblings in XML) that decode(encode(t)) = t for the three codecs and classifies "
             "every single-point mutant, among them a value of every JSON kind (XML: every kind of content) at every position of the document and the "
             "value at every scalar position spelled with a module prefix. TLC generates the schemas as YANG, the trees and the mutants; the harness runs the real encoders and "
             "decoders on them, on every token-class string to a length bound and on seeded random bytes (child processes, panic trap); "
             "EncodingTrace judges every recorded event: written document = predicted document, decoder outcome allowed by the spec, no panic, "
             "returned trees conform to the schema and carry only literals of the input.",
             note="non-canonical numeric lexemes, white space around XML values, wrong name prefixes, trailing content after the XML "
                  "root and empty leaf-list nodes are not judged; types carry no restrictions",
             design="4 C19",
             technique="TLA+ spec Encoding/EncodingSets: TLC exhaustive model (round trip on the spec), TLC-generated schemas, trees and mutants "
                       "replayed on the real codecs, recorded outcomes (also of class strings and random bytes) validated by EncodingTrace"),
}
