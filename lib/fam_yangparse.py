"""YANG text parser families (package parse): C07 (parsing is total and leaves nothing
running), C08 (string arguments are decoded as RFC 6020 6.1.3 prescribes), C10 (the parse
tree mirrors the source and ignores trivia).

One character-level specification, three uses of TLC each:

  C07  YangLexerMC     the lexer goroutine and the parser over an unbuffered channel: both
                       terminate on every text to a bounded length and every abort point,
                       nothing is left when Parse returns (intended mechanism); the constants
                       describing the pinned code must make TLC produce the hang and the leak
       YangLexerGen    every class string to a bounded length (+ sampled longer texts,
                       + repository YANG cut at random points) with the line geometry an error
                       position must respect -> ypt run7 (watchdog, goroutine dump)
       YangLexerTrace  the hook events of every one of those calls (emit / recv / exit / ret)
                       must be a behaviour of the intended mechanism
  C08  YangStringGen   layouts of a string argument with the value YangString.tla (RFC 6020
                       6.1.3) gives them -> yp run8 compares Argument().String()
       YangTreeTrace   random long multi-line strings: the spec reads the same text
  C10  YangTreeGen     statement trees x trivia at every token boundary x quoting forms, each
                       checked by TLC against the spec's own reader -> yp run10 walks the tree
       YangTreeRelay / YangTreeTrace  repository YANG re-laid-out by TLC; the walked trees are
                       judged by the spec reading the same texts
"""
import json, os, random, re, time, concurrent.futures as cf
from vlib import Infra, log, read_ndjson, write_ndjson, VERIF, REPO

ALPHABET = "{97, 32, 10, 13, 34, 39, 92, 123, 125, 59, 43, 47, 42, 233, 1114367}"
INVALID_BASE = 1114112


# ----------------------------------------------------------------------------- helpers
def to_cps(b):
    """bytes -> code points as the harness and the spec see them (undecodable bytes one by one)."""
    out, i = [], 0
    while i < len(b):
        c = b[i]
        n = 1 if c < 0x80 else 2 if 0xC2 <= c <= 0xDF else 3 if 0xE0 <= c <= 0xEF else 4 if 0xF0 <= c <= 0xF4 else 0
        if n:
            try:
                s = b[i:i + n].decode("utf-8")
                if len(s) == 1:
                    out.append(ord(s))
                    i += n
                    continue
            except UnicodeDecodeError:
                pass
        out.append(INVALID_BASE + c)
        i += 1
    return out


def show(cps, limit=400):
    s = "".join(chr(c) if c < INVALID_BASE else "\\x%02x" % (c - INVALID_BASE) for c in cps)
    return s if len(s) <= limit else s[:limit] + "..."


def vec_files(d, pat=r"vec_\d+\.ndjson$"):
    fs = sorted(os.path.join(d, f) for f in os.listdir(d) if re.match(pat, f))
    if not fs:
        raise Infra("generator produced no vectors in " + d)
    return fs


def load_all(files):
    out = []
    for f in files:
        out += read_ndjson(f)
    return out


def repo_texts(ctx, limit, maxlen=2500):
    """YANG texts of the repository: parse/testschemas and the snippets in _test.go files."""
    texts = []
    d = os.path.join(REPO, "parse", "testschemas")
    if os.path.isdir(d):
        for f in sorted(os.listdir(d)):
            if f.endswith(".yang"):
                texts.append(open(os.path.join(d, f), "rb").read())
    snippets = []
    for sub in ("parse", "compile", "schema", "testutils", "data"):
        for root, _, files in os.walk(os.path.join(REPO, sub)):
            for fn in sorted(files):
                if fn.endswith("_test.go"):
                    s = open(os.path.join(root, fn), "rb").read()
                    for m in re.finditer(rb"`([^`]{20,})`", s):
                        t = m.group(1)
                        if b"{" in t and b";" in t and re.search(rb"\b(container|leaf|module|list|typedef|grouping)\b", t):
                            snippets.append(t.strip() + b"\n")
    snippets = sorted(set(snippets), key=lambda t: (len(t), t))
    rnd = random.Random(ctx.seed)
    rnd.shuffle(snippets)
    texts += snippets
    texts = [t for t in texts if len(t) <= maxlen][:limit]
    return [to_cps(t) for t in texts]


def par(*jobs):
    """Run independent stages side by side (started 0.3 s apart: ctx.tlc numbers its scratch directories without a lock)."""
    def delayed(k, j):
        time.sleep(0.3 * k)
        return j()
    with cf.ThreadPoolExecutor(max_workers=len(jobs)) as ex:
        futs = [ex.submit(delayed, k, j) for k, j in enumerate(jobs)]
        return [f.result() for f in futs]


ENTRY_CALL = {"Parse": "parse.Parse", "ParseWithInterners": "parse.ParseWithInterners", "New.Parse": "parse.New(..).Parse", "NewWithInterners.Parse": "parse.NewWithInterners(..).Parse",
              "Reparse": "second Parse on a Tree that has parsed another text"}


def via(v):
    """the way into the parser a vector was handed to (chosen by the generator of the specification)"""
    return ENTRY_CALL.get(v.get("entry", "Parse"), v.get("entry", "Parse"))


def sigkey(sig):
    return json.dumps(sig, sort_keys=True)


def pick_for_solo(sigs, per_sig=2, cap=120, slow_cap=6):
    """sigs: signature of every suspect case -> indexes to run again alone: up to per_sig per signature, signatures in
    turn so that every cause gets its chance; at most slow_cap cases whose verdict is a hang (each costs seconds)."""
    by = {}
    for k, sg in enumerate(sigs):
        by.setdefault(sigkey(sg), []).append(k)
    picked, slow = [], 0
    for rnd in range(per_sig):
        for ks in by.values():
            if rnd < len(ks) and len(picked) < cap:
                expensive = any(w in str(sigs[ks[rnd]].get("what", "")) for w in ("hang", "crash"))
                if expensive and slow >= slow_cap:
                    continue
                slow += expensive
                picked.append(ks[rnd])
    return sorted(picked)


def confirm_solo(ctx, mode, vecs, bad, sig_of, isbad, tag):
    """Confirm-before-report for run8/run10: the disagreeing vectors (indexes `bad`) are run again alone - one at a
    time, a fresh worker process each, no sibling workers, wall-clock limits ten times larger (yp -solo).  A picked
    case is reported with what the solo run showed; a case that was not picked is reported if a picked case of the same
    signature showed that same signature again.  sig_of(i, r) -> signature of vector i with result r.
    Returns ([(index, result to report)], number of cases dropped as unconfirmed)."""
    if not bad:
        return [], 0
    sigs = [sig_of(i, None) for i in bad]
    picked = pick_for_solo(sigs)
    cp, out = ctx.path(f"confirm_{tag}.ndjson"), ctx.path(f"confirm_{tag}.out")
    write_ndjson(cp, [vecs[bad[k]] for k in picked])
    ctx.run_bin("yp", [mode, "-solo", "-out", out, cp], timeout=900)
    r2 = {picked[j]: x["r"] for j, x in enumerate(read_ndjson(out))}
    again = {k for k, r in r2.items() if isbad(r)}
    good_sigs = {sigkey(sigs[k]) for k in again if sigkey(sig_of(bad[k], r2[k])) == sigkey(sigs[k])}
    report = [(bad[k], r2[k]) for k in sorted(again)]
    report += [(bad[k], None) for k in range(len(bad)) if k not in picked and sigkey(sigs[k]) in good_sigs]
    return report, len(bad) - len(report)


def second_pass(ctx, mode, vecs, results, tag):
    """The pool stops feeding cases after 20 timed-out or crashed ones; the cases it did not get to (ret "skipped") are
    run once more, so that a burst of timing noise cannot hide part of the space."""
    idx = [i for i, r in enumerate(results) if r["ret"] == "skipped"]
    if not idx:
        return
    sp, so = ctx.path(f"second_{tag}.ndjson"), ctx.path(f"second_{tag}.out")
    write_ndjson(sp, [vecs[i] for i in idx])
    ctx.run_bin("yp", [mode, "-out", so, "-workers", "12", sp], timeout=900)
    for i, x in zip(idx, read_ndjson(so)):
        results[i] = x["r"]


def run_trace_tlc(ctx, module, cfg, trace, nchunks, split_key, timeout=1500):
    """Validate an ndjson trace with a TLC trace spec, split into chunks at run boundaries."""
    lines = open(trace).read().splitlines()
    starts = [i for i, l in enumerate(lines) if split_key(l)]
    if not starts:
        return [], 0, 0, 0
    # chunks of about equal numbers of events (the runs differ a lot in length), cut at run boundaries
    share = max(1, -(-(len(lines) - starts[0]) // nchunks))
    cuts = [0]
    for k in range(1, len(starts)):
        if starts[k] - starts[cuts[-1]] >= share and len(cuts) < nchunks:
            cuts.append(k)
    cuts.append(len(starts))
    chunks = []
    for c0, c1 in zip(cuts, cuts[1:]):
        a = starts[c0]
        b = starts[c1] if c1 < len(starts) else len(lines)
        p = ctx.path("chunks", f"{module}_{len(chunks)}_{ctx.n_tlc}.ndjson")
        open(p, "w").write("\n".join(lines[a:b]) + "\n")
        chunks.append((p, c1 - c0, b - a))

    def one(ch):
        p, nruns, nev = ch
        time.sleep(0.2 * chunks.index(ch))      # ctx.tlc numbers its scratch directories without a lock
        r = ctx.tlc(module, cfg, data={"trace.ndjson": p}, workers=1, timeout=timeout, heap="3g")
        m = re.search(r'<<"TRACE-RESULT", (\d+), (\d+), (\d+)>>', r["out"])
        if not m:
            raise Infra(f"{module}: the trace was not consumed:\n" + r["out"][-3000:])
        if int(m.group(1)) != nev:
            raise Infra(f"{module}: consumed {m.group(1)} events, expected {nev}")
        fs = []
        for l in r["out"].splitlines():
            if l.startswith('"FAILJSON '):
                fs.append(json.loads(json.loads(l)[len("FAILJSON "):]))
        return fs, nruns, nev, int(m.group(2))

    fails, runs, events, second = [], 0, 0, 0
    with cf.ThreadPoolExecutor(max_workers=nchunks) as ex:
        for fs, nr, ne, s2 in ex.map(one, chunks):
            fails += fs
            runs += nr
            events += ne
            second += s2
    return fails, runs, events, second


# ============================================================================= C07
def c07_sig_replay(v, r):
    return dict(site="replay", what=r["verdict"], endsIn=v.get("endsIn", ""), inBlock=v.get("inBlock", False), ret=r["ret"], entry=v.get("entry", "Parse"))


def c07_sig_trace(f):
    return dict(site="trace", what=f["what"], where=f["where"], inBlock=f["depth"], ev=f["ev"])


def c07_round(ctx, vecfiles, tag, hooks, solo=False):
    """Replay vectors on the real parser, validate the hook trace; returns (vectors, results, trace failures, events).
    solo: confirmation run (one case at a time in a fresh worker process, limits ten times larger)."""
    res, trace = ctx.path(f"res7_{tag}.ndjson"), ctx.path(f"trace7_{tag}.ndjson")
    args = ["run7", "-out", res, "-workers", "12"] + (["-solo"] if solo else [])
    if hooks:
        args += ["-trace", trace]
    ctx.run_bin("ypt" if hooks else "yp", args + vecfiles, timeout=1200)
    vecs = load_all(vecfiles)
    results = [x["r"] for x in read_ndjson(res)]
    if len(vecs) != len(results):
        raise Infra(f"run7 returned {len(results)} results for {len(vecs)} vectors")
    fails, runs, events = [], 0, 0
    if hooks:
        fails, runs, events, _ = run_trace_tlc(ctx, "YangLexerTrace", "YangLexerTrace.cfg", trace, 2 if solo else 8,
                                               lambda l: l.startswith('{"ev":"init"'))
        if runs != len(vecs):
            raise Infra(f"trace has {runs} runs for {len(vecs)} vectors")
    return vecs, results, fails, events


def run_c07(ctx):
    q = ctx.quick()
    ctx.build(["yp"])
    try:
        ctx.build(["ypt"])
        hooks = True
    except Infra as e:
        raise Infra("C07 needs the lexer hooks in the repository under test (pending/yangparse/01-lexer-hooks.patch): " + str(e)[:600])
    # texts: every class string, sampled longer ones, repository YANG cut at random points
    rnd = random.Random(ctx.seed)
    given = []
    rts = repo_texts(ctx, 40 if q else 200)
    for t in rts:
        cuts = sorted(set(rnd.randrange(0, len(t) + 1) for _ in range(6 if q else 12)))
        given += [dict(text=t[:c]) for c in cuts] + [dict(text=t)]
    gp = ctx.path("given7.ndjson")
    write_ndjson(gp, given)

    # 1. the mechanism, exhaustively; the constants of the pinned code must fail (the model can see both defects)
    def mc():
        return ctx.tlc("YangLexerMC", "YangLexerMC.cfg", workers=8, timeout=800, heap="8g",
                       consts={"MaxLen": 6 if q else 12, "Alphabet": ALPHABET})

    def pin(cfg, needle, what):
        def f():
            r = ctx.tlc("YangLexerMC", cfg, workers=2, timeout=300, expect_ok=False, consts={"Alphabet": ALPHABET})
            if r["ok"] or needle not in r["out"]:
                raise Infra(f"self-test: the model with the constants of the pinned code no longer shows the {what} ({cfg})")
            return r
        return f

    # 2. the texts with their geometry
    def gen():
        return ctx.tlc("YangLexerGen", "YangLexerGen.cfg", workers=8, timeout=800, heap="8g", data={"texts.ndjson": gp},
                       consts={"MaxLen": 3 if q else 4, "Variants": "{1, 2}" if q else "{1, 2, 3}", "NRand": 400 if q else 6000,
                               "RandLen": 40 if q else 90, "Alphabet": ALPHABET, "NCatTexts": 40 if q else 120, "NCat": 400,
                               "AliasWide": "FALSE" if q else "TRUE"},
                       extra=["-seed", str(ctx.seed)])

    # the same harness under the Go race detector (trusted observer of the two goroutines of a Parse call)
    def race_build():
        return ctx.build(["ypt"], race=True)

    _, _, _, g, _ = par(mc, pin("YangLexerPinHang.cfg", "Temporal property ParserReturns was violated", "hang at the end of an unquoted word"),
                        pin("YangLexerPinLeak.cfg", "Temporal property NoLeak was violated", "lexer left blocked on its send"), gen, race_build)
    allfiles = vec_files(g["dir"])
    # untraced: concatenations, absurd arguments, rules between statements (exits after the whole text was read), byte order mark,
    # long runs of tokens that cover few or no bytes after an early error
    UNTRACED = ("vec_300.ndjson", "vec_400.ndjson", "vec_500.ndjson", "vec_700.ndjson", "vec_800.ndjson")
    catfile = [f for f in allfiles if f.endswith(UNTRACED)]
    files = [f for f in allfiles if not f.endswith(UNTRACED)]

    def plain(binary, tag, vfiles, env=None, timeout=600):
        """run7 without trace; returns (vectors, results)"""
        res = ctx.path(f"res7_{tag}.ndjson")
        ctx.run_bin(binary, ["run7", "-out", res, "-workers", "12"] + vfiles, timeout=timeout, env=env)
        vs = load_all(vfiles)
        rs = [x["r"] for x in read_ndjson(res)]
        if len(vs) != len(rs):
            raise Infra(f"run7 ({tag}) returned {len(rs)} results for {len(vs)} vectors")
        return vs, rs

    def race_slice():
        # modules full of concatenations + a slice of the other texts, every Parse call watched by the race detector
        mv = load_all(files)
        step = max(1, len(mv) // (1500 if q else 6000))
        sp = ctx.path("race_slice.ndjson")
        write_ndjson(sp, mv[::step])
        return plain("ypt-race", "race", catfile + [sp], env={"GORACE": "halt_on_error=1"}, timeout=900)

    (vecs, results, fails, events), (cvecs, cres), (rvecs, rres) = par(
        lambda: c07_round(ctx, files, "main", hooks), lambda: plain("yp", "cat", catfile), race_slice)
    ctx.traces += len(vecs) + len(cvecs) + len(rvecs)
    # suspects: (vector, signature, what, replay).  Nothing is reported before it has shown again in a solo run, except a
    # worker stopped by the Go runtime or by the race detector (GORACE=halt_on_error=1): that is not a matter of timing.
    suspects = []
    KIND = {"vec_300.ndjson": "long-concatenations", "vec_400.ndjson": "absurd-argument", "vec_500.ndjson": "rule-between-statements (text read to its end)",
            "vec_700.ndjson": "byte-order-mark", "vec_800.ndjson": "early-error-then-run-of-empty-tokens"}
    ckind = []
    for f in catfile:
        ckind += [KIND[os.path.basename(f)]] * len(read_ndjson(f))
    for tag0, vs, rs in (("untraced", cvecs, cres), ("race-detector", rvecs, rres)):
        for k, (v, r) in enumerate(zip(vs, rs)):
            tag = tag0 if tag0 != "untraced" else ckind[k] if k < len(ckind) else "long-and-absurd"
            if r["verdict"] in ("ok", "skipped"):
                continue
            sig = dict(site=tag, what=r["verdict"], ret=r["ret"], entry=v.get("entry", "Parse"))
            what = f"{via(v)} under {tag}: {r['verdict']} ({(r.get('err') or r.get('why') or '')[:160]}) on {show(v['text'], 80)!r}"
            replay = dict(kind=tag, text=v["text"][:4000], shown=show(v["text"], 600), result=r, entry=v.get("entry", "Parse"), first=v.get("first", []),
                          how="bin/check C07 (yp / ypt-race run7 on this text, GORACE=halt_on_error=1)")
            if r["verdict"] in ("crash", "data-race") and "worker silent" not in r.get("err", ""):
                ctx.disagree(sig, what, replay)
            else:
                suspects.append((v, sig, what, replay))
    # binding self-test: a trace with one corrupted item extent must be rejected by the validator
    tl = open(ctx.path("trace7_main.ndjson")).read().splitlines()[:400]
    k = next((i for i, l in enumerate(tl) if '"ev":"emit"' in l and '"typ":"String"' in l), None)
    if k is not None:
        e = json.loads(tl[k])
        e["end"] += 1
        tl[k] = json.dumps(e, separators=(",", ":"))
        last_init = max(i for i, l in enumerate(tl) if l.startswith('{"ev":"init"'))
        if last_init <= k:
            raise Infra("self-test: no complete run with a String item among the first trace events")
        sp = ctx.path("selftest7.ndjson")
        open(sp, "w").write("\n".join(tl[:last_init]) + "\n")
        sf, _, _, _ = run_trace_tlc(ctx, "YangLexerTrace", "YangLexerTrace.cfg", sp, 1, lambda l: l.startswith('{"ev":"init"'))
        if not any(f["id"] == e["id"] for f in sf):
            raise Infra("self-test: YangLexerTrace accepted a trace with a corrupted item extent")

    # 3. verdicts
    def collect(vecs, results, fails):
        out = {}
        byid = {}
        for f in fails:
            byid.setdefault(f["id"], f)
        for i, (v, r) in enumerate(zip(vecs, results)):
            fatal = any(k in r["verdict"] for k in ("hang", "crash", "panic", "data-race"))
            if i in byid and not fatal:      # a call that does not return is reported as that, whatever its events were
                f = byid[i]
                out[i] = (dict(c07_sig_trace(f), entry=v.get("entry", "Parse")), f"{via(v)}: trace rejected: {f['what']} (lexer {f['where']}) on {show(v['text'], 80)!r}",
                          dict(kind="trace", text=v["text"], shown=show(v["text"]), failure=f, result=r, entry=v.get("entry", "Parse"), first=v.get("first", [])))
            elif r["verdict"] not in ("ok", "skipped"):
                out[i] = (c07_sig_replay(v, r), f"{via(v)}: {r['verdict']} ({(r.get('err') or r.get('why') or '')[:160]}) on {show(v['text'], 80)!r}",
                          dict(kind="replay", text=v["text"], shown=show(v["text"]), result=r, lines=v["lines"], entry=v.get("entry", "Parse"), first=v.get("first", [])))
        return out

    def judge(suspects, tag):
        """confirm before report: every suspect signature is run again alone (fresh worker process per case, nothing else
        running, watchdog 20 s, grace 5 s); only what shows again is a violation.  Returns (reported, unconfirmed)."""
        if not suspects:
            return 0, 0
        reported = unconfirmed = 0
        picked = pick_for_solo([x[1] for x in suspects])
        cp = ctx.path(f"confirm7_{tag}.ndjson")
        write_ndjson(cp, [suspects[k][0] for k in picked])
        v2, r2, f2, _ = c07_round(ctx, [cp], "confirm" + tag, hooks, solo=True)
        again = collect(v2, r2, f2)
        # a signature counts as confirmed when a picked case showed the same thing again (the untraced runs have their own site)
        good_sigs = {sigkey(suspects[picked[j]][1]) for j in again if again[j][0].get("what") == suspects[picked[j]][1].get("what")}
        for k, (v, sig, what, replay) in enumerate(suspects):
            if k in picked:
                j = picked.index(k)
                if j not in again:
                    unconfirmed += 1
                    continue
                sig2, what2, replay2 = again[j]
                if sigkey(sig) not in good_sigs:
                    sig, what = sig2, what2         # it disagrees alone, but differently: report what the solo run showed
                replay = dict(replay, solo=replay2, confirmed="shown again alone: " + what2)
            elif sigkey(sig) not in good_sigs:
                unconfirmed += 1
                continue
            replay["how"] = "bin/check C07 (ypt run7 [-solo] on this text; YangLexerTrace on its events)"
            ctx.disagree(sig, what, replay)
            reported += 1
        return reported, unconfirmed

    def suspects_of(vecs, results, fails):
        out = []
        bad = collect(vecs, results, fails)
        for i in sorted(bad):
            sig, what, replay = bad[i]
            if replay["result"]["verdict"] == "crash" and "worker silent" not in replay["result"].get("err", ""):
                ctx.disagree(sig, what, replay)          # the process died inside the call
            else:
                out.append((vecs[i], sig, what, replay))
        return out

    suspects += suspects_of(vecs, results, fails)
    reported, timing_unconfirmed = judge(suspects, "a")
    skipped = sum(1 for r in results if r["verdict"] == "skipped")
    if skipped and not reported and not ctx.violations:
        # the harness stopped feeding cases after 20 suspect ones, and none of them was real: the cases it did not get to
        # are run now, so that timing noise cannot hide part of the space
        idx = [i for i, r in enumerate(results) if r["verdict"] == "skipped"]
        sp = ctx.path("second7.ndjson")
        write_ndjson(sp, [vecs[i] for i in idx])
        v3, r3, f3, ev3 = c07_round(ctx, [sp], "second", hooks)
        events += ev3
        for j, i in enumerate(idx):
            results[i] = r3[j]
        rep2, unc2 = judge(suspects_of(v3, r3, f3), "b")
        timing_unconfirmed += unc2
        skipped = sum(1 for r in r3 if r["verdict"] == "skipped")
        if skipped and not rep2:
            raise Infra(f"timing too unstable: {skipped} texts were never executed because suspect cases that did not reproduce alone used up the budget twice")
    kinds = {}
    for v in vecs:
        k = (v["endsIn"], v["inBlock"], v["lastItem"])
        kinds[k] = kinds.get(k, 0) + 1
    cov = dict(evaluations=len(vecs), distinct_nontrivial=len(kinds),
               rule="vectors = every text over 15 character classes up to the length bound in several spellings + characters that alias structural ASCII "
                    "characters or are blanks to Unicode only, in every lexer state + TLC-sampled longer texts + repository YANG cut at random points "
                    "(+ untraced: concatenations, absurd arguments, rules between statements, byte order mark, long runs of empty tokens after an early error); the sampled, repository, "
                    "absurd-argument and rule-between-statements texts also through the other ways into the parser (ParseWithInterners, New(..).Parse, NewWithInterners(..).Parse, second Parse on one Tree); distinct = (state function in which the text ends, inside a block, last item)",
               samples=[dict(text=show(v["text"], 120), endsIn=v["endsIn"], result=r["ret"]) for v, r in list(zip(vecs, results))[7::max(1, len(vecs) // 3)]][:3],
               mc_maxlen=6 if q else 12, trace_events=events, concatenation_texts=len(cvecs), race_detector_calls=len(rvecs),
               race_detector_skipped=sum(1 for r in rres if r["verdict"] == "skipped"), repo_texts=len(rts), truncated_texts=len(given),
               hang_budget_skipped=skipped, timing_unconfirmed=timing_unconfirmed, exhaustive=True,
               calls_by_entry={e: sum(1 for v in list(vecs) + list(cvecs) if v.get("entry", "Parse") == e) for e in ENTRY_CALL},
               explanation="TLC explored the lexer/parser mechanism for every text to the length bound and every abort point (states), generated the "
                           "texts with their line geometry; every text was parsed by the real code under a watchdog with a goroutine dump, and the "
                           "channel events of every call were validated by YangLexerTrace")
    return ctx.finish(cov, [
        "the parser is abstracted to: consumes items, may stop at any item, succeeds only after EOF (all of parse.go's error exits go through Tree.recover)",
        "close of the channel and the end of the goroutine are one step of the model; the harness waits for the goroutine to go (250 ms, 5 s in the solo re-run) unless it is blocked",
        "verdicts that rest on a timer (hang, goroutine left, no exit event, silent worker) are suspicions: each is run again alone with limits ten times larger and only what shows again is reported; the rest is counted as timing_unconfirmed",
        "token boundaries that do not matter for C07 (word directly followed by a comment, // comment at the end of the text) are accepted either way by the trace validator (C10 judges them); Separator items on the channel are optional silent steps: the compared stream is that of the other items",
        "texts longer than the bound are sampled, not exhausted",
        "memory-level races between the lexer goroutine and the parser are outside the TLA+ model: a slice of the calls runs under the Go race detector (trusted observer)",
        "the way into the parser (parse.Parse, ParseWithInterners, New(..).Parse, NewWithInterners(..).Parse, a second Parse on a Tree that has parsed another text) is part of the vector; the property is asked of the call under test, the position must lie in the text of that call",
    ])


# ============================================================================= C08
def c08_sig(v, r):
    f = v["feat"]
    what = "value" if r["ret"] == "ok" else "rejected" if r["ret"] == "err" else r["ret"]
    val = v["expect"]
    empty_line = any(val[i] == 10 and (i == 0 or val[i - 1] == 10 or (val[i - 1] == 13 and i >= 2 and val[i - 2] == 10) or (val[i - 1] == 13 and i == 1))
                     for i in range(len(val)))
    return dict(site="decode", what=what, emptyLineInValue=empty_line, crlf=f["crlf"], leadingPlus=f["leadingPlus"], innerDQ=f.get("innerDQ", False),
                multiLine=f["lines"] > 1, concatenated=len(f["forms"]) > 1, keyword=v.get("kw", "description"), entry=v.get("entry", "Parse"))


def tree_trace_sig(f):
    return dict(site="trace", what=f["what"], wordThenComment=f["wordThenComment"], relaid=f["relaid"])


def tree_trace(ctx, events, nchunks=8):
    """events: dicts with id, text, ret, walked, base -> failures of YangTreeTrace."""
    empty = dict(kw=[], arg=[], line=0, col=0, colJ=False, subs=[])
    tp = ctx.path(f"ttrace_{ctx.n_tlc}.ndjson")
    rows = [dict(id=e["id"], text=e["text"], ret=e["ret"], walked=e.get("walked") or empty, base=e.get("base", 0)) for e in events]
    # chunks must keep an event and its base together: bases are emitted first and chunks are cut at base events
    write_ndjson(tp, rows)
    n = len(rows)
    if n == 0:
        return [], 0
    # renumber `base` relative to the chunk
    bounds = [i for i, r in enumerate(rows) if r["base"] == 0]
    per = max(1, -(-len(bounds) // nchunks))
    fails, judged = [], 0
    jobs = []
    for c in range(0, len(bounds), per):
        a = bounds[c]
        b = bounds[c + per] if c + per < len(bounds) else n
        part = []
        for r in rows[a:b]:
            r = dict(r)
            if r["base"] > 0:
                r["base"] = r["base"] - a
            part.append(r)
        p = ctx.path("chunks", f"tt_{ctx.n_tlc}_{len(jobs)}.ndjson")
        write_ndjson(p, part)
        jobs.append((p, len(part)))

    def one(job):
        p, nev = job
        time.sleep(0.2 * jobs.index(job))
        r = ctx.tlc("YangTreeTrace", "YangTreeTrace.cfg", data={"trace.ndjson": p}, workers=1, timeout=1500, heap="3g")
        m = re.search(r'<<"TRACE-RESULT", (\d+), (\d+), (\d+)>>', r["out"])
        if not m or int(m.group(1)) != nev:
            raise Infra("YangTreeTrace: the trace was not consumed:\n" + r["out"][-3000:])
        fs = [json.loads(json.loads(l)[len("FAILJSON "):]) for l in r["out"].splitlines() if l.startswith('"FAILJSON ')]
        return fs, int(m.group(2))

    with cf.ThreadPoolExecutor(max_workers=nchunks) as ex:
        for fs, j in ex.map(one, jobs):
            fails += fs
            judged += j
    return fails, judged


def run_c08(ctx):
    q = ctx.quick()
    ctx.build(["yp"])
    def replay():
        g = ctx.tlc("YangStringGen", "YangStringGen.cfg", workers=12, timeout=800, heap="8g",
                    consts={"Size": '"quick"' if q else '"thorough"', "NRand": 1200 if q else 12000}, extra=["-seed", str(ctx.seed)])
        files = vec_files(g["dir"])
        res = ctx.path("res8.ndjson")
        ctx.run_bin("yp", ["run8", "-out", res, "-workers", "12"] + files, timeout=900)
        vecs = load_all(files)
        results = [x["r"] for x in read_ndjson(res)]
        if len(vecs) != len(results):
            raise Infra(f"run8 returned {len(results)} results for {len(vecs)} vectors")
        second_pass(ctx, "run8", vecs, results, "8")
        # binding self-test: a vector with a perturbed expectation must be reported by the replayer
        k = next((i for i, (v, r) in enumerate(zip(vecs, results)) if v["judged"] and r["ret"] == "ok" and r.get("equal")), None)
        if k is not None:
            sp, so = ctx.path("selftest8.ndjson"), ctx.path("selftest8.out")
            write_ndjson(sp, [dict(vecs[k], expect=vecs[k]["expect"] + [97])])
            ctx.run_bin("yp", ["run8", "-solo", "-out", so, sp])
            if read_ndjson(so)[0]["r"].get("equal") is not False:
                raise Infra("self-test: yp run8 did not report a perturbed expectation")
        return vecs, results

    def long_strings():
        # code -> model: long random strings, read by the spec
        gp = ctx.path("gen8.ndjson")
        ctx.run_bin("yp", ["gen8", "-n", str(250 if q else 2500), "-out", gp])
        res3 = ctx.path("res8t.ndjson")
        ctx.run_bin("yp", ["run10", "-out", res3, "-workers", "6", gp], timeout=600)
        gtexts = read_ndjson(gp)
        events = [dict(id=i + 1, text=t["text"], ret=x["r"]["ret"], walked=x["r"].get("walked"), base=0)
                  for i, (t, x) in enumerate(zip(gtexts, read_ndjson(res3)))]
        fails, judged = tree_trace(ctx, events, 6)
        return events, fails, judged

    (vecs, results), (events, fails, judged) = par(replay, long_strings)
    ctx.traces += len(vecs)
    bad = [i for i, (v, r) in enumerate(zip(vecs, results)) if v["judged"] and r["ret"] != "skipped" and not (r["ret"] == "ok" and r.get("equal"))]
    unjudged = sum(1 for v in vecs if not v["judged"])
    report, unconfirmed8 = confirm_solo(ctx, "run8", vecs, bad, lambda i, r: c08_sig(vecs[i], r or results[i]),
                                        lambda r: not (r["ret"] == "ok" and r.get("equal")), "8")
    never = sum(1 for r in results if r["ret"] == "skipped")
    if never and not report:
        raise Infra(f"timing too unstable: {never} layouts were never executed because suspect cases that did not reproduce alone used up the budget twice")
    for i, rs in report:
        v, r = vecs[i], rs or results[i]
        ctx.disagree(c08_sig(v, r), f"argument of the {v.get('kw', 'description')} statement in {show(v['text'], 120)!r} ({via(v)}): want {show(v['expect'], 60)!r} got {show(r.get('got', []), 60)!r} {r.get('err', '')}",
                     dict(kind="replay", text=v["text"], shown=show(v["text"]), want=v["expect"], got=r.get("got"), ret=r["ret"], err=r.get("err"),
                          feat=v["feat"], entry=v.get("entry", "Parse"), first=v.get("first", []), how="bin/check C08 (yp run8 [-solo] on this vector)"))
    ctx.traces += len(events)
    for f in fails:
        e = events[f["id"] - 1]
        ctx.disagree(dict(site="trace", what=f["what"], ret=f["ret"]), f"long string: the walked tree differs from the spec's reading ({f['what']})",
                     dict(kind="trace", text=e["text"], shown=show(e["text"], 1200), failure=f, how="bin/check C08 (yp gen8 / run10 / YangTreeTrace)"))
    shapes = {}
    for v in vecs:
        f = v["feat"]
        shapes[("+".join(f["forms"]), f["lines"], f["emptyFirstLine"], f["blankMiddleLine"], f["crlf"], v["fam"], v.get("kw", "description"))] = 1
    cov = dict(evaluations=len(vecs), distinct_nontrivial=len(shapes), unjudged=unjudged, keywords_carrying_arguments=len({v.get("kw", "description") for v in vecs}),
               vectors_by_entry={e: sum(1 for v in vecs if v.get("entry", "Parse") == e) for e in ENTRY_CALL}, timing_unconfirmed=unconfirmed8, random_long_strings=len(events), long_strings_judged=judged,
               rule="vectors = layouts enumerated by YangStringGen (two- and three-line strings x quote column x indentation x trailing blanks x LF/CRLF, "
                    "plain forms, concatenations with trivia, unquoted words with every punctuation character, statements of ~45 kinds as carriers of typed and free argument texts in every "
                    "quoting form and cut in two) + TLC-sampled layouts; distinct = (quoting forms, lines, empty first line, blank middle line, CRLF, family, keyword)",
               samples=[dict(text=show(v["text"], 200), value=show(v["expect"], 80)) for v in vecs[5::max(1, len(vecs) // 3)]][:3],
               exhaustive=True,
               explanation="TLC evaluated RFC 6020 6.1.3 (YangString.tla) on every enumerated layout; each was parsed by the real code and "
                           "Argument().String() compared code point by code point; long random strings were decoded by the spec from the same text")
    return ctx.finish(cov, [
        "RFC 6020 does not fix the order of escape substitution and white-space stripping: a string is judged only if both orders give the same value",
        "a backslash before a character other than n t \" \\ is not generated; a CR that is not part of CR LF is judged unless a blank stands next to it (RFC 6020 does not say whether it is a line break)",
        "only space and tab are blanks: every other character that Unicode classes as white space is an ordinary character of the string",
        "the column of the opening quote is counted in characters: a tab takes 8 columns, any other character (1 to 4 bytes) takes 1",
        "a tab counts as 8 columns (property statement), not as a tab stop",
        "unquoted strings as RFC 6020 6.1.3 defines them: every character but blanks, line breaks, ; { } and the comment sequences is an ordinary character (quotes after the first character included); a word that starts with a quote is not judged",
        "the carriers of families 34/35 hold only arguments that are legal for their statement (RFC 6020 section 12; regular expressions within what Go's regexp knows): a rejected carrier is reported as a disagreement",
    ])


# ============================================================================= C10
def c10_sig(v, r):
    if r["ret"] != "ok":
        what = "rejected" if r["ret"] == "err" else r["ret"]
    else:
        what = r["diff"]["field"]
    return dict(site="replay", what=what, wordThenComment=v["wordThenComment"], lineCommentAtEnd=v["lineCommentAtEnd"], layout=v["feat"]["kind"], entry=v.get("entry", "Parse"))


def run_c10(ctx):
    q = ctx.quick()
    ctx.build(["yp"])
    def replay():
        g = ctx.tlc("YangTreeGen", "YangTreeGen.cfg", workers=12, timeout=2400, heap="10g",
                    consts={"Size": '"quick"' if q else '"thorough"', "NFam": 24, "NTrees": 0 if q else 1, "NLay": 3 if q else 10},
                    extra=["-seed", str(ctx.seed)])
        files = vec_files(g["dir"])
        res = ctx.path("res10.ndjson")
        ctx.run_bin("yp", ["run10", "-out", res, "-workers", "12"] + files, timeout=900)
        vecs = load_all(files)
        results = [x["r"] for x in read_ndjson(res)]
        if len(vecs) != len(results):
            raise Infra(f"run10 returned {len(results)} results for {len(vecs)} vectors")
        second_pass(ctx, "run10", vecs, results, "10")
        # binding self-test: a vector whose expected tree has a shifted line must be reported by the replayer
        k = next((i for i, r in enumerate(results) if r["ret"] == "ok" and "diff" not in r and vecs[i]["tree"]["subs"]), None)
        if k is not None:
            v = json.loads(json.dumps(vecs[k]))
            v["tree"]["subs"][-1]["line"] += 1
            sp, so = ctx.path("selftest10.ndjson"), ctx.path("selftest10.out")
            write_ndjson(sp, [v])
            ctx.run_bin("yp", ["run10", "-solo", "-out", so, sp])
            if "diff" not in read_ndjson(so)[0]["r"]:
                raise Infra("self-test: yp run10 did not report a perturbed expectation")
        return vecs, results

    def repo():
        # repository texts, as they are and re-laid-out by TLC
        rts = repo_texts(ctx, 30 if q else 150, maxlen=1500 if q else 2500)
        base = [dict(id=i + 1, text=t) for i, t in enumerate(rts)]
        bp = ctx.path("texts10.ndjson")
        write_ndjson(bp, base)
        nvar = 2 if q else 4
        rl = ctx.tlc("YangTreeRelay", "YangTreeRelay.cfg", workers=1, timeout=600, heap="4g", data={"texts.ndjson": bp},
                     consts={"NVar": nvar}, extra=["-seed", str(ctx.seed)])
        relaid = read_ndjson(os.path.join(rl["dir"], "relay.ndjson"))
        # event order: each original directly followed by its variants (chunks are cut at originals)
        order = []
        for b in base:
            order.append(dict(text=b["text"], base=0, entry="Parse", first=[]))
            pos = len(order)
            # the spec names the way into the parser for every re-laid-out text; a second Parse on the same Tree comes after the original
            order += [dict(text=x["text"], base=pos, entry=x.get("entry", "Parse"), first=b["text"] if x.get("entry") == "Reparse" else [])
                      for x in relaid if x["base"] == b["id"]]
        ip = ctx.path("in10t.ndjson")
        write_ndjson(ip, [dict(text=o["text"], hasTree=False, entry=o["entry"], first=o["first"]) for o in order])
        res3 = ctx.path("res10t.ndjson")
        ctx.run_bin("yp", ["run10", "-out", res3, "-workers", "6", ip], timeout=600)
        events = [dict(id=i + 1, text=o["text"], ret=x["r"]["ret"], walked=x["r"].get("walked"), base=o["base"], entry=o["entry"])
                  for i, (o, x) in enumerate(zip(order, read_ndjson(res3)))]
        fails, judged = tree_trace(ctx, events, 6)
        return base, relaid, events, fails, judged

    (vecs, results), (base, relaid, events, fails, judged) = par(replay, repo)
    ctx.traces += len(vecs)
    isbad = lambda r: r["ret"] != "skipped" and not (r["ret"] == "ok" and "diff" not in r)
    bad = [i for i, (v, r) in enumerate(zip(vecs, results)) if isbad(r)]
    # all layouts of one tree agree on everything but positions (those that already differ from the source are reported above)
    groups = {}
    badset = set(bad)
    for i, (v, r) in enumerate(zip(vecs, results)):
        if r["ret"] == "ok" and i not in badset and v.get("layoutFree", True):   # trees with fixed source forms change value with the layout
            groups.setdefault((v["fam"], v["tid"]), {}).setdefault(r["shape"], []).append(i)
    layout_dis = []
    for k, shapes in groups.items():
        if len(shapes) > 1:
            major = max(shapes.values(), key=len)
            for sh, ids in shapes.items():
                if ids is not major:
                    layout_dis += ids
    report, unconfirmed10 = confirm_solo(ctx, "run10", vecs, bad, lambda i, r: c10_sig(vecs[i], r or results[i]), isbad, "10")
    never = sum(1 for r in results if r["ret"] == "skipped")
    if never and not report:
        raise Infra(f"timing too unstable: {never} layouts were never executed because suspect cases that did not reproduce alone used up the budget twice")
    for i, rs in report:
        v, r = vecs[i], rs or results[i]
        ctx.disagree(c10_sig(v, r), f"tree of {show(v['text'], 120)!r} ({via(v)}): {r.get('diff') or r.get('err')}",
                     dict(kind="replay", text=v["text"], shown=show(v["text"], 2000), diff=r.get("diff"), ret=r["ret"], err=r.get("err"), entry=v.get("entry", "Parse"), first=v.get("first", []),
                          feat=v["feat"], how="bin/check C10 (yp run10 [-solo] on this vector)"))
    for i in layout_dis:
        v = vecs[i]
        ctx.disagree(dict(site="replay", what="layouts-disagree", wordThenComment=v["wordThenComment"], lineCommentAtEnd=v["lineCommentAtEnd"], layout=v["feat"]["kind"]),
                     "two layouts of one tree give different trees", dict(kind="layouts", text=v["text"], shown=show(v["text"], 2000)))
    ctx.traces += len(events)
    for f in fails:
        e = events[f["id"] - 1]
        ctx.disagree(dict(tree_trace_sig(f), entry=e.get("entry", "Parse")), f"repository text{' (re-laid-out)' if f['relaid'] else ''} ({via(e)}): {f['what']}",
                     dict(kind="trace", text=e["text"], shown=show(e["text"], 2500), failure=f, entry=e.get("entry", "Parse"), how="bin/check C10 (YangTreeRelay / yp run10 / YangTreeTrace)"))
    trees = {(v["fam"], v["tid"]) for v in vecs}
    kinds = {(v["feat"]["kind"], v["feat"]["slot"], v["feat"]["pick"]) for v in vecs}
    cov = dict(evaluations=len(vecs), distinct_nontrivial=len(trees) * len(kinds), trees=len(trees), layout_kinds=len(kinds),
               unjudged_arguments=sum(1 for v in vecs if not v["judged"]), timing_unconfirmed=unconfirmed10,
               vectors_by_entry={e: sum(1 for v in vecs if v.get("entry", "Parse") == e) for e in ENTRY_CALL}, repo_texts=len(base), relaid_texts=len(relaid), repo_events_judged=judged,
               rule="vectors = trees x (compact layout, every trivia at every used token boundary one at a time, every quoting form of every argument, "
                    "every trailing trivia, TLC-sampled full layouts); distinct = trees x (layout kind, boundary slot, pick)",
               samples=[dict(text=show(v["text"], 200)) for v in vecs[11::max(1, len(vecs) // 3)]][:3], exhaustive=True,
               explanation="TLC rendered every layout and checked that the spec's own lexer and parser read it back as the annotated tree; the real parser's "
                           "tree, walked through Children()/Statement()/Argument()/ErrorContext(), was compared node by node; repository texts and TLC's "
                           "re-laid-out forms of them were judged by the spec reading the same text")
    return ctx.finish(cov, [
        "keywords: prefixed extension statements (free shape) plus container/leaf/description/type in valid positions, inside a minimal module",
        "byte columns of keywords are judged only where the line prefix is ASCII; the implicit case the parser wraps around a shorthand member of a choice counts as the member (same position, same argument), order and identity of the children are judged",
        "a text the spec cannot read as one statement, and a text the code rejects on its own, are not judged here (C09)",
        "a byte order mark at the start of the text: whether it belongs to the first keyword is not judged (both readings accepted), positions refer to the text as handed to Parse",
        "the way into the parser is part of the vector (parse.Parse, ParseWithInterners, New(..).Parse, NewWithInterners(..).Parse, a second Parse on a Tree that has parsed another text): tree and positions are those of the text of the call under test; a panic while walking an accepted tree is a disagreement",
    ])


PROPS = {"C07": run_c07, "C08": run_c08, "C10": run_c10}

YP = ("TLA+ specs YangChars/YangLexer/YangString/YangTree: TLC model checking of the lexer/parser mechanism, TLC-generated texts with prescribed "
      "behaviour replayed on parse.Parse, recorded lexer/parser events and walked trees validated by TLC trace specs")
MANIFEST = {
 "C07": dict(text="YangLexerMC models the lexer goroutine (one state per state function, blocking on every send) and the parser (consume, stop at any "
             "item, finish after EOF) over an unbuffered channel; TLC checks under fairness that both end on every text over 15 character classes to "
             "length 6/12 and every abort point, that nothing is left when Parse returns, and that the constants describing the pinned code produce the "
             "hang and the leak. Every class string to length 3/4 in several spellings, sampled longer texts and repository YANG cut at random points "
             "are parsed by the real code under a watchdog with a goroutine dump (error names the input and a position inside it, or root set) - through parse.Parse and through the other exported ways into the parser (ParseWithInterners, New(..).Parse, NewWithInterners(..).Parse, a second Parse on the same Tree) -, as are texts whose early error is followed by runs of 1..400 tokens that cover no bytes (empty strings, concatenations, empty statements, braces: the goroutine dump after the return decides), characters whose low 7/8/16 bits alias structural ASCII characters in every lexer state and complete modules that fail only after the last token (scoping rules between statements); "
             "the hook events of every call are validated against the mechanism by YangLexerTrace.",
             note="needs the lexer hooks; token boundaries irrelevant to C07 are accepted either way in the trace; a slice of the calls runs under the Go race detector (ypt built with -race)", design="4 C07", technique=YP),
 "C08": dict(text="YangString.tla defines the RFC 6020 6.1.3 value of a string argument (quote column with tab = 8, indentation and trailing-blank "
             "stripping, the four escapes, concatenation); TLC enumerates layouts (quote column, indents of spaces and tabs around it, trailing blanks, "
             "LF/CRLF, empty and blank lines, escapes, comments inside quotes, trivia around +, Unicode-only blanks and stray CRs at line edges, unquoted words with every ASCII punctuation character and characters beyond ASCII inside and at their end, statements of some 45 kinds - with typed arguments (pattern, range, length, key, path, must, when, dates, identifiers, numbers ...) and with free text - carrying the same argument texts in every quoting form and cut into two pieces, through every exported way into the parser) with their values; the real parser's "
             "Argument().String() is compared code point by code point; long random strings are decoded by the spec from the same text.",
             note="judged only where substituting escapes before or after stripping gives the same value (RFC 6020 is silent); quote column in characters (tab 8, else 1)", design="4 C08", technique=YP),
 "C10": dict(text="YangTree.tla renders statement trees with any trivia at every token boundary and any quoting form of every argument, and reads texts "
             "back (intended lexer + RFC 6020 statement grammar); TLC checks the reader inverts the rendering on every generated layout; the real "
             "parser's tree, walked through the public API, must equal the source tree (keywords, decoded arguments, order, nesting, line:column) and "
             "all layouts of one tree must agree up to positions, through parse.Parse and through the other exported ways into the parser (New(..).Parse, NewWithInterners(..).Parse, ParseWithInterners, a second Parse on a Tree that has parsed another text: positions are those of the text of this call); blocks of 1..80 (thorough ..300) statements followed by further blocks and texts starting with a byte order mark keep every statement at its place in the text handed to Parse; the same raw multi-line string at several quote columns must decode per occurrence; repository YANG and TLC's re-laid-out forms are judged by the spec reading the same text.",
             note="open finding: a comment directly after an unquoted word is swallowed into the word; implicit case wrappers count as their member", design="4 C10", technique=YP),
}
