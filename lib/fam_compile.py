"""Compile families: C11 (schema compilation is total and deterministic; spec CompilePipeline)
and C15 (embedded XPath is checked at compile time in the right prefix scope; spec PrefixScope).

C11 pipeline (one spec, three uses of TLC):
  1. CompilePipelineMC  exhaustive: every reference-graph instance of the families x every order of
                        every map loop x every topological order; TLC checks termination and that
                        every terminal outcome equals the meaning written from RFC 6020 (confluence,
                        "cycle or dangling => error"); self test: with SortMode "any" TLC must find
                        the confluence violation.
  2. CompilePipelineGen instances + meaning (verdict, set of data nodes); the driver renders every
                        instance to YANG modules; `cc run` compiles each K times in child processes
                        (stack cap, watchdog), parse trees supplied in permuted orders.
  3. CompilePipelineTrace validates, per compilation, the recorded phase/key events of the verif
                        hooks (legal order of every loop, one consistent topological order for
                        expand / deviate / build), the verdict against the meaning and the equality
                        of all canonical dumps of one instance.
C15: PrefixScopeMC (clone mechanism = textual scope), PrefixScopeGen (placements x expressions with the
verdict, the statement named by the error and the namespace of every name test), replay through the
real compiler, observations validated by PrefixScopeTrace.
"""
import json, os, re, time, concurrent.futures as cf
from vlib import Infra, log, read_ndjson, write_ndjson, VERIF, REPO


# ------------------------------------------------------------------ rendering (C11)
def pfx(m):
    return "p" + m


def imp_pfx(inst, unit, t):
    """Prefix under which `unit` imports module t (alias = spelling chosen by the instance)."""
    for u, x, p in inst.get("alias", []):
        if u == unit and x == t:
            return p
    return pfx(t)


def ref_text(inst, home, r, src):
    """A reference written in module `home`.  A reference to the same module is spelled as the instance says:
    unprefixed, with the module's own prefix, or mixed (per link: by the name of the referring definition,
    for data nodes by the kind)."""
    if r["m"] != home:
        return imp_pfx(inst, home, r["m"]) + ":" + r["n"]
    sp = inst.get("spell", "u")
    own = sp == "o" or (sp == "mix" and src in ("a", "c", "typedef", "feature"))
    return (pfx(home) + ":" if own else "") + r["n"]


def render_c11(inst):
    """Instance (CompilePipeline.tla) -> list of {name, file, text}; one module / submodule per text.
    A scope "m1" is the top level of module m1, "m1.x1" the container x1 of m1."""
    mods = []
    subs = {s: b for s, b in inst["subs"]}

    def def_lines(h, m, ind):
        L = []
        for d in sorted((d for d in inst["defs"] if d["home"] == h), key=lambda d: (d["k"], d["n"])):
            refs = sorted(ref_text(inst, m, r, d["n"]) for r in d["refs"])
            if d["k"] == "feature":
                L.append(ind + ("feature %s {%s }" % (d["n"], "".join(" if-feature %s;" % r for r in refs)) if refs else "feature %s;" % d["n"]))
            elif d["k"] == "identity":
                L.append(ind + ("identity %s {%s }" % (d["n"], "".join(" base %s;" % r for r in refs)) if refs else "identity %s;" % d["n"]))
            elif d["k"] == "typedef":
                t = refs[0] if refs else "string"
                if refs and d["pos"] == "union":
                    L.append(ind + "typedef %s { type union { type string; type %s; } }" % (d["n"], t))
                else:
                    L.append(ind + "typedef %s { type %s; }" % (d["n"], t))
            elif d["k"] == "grouping":
                # the uses statements of the grouping, in the position the instance prescribes
                n, pos = d["n"], d["pos"]
                uses = "".join(" uses %s;" % r for r in refs)
                inner, outer, pre = "", "", ""
                if not refs or pos == "direct":
                    outer = uses
                elif pos == "container":
                    inner = uses
                elif pos == "list":
                    outer = " list q%s { key id; leaf id { type string; }%s }" % (n, uses)
                elif pos == "choice":
                    outer = " choice o%s { case w%s {%s } }" % (n, n, uses)
                elif pos == "augment":
                    pre = ind + "grouping h%s { container h%s { } }\n" % (n, n)
                    outer = " uses h%s { augment h%s {%s } }" % (n, n, uses)
                elif pos == "inner":
                    outer = " grouping i%s {%s } uses i%s;" % (n, uses, n)
                else:
                    raise Infra("unknown position " + pos)
                L.append(pre + ind + 'grouping %s { container k%s { leaf l%s { type string; default "d0"; }%s }%s }'
                         % (n, n, n, inner, outer))
        return L

    def rpos_of(r):
        rp = inst.get("rpos", "container")
        return "container" if "." in r["home"] and rp in ("rpc", "notification") else rp

    def root_lines(h, m, ind):
        L = []
        for r in sorted((r for r in inst["roots"] if r["home"] == h), key=lambda r: (r["k"], r["n"], r["m"])):
            rt = ref_text(inst, m, r, r["k"])
            rp, n = rpos_of(r), r["n"]
            if r["k"] == "grouping":
                if rp == "list":
                    L.append(ind + "list rq { key id; leaf id { type string; } uses %s; }" % rt)
                elif rp == "choice":
                    L.append(ind + "choice ro { case rw { uses %s; } }" % rt)
                elif rp in ("rpc", "notification"):
                    pass                  # written at the top level of the module (top_root_lines)
                else:
                    L.append(ind + "uses %s;" % rt)
            elif r["k"] == "typedef":
                if rp == "leaf-list":
                    L.append(ind + "leaf-list rt%s { type %s; }" % (n, rt))
                elif rp == "union":
                    L.append(ind + "leaf rt%s { type union { type string; type %s; } }" % (n, rt))
                else:
                    L.append(ind + "leaf rt%s { type %s; }" % (n, rt))
            elif r["k"] == "subtype":
                L.append(ind + "leaf ru%s { type t%s; }" % (n, n))
            elif r["k"] == "identity":
                if rp == "union":
                    L.append(ind + "leaf ri%s { type union { type string; type identityref { base %s; } } }" % (n, rt))
                elif rp == "typedef":
                    L.append(ind + "typedef ti%s { type identityref { base %s; } }" % (n, rt))
                    L.append(ind + "leaf ri%s { type ti%s; }" % (n, n))
                else:
                    L.append(ind + "leaf ri%s { type identityref { base %s; } }" % (n, rt))
            elif r["k"] == "feature":
                if rp == "container":
                    L.append(ind + "container rf%s { if-feature %s; }" % (n, rt))
                elif rp == "list":
                    L.append(ind + "list rf%s { if-feature %s; key id; leaf id { type string; } }" % (n, rt))
                elif rp == "leaf-list":
                    L.append(ind + "leaf-list rf%s { if-feature %s; type string; }" % (n, rt))
                else:
                    L.append(ind + "leaf rf%s { if-feature %s; type string; }" % (n, rt))
        return L

    def top_root_lines(m):
        L = []
        for r in sorted((r for r in inst["roots"] if r["home"] == m and r["k"] == "grouping"), key=lambda r: (r["n"], r["m"])):
            rt = ref_text(inst, m, r, r["k"])
            if rpos_of(r) == "rpc":
                L.append(" rpc rr { input { uses %s; } }" % rt)
            elif rpos_of(r) == "notification":
                L.append(" notification rn { uses %s; }" % rt)
        return L

    def aug_lines(u):
        """augments written in unit u (a module or a submodule); its own module's container is named unprefixed
        or by the own prefix, as the instance spells local references"""
        L = []
        for a in sorted(inst["augs"], key=lambda a: (a["m"], a["t"], a["n"])):
            if a["m"] == u:
                if a["t"] == subs.get(u, u):
                    p = pfx(a["t"]) + ":" if inst.get("spell", "u") != "u" else ""
                else:
                    p = imp_pfx(inst, u, a["t"]) + ":"
                L.append(' augment "/%st%s/%sk%s" { leaf x%s { type string; } }' % (p, a["t"], p, a["n"], u))
        return L

    def scope_lines(h, m):
        """The scope "m.x": its definitions and using data nodes inside the statement that holds them, reached through the
        statements of inst["spath"] (outermost first; CompilePipeline.tla, I.spath).  Returns (lines, lines for the top level)."""
        x = h.split(".", 1)[1]
        sp = inst.get("spath") or ["container"]
        own = (pfx(m) + ":") if inst.get("spell", "u") != "u" else ""
        lines = ["leaf l0 { type string; }"] + def_lines(h, m, "") + root_lines(h, m, "")
        extra = []
        for i in reversed(range(len(sp))):
            w = sp[i]
            nm = x if i == len(sp) - 1 else "v%d%s" % (i + 1, x)
            tag = "%d%s" % (i + 1, x)
            if w == "container":
                lines = ["container %s {" % nm] + lines + ["}"]
            elif w == "list":
                lines = ["list %s { key id; leaf id { type string; }" % nm] + lines + ["}"]
            elif w == "choice":
                lines = ["choice o%s { case w%s {" % (tag, tag)] + lines + ["} }"]
            elif w == "short":
                lines = ["choice o%s {" % tag] + lines + ["}"]
            elif w in ("input", "output"):
                lines = ["rpc %s { %s {" % (nm, w)] + lines + ["} }"]
            elif w == "notification":
                lines = ["notification %s {" % nm] + lines + ["}"]
            elif w == "grouping":
                lines = ["grouping %s {" % nm] + lines + ["}", "uses %s;" % nm]
            elif w == "augment":
                lines = ["container %s { }" % nm, 'augment "/%s%s" {' % (own, nm)] + lines + ["}"]
            elif w == "uaugment":
                extra.append("grouping h%s { container %s { } }" % (tag, nm))
                lines = ["uses h%s { augment %s {" % (tag, nm)] + lines + ["} }"]
            else:
                raise Infra("unknown scope path element " + w)
        return [" " + l for l in lines], [" " + l for l in extra]

    ILL_DESC = {"container": "ec", "leaf": "ec/el", "leafnd": "ec/em", "leaf-list": "ell", "list": "eq", "choice": "eo", "case": "eo/ew",
                "none": "ez", "nonedeep": "ec/ez"}
    ILL_UNIQ = {"leaf": "ev", "nested": "en/y", "container": "en", "none": "ez"}

    def ill_id(x, unit):
        """The schema node id of the statement x written in module `unit`: of the KIND x.arg (descendant: no leading slash,
        relative to the uses / the list - or, where an absolute one is required, the same steps from the root without the slash)."""
        p = imp_pfx(inst, unit, "m1") + ":" if unit != "m1" else (pfx("m1") + ":" if inst.get("spell", "u") != "u" else "")
        if x["site"] == "unique":
            steps, root = ILL_UNIQ[x["tgt"]].split("/"), ["eu"]
        else:
            steps, root = ILL_DESC[x["tgt"]].split("/"), (["eh", "input"] if x["at"] == "rpc" else ["eh"])
        need_abs = x["site"] in ("augment", "deviation")
        if x["arg"] == "abs":
            return "/" + "/".join(p + t for t in root + steps)
        return "/".join(p + t for t in ((root + steps) if need_abs else steps))

    def ill_lines(m):
        """(host and statement lines of module m, CompilePipeline.tla "ill-formed statements")"""
        ill = inst.get("ill") or []
        if not ill:
            return []
        L = []
        at = ill[0]["at"]
        sub = []            # substatements of the uses of the host grouping
        uniq = ""
        for x in ill:
            if x["m"] != m:
                continue
            a = ill_id(x, m)
            if x["site"] == "uses-augment":
                sub.append('augment "%s" { leaf ea { type string; } }' % a)
            elif x["site"] == "refine":
                val = {"default": "default ew;" if x["tgt"] == "choice" else 'default "dr";', "mandatory": "mandatory true;", "presence": 'presence "x";',
                       "description": 'description "x";', "min-elements": "min-elements 1;"}[x["prop"]]
                sub.append('refine "%s" { %s }' % (a, val))
            elif x["site"] == "unique":
                uniq = ' unique "%s";' % a
        if m == "m1":
            L.append(' grouping eg { container ec { leaf el { type string; default "d0"; } leaf em { type string; } } leaf-list ell { type string; }'
                     ' list eq { key id; leaf id { type string; } leaf ev { type string; } }'
                     ' choice eo { case ew { leaf ex { type string; } } case ew2 { leaf ex2 { type string; } } } }')
            u = "uses eg { %s }" % " ".join(sub) if sub else "uses eg;"
            if at == "data":
                L.append(" container eh { %s }" % u)
            elif at == "grouping":
                L.append(" grouping eg2 { %s }" % u)
                L.append(" container eh { uses eg2; }")
            elif at == "case":
                L.append(" container eh { choice ec0 { case ec1 { %s } } }" % u)
            elif at == "rpc":
                L.append(" rpc eh { input { %s } }" % u)
            else:
                raise Infra("unknown place " + at)
            L.append(" list eu { key id; leaf id { type string; } leaf ev { type string; } container en { leaf y { type string; } }%s }" % uniq)
        for x in ill:
            if x["m"] != m:
                continue
            if x["site"] == "augment":
                L.append(' augment "%s" { leaf eb { type string; } }' % ill_id(x, m))
            elif x["site"] == "deviation":
                how = {"not-supported": "deviate not-supported;", "replace": 'deviate replace { default "dv"; }', "add": 'deviate add { default "dv"; }',
                       "delete": 'deviate delete { default "d0"; }'}[x["prop"]]
                L.append(' deviation "%s" { %s }' % (ill_id(x, m), how))
        return L

    for m in sorted(inst["mods"]):
        L = ["module %s {" % m, ' namespace "urn:%s";' % m, " prefix %s;" % pfx(m)]
        for a, t in sorted(inst["imp"]):
            if a == m:
                L.append(" import %s { prefix %s; }" % (t, imp_pfx(inst, m, t)))
        for u, s in sorted(inst["inc"]):
            if u == m:
                L.append(" include %s;" % s)
        L += def_lines(m, m, " ")
        L.append(" container t%s {" % m)
        L.append("  leaf l0 { type string; }")
        L += root_lines(m, m, "  ")
        L.append(" }")
        L += top_root_lines(m)
        scopes = sorted(set(x["home"] for x in inst["defs"] + inst["roots"] if x["home"].startswith(m + ".")))
        for h in scopes:
            sl, extra = scope_lines(h, m)
            L += extra + sl
        L += ill_lines(m)
        L += aug_lines(m)
        for d in sorted(inst["devs"], key=lambda d: (d["m"], d["t"], d["n"], d["how"])):
            if d["m"] == m:
                p = imp_pfx(inst, m, d["t"])
                base = "/%s:t%s/%s:k%s" % (p, d["t"], p, d["n"])
                if d["how"] == "nsx":
                    L.append(' deviation "%s/%s:x%s" { deviate not-supported; }' % (base, imp_pfx(inst, m, d["by"]), d["by"]))
                elif d["how"] == "ns":
                    L.append(' deviation "%s/%s:l%s" { deviate not-supported; }' % (base, p, d["n"]))
                else:
                    L.append(' deviation "%s/%s:l%s" { deviate replace { default "d%s"; } }' % (base, p, d["n"], m))
        L.append("}")
        mods.append(dict(name=m, file=m + ".yang", text="\n".join(L) + "\n"))
    for s in sorted(subs):
        b = subs[s]
        L = ["submodule %s {" % s, " belongs-to %s { prefix %s; }" % (b, pfx(b))]
        for a, t in sorted(inst["imp"]):
            if a == s:
                L.append(" import %s { prefix %s; }" % (t, imp_pfx(inst, s, t)))
        for u, t in sorted(inst["inc"]):
            if u == s:
                L.append(" include %s;" % t)
        L.append(" typedef t%s { type string; }" % s)
        L.append(" container c%s { leaf l { type string; } }" % s)
        L += aug_lines(s)
        L.append("}")
        mods.append(dict(name=s, file=s + ".yang", text="\n".join(L) + "\n"))
    return mods


def project(dump):
    """Canonical dump of the real ModelSet -> set of (path, 'c'|'l', default, identities)."""
    out = set()

    def walk(n, path):
        p = path + "/" + n["ns"].replace("urn:", "") + ":" + n["name"]     # qualified by namespace (urn:<module>)
        if n["kind"] == "container":
            out.add((p, "c", "", ()))
        elif n["kind"] == "leaf":
            d = n["default"][0] if n.get("default") and n["default"][1] else ""
            ids = ()
            t = n.get("type") or {}
            idl = list(t.get("identities", []))
            for mem in t.get("members", []):
                idl += mem.get("identities", [])
            if idl:
                ids = tuple(sorted(x.split("|")[1].replace("urn:", "") + ":" + x.split("|")[3] for x in idl))
            if not d and t.get("default", ["", False])[1]:
                d = t["default"][0]
            out.add((p, "l", d, ids))
        else:
            out.add((p, n["kind"], "", ()))
        for c in n["children"]:
            walk(c, p)

    for m in dump.get("modules", []):
        for c in m["children"]:
            walk(c, "")
    return out


def spec_nodes(schema):
    return set((x["p"], x["t"], x["d"], tuple(sorted(x["ids"]))) for x in schema)


def same_schema(spec, real):
    if set((p, t, i) for p, t, d, i in spec) != set((p, t, i) for p, t, d, i in real):
        return False
    rd = {p: d for p, t, d, i in real}
    return all(d == "?" or rd[p] == d for p, t, d, i in spec)


def set_lit(xs):
    return "{" + ", ".join('"%s"' % x for x in xs) + "}"


# ------------------------------------------------------------------ trace validation (shared)
def split_runs(ctx, lines, nchunks, stem):
    starts = [i for i, l in enumerate(lines) if l.startswith('{"ev":"init"')]
    if not starts:
        return []
    per = max(1, (len(starts) + nchunks - 1) // nchunks)
    files = []
    for c in range(0, len(starts), per):
        a = starts[c]
        b = starts[c + per] if c + per < len(starts) else len(lines)
        p = ctx.path("chunks", f"{stem}_{len(files)}.ndjson")
        open(p, "w").write("\n".join(lines[a:b]) + "\n")
        files.append((p, len(starts[c:c + per]), b - a))
    return files


def validate(ctx, module, cfg, lines, nproc, stem, delay=0.0):
    """Run a *Trace spec over the event lines (chunked at run boundaries, in parallel)."""
    return validate_chunks(ctx, module, cfg, split_runs(ctx, lines, nproc, stem), nproc, delay)


def validate_chunks(ctx, module, cfg, chunks, nproc, delay=0.0):
    """chunks: [(file of event lines, runs in it, events in it)], each validated by its own TLC."""
    fails, runs, events = [], 0, 0

    def one(ich):
        i, (p, nruns, nev) = ich
        time.sleep(0.15 * i + delay)        # ctx.tlc numbers its scratch directories without a lock
        r = ctx.tlc(module, cfg, data={"trace.ndjson": p}, workers=1, timeout=1500, heap="3g")
        out = r["out"]
        m = re.search(r'<<"TRACE-RESULT", (\d+), (\d+), (\d+)>>', out)
        if not m:
            raise Infra(f"{module}: trace validation did not consume the trace:\n" + out[-3000:])
        if int(m.group(1)) != nev or int(m.group(2)) != nruns:
            raise Infra(f"{module}: consumed {m.group(1)} events/{m.group(2)} runs, expected {nev}/{nruns}")
        fs = []
        for l in out.splitlines():
            if l.startswith('"FAILJSON '):
                fs.append(json.loads(json.loads(l)[len("FAILJSON "):]))
        if len(fs) != int(m.group(3)):
            raise Infra(f"{module}: {m.group(3)} failures counted, {len(fs)} reported")
        return fs, nruns, nev

    with cf.ThreadPoolExecutor(max_workers=nproc) as ex:
        for fs, nr, ne in ex.map(one, list(enumerate(chunks))):
            fails += fs
            runs += nr
            events += ne
    return fails, runs, events


def self_test(ctx, module, cfg, lines, corrupt, expect, stem, delay=0.0):
    """The binding binds: an observation of a run that the validator ACCEPTS is corrupted and must then be rejected.
    Independent of the code under test: the first runs are validated as they are, only runs of instances without any
    failure are kept, one observation of them is corrupted and validated again.  If the code under test is so broken
    that no accepted run is left to corrupt, the self test is skipped (the real failures are reported by the check)."""
    starts = [i for i, l in enumerate(lines) if l.startswith('{"ev":"init"')]
    sub = lines[:starts[30]] if len(starts) > 30 else list(lines)
    base, _, _ = validate(ctx, module, cfg, sub, 1, stem + "a", delay)
    rejected = set(f["id"] for f in base)
    good = [l for l in sub if json.loads(l)["id"] not in rejected]
    bad = corrupt(good) if good else None
    if bad is None:
        ctx.notes.append(f"{module} self test ({expect}) skipped: no accepted run to corrupt among the first {len(starts[:30])}")
        return
    fails, _, _ = validate(ctx, module, cfg, bad, 1, stem + "b", delay + 0.2)
    if not any(f["what"].startswith(expect) for f in fails):
        raise Infra(f"{module} self test failed: a corrupted observation ({expect}) of an accepted run was accepted")


def corrupt_verdict(lines):
    out, done, judged = [], False, True
    for l in lines:
        e = json.loads(l)
        if e["ev"] == "init":
            judged = e.get("want", "") != "any"        # an instance whose validity the spec leaves open has no verdict to flip
        if not done and judged and e["ev"] == "end" and e["verdict"] in ("ok", "error"):
            e["verdict"] = "error" if e["verdict"] == "ok" else "ok"
            done = True
            l = json.dumps(e, separators=(",", ":"))
        out.append(l)
    return out if done else None


def corrupt_order(lines):
    """Repeat the first expand event of a run (the same key visited twice)."""
    out, done = [], False
    for l in lines:
        out.append(l)
        if not done and '"ev":"phase"' in l and '"phase":"expand"' in l:
            out.append(l)
            done = True
    return out if done else None


def corrupt_ns(lines):
    out, done = [], False
    for l in lines:
        e = json.loads(l)
        if not done and e["ev"] == "xp" and e["names"]:
            e["names"][0]["ns"] = "urn:elsewhere"
            done = True
            l = json.dumps(e, separators=(",", ":"))
        out.append(l)
    return out if done else None


def need_hooks():
    if not os.path.exists(os.path.join(REPO, "compile", "verif_hooks.go")):
        raise Infra("the compile phase hooks are missing in %s: apply pending/compile/01-verif-hooks-compile-phases.patch" % REPO)


# ------------------------------------------------------------------ C11
def run_c11(ctx):
    need_hooks()
    ctx.build(["cc"])
    quick = ctx.quick()
    size = "s" if quick else "l"
    # 1. exhaustive model + self test of the model, 2. generator (three TLC runs side by side)
    nsample = 30 if quick else 0

    def mc():
        # quick: three of the six grouping positions in the exhaustive model (the generator and the real compiler see all)
        posn = '{"direct", "container", "augment", "union"}' if quick else '{"direct", "container", "list", "choice", "augment", "inner", "union"}'
        return ctx.tlc("CompilePipelineMC", "CompilePipelineMC.cfg", workers=8, timeout=1500, heap="8g", consts={"Size": '"%s"' % size, "Positions": posn})

    def mc_any():
        time.sleep(0.3)
        return ctx.tlc("CompilePipelineMC", "CompilePipelineMC.cfg", workers=3, timeout=600, heap="4g", expect_ok=False,
                       consts={"Size": '"s"', "SortMode": '"any"', "Only": '{"augdev"}'})

    def gen():
        time.sleep(0.6)
        return ctx.tlc("CompilePipelineGen", "CompilePipelineGen.cfg", workers=5, timeout=1500, heap="8g",
                       consts={"Size": '"%s"' % size, "NSample": nsample, "NCombo": 150 if quick else 3000, "NScoped": 120 if quick else 3000}, extra=["-seed", str(ctx.seed)])

    with cf.ThreadPoolExecutor(max_workers=3) as ex:
        futs = [ex.submit(f) for f in (mc, mc_any, gen)]
        _, st, g = [f.result() for f in futs]
    if "Invariant Confluent is violated" not in st["out"]:
        raise Infra("self test failed: with an arbitrary expansion order TLC must find the confluence violation")
    vecs = []
    for f in sorted(os.listdir(g["dir"])):
        if re.match(r"cvec_.*\.ndjson$", f):
            vecs += read_ndjson(os.path.join(g["dir"], f))
    if not vecs:
        raise Infra("generator produced no instances")
    cases = []
    for i, v in enumerate(vecs):
        cases.append(dict(id=i, mods=render_c11(v["inst"]), xp=False, off=sorted(v["inst"]["off"])))
    cin, cout = ctx.path("c11_cases.ndjson"), ctx.path("c11_res.ndjson")
    write_ndjson(cin, cases)
    K = 6 if quick else 16
    ctx.run_bin("cc", ["run", "-in", cin, "-out", cout, "-k", str(K), "-workers", "14"], timeout=2400)
    # The results are streamed (one line per case, in case order): nothing of a result is kept but counters and the outcome
    # of the schema comparison; its trace lines go straight into the chunk files of the validator (cut at instance boundaries).
    # (All results at once - K event lists and a dump per case - took 10 GB in the thorough tier.)
    # C11 quantifies over sets of PARSEABLE modules: an instance the parser refuses is outside the property.
    # The parser keeps the groupings / typedefs of all sibling statements in one symbol table, so the same name
    # in two sibling scopes (legal YANG) and a scope shadowing the top level (illegal) both end as parse errors.
    # Likewise the wrong kind of schema node id (absolute for descendant and vice versa): this parser refuses it for refine,
    # unique and deviation.  Only instances the spec marks (mayNotParse: scoped definitions, wrong kind of id) may end like
    # this; anything else is a fault of the renderer.
    nchunks = 10
    per = max(1, (len(cases) + nchunks - 1) // nchunks)
    os.makedirs(ctx.path("chunks"), exist_ok=True)
    chunk_info = []                  # [path, runs, events, file]
    head, head_runs = [], 0          # the first runs, for the binding self tests
    unparseable = nres = ncomp = raw_differs = nschema = 0
    orders_seen = set()
    schema_diff = []                 # (case id, compiled schema) where the compiled schema is not the spec's
    with open(cout) as f:
        for i, line in enumerate(f):
            if not line.strip():
                continue
            if i >= len(cases):
                raise Infra("cc run returned more results than cases")
            o = json.loads(line)
            v, c = vecs[i], cases[i]
            if o["id"] != c["id"]:
                raise Infra("cc run: result %d is for case %s" % (i, o["id"]))
            nres += 1
            ncomp += len(o["runs"])
            if any(r["verdict"] == "parse-error" for r in o["runs"]):
                if not v["mayNotParse"]:
                    raise Infra("rendered modules do not parse: " + o["runs"][0]["err"][:300] + "\n" + c["mods"][0]["text"])
                if len(set(r["verdict"] for r in o["runs"])) == 1:
                    unparseable += 1
                    continue
            # 3. trace: one run = init, phase events, end
            if len(set(r["raw"] for r in o["runs"] if r["verdict"] == "ok")) > 1:
                raw_differs += 1
            k = min(i // per, nchunks - 1)
            while len(chunk_info) <= k:
                pth = ctx.path("chunks", "c11_%d.ndjson" % len(chunk_info))
                chunk_info.append([pth, 0, 0, open(pth, "w")])
            ci = chunk_info[k]
            inst_json = json.dumps(v["inst"], separators=(",", ":"))
            for j, r in enumerate(o["runs"]):
                ls = ['{"ev":"init","id":%d,"run":%d,"inst":%s}' % (c["id"], j, inst_json)]
                for e in r["events"]:
                    ls.append(json.dumps(dict(ev="phase", id=c["id"], phase=e["phase"], key=e["key"]), separators=(",", ":")))
                ls.append(json.dumps(dict(ev="end", id=c["id"], verdict=r["verdict"], dump=r["dump"] or "-"), separators=(",", ":")))
                ci[3].write("\n".join(ls) + "\n")
                ci[1] += 1
                ci[2] += len(ls)
                if head_runs < 40:
                    head += ls
                    head_runs += 1
                orders_seen.add(hash((c["id"], tuple((e["phase"], e["key"]) for e in r["events"]))))
            # replay: the compiled schema is the spec's schema
            if v["verdict"] == "ok" and v["judgeSchema"] and v["judgeVerdict"] and o["runs"] and o["runs"][0]["verdict"] == "ok":
                nschema += 1
                real = project(o["first"])
                if not same_schema(spec_nodes(v["schema"]), real):
                    schema_diff.append((i, sorted(real)))
    if nres != len(cases):
        raise Infra("cc run returned %d results for %d cases" % (nres, len(cases)))
    for ci in chunk_info:
        ci[3].close()
    chunks = [(ci[0], ci[1], ci[2]) for ci in chunk_info if ci[1]]
    with cf.ThreadPoolExecutor(max_workers=3) as ex:
        fv = ex.submit(validate_chunks, ctx, "CompilePipelineTrace", "CompilePipelineTrace.cfg", chunks, 10)
        f1 = ex.submit(self_test, ctx, "CompilePipelineTrace", "CompilePipelineTrace.cfg", head, corrupt_verdict, "verdict", "c11st1", 2.0)
        f2 = ex.submit(self_test, ctx, "CompilePipelineTrace", "CompilePipelineTrace.cfg", head, corrupt_order, "order:", "c11st2", 2.3)
        fails, runs, events = fv.result()
        f1.result()
        f2.result()
    ctx.traces += runs
    # (the results of the failing cases are read again for the replay records)
    res = {}
    want_ids = set(f["id"] for f in fails)
    if want_ids:
        with open(cout) as f:
            for line in f:
                m = re.match(r'\{"id":(\d+),', line)
                if m and int(m.group(1)) in want_ids:
                    res[int(m.group(1))] = json.loads(line)

    def sig_of(v, what, got):
        I = v["inst"]
        sig = dict(site="compile", fam=I["fam"], shape=re.sub(r"-no(import|module)$", "", I["shape"]) if I["fam"] in KINDS else "",
                   what=what, want=v["verdict"], got=got, defects="|".join(sorted(v["defects"])), spell=I.get("spell", "u"),
                   scoped=any("." in x["home"] for x in I["defs"] + I["roots"]))
        if sig["scoped"] and I.get("spath", ["container"]) != ["container"]:
            sig["spath"] = ">".join(I["spath"])
        for x in I.get("ill", []):
            sig["ill"] = "%s:%s-id:%s%s" % (x["site"], x["arg"], x["tgt"], ":" + x["prop"] if x["site"] in ("refine", "deviation") else "")
        return sig

    def where(I):
        """(for the report line) how the scope of a scoped instance is reached / what the one odd statement of an ill-formed one is"""
        t = ""
        if any("." in x["home"] for x in I["defs"] + I["roots"]) and I.get("spath", ["container"]) != ["container"]:
            t += ", definitions scoped in " + " > ".join(I["spath"])
        for x in I.get("ill", []):
            t += ", %s with %s schema node id naming %s" % (x["site"], "an absolute" if x["arg"] == "abs" else "a descendant", x["tgt"])
        return t

    seen = set()
    for f in fails:
        v, c, o = vecs[f["id"]], cases[f["id"]], res[f["id"]]
        what = f["what"]
        key = (f["id"], what)
        if key in seen:
            continue
        seen.add(key)
        bad = next((r for r in o["runs"] if r["verdict"] in ("crash", "timeout")), None)
        got = f.get("got", "")
        sig = sig_of(v, what, got)
        if what in ("crash", "timeout") and bad:
            sig["crash"] = re.sub(r"\s+", " ", bad["err"])[:60]
        ctx.disagree(sig, f"{what} on a {v['inst']['fam']}/{v['inst']['shape']} instance{where(v['inst'])}: spec {v['verdict']}, code {got}",
                     dict(kind="trace", failure=f, modules=c["mods"], off=c["off"], spec=dict(verdict=v["verdict"], schema=v["schema"]),
                          runs=[dict(order=r["order"], verdict=r["verdict"], err=r["err"][:300], dump=r["dump"]) for r in o["runs"][:6]],
                          how="save {id,mods,off} as case.json; <scratch>/bin/cc one case.json (VERIF_KEEP=1 bin/check C11)"))
    for i, real in schema_diff:
        v, c = vecs[i], cases[i]
        ctx.disagree(sig_of(v, "schema", "ok"), f"compiled schema differs from the spec's on a {v['inst']['fam']}/{v['inst']['shape']} instance{where(v['inst'])}",
                     dict(kind="replay", modules=c["mods"], off=c["off"], want=sorted(spec_nodes(v["schema"])), got=real))
    per_fam = {}
    for v in vecs:
        per_fam[v["inst"]["fam"]] = per_fam.get(v["inst"]["fam"], 0) + 1
    samples = [dict(fam=v["inst"]["fam"], shape=v["inst"]["shape"], verdict=v["verdict"], text=c["mods"][0]["text"][:400])
               for v, c in list(zip(vecs, cases))[:: max(1, len(vecs) // 3)][:3]]
    cov = dict(evaluations=ncomp, distinct_nontrivial=len(vecs), instances_per_family=per_fam,
               rule="instances = reference graphs of CompileSets.tla (all of the chunk, or NSample seeded samples per chunk in the quick tier); "
                    "evaluations = compilations in child processes (K orders of supplying the parse trees per instance)",
               samples=samples, compilations_per_instance=K, distinct_event_orders_observed=len(orders_seen),
               trace_events=events, schema_compared=nschema, instances_whose_raw_api_order_differs=raw_differs,
               expect_error=sum(1 for v in vecs if v["verdict"] == "error"), expect_ok=sum(1 for v in vecs if v["verdict"] == "ok"),
               unparseable_unjudged=unparseable, scope_paths_used=len(set(">".join(v["inst"].get("spath", [])) for v in vecs if v["inst"]["shape"].startswith("scoped"))),
               scoped_instances=sum(1 for v in vecs if v["inst"]["shape"].startswith("scoped")),
               illformed_statement_instances=sum(1 for v in vecs if v["inst"].get("ill")),
               wrong_kind_of_schema_node_id=sum(1 for v in vecs if any(x["arg"] != ("desc" if x["site"] in ("uses-augment", "refine", "unique") else "abs") for x in v["inst"].get("ill", []))),
               twin_instances=sum(1 for v in vecs if v["inst"]["shape"].startswith("twin")),
               verdict_unjudged=sum(1 for v in vecs if not v["judgeVerdict"]), schema_unjudged=sum(1 for v in vecs if v["verdict"] == "ok" and not v["judgeSchema"]),
               exhaustive=not quick,
               explanation="TLC explored every order of every loop of the pipeline for every instance (states/transitions) and checked termination and "
                           "confluence against the RFC meaning; every (sampled) instance was rendered to YANG and compiled K times in child processes; "
                           "each compilation's hook events, verdict and dump hash were validated by CompilePipelineTrace")
    return ctx.finish(cov, [
        "all features are enabled except those the instance switches off (FeaturesChecker of the harness)",
        "schemas are compared as canonical dumps: children, features, deviations and identities are unordered collections (schema.Node.Children() itself has no stable order)",
        "two modules replacing the default of one leaf: the spec does not say which wins, only that every run gives the same schema",
        "error texts are not compared (the code reports the first problem it meets)",
    ])



# ------------------------------------------------------------------ rendering (C15)
CTL_MARK = re.compile(r"\{U\+([0-9A-F]{4})\}")


def real_chars(text):
    """The spec writes a control character as the mark {U+00hh} (interchange is printable ASCII); the YANG text gets the character."""
    return CTL_MARK.sub(lambda m: chr(int(m.group(1), 16)), text)


def render_c15(vec):
    """PrefixScope instance -> ([{name,file,text}], {stmt index: [(file, line), ...] lines that name it})."""
    maps = vec["maps"]
    vec = dict(vec, stmts=[dict(s, text=real_chars(s["text"])) for s in vec["stmts"]])
    mods = sorted(maps)
    own = {m: maps[m]["own"] for m in mods}
    imps = {m: [(p, t) for p, t in maps[m]["imports"]] for m in mods}

    belongs = {m: maps[m].get("belongs", "") for m in mods}      # submodule -> its module

    def mod_of(u):
        return belongs[u] or u

    def pf(u, t):              # prefix unit u uses for the module of unit t ("" = same module)
        if mod_of(u) == mod_of(t):
            return ""
        return next(p for p, x in imps[u] if x == mod_of(t)) + ":"

    # per module: lists of (text, tag) lines; tag = (stmt, role) or None
    typedefs = {m: [] for m in mods}
    groupings = {m: [] for m in mods}
    body = {m: [] for m in mods}
    augments = {m: [] for m in mods}

    # further statements carried by the node of statement j (several musts / a when on ONE node)
    extras = {}
    for k, e in enumerate(vec["stmts"], 1):
        if e.get("on", 0):
            extras.setdefault(e["on"], []).append((k, e))

    def leaf(i, s, ind, plain=False):
        x, t = "x%d" % i, '"%s"' % s["text"]
        if plain:
            return [(ind + "leaf %s { type string; }" % x, None)]
        same = [(k, e) for k, e in extras.get(i, []) if e["place"] == "same"]
        also = [(k, "parent") for k, _ in same]
        whens = [(ind + ' when "%s";' % e["text"], (k, "expr")) for k, e in same if e["kind"] == "when"]
        musts = [(ind + ' must "%s";' % e["text"], (k, "expr")) for k, e in same if e["kind"] == "must"]
        if s["kind"] == "must":
            return [(ind + "leaf %s {" % x, [(i, "parent")] + also)] + whens + [(ind + " type string;", None), (ind + " must %s;" % t, (i, "expr"))] \
                   + musts + [(ind + "}", None)]
        if s["kind"] == "when":
            return [(ind + "leaf %s {" % x, [(i, "parent")] + also), (ind + " when %s;" % t, (i, "expr")), (ind + " type string;", None)] + musts + [(ind + "}", None)]
        return [(ind + "leaf %s {" % x, [(i, "grand")] + also)] + whens + [(ind + " type leafref {", (i, "parent")), (ind + "  path %s;" % t, (i, "expr")),
                (ind + " }", None)] + musts + [(ind + "}", None)]

    def uses_of(i, u, t, name):
        """The uses statement copying the node of statement i, with the musts that refine adds to it."""
        ref = [(k, e) for k, e in extras.get(i, []) if e["place"] == "refine-on"]
        whn = [(k, e) for k, e in extras.get(i, []) if e["place"] == "uses-when"]
        if not ref and not whn:
            return [("  uses %s%s;" % (pf(u, t), name), None)]
        L = [("  uses %s%s {" % (pf(u, t), name), [(k, "parent") for k, _ in whn])] + [('   when "%s";' % e["text"], (k, "expr")) for k, e in whn]
        if ref:
            L += [("   refine x%d {" % i, [(k, "parent") for k, _ in ref])] + [('    must "%s";' % e["text"], (k, "expr")) for k, e in ref] + [("   }", None)]
        return L + [("  }", None)]

    for i, s in enumerate(vec["stmts"], 1):
        T, U, V, place = s["T"], s["U"], s["V"], s["place"]
        if s.get("on", 0):
            continue                      # rendered with the node that carries it
        if place == "direct":
            body[T] += leaf(i, s, "  ")
            for k, e in extras.get(i, []):
                if e["place"] == "deviate-on":
                    D = e["T"]
                    augments[D] += [(' deviation "/%st%s/%sx%d" {' % (pf(D, T), T, pf(D, T), i), None), ("  deviate add {", (k, "parent")),
                                    ('   must "%s";' % e["text"], (k, "expr")), ("  }", None), (" }", None)]
        elif place in ("grp-local", "grp-cross"):
            groupings[T] += [(" grouping g%d {" % i, None)] + leaf(i, s, "  ") + [(" }", None)]
            body[U] += uses_of(i, U, T, "g%d" % i)
        elif place == "grp-unused":
            groupings[T] += [(" grouping g%d {" % i, None)] + leaf(i, s, "  ") + [(" }", None)]
        elif place == "typedef-unused":
            typedefs[T] += [(" typedef td%d {" % i, (i, "grand")), ("  type leafref {", (i, "parent")), ('   path "%s";' % s["text"], (i, "expr")),
                            ("  }", None), (" }", None)]
        elif place == "grp-chain":
            groupings[T] += [(" grouping g%d {" % i, None)] + leaf(i, s, "  ") + [(" }", None)]
            groupings[V] += [(" grouping h%d { uses %sg%d; }" % (i, pf(V, T), i), None)]
            body[U].append(("  uses %sh%d;" % (pf(U, V), i), None))
        elif place == "augment":
            whn = [(k, e) for k, e in extras.get(i, []) if e["place"] == "augment-when"]
            augments[T] += [(' augment "/%st%s" {' % (pf(T, U), U), [(k, "parent") for k, _ in whn])] \
                           + [('  when "%s";' % e["text"], (k, "expr")) for k, e in whn] + leaf(i, s, "  ") + [(" }", None)]
        elif place in ("typedef-local", "typedef-cross"):
            typedefs[T] += [(" typedef td%d {" % i, (i, "grand")), ("  type leafref {", (i, "parent")), ('   path "%s";' % s["text"], (i, "expr")),
                            ("  }", None), (" }", None)]
            body[U].append(("  leaf x%d { type %std%d; }" % (i, pf(U, T), i), None))
        elif place == "when-uses":
            groupings[V] += [(" grouping g%d {" % i, None)] + leaf(i, s, "  ", plain=True) + [(" }", None)]
            body[T] += [("  uses %sg%d {" % (pf(T, V), i), (i, "parent")), ('   when "%s";' % s["text"], (i, "expr")), ("  }", None)]
        elif place == "refine":
            groupings[V] += [(" grouping g%d {" % i, None)] + leaf(i, s, "  ", plain=True) + [(" }", None)]
            body[T] += [("  uses %sg%d {" % (pf(T, V), i), None), ("   refine x%d {" % i, (i, "parent")), ('    must "%s";' % s["text"], (i, "expr")),
                        ("   }", None), ("  }", None)]
        elif place == "deviate-add":
            body[U] += leaf(i, s, "  ", plain=True)
            augments[T] += [(' deviation "/%st%s/%sx%d" {' % (pf(T, U), U, pf(T, U), i), None), ("  deviate add {", (i, "parent")),
                            ('   must "%s";' % s["text"], (i, "expr")), ("  }", None), (" }", None)]
        elif place == "when-augment":
            augments[T] += [(' augment "/%st%s" {' % (pf(T, U), U), (i, "parent")), ('  when "%s";' % s["text"], (i, "expr"))] \
                           + leaf(i, s, "  ", plain=True) + [(" }", None)]
        else:
            raise Infra("unknown place " + place)
    out, lines_of = [], {}
    for m in mods:
        if belongs[m]:
            L = [("submodule %s {" % m, None), (" belongs-to %s { prefix %s; }" % (belongs[m], own[m]), None)]
        else:
            L = [("module %s {" % m, None), (' namespace "urn:%s";' % m, None), (" prefix %s;" % own[m], None)]
        L += [(" import %s { prefix %s; }" % (t, p), None) for p, t in imps[m]]
        L += [(" include %s;" % x, None) for x in mods if belongs[x] == m]
        L += typedefs[m] + groupings[m]
        L += [(" container t%s {" % m, None), ("  leaf l0 { type string; }", None)] + body[m] + [(" }", None)]
        L += augments[m] + [("}", None)]
        for n, (txt, tag) in enumerate(L, 1):
            for tg in (tag if isinstance(tag, list) else [tag] if tag else []):
                lines_of.setdefault(tg[0], []).append((m + ".yang", n))
        out.append(dict(name=m, file=m + ".yang", text="\n".join(t for t, _ in L) + "\n"))
    return out, lines_of


def run_c15(ctx):
    need_hooks()
    ctx.build(["cc"])
    quick = ctx.quick()
    ctx.tlc("PrefixScopeMC", "PrefixScopeMC.cfg", workers=4, timeout=600, heap="4g", consts={"MaxSteps": 3 if quick else 4})
    hz = ctx.tlc("PrefixScopeMC", "PrefixScopeHazard.cfg", workers=4, timeout=600, heap="4g", expect_ok=False)
    if "Invariant NoHazard is violated" not in hz["out"]:
        raise Infra("self test failed: no reachable state has a statement sitting in a module that binds its prefix differently")
    g = ctx.tlc("PrefixScopeGen", "PrefixScopeGen.cfg", workers=12, timeout=1500, heap="10g",
                consts={"NSample": 40 if quick else 0, "NRand": 120 if quick else 1500, "NStack": 150 if quick else 2500, "NMut": 150 if quick else 1500,
                        "NCtl": 2 if quick else 12, "NSp": 0 if quick else 120}, extra=["-seed", str(ctx.seed)])
    vecs = []
    for f in sorted(os.listdir(g["dir"])):
        if re.match(r"pvec_.*\.ndjson$", f):
            vecs += read_ndjson(os.path.join(g["dir"], f))
    if not vecs:
        raise Infra("generator produced no instances")
    # (cases and results are streamed: the rendered modules are not kept - a failing case is rendered again for its replay
    # record - and of a result only verdicts, error texts and compiled expressions are)
    lines_of = []
    cin, cout = ctx.path("c15_cases.ndjson"), ctx.path("c15_res.ndjson")
    with open(cin, "w") as f:
        for i, v in enumerate(vecs):
            mods, lo = render_c15(v)
            f.write(json.dumps(dict(id=i, mods=mods, xp=True, off=[]), separators=(",", ":")) + "\n")
            lines_of.append(lo)
    ctx.run_bin("cc", ["run", "-in", cin, "-out", cout, "-k", "2", "-workers", "14", "-lean"], timeout=2400)
    res = []
    with open(cout) as f:
        for line in f:
            if line.strip():
                o = json.loads(line)
                res.append(dict(runs=[dict(verdict=r["verdict"], err=r["err"][:2000]) for r in o["runs"]], xps=o["xps"]))
    if len(res) != len(vecs):
        raise Infra("cc run returned %d results for %d cases" % (len(res), len(vecs)))
    cases = [dict(id=i) for i in range(len(vecs))]
    lines, nxp = [], 0
    for v, c, o, lo in zip(vecs, cases, res, lines_of):
        inst = dict(cfg=v["cfg"], stmts=[{k: s[k] for k in ("kind", "place", "T", "U", "V", "e", "pf", "on", "hp", "mut", "sp")} for s in v["stmts"]])
        lines.append(json.dumps(dict(ev="init", id=c["id"], want=v["verdict"], inst=inst), separators=(",", ":")))
        verdicts = set(r["verdict"] for r in o["runs"])
        verdict = "crash" if "crash" in verdicts else "timeout" if "timeout" in verdicts else "nondeterministic" if len(verdicts) > 1 else o["runs"][0]["verdict"]
        named, missing = [], []
        if verdict == "ok":
            taken = set()
            for i, s in enumerate(v["stmts"], 1):
                node = "x%d" % (s.get("on", 0) or i)
                nsame = sum(1 for j, q in enumerate(v["stmts"], 1) if q["kind"] == s["kind"] and "x%d" % (q.get("on", 0) or j) == node)
                xs = [(n, x) for n, x in enumerate(o["xps"]) if x["kind"] == s["kind"] and x["path"].rsplit(":", 1)[-1] == node and n not in taken]
                if nsame > 1:          # several statements of the kind on one node: each machine is told by its source text,
                    # and among machines of one text (two statements written in different units) by the namespaces expected
                    xs = [(n, x) for n, x in xs if x["expr"] == s["text"]]
                    want = ["%s %s" % (nm["ns"], nm["l"]) for nm in s["names"]]
                    fit = lambda x: len(x["names"]) == len(want) and all(w.startswith("* ") or w == g for w, g in zip(want, x["names"]))
                    xs.sort(key=lambda nx: not fit(nx[1]))
                if not xs and s["observable"]:
                    missing.append(i)
                for n, x in xs[:1]:
                    taken.add(n)
                    nxp += 1
                    names = [dict(ns=n.split(" ", 1)[0], l=n.split(" ", 1)[1]) for n in x["names"]]
                    lines.append(json.dumps(dict(ev="xp", id=c["id"], stmt=i, expr=x["expr"], names=names), separators=(",", ":")))
        elif verdict == "error":
            for r in o["runs"]:
                for i, locs in lo.items():
                    if any(("%s:%d:" % (f, n)) in r["err"] for f, n in locs) and i not in named:
                        named.append(i)
        lines.append(json.dumps(dict(ev="end", id=c["id"], verdict=verdict, named=sorted(named), missing=missing), separators=(",", ":")))
    with cf.ThreadPoolExecutor(max_workers=3) as ex:
        fv = ex.submit(validate, ctx, "PrefixScopeTrace", "PrefixScopeTrace.cfg", lines, 10, "c15")
        f1 = ex.submit(self_test, ctx, "PrefixScopeTrace", "PrefixScopeTrace.cfg", lines, corrupt_ns, "namespace", "c15st1", 2.0)
        f2 = ex.submit(self_test, ctx, "PrefixScopeTrace", "PrefixScopeTrace.cfg", lines, corrupt_verdict, ("accepted-invalid", "rejected-valid"), "c15st2", 2.3)
        fails, runs, events = fv.result()
        f1.result()
        f2.result()
    ctx.traces += runs
    for f in fails:
        v, o = vecs[f["id"]], res[f["id"]]
        c = dict(id=f["id"], mods=render_c15(v)[0])
        sig = dict(site="compile", what=f["what"], kind=f["kind"], place=f["place"], detail=f["detail"], written_in=f["unit"], form=f.get("form", ""))
        ctx.disagree(sig, f"{f['what']} ({f['detail']}{', prefix used as ' + f['form'] if f.get('form') else ''}) for a {f['kind']} statement placed {f['place']}",
                     dict(kind="trace", failure=f, modules=c["mods"], spec=dict(verdict=v["verdict"], stmts=v["stmts"], badStmts=v["badStmts"]),
                          observed=dict(runs=[dict(verdict=r["verdict"], err=r["err"][:400]) for r in o["runs"]], xps=o["xps"]),
                          how="save {id,mods} as case.json; <scratch>/bin/cc one case.json (VERIF_KEEP=1 bin/check C15)"))
    per_place = {}
    for v in vecs:
        for s in v["stmts"]:
            k = s["kind"] + "/" + s["place"]
            per_place[k] = per_place.get(k, 0) + 1
    unj = sum(1 for v in vecs for s in v["stmts"] for n in s["names"] if n["ns"] == "*")
    samples = [dict(cfg=v["cfg"], stmt=v["stmts"][0], verdict=v["verdict"]) for v in vecs[:: max(1, len(vecs) // 3)][:3]]
    cov = dict(evaluations=sum(len(o["runs"]) for o in res), distinct_nontrivial=len(vecs), statements_per_kind_and_place=per_place,
               rule="instances = every (import-map configuration, kind, placement, site, expression of the accept and reject pools, prefix per slot) "
                    "of PrefixScope.tla (or NSample seeded samples per chunk in the quick tier) plus NRand seeded instances with four statements",
               samples=samples, machines_checked=nxp, trace_events=events, expect_error=sum(1 for v in vecs if v["verdict"] == "error"),
               expect_ok=sum(1 for v in vecs if v["verdict"] == "ok"), name_tests_unjudged=unj, exhaustive=not quick,
               validity_unjudged_blank_at_prefix_colon=sum(1 for v in vecs if v["verdict"] == "any"),
               statements_with_control_character=sum(1 for v in vecs for s in v["stmts"] if s["mut"]["op"] in ("ctl", "ctlcut")),
               control_characters_used=len(set(s["mut"]["ch"] for v in vecs for s in v["stmts"] if s["mut"]["op"] in ("ctl", "ctlcut"))),
               statements_with_prefixed_wildcard=sum(1 for v in vecs for s in v["stmts"] if any(n["l"] == "*" and n["ns"] != "*" for n in s["names"])),
               statements_with_blank_at_prefix_colon=sum(1 for v in vecs for s in v["stmts"] if s["sp"]),
               explanation="TLC checked the clone mechanism against the textual-scope meaning on every reachable state, generated every placement with its "
                           "verdict / named statement / namespaces; every instance was compiled by the real compiler (twice, child processes) and the verdict, "
                           "the location named by the error and the (namespace, local) of every Name-Push of every compiled machine were validated by PrefixScopeTrace")
    return ctx.finish(cov, [
        "unprefixed names: namespace of the current node (RFC 6020 6.4.1): the textual module, or the using module inside a grouping; not judged for a typedef "
        "used from another module and for a when written directly under augment",
        "the statement named by an error: the location (file:line) of the expression statement, of the statement holding it, or (path) of the leaf / typedef; "
        "not judged for a when inherited from uses / augment",
        "syntactic validity is decided by pools of clearly valid / clearly invalid arguments, not by a grammar (that is C04)",
        "a C0 control character (other than tab, CR, LF) or DEL outside a literal makes an expression invalid (XPath 1.0 section 3.7: neither a token "
        "nor ExprWhitespace); inside a literal it is not generated",
        "blanks around the colon of a prefixed name test: an error with an undeclared prefix; with declared prefixes the verdict is not judged "
        "(XPath 1.0 makes a QName one token, the lexer under test skips the blanks), the machine of an accepted statement is",
    ])


KINDS = ("grouping", "typedef", "identity", "feature")

PROPS = {"C11": run_c11, "C15": run_c15}

CC = ("TLA+ spec CompilePipeline (meaning from RFC 6020 + the compiler's phase pipeline with existential loop orders): TLC exhaustive "
      "model (termination, confluence), TLC-generated instances rendered to YANG and compiled in child processes, hook traces validated by CompilePipelineTrace")
MANIFEST = {
 "C11": dict(text="TLC explores, for every reference graph over <= 3 modules / 2 submodules / 3 groupings, typedefs, identities, features (acyclic, shared, "
             "self loop, 2- and 3-cycle, lasso, dangling, cross-module, missing import, module not supplied, unused cycles) and augment/deviation "
             "combinations, every iteration order of every loop of the compiler's phase pipeline and every topological order, and checks termination and that every "
             "terminal outcome equals the RFC meaning (cycle or dangling => error; one schema). Every instance is rendered to YANG and compiled K times in child "
             "processes (stack cap, watchdog) with the parse trees supplied in permuted orders; CompilePipelineTrace validates each run's phase/key events "
             "(legal loop orders, one topological order), its verdict and that all canonical dumps of an instance are equal; crash or timeout is a violation.",
             note="schema compared as sets (the schema API has no stable child order); conflicting default replacements by unrelated modules: only determinism judged",
             design="4 C11", technique=CC),
 "C15": dict(text="PrefixScope.tla gives the meaning (a statement's prefixes resolve through the import map of the module in which it is textually written, own and "
             "empty prefix included, also after uses / augment / typedef; unknown prefix or invalid syntax => error naming the carrying statement). PrefixScopeMC "
             "checks the compiler's clone mechanism (tree / useTree) against it on every reachable state. PrefixScopeGen enumerates three import-map configurations "
             "that bind the same prefix to different modules x must/when/path x eleven placements (direct, grouping used locally / from another module / through a chain, "
             "augment, typedef local / cross-module, when on uses / augment, must added by refine / by deviate add) x accept and reject pools x every prefix choice per slot; every instance is compiled by the "
             "real compiler and PrefixScopeTrace judges the verdict, the location named by the error and the namespace of every Name-Push of every machine (GetExpr, PrintMachine).",
             note="unprefixed names judged by RFC 6020 6.4.1 (unjudged for cross-module typedefs and when-under-augment); reject pool = clearly invalid arguments only",
             design="4 C15", technique="TLA+ spec PrefixScope: TLC model of the clone mechanism, TLC-generated placements compiled by the real compiler, observations validated by PrefixScopeTrace"),
}
