"""Schema-shaping families: C12 (uses/refine/augment = inline definition), C14 (config, status,
if-feature, deviations), C20 (schema filters prune top-down).

One spec (spec/YangSchema.tla: statement trees -> schema trees), three uses of TLC:
  1. YangSchemaMC    design checks on every case of the bounded families: Schema(M) = Schema(Inline(M)),
                     Schema(M + D) = Schema(Edit(M, D)), Prune idempotent / top-down / attribute preserving.
  2. YangSchemaGen   behaviour generator: per case the module set M, the verdict and canonical schema the
                     spec prescribes, Inline(M) / Edit(M, D), and the pruned schema per filter;
     sc replay       renders the statement trees as YANG, compiles them with the real compiler and compares
                     three ways (model / original / rewritten).
  3. YangSchemaTrace TLC-sampled larger module sets (family R, RandomElement seeded with --seed) carry no
                     expectation: the harness logs (module set, features, dump, filtered dumps) and the trace
                     spec evaluates Schema and Prune on every event.
"""
import json, os, re, concurrent.futures as cf
from vlib import Infra, log, read_ndjson, write_ndjson

PROFILE = {
    "C12": dict(quick=["F1q", "F3", "F4", "F5", "F6q", "F7", "F8", "F9", "F10", "F11", "F12", "F13", "F14", "F15q", "F16"], thorough=["F1", "F2", "F3", "F4", "F5", "F6", "F7", "F8", "F9", "F10", "F11", "F12", "F13", "F14", "F15", "F16"],
                rand=(160, 8000), mode="C12"),
    "C14": dict(quick=["G1c", "G2b", "G2X", "G2S", "G2T", "G3", "G4", "G4X", "G5", "G6", "G7", "G8", "G9", "G10q", "G11"],
                thorough=["G1c", "G1l", "G1h", "G2a", "G2b", "G2c", "G2d", "G2e", "G2X", "G2S", "G2T", "G3", "G4", "G4X", "G5", "G6", "G7", "G8", "G9", "G10", "G11"],
                rand=(160, 8000), mode="C14"),
    "C20": dict(quick=["H1q", "H2", "H3", "H4", "H5", "H6"], thorough=["H1", "H2", "H3", "H4", "H5", "H6"], rand=(160, 6000), mode="C20"),
}
# which comparisons decide which property
CMPS = {
    "C12": {"model-vs-code", "alt-vs-original", "alt-vs-model"},
    "C14": {"model-vs-code", "alt-vs-original", "alt-vs-model"},
    "C20": {"filter-vs-model", "concurrent-vs-sequential"},
}


def set_lit(xs):
    return "{" + ", ".join('"%s"' % x for x in xs) + "}"


def split_file(ctx, path, nchunks, tag):
    lines = [l for l in open(path).read().splitlines() if l.strip()]
    if not lines:
        return []
    per = max(1, (len(lines) + nchunks - 1) // nchunks)
    out = []
    for i in range(0, len(lines), per):
        p = ctx.path("chunks", f"{tag}_{len(out)}.ndjson")
        open(p, "w").write("\n".join(lines[i:i + per]) + "\n")
        out.append((p, len(lines[i:i + per])))
    return out


def validate_trace(ctx, trace, nproc=8, tag="trace"):
    """Run YangSchemaTrace over the events (chunked, in parallel). Returns (failures, events, checks, unjudged)."""
    chunks = split_file(ctx, trace, nproc, tag)

    def one(ch):
        p, nev = ch
        r = ctx.tlc("YangSchemaTrace", "YangSchemaTrace.cfg", data={"trace.ndjson": p}, workers=1, timeout=1500, heap="3g")
        out = r["out"]
        m = re.search(r'<<"TRACE-RESULT", (\d+), (\d+), (\d+)>>', out)
        if not m:
            raise Infra("trace validation did not consume the trace:\n" + out[-3000:])
        if int(m.group(1)) != nev:
            raise Infra(f"trace validation consumed {m.group(1)} events, expected {nev}")
        fs = []
        unj = 0
        for l in out.splitlines():
            if l.startswith('"FAILJSON '):
                fs.append(json.loads(json.loads(l)[len("FAILJSON "):]))
            elif l.startswith('"UNJUDGED '):
                unj += 1
        if len(fs) != int(m.group(3)):
            raise Infra(f"{m.group(3)} trace failures counted, {len(fs)} reported")
        return fs, nev, int(m.group(2)), unj

    fails, events, checks, unjudged = [], 0, 0, 0
    with cf.ThreadPoolExecutor(max_workers=nproc) as ex:
        for fs, ne, nc, nu in ex.map(one, chunks):
            fails += fs
            events += ne
            checks += nc
            unjudged += nu
    return fails, events, checks, unjudged


def self_test(ctx, vecs, trace):
    """The binding must bind: a vector with a perturbed expectation must be reported by the replayer, a trace
    event with a perturbed filtered dump (or dump) must be rejected by the validator."""
    # 1. perturbed expectation
    victim = None
    for p in vecs:
        for line in open(p):
            v = json.loads(line)
            if v["verdict"] == "ok" and v["schema"]["children"]:
                victim = v
                break
        if victim:
            break
    if victim:
        c = victim["schema"]["children"][0]
        c["config"] = not c["config"]
        p = ctx.path("selftest", "vec.ndjson")
        write_ndjson(p, [victim])
        out = ctx.path("selftest", "res.ndjson")
        ctx.run_bin("sc", ["replay", "-out", out, p], timeout=120)
        o = read_ndjson(out)
        if not o or not any(m["cmp"] in ("model-vs-code", "filter-vs-model") for m in o[0]["mism"]):
            raise Infra("self-test: the replayer did not report a perturbed expectation")
    # 2. perturbed trace event
    ev = None
    if trace and os.path.exists(trace):
        for line in open(trace):
            e = json.loads(line)
            if e["ok"] and e["dump"]["children"] and (e["filtered"] or e["judge"]):
                ev = e
                break
    if ev:
        tgt = None
        for f in ev["filtered"]:
            if f["ok"] and f["dump"]["children"]:
                tgt = f["dump"]
                break
        if tgt is None:
            tgt = ev["dump"]
        tgt["children"][0]["status"] = "obsolete" if tgt["children"][0]["status"] != "obsolete" else "current"
        p = ctx.path("selftest", "trace.ndjson")
        write_ndjson(p, [ev])
        fails, _, _, unj = validate_trace(ctx, p, 1, tag="selftest")
        if not fails and not unj:
            raise Infra("self-test: the trace validator accepted a perturbed event")
    return bool(victim), bool(ev)


def run(ctx):
    prop = ctx.prop
    prof = PROFILE[prop]
    fams = prof[ctx.tier]
    nrand = prof["rand"][0 if ctx.quick() else 1]
    # development aid only (never set by bin/check or the manifest): run a subset of the families by hand
    if os.environ.get("VERIF_SCHEMA_FAMS"):
        fams = os.environ["VERIF_SCHEMA_FAMS"].split(",")
        nrand = int(os.environ.get("VERIF_SCHEMA_NRAND", nrand))
    chunks = 8
    nrand -= nrand % chunks
    ctx.build(["sc"])
    racebuild = None
    if prop == "C20":
        # the harness once more under the race detector, for the shared-filter concurrency stage (built meanwhile)
        rpool = cf.ThreadPoolExecutor(max_workers=1)
        racebuild = rpool.submit(ctx.build, ["sc"], True)

    # 1. design-level checks of the spec on the generator's space (runs while the vectors are generated and replayed)
    pool = cf.ThreadPoolExecutor(max_workers=1)
    mc = pool.submit(ctx.tlc, "YangSchemaMC", "YangSchemaMC.cfg", workers=6, timeout=3000, heap="8g", consts={"Fams": set_lit(fams)})
    # 2. behaviour generator
    g = ctx.tlc("YangSchemaGen", "YangSchemaGen.cfg", workers=8, timeout=3000, heap="10g",
                consts={"Fams": set_lit(fams + ["R"]), "Chunks": chunks, "NRand": nrand, "RandMode": '"%s"' % prof["mode"]},
                extra=["-seed", str(ctx.seed)])
    vecs = sorted(os.path.join(g["dir"], f) for f in os.listdir(g["dir"]) if re.match(r"vec_\w+\.ndjson$", f))
    if not vecs:
        raise Infra("generator produced no vectors")
    sizes = {m[0]: int(m[1]) for m in re.findall(r'<<"FAMILY-SIZE", "(\w+)", (\d+)>>', g["out"])}
    # 3. replay (in parallel over the vector files)
    parts = []

    def rp(i_p):
        i, p = i_p
        res, trace = ctx.path("res", f"res_{i}.ndjson"), ctx.path("res", f"trace_{i}.ndjson")
        ctx.run_bin("sc", ["replay", "-out", res, "-trace", trace, "-base", str(i * 1000000), p], timeout=1500)
        return res, trace

    with cf.ThreadPoolExecutor(max_workers=8) as ex:
        parts = list(ex.map(rp, enumerate(vecs)))
    outcomes = []
    trace = ctx.path("trace.ndjson")
    with open(trace, "w") as tf:
        for res, tr in parts:
            outcomes += read_ndjson(res)
            tf.write(open(tr).read())
    # 3b. C20: one filter VALUE per predicate/combinator shared by compilations of different module sets that run at
    # the same time, under the race detector; results compared with the sequential ones and logged for the trace spec
    conc_info = None
    if racebuild:
        racebuild.result()
        cvecs = [v for v in vecs if re.search(r"vec_H[2-6]_", v)]
        cres, ctrace = ctx.path("conc", "conc.ndjson"), ctx.path("conc", "trace.ndjson")
        r = ctx.run_bin("sc-race", ["conc", "-out", cres, "-trace", ctrace] + cvecs, timeout=900, check=False)
        m = re.search(r"CONC sets=(\d+) filters=(\d+) compilations=(\d+) events=(\d+)", r.stdout)
        if not m or r.returncode not in (0, 66):
            raise Infra(f"sc conc failed rc={r.returncode}:\n{(r.stdout + r.stderr)[-3000:]}")
        conc_info = dict(module_sets=int(m.group(1)), shared_filter_values=int(m.group(2)), concurrent_compilations=int(m.group(3)),
                         data_races=r.stderr.count("WARNING: DATA RACE"))
        if conc_info["data_races"]:
            i = r.stderr.find("WARNING: DATA RACE")
            report = r.stderr[i:i + 2500]
            where = re.search(r"/(compile|schema|parse)/([\w.]+\.go):\d+", report)
            ctx.disagree(dict(site="conc", cmp="race-detector", attr="data-race", nodekind="", fam="conc", cls="", filter="",
                              at=(where.group(1) + "/" + where.group(2)) if where else "?"),
                         f"data race between compilations that share one filter value ({conc_info['data_races']} reports), first in "
                         + ((where.group(1) + "/" + where.group(2)) if where else "?"),
                         dict(kind="race", report=report, how=f"bin/check {prop} --tier {ctx.tier} (sc conc, binary built with -race)"))
        outcomes += read_ndjson(cres)
        with open(trace, "a") as tf:
            tf.write(open(ctrace).read())
    per_fam = {}
    for o in outcomes:
        per_fam[o["fam"]] = per_fam.get(o["fam"], 0) + 1
    for f, n in sizes.items():
        if per_fam.get(f, 0) != n:
            raise Infra(f"family {f}: {n} cases in the spec, {per_fam.get(f, 0)} vectors replayed")
    # 4. trace validation
    fails, events, checks, unj_trace = validate_trace(ctx, trace, 8)
    ctx.traces += events
    mc.result()     # a design-level counterexample or TLC error is an infrastructure failure (raises Infra)
    # 5. binding self-test
    st_vec, st_trace = self_test(ctx, [v for v in vecs if "vec_R_" not in v], trace)

    # ---- verdicts
    by_id = {o["id"]: o for o in outcomes}
    cmps = CMPS[prop]
    nvec = len(outcomes)
    unjudged, why = 0, {}
    classes = set()
    samples = []
    judged_keys, rand_keys, seen_fams = set(), {}, set()
    for o in outcomes:
        if o["verdict"] == "unjudged":
            unjudged += 1
        classes.add((o["fam"], o["verdict"], tuple(sorted(o["errs"])), o["altkind"]))
        if o["verdict"] in ("ok", "err", "open") and o["fam"] != "conc":
            judged_keys.add(o["key"])
        elif o["verdict"] == "record":
            rand_keys[o["id"]] = o["key"]
        if len(samples) < 4 and o.get("texts") and not o["mism"] and o["id"] % 1000000 == 1 and o["fam"] not in seen_fams:
            seen_fams.add(o["fam"])
            samples.append(dict(family=o["fam"], spec_verdict=o["verdict"], spec_errors=o["errs"], compiled=o["codeok"],
                                yang=[t[:1800] for t in o["texts"]], rewritten=[t[:1800] for t in (o.get("alttexts") or [])]))
        for m in o["mism"]:
            if m["cmp"] not in cmps:
                continue
            sig = dict(site="replay", cmp=m["cmp"], attr=m["attr"], nodekind=m["nodekind"], fam=o["fam"],
                       cls=",".join(sorted(o.get("cls") or [])), filter=m.get("filter", ""))
            what = f"{m['attr']} of {m['nodekind'] or 'module set'} at {m['path'] or '/'}"
            if m["attr"] == "verdict":
                what = f"verdict {(m.get('got') or '?').split()[0]} where {(m.get('want') or '?').split()[0]} is " + ("prescribed" if m["cmp"] != "alt-vs-original" else "the verdict on the original")
            if o.get("src"):
                what += f", enabled features given through {re.sub(r'[0-9]+', 'n', o['src'])}"
            ctx.disagree(sig, f"{m['cmp']}: {what} (family {o['fam']}, spec verdict {o['verdict']} {o['errs']})",
                         dict(kind="replay", id=o["id"], fam=o["fam"], mismatch=m, spec_verdict=o["verdict"], spec_errors=o["errs"],
                              yang=o.get("texts"), rewritten=o.get("alttexts"),
                              how=f"bin/check {prop} --tier {ctx.tier} --seed {ctx.seed}; or write the YANG texts to files and run harness/cmd/sc yang <files>"))
    for f in fails:
        mine = (f["site"] == "filter") if prop == "C20" else (f["site"] == "schema")
        if not mine:
            continue
        o = by_id.get(f["id"], {})
        sig = dict(site="trace", cmp="prune-of-unfiltered" if f["site"] == "filter" else "model-vs-code", attr=f["attr"], nodekind=f["kind"],
                   fam=o.get("fam", "?"), cls=",".join(sorted(o.get("cls") or [])), filter=f["filter"])
        via = f" (enabled features given through {re.sub(r'[0-9]+', 'n', o['src'])})" if o.get("src") else ""
        ctx.disagree(sig, f"trace rejected: {f['site']} {f['attr']} of {f['kind'] or 'module set'} at {f['path'] or '/'} {f['filter']}{via}",
                     dict(kind="trace", failure=f, fam=o.get("fam"),
                          how=f"bin/check {prop} --tier {ctx.tier} --seed {ctx.seed} (VERIF_KEEP=1 keeps trace.ndjson; event id {f['id']})"))
    distinct = len(judged_keys | set(rand_keys.values())) - min(unj_trace, len(set(rand_keys.values())))
    cov = dict(
        evaluations=nvec, distinct_nontrivial=max(distinct, 0), behaviour_classes=len(classes),
        rule="vectors = every case of the listed families (YangSchemaSets.tla) plus TLC-sampled larger module sets (family R); "
             "distinct = distinct inputs by hash of (rendered YANG of the module set, enabled features, number of filters); non-trivial = judged, "
             "i.e. the spec gives verdict ok, err or open (open = the schema is prescribed if the module set compiles, whether it compiles is not; "
             "unjudged vectors and unjudged sampled sets are not counted); every generated module set contains "
             "at least one uses, augment, deviation, if-feature, config/status placement or is compiled under 21 filters; "
             "behaviour_classes = (family, spec verdict, spec error classes, rewritten form) classes",
        samples=samples, families=fams, family_sizes=sizes, sampled_module_sets=nrand, unjudged_vectors=unjudged,
        unjudged_trace_events=unj_trace, trace_events=events, trace_checks=checks,
        selftest=dict(perturbed_vector_reported=st_vec, perturbed_event_rejected=st_trace),
        shared_filter_concurrency=conc_info,
        exhaustive=True,
        explanation="TLC checked the design invariants on every case of the families (states/transitions), generated one vector per case with "
                    "the prescribed verdict and schema; every vector was rendered to YANG, compiled by the real compiler and compared three ways; "
                    "sampled larger module sets and every filtered compile were logged and judged by YangSchemaTrace")
    return ctx.finish(cov, [
        "observation = canonical dump of the ModelSet through the public schema API (harness/internal/schemadump); units and reference are not observable",
        "module attribute of a node = name of the module or submodule that owns it (the code's convention; RFC 6020 has no such attribute)",
        "the context flag of when conditions (RunAsParent) is compared only between compilations, not against the model",
        "prefixes are those of the generated module sets (every module is imported under its own prefix)",
        "value spaces of types are not modelled here (only built-in string/int8 names appear); extensions (configd/opd) are outside the generated space",
    ])


PROPS = {"C12": run, "C14": run, "C20": run}

YS = ("TLA+ spec YangSchema (statement trees -> schema trees: ExpandUses, ApplyAugment, ApplyDeviate, Inline, Edit, Inherit, Present, Prune): "
      "TLC design checks on the generator's space, TLC-generated module sets with prescribed verdict/schema replayed on the real compiler "
      "(three-way comparison), TLC-sampled larger module sets and filtered compiles validated by YangSchemaTrace")
MANIFEST = {
 "C12": dict(text="The spec expands uses (nested, scoped, cross-module, in submodules), refine of every kind, augment inside uses and at module level "
             "into a uses-free module set Inline(M) and a canonical schema; TLC checks Schema(M) = Schema(Inline(M)) on every generated nesting and emits "
             "M, Inline(M), the predicted verdict and schema. The harness renders both to YANG, compiles them with compile.CompileParseTrees and requires "
             "dump(M) = dump(Inline(M)) = predicted, attribute by attribute (namespace, module, submodule, config, status, default, mandatory, must, when, ...); "
             "every RFC prohibition (missing refine/augment target, refinement a node kind does not take, mandatory node into another module, sibling clash) "
             "is an explicit error verdict that the compiler must share. Larger sampled module sets are judged by the trace spec.",
             note="cases the RFC leaves open (an own status of an introduced node that is LESS obsolete than the status on the uses/augment, refine through a node with a "
                  "status, augment order, equal names in different namespaces) are generated but unjudged and counted; an own status at least as obsolete as the one "
                  "on the uses/augment stands, description/reference of the uses/augment stay with that statement", design="4 C12", technique=YS),
 "C14": dict(text="The spec's Build step inherits config and status downwards (config true under false and a status stronger than the parent's are errors), "
             "evaluates presence from the enabled feature set through transitive feature dependencies (all 2^3 sets per placement), applies the same-module "
             "reference-status rule to uses, if-feature, feature dependencies and augments, and applies deviate add/replace/delete/not-supported as edits of the "
             "target's source with the RFC's admissibility rules. TLC checks Schema(M + D) = Schema(Edit(M, D)); the harness compiles M + D and Edit(M, D) and "
             "requires both dumps to equal the prediction. The enabled-feature set is an input with several ways in: every kind of FeaturesChecker alone, "
             "MultiFeatureCheckers with agreeing, disagreeing (both orders), silent, nil and nested members (documented: the last definite answer wins, Disabled if "
             "none), and compile.Config (capability directory + Config.Features, compiled from files) - SrcStatus in the spec. A deviate statement naming a "
             "single-instance property twice is refused (grammar), two deviate statements are judged where their order cannot matter.",
             note="which of Config.Features and the capability directory has the last word, and whether a capability directory without the file is silent or "
                  "Disabled, is documented nowhere: sources on which these readings differ are unjudged; replace of a property that exists only implicitly and reference status between a module and its submodule are unjudged; when a feature or "
                  "not-supported removes a leaf that a list names in key/unique, or the default case of a choice, the node must be absent but the compile verdict "
                  "and that one attribute of the parent are not judged (verdict open); type value spaces are not modelled", design="4 C14", technique=YS),
 "C20": dict(text="Prune(schema, f) removes every node failing the filter with its subtree for the filters of compile_filters.go (IsConfig/IsState/IsOpd under "
             "Include/Exclude/IncludeState, 21 combinations); TLC checks idempotence, top-down closure and attribute preservation. Every shape (config false at every "
             "subset of 11 places, list keys, cases, default cases, groupings, augments, features) is compiled unfiltered and under every filter: the filtered dump "
             "must equal the predicted pruned schema, and the trace spec re-derives it from the code's own unfiltered dump (PruneSeq) attribute by attribute, also on "
             "sampled larger module sets.",
             note="opd nodes need the configd/opd extensions and are outside the generated space (IsOpd is exercised only as a predicate that no node satisfies)",
             design="4 C20", technique=YS),
}
