"""C04: exactly the supported XPath / leafref path syntax is accepted.
Also provides the totality stage used by C05 (fam_xpath).

XPathGrammar.tla (token level: section 3.7 disambiguation + a recogniser for XPath
1.0 Expr + arity + unsupported constructs; RFC 6020 path-arg) and XPathLex.tla
(character level tokeniser) give a verdict accept / reject / unspecified for every
enumerated input; TLC enumerates (XPathGrammarGen.tla):
  full   all token sequences over the full alphabet (54 spellings incl. names that
         collide with operator/function/axis/node-type names) to MaxFull tokens
  core   all sequences over a 21-token core alphabet to MaxCore tokens
  tiny   all sequences over a 12-token alphabet to MaxTiny tokens (deeper nesting)
  mutant all single-token mutants of the minimal rendering of XPathSets ASTs
  lref   all sequences over the leafref alphabet + mutants of valid path-args
  chars  all character strings over 31 character classes to MaxChars characters (expr);
         lchars: over 14 classes to MaxChars+1 characters for the leafref compiler
The harness compiles each input in two whitespace renderings with the real
compilers and compares error-or-not with the verdict.
"""
import json, os, re
from vlib import Infra, log, read_ndjson

TIERS = {
    "quick": dict(MaxFull=2, MaxCore=4, MaxTiny=4, MaxLref=4, MaxChars=3, MutFams="{14, 15}", NChunks=12, MutEvery=8),
    "thorough": dict(MaxFull=3, MaxCore=4, MaxTiny=5, MaxLref=5, MaxChars=4, MutFams="{11, 14, 15}", NChunks=12, MutEvery=3),
}


def generate(ctx, kinds, consts):
    c = dict(consts)
    c["Kinds"] = "{" + ", ".join('"%s"' % k for k in kinds) + "}"
    g = ctx.tlc("XPathGrammarGen", "XPathGrammarGen.cfg", workers=14, timeout=3000, heap="14g", consts=c)
    files = sorted(os.path.join(g["dir"], f) for f in os.listdir(g["dir"]) if f.startswith("gvec_") and f.endswith(".ndjson"))
    if not files:
        raise Infra("grammar generator produced no vectors")
    return files


def totality(ctx, tier):
    """Used by C05: every generated text through the three grammars; every built machine run three ways."""
    t = TIERS[tier]
    files = generate(ctx, ["chars", "full"], dict(t, MaxFull=2 if tier == "quick" else 3))
    out = ctx.path("tres.ndjson")
    r = ctx.run_bin("xp", ["total", "-out", out] + files, timeout=2400)
    stats = json.loads(r.stdout.strip().splitlines()[-1])
    for v in read_ndjson(out):
        sig = dict(site="totality", grammar=v["grammar"], stage=v["stage"], what=v["what"])
        ctx.disagree(sig, f"{v['grammar']} {v['stage']}: {v['what']} on {v['text']!r}",
                     dict(kind="totality", text=v["text"], grammar=v["grammar"], stage=v["stage"], detail=v["detail"],
                          how="xp total on this text"))
    return stats


def run(ctx):
    ctx.build(["xp"])
    t = TIERS[ctx.tier]
    files = generate(ctx, ["full", "core", "tiny", "mutant", "lref", "chars", "lchars"], t)
    out = ctx.path("gres.ndjson")
    r = ctx.run_bin("xp", ["gram", "-out", out] + files, timeout=2400)
    stats = json.loads(r.stdout.strip().splitlines()[-1])
    dis = read_ndjson(out)
    samples = []
    for d in dis:
        text = d["text"]
        sig = dict(site="compile", lang=d["lang"], want=d["want"], got=d["got"], why=d["why"],
                   exponent=bool(re.search(r"[0-9.][eE][0-9]", text)), ws=bool(d["note"]))
        ctx.disagree(sig, f"{d['lang']} compiler: spec says {d['want']} ({d['why']}), code says {d['got']} for {text!r} {d['note']}",
                     dict(kind="grammar", lang=d["lang"], tokens=d["ts"], text=text, want=d["want"], why=d["why"], got=d["got"],
                          how="expr.NewExprMachine / leafref.NewLeafrefMachine on this text"))
    # a few of the actual inputs
    for f in files[:6]:
        with open(f) as fh:
            for i, line in enumerate(fh):
                if i == 7:
                    j = json.loads(line)
                    samples.append(dict(kind=j["kind"], lang=j["lang"], tokens=j["ts"], verdict=j["v"], why=j["why"]))
                    break
    counts = stats["counts"]
    # registered (custom) functions: lookup gate, user checker and declared arity against the table of the moment
    import fam_xfuncs
    ftab = fam_xfuncs.stage(ctx, "C04")
    cov = dict(
        evaluations=stats["sequences"], distinct_nontrivial=stats["judged"],
        rule="every input enumerated by XPathGrammarGen (all sequences to the stated lengths, all single-token mutants); "
             "non-trivial = judged (verdict accept or reject; 'unspecified' inputs are compiled for totality only)",
        samples=samples, verdict_vs_code=counts, function_table=ftab, bounds=t, exhaustive=True,
        explanation="the verdicts are computed by TLC from XPathGrammar/XPathLex; states/transitions count generator jobs, "
                    "'evaluations' counts classified inputs replayed on the real compilers")
    return ctx.finish(cov, [
        "prefix map of the harness: '', p, q known; anything else unknown",
        "forms on which the property is silent (filter expression + predicate/path, union, node-set function on a non-path, deref argument forms) are 'unspecified' and not judged",
        "non-ASCII name characters are not judged (NCName ranges of XML vs the implementation)",
    ])


PROPS = {"C04": run}
MANIFEST = {
 "C04": dict(text="XPathGrammar.tla is a token-level recogniser of XPath 1.0 Expr written from the Recommendation, with the section 3.7 "
             "disambiguation of '*' and operator names as a function of the preceding token, declared function arities, the constructs the "
             "property lists as rejected, and RFC 6020 path-arg; XPathLex.tla tokenises characters. TLC enumerates all token sequences to a "
             "bounded length over the full alphabet (every name that collides with an operator, function, axis or node-type name in every "
             "position), all single-token mutants of rendered ASTs, and all character-class strings, each with its verdict; the real "
             "compilers must agree on error-or-not for every judged input, in two whitespace renderings. XPathFuncs.tla (function table as state: registration, custom gate, user checker, declared arity of registered functions) is explored exhaustively on small pools and its sampled behaviours are replayed on the real package (lookup and compile verdicts).",
             note="verdict 'unspecified' where the statement is silent; prefixes '', p, q known; leafref machine is only compiled, never run",
             design="4 C04", technique="TLA+ grammar/lexer specification evaluated by TLC over exhaustively enumerated token and character sequences, replayed on the real compilers"),
}
