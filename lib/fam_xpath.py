"""XPath machine families: C01 (scalar evaluation), C02 (location paths),
C03 (precedence / whitespace), C05 (totality and faithful failures).

Pipeline (one spec, three uses of TLC):
  1. XPathMC    exhaustive model: machine(Compile(ast)) = Denote(ast), designated calls,
                value-xor-error, fault faithfulness - on every AST of the families.
  2. XPathGen   behaviour generator: per AST the rendered text (several styles), the
                prescribed program, the designated data-tree calls, the value.
     xp replay  feeds every vector to the real compiler/machine and compares.
  3. XPathTrace validates the instruction-level trace of every run (hooks) step by
                step against the machine spec; deviating instructions are reported
                with instruction name and operand classes.
"""
import json, os, re, subprocess, concurrent.futures as cf
from vlib import Infra, log, read_ndjson, write_ndjson, VERIF, REPO

VALUE_INSTR = {"bltin", "add", "sub", "mul", "div", "mod", "negate", "and", "or", "ne", "lt", "le", "gt", "ge", "union",
               "numpush", "litpush", "store"}
PATH_INSTR = {"root", "name", "dotdot", "pathsetcurrent", "PredicatesStart", "PredicatesEnd", "PREDSTART", "PREDEND",
              "evalLocPath", "deref"}

PROFILE = {
    # property: (families quick, families thorough, faults in MC, replay with faults, random vectors quick/thorough)
    "C01": dict(quick=[1, 2, 3, 4, 5, 6, 7, 22], thorough=[1, 2, 3, 4, 5, 6, 7, 8, 9, 10, 22], mc_faults=0, faults=False, rand=(400, 16000), rand_kind="scalar"),
    "C02": dict(quick=[11, 12, 14, 18, 20], thorough=[11, 12, 13, 14, 18, 20], mc_faults=0, faults=False, rand=(300, 24000), rand_kind="path"),
    "C03": dict(quick=[15, 17, 19, 21], thorough=[15, 16, 17, 19, 21], mc_faults=0, faults=False, rand=(300, 16000), rand_kind="ops"),
    "C05": dict(quick=[4, 6, 11, 14], thorough=[4, 6, 11, 12, 13, 14], mc_faults=4, faults=True, rand=(200, 8000), rand_kind="path"),
}


def set_lit(xs):
    return "{" + ", ".join(str(x) for x in xs) + "}"


def split_trace(ctx, trace, nchunks):
    """Split an ndjson trace at run boundaries into about nchunks files."""
    lines = open(trace).read().splitlines()
    starts = [i for i, l in enumerate(lines) if l.startswith('{"ev":"init"')]
    if not starts:
        return []
    per = max(1, len(starts) // nchunks + 1)
    files = []
    for c in range(0, len(starts), per):
        a = starts[c]
        b = starts[c + per] if c + per < len(starts) else len(lines)
        p = ctx.path("chunks", f"trace_{len(files)}.ndjson")
        open(p, "w").write("\n".join(lines[a:b]) + "\n")
        files.append((p, len(starts[c:c + per]), b - a))
    return files


def validate_traces(ctx, trace, nproc=8):
    """Run XPathTrace over the trace (chunked, in parallel). Returns (failures, runs, events)."""
    chunks = split_trace(ctx, trace, nproc)
    fails, runs, events = [], 0, 0
    if not chunks:
        log("note: no instruction-level trace to validate")
        return fails, runs, events

    def one(ch):
        p, nruns, nev = ch
        r = ctx.tlc("XPathTrace", "XPathTrace.cfg", data={"trace.ndjson": p}, workers=1, timeout=1500, heap="3g")
        out = r["out"]
        m = re.search(r'<<"TRACE-RESULT", (\d+), (\d+), (\d+)>>', out)
        if not m:
            raise Infra("trace validation did not consume the trace:\n" + out[-3000:])
        if int(m.group(1)) != nev or int(m.group(2)) != nruns:
            raise Infra(f"trace validation consumed {m.group(1)} events/{m.group(2)} runs, expected {nev}/{nruns}")
        fs, seen = [], set()
        for l in out.splitlines():
            if l.startswith('"FAILJSON '):
                j = json.loads(json.loads(l)[len("FAILJSON "):])
                if (j["id"], j["at"]) in seen:
                    continue
                seen.add((j["id"], j["at"]))
                fs.append(j)
        if len(fs) != int(m.group(3)):
            log(f"note: {m.group(3)} failures counted, {len(fs)} reported")
        return fs, nruns, nev

    with cf.ThreadPoolExecutor(max_workers=nproc) as ex:
        for fs, nr, ne in ex.map(one, chunks):
            fails += fs
            runs += nr
            events += ne
    return fails, runs, events


def fail_sig(f):
    return dict(site=f["site"], instr=f["instr"], fn=f["fn"], what=f["what"], inPred=f["inPred"],
                args="|".join(f["args"]), fault=f.get("failAt", 0) > 0)


def harvest_exprs(ctx):
    """Expression strings used by the repository's own xpath tests (scalar ones)."""
    out = set()
    for root, _, files in os.walk(os.path.join(REPO, "xpath")):
        for fn in files:
            if fn.endswith("_test.go"):
                s = open(os.path.join(root, fn), errors="replace").read()
                for m in re.finditer(r'"((?:[^"\\\n]|\\.){1,120})"', s):
                    t = m.group(1)
                    if re.search(r"[()=<>+*]| div | mod | and | or ", t) and not re.search(r"[%\\{}]|/|\[|\.\.|@|::|\$", t):
                        out.add(t)
    p = ctx.path("harvest.txt")
    open(p, "w").write("\n".join(sorted(out)) + "\n")
    return p, len(out)


def run(ctx):
    prop = ctx.prop
    prof = PROFILE[prop]
    fams = prof[ctx.tier]
    if os.environ.get("VERIF_FAMS"):          # debugging aid: restrict the families / resize the sample
        fams = [int(x) for x in os.environ["VERIF_FAMS"].split(",")]
    ctx.build(["xp"])
    nproc = 8

    # 1. exhaustive model
    mc = ctx.tlc("XPathMC", "XPathMC.cfg", workers=12, timeout=3000, heap="12g",
                 consts={"Fams": set_lit(fams), "Faults": prof["mc_faults"]})
    # 2. behaviour generator + replay
    nrand = int(os.environ.get("VERIF_NRAND", prof["rand"][0 if ctx.quick() else 1]))
    g = ctx.tlc("XPathGen", "XPathGen.cfg", workers=12, timeout=3000, heap="12g",
                consts={"Fams": set_lit(fams), "NRand": 0, "RandKind": '"%s"' % prof["rand_kind"],
                        "WsEach": (7 if ctx.quick() else 14) if prop == "C03" else 0})   # whitespace at each single boundary of expressions up to that many tokens
    # TLC-sampled deeper ASTs: one worker, so that VERIF_SEED reproduces the sample
    g2 = ctx.tlc("XPathGen", "XPathGen.cfg", workers=1, timeout=3000, heap="6g",
                 consts={"Fams": "{100}", "NRand": nrand, "RandKind": '"%s"' % prof["rand_kind"], "NChunks": 1},
                 extra=["-seed", str(ctx.seed)])
    vecs = sorted(os.path.join(d["dir"], f) for d in (g, g2) for f in os.listdir(d["dir"]) if re.match(r"vec_\d+_\d+\.ndjson$", f))
    if not vecs:
        raise Infra("generator produced no vectors")
    res, trace = ctx.path("res.ndjson"), ctx.path("trace.ndjson")
    args = ["replay", "-out", res, "-trace", trace]
    if prof["faults"]:
        args.append("-faults")
    if prop == "C02":
        args.append("-debugruns")
    rrep = ctx.run_bin("xp", args + vecs, timeout=1500)
    mm = re.search(r"(\d+) listings outside the instruction vocabulary", rrep.stderr or "")
    unknown_listings = int(mm.group(1)) if mm else 0
    if unknown_listings:
        log(f"note: {unknown_listings} machine listings use instruction names outside XPathExec's vocabulary (reworded debug text?): "
            "those vectors are judged by results and data-tree requests only")
    # repository-derived expressions (trace only)
    hv, nh = harvest_exprs(ctx)
    htrace = ctx.path("htrace.ndjson")
    if prop in ("C01", "C03", "C05"):
        ctx.run_bin("xp", ["record", "-exprs", hv, "-trace", htrace, "-base", "1000000"], timeout=600)
        open(trace, "a").write(open(htrace).read())
    outcomes = read_ndjson(res)
    # 3. trace validation
    fails, runs, events = validate_traces(ctx, trace, nproc)
    ctx.traces += runs
    by_id = {}
    for f in fails:
        by_id.setdefault(f["id"], []).append(f)

    # ---- verdicts: which disagreements belong to this property
    nvec, njudged = len(outcomes), 0
    distinct = set()
    samples = []
    for o in outcomes:
        distinct.add(re.sub(r"[0-9.]+|'[^']*'", "#", o["expr"]))
        if len(samples) < 3 and len(o["expr"]) > 6:
            samples.append(dict(expr=o["expr"], fam=o["fam"]))
    # A program that differs from Compile(ast) while every observable agrees (results, data-tree requests, all
    # renderings, every step of the trace under the instructions' own semantics) is no violation of any listed
    # property (C03 compares the renderings with each other): it is counted, not reported.
    fam_of = {o["id"]: o.get("fam") for o in outcomes}
    other_fail_ids = {f["id"] for f in fails if f["site"] != "compile"}
    shape_only = {o["id"] for o in outcomes if o["mism"] and all(m["kind"] == "prog" for m in o["mism"]) and o["id"] not in other_fail_ids}
    if shape_only:
        log(f"note: {len(shape_only)} machines differ from the specification's program in shape only (same results, requests and traces)")
    for f in fails:
        sig = fail_sig(f)
        mine = False
        if f["site"] == "compile" and f["id"] in shape_only:
            continue
        if prop == "C01":
            mine = (f["site"] == "step" and f["instr"] in VALUE_INSTR | {"eq"} and not (f["instr"] == "eq" and f["inPred"])) \
                or (f["site"] == "end" and f["what"] in ("end:value", "end:denotation", "end:no-value", "end:unexpected-error"))
        elif prop == "C02":
            mine = (f["site"] == "step" and (f["instr"] in PATH_INSTR or (f["instr"] == "eq" and f["inPred"]))) \
                or (f["site"] == "end" and f["what"] == "end:designated-calls") or f["site"] == "compile" \
                or (fam_of.get(f["id"]) == 20 and f["site"] == "end" and f["what"] in ("end:value", "end:denotation", "end:no-value", "end:unexpected-error"))
        elif prop == "C03":
            mine = f["site"] == "compile"
        elif prop == "C05":
            # every disagreement of a fault-injected run, and the run-outcome rules at the end of any run
            mine = f.get("failAt", 0) > 0 or (f["site"] == "end" and f["what"] in ("end:error-identity", "end:value-and-error", "end:stopped-early", "end:no-value", "end:unexpected-error"))
        if mine:
            ctx.disagree(sig, f"trace rejected at {f['site']} {f['instr']} {f['fn']} ({f['what']})",
                         dict(kind="trace", failure=f, how="bin/check %s --tier %s; event index 'at' in the recorded trace of run id" % (prop, ctx.tier)))
    KINDS = {
        "C01": {"result:bool", "result:string", "result:number", "error", "panic", "compile", "hang"},
        "C02": {"calls", "prog", "compile", "panic", "history", "hang", "result:bool", "result:string", "result:number", "error", "debug-calls", "debug-result"},
        "C03": {"variant-compile", "variant-prog", "variant-result", "prog", "compile", "hang"},
        "C05": {"fault-error", "fault-panic", "fault-accessor", "fault-neither", "panic", "hang"},
    }[prop]
    for o in outcomes:
        for m in o["mism"]:
            if m["kind"] not in KINDS:
                continue
            if m["kind"] == "prog" and o["id"] in shape_only:
                continue
            if prop == "C02" and m["kind"].startswith("result") and (o.get("fam") != 20 or (o.get("vclass") == "multi" and m["kind"] != "result:bool")):
                continue    # C02 owns the value of a plain path expression; conversions of a leaf-list value are C01's (recorded finding there)
            if prop == "C02" and m["kind"] == "error" and o.get("fam") != 20:
                continue
            explained = [f for f in by_id.get(o["id"], []) if (f.get("failAt", 0) > 0) == m["kind"].startswith("fault")]
            if explained and not m["kind"].startswith("variant"):
                continue    # the trace failure of the same run is the report
            sig = dict(site="replay", kind=m["kind"], rclass=o.get("vclass", ""))
            if o.get("blackbox"):
                # no instruction-level trace for this run (reworded listing): the two recorded C01 findings are
                # recognised by what the specification's program consumes
                sig.update(blackbox=True, multiconv=bool(o.get("multiconv")), infstr=bool(o.get("infstr")))
            ctx.disagree(sig, f"replay mismatch {m['kind']} on {o['expr']!r}",
                         dict(kind="replay", expr=o["expr"], want=m["want"], got=m["got"],
                              how="xp replay on the vector of this expression (bin/check %s)" % prop))
    tot = None
    if prop == "C05":
        # totality of machine construction over character strings and token sequences (three grammars),
        # and of running whatever was built on a nil context, the mock tree and a failing tree
        import fam_xgrammar
        tot = fam_xgrammar.totality(ctx, ctx.tier)
        # custom functions: a panicking function, a function without default value, symbols that cannot run
        import fam_xfuncs
        tot["function_table"] = fam_xfuncs.stage(ctx, "C05")
    cov = dict(
        totality=tot,
        evaluations=nvec + (tot["builds"] if tot else 0), distinct_nontrivial=len(distinct),
        rule="vectors = all ASTs of the listed families (XPathSets.tla) plus TLC-sampled deeper ASTs; distinct = expression shapes after erasing literals",
        samples=samples, families=fams, random_vectors=nrand, listings_outside_vocabulary=unknown_listings, program_shape_only=len(shape_only), trace_events=events, repo_expressions=nh,
        exhaustive=True,
        explanation="TLC explored every AST of the families on the machine spec (states/transitions), generated one vector per AST; "
                    "every vector was replayed on the real compiler and machine and every run's per-instruction trace validated by XPathTrace")
    return ctx.finish(cov, [
        "data tree is the harness's recording mock (value = deterministic function of the request)",
        "numbers judged exactly on the dyadic/power-of-ten subdomain and IEEE specials; inexact results are unjudged (tainted)",
        "results compared through GetBoolResult/GetNumResult/GetLiteralResult with default contexts (NewCtxFromCurrent)",
    ])


PROPS = {"C01": run, "C02": run, "C03": run, "C05": run}

# ---- MANIFEST entries (read by bin/mkmanifest) ----
XP = ("TLA+ spec XPathValues/XPathAst/XPathMachine: TLC exhaustive model (machine = XPath meaning), TLC-generated behaviours "
      "replayed on the real compiler/machine, per-instruction traces of every run validated by XPathTrace")
MANIFEST = {
 "C01": dict(text="TLC checks on every AST of the bounded families that the stack machine computes the XPath 1.0 value written from the "
             "Recommendation (XPathValues.tla); every AST becomes a vector replayed on expr.NewExprMachine + Run and compared under the three "
             "result accessors, and the hook trace of every run (state after each instruction) is validated step by step, so a wrong "
             "operator, conversion or function is attributed to its instruction and operand classes. Deeper expressions are sampled by TLC "
             "(RandomElement, seeded) and judged by the same oracle.",
             note="number model exact on dyadic rationals, powers of ten and IEEE specials; inexact IEEE results are unjudged; data tree is the harness mock; "
                  "a node-set against a boolean is judged through boolean(node-set) where that and the member-wise reading of the statement agree (non-empty set without empty members), unjudged otherwise", design="4 C01", technique=XP),
 "C02": dict(text="The spec gives, for every supported location path (absolute/relative/current()/deref(), up-steps, predicates in every order, "
             "nested operand paths), the exact sequence of data-tree requests XPath designates; TLC proves the fork's two-stack mechanism "
             "(path stack, predicate key stack, both counters) issues exactly those on the bounded families; the real machine is replayed on a recording "
             "tree and its per-instruction path-stack states are validated against the spec.",
             note="forms outside the statement (positional predicates, unions, relative operand paths starting with a name, wildcards) are not generated", design="4 C02", technique=XP),
 "C03": dict(text="For every chain of two and three binary operators (all 13x13 and 13^3 mixes, all tree shapes), unary minus at every operand "
             "position and mixed operand kinds, the spec renders the AST with minimal and with full parentheses and three whitespace styles; the real "
             "compiler must produce the identical program for all renderings (compared with each other) and the program Compile(ast) prescribes; results equal.",
             note="whitespace is inserted only at token boundaries of the XPath token grammar", design="4 C03", technique=XP),
 "C05": dict(text="TLC checks value-xor-error and fault faithfulness on the machine spec with every data-tree callback position failing; the real "
             "machine is run with the k-th callback of the mock tree failing, for every k of every vector, and the trace validator requires the run to end "
             "at the failing instruction with that error and no value. Totality: every character string to a bounded length over 25 character classes "
             "(incl. invalid UTF-8, unterminated literals, stray characters) and every token sequence enumerated by XPathGrammarGen is fed to all three grammars "
             "(expr, path_eval, leafref) under a panic trap: machine xor error, the error quotes the expression and marks a split position; every machine built is run on a nil "
             "context, the mock tree and a failing tree: value xor error, no panic. Custom functions that panic, lack a default value or cannot run (XPathFuncs.tla behaviours replayed by xp funcs) must end in a value or an error.",
             note="an error whose text still contains the tree's error counts as carrying it (Deref re-wraps FollowLeafRef errors)", design="4 C05", technique=XP),
}
