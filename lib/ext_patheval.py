"""X-patheval: the third XPath grammar (xpath/grammars/path_eval), the program it builds and what running it
does, what compile.go makes of it, and the xutils path / warning / node-reference helpers.

Pipeline (TLC three ways, as in fam_xpath):
  1. PathEvalMC      exhaustive model: on every AST of the families the listing PathEvalCompile prescribes tests
                     exactly the location paths outside predicates, once each, in source order; the intended machine
                     computes the meaning; the fork's machine is what the module header says (F1-F5).
  2. PathEvalGen     behaviour generator: per AST the text, the prescribed listing, the behaviours (state after each
                     instruction), the outcome on the schema tree, the compile.go outcome per holder node.
     pe replay       replays every vector on path_eval.NewPathEvalMachine (listing, three renderings), on
                     NewCtxFromCurrent (hook events against the behaviour), on NewCtxFromMach over the real schema
                     tree, and through compile.CompileModulesWithWarnings.
  3. PathEvalUtilGen enumerates path strings / filters / warnings / node references with the results PathEvalUtil
                     prescribes (and checks mechanism against meaning while doing so);  pe utils  compares xutils.
"""
import json, os, re, concurrent.futures as cf
from vlib import Infra, log, read_ndjson

PROFILE = {
    # families of XPathSets (4 scalars+leaves, 11-13 paths, 14 path expressions, 15 operator chains, 17 mixed operands,
    # 18 keyed paths after comparisons, 19 unions, 20 path values), TLC-sampled deeper ASTs, token bound of the string enumeration
    "quick": dict(fams=[4, 11, 14, 19], mc=[4, 11, 14, 19], rand=300, toks=3, wf=2, use_every=3),
    "thorough": dict(fams=[4, 11, 12, 13, 14, 15, 17, 18, 19, 20], mc=[4, 11, 12, 13, 14, 17, 18, 19, 20], rand=6000, toks=4, wf=3, use_every=2),
}


def set_lit(xs):
    return "{" + ", ".join(str(x) for x in xs) + "}"


def run(ctx):
    prof = PROFILE[ctx.tier]
    fams = prof["fams"]
    if os.environ.get("VERIF_FAMS"):
        fams = [int(x) for x in os.environ["VERIF_FAMS"].split(",")]
    ctx.build(["pe"])

    # 3 (started first, runs beside 1 and 2): the xutils inputs
    pool = cf.ThreadPoolExecutor(max_workers=1)
    ufut = pool.submit(ctx.tlc, "PathEvalUtilGen", "PathEvalUtilGen.cfg", workers=6, timeout=1500, heap="3g", consts={"MaxToks": prof["toks"], "WfMax": prof["wf"]})

    # 1. exhaustive model
    ctx.tlc("PathEvalMC", "PathEvalMC.cfg", workers=8, timeout=1500, heap="3g", consts={"Fams": set_lit(prof["mc"])})

    # 2. behaviours, replayed
    g = ctx.tlc("PathEvalGen", "PathEvalGen.cfg", workers=8, timeout=1500, heap="2500m",
                consts={"Fams": set_lit(fams), "NRand": 0})
    g2 = ctx.tlc("PathEvalGen", "PathEvalGen.cfg", workers=1, timeout=1500, heap="2g",
                 consts={"Fams": "{100}", "NRand": prof["rand"], "RandKind": '"path"', "NChunks": 1}, extra=["-seed", str(ctx.seed)])
    vecs = sorted(os.path.join(d["dir"], f) for d in (g, g2) for f in os.listdir(d["dir"]) if re.match(r"pvec_\d+_\d+\.ndjson$", f))
    if not vecs:
        raise Infra("generator produced no vectors")
    res = ctx.path("pres.ndjson")
    r = ctx.run_bin("pe", ["replay", "-out", res, "-use-every", str(prof["use_every"])] + vecs, timeout=1500)
    rstats = json.loads(r.stdout.strip().splitlines()[-1])
    if rstats["listings_outside_vocabulary"]:
        log(f"note: {rstats['listings_outside_vocabulary']} listings use instruction names outside PathEval's vocabulary (reworded debug text?): "
            "those machines are judged by their runs and by compile.go's outcome only")
    ctx.traces += rstats["runs"]
    samples = []
    for o in read_ndjson(res):
        for m in o["mism"]:
            sig = dict(site=m["site"], kind=re.sub(r"@.*", "", m["kind"]), **{"as": m["as"]})
            ctx.disagree(sig, f"{m['site']} {m['kind']}: code differs from the specification on {o['expr']!r}"
                              + (f" (equals the fork mechanism {m['as']})" if m["as"] else ""),
                         dict(kind="replay", expr=o["expr"], site=m["site"], what=m["kind"], want=m["want"], got=m["got"],
                              how="pe probe '<expr>' (harness/cmd/pe); vector from PathEvalGen.tla"))
    for f in vecs[:3]:
        with open(f) as fh:
            for i, line in enumerate(fh):
                if i == 5:
                    j = json.loads(line)
                    samples.append(dict(expr=j["expr"], listing=[x["i"] + (":" + x["s"] if x["s"] else "") for x in j["prog"]]))
                    break

    # 3. xutils helpers
    u = ufut.result()
    uvecs = sorted(os.path.join(u["dir"], f) for f in os.listdir(u["dir"]) if re.match(r"uvec_\w+_\d+\.ndjson$", f))
    if not uvecs:
        raise Infra("utility generator produced no vectors")
    ures = ctx.path("ures.ndjson")
    r2 = ctx.run_bin("pe", ["utils", "-out", ures] + uvecs, timeout=1500)
    ustats = json.loads(r2.stdout.strip().splitlines()[-1])
    for m in read_ndjson(ures):
        sig = dict(site="xutils", kind=m["op"], **{"as": m["as"]})
        ctx.disagree(sig, f"xutils {m['op']}: code differs from the specification on {json.dumps(m['in'])[:120]}"
                          + (f" (equals the mechanism oddity {m['as']})" if m["as"] else ""),
                     dict(kind="utils", op=m["op"], input=m["in"], want=m["want"], got=m["got"], how="pe utils on the vector from PathEvalUtilGen.tla"))
    nutil = sum(v for k, v in ustats.items() if k in ("abs", "filter", "warn", "np", "ref"))
    cov = dict(
        evaluations=rstats["vectors"] + nutil, distinct_nontrivial=rstats["listings_compared"] + ustats.get("abs-judged-by-meaning", 0),
        rule="vectors = all ASTs of the listed XPathSets families + TLC-sampled deeper path expressions; utility inputs = all token "
             "sequences to the bound over an 11-token alphabet x 4 current paths, longer well-formed expressions, all filter/target "
             "pairs, a warning pool, all (start node, reference) pairs of two data trees",
        samples=samples, families=fams, random_vectors=prof["rand"], replay=rstats, utils=ustats, exhaustive=True,
        explanation="TLC explored every AST of the families on the machine specification (states), generated one vector per AST and "
                    "per utility input; every vector was replayed on the real grammar, machine, compiler and helpers")
    return ctx.finish(cov, [
        "prefix map of the harness: '', p, q; the schema tree of the runs and of the compile.go stage is SchemaPaths of PathEval.tla",
        "RefNPContainer and ValidPath entries are not counted (compile.go stage compares the bag of the other warning kinds)",
        "expressions with characters that need YANG string escaping are not sent through the compile.go stage",
    ])


EXT = {"X-patheval": run}
DOC = {"X-patheval": dict(
    title="path_eval grammar, its machine, its use by the compiler, and the xutils path/warning/node-reference helpers",
    covers="xpath/grammars/path_eval (path_eval.y, path_eval_lexer.go), xpath/program.go (CodeEvalLocPathExists, StorePathEval, "
           "EvalLocPathExists, CodePathOper/CodeNameTest/CodePredStartIgnore as used by this grammar), xpath/context.go (Run on both "
           "kinds of context), compile/compile.go (BuildWhens, BuildMusts, createPathEvalMachine, nodePathEvaluate, runPathEval, "
           "addWarnings, checkIfNodeIsNPContWithoutDefaults), xpath/xutils/path_type.go, node_ref.go, warning.go",
    spec=["PathEval", "PathEvalMC", "PathEvalGen", "PathEvalUtil", "PathEvalUtilGen"],
    binding="TLC-generated vectors replayed by harness/cmd/pe: listing of NewPathEvalMachine (three renderings), hook events of every "
            "run against the model's behaviour, runs over the real schema tree, CompileModulesWithWarnings per holder node, "
            "and every xutils helper on enumerated inputs",
    not_judged="text of error and warning messages, RefNPContainer warnings, configd:must extension machines, non-ASCII names, "
               "NewNodeRef(n>0), XFilter/XTarget accessors beyond MatchFilter")}
