"""C06: compiled machines are immutable and safe under concurrency.

XPathConc.tla: compilers (function lookups under the global mutex with the lazy
one-time plugin load) and runners (one instruction per step on private state, the
machine shared).  TLC (i) checks mutual exclusion, load-once-before-read, deadlock
freedom and "every run returns its isolated result" over all interleavings of a
small configuration, (ii) produces interleavings (-simulate, seeded) that the
harness replays step by step on real goroutines gated at the verif trace points,
under the Go race detector; every runner's instruction-level trace is validated by
XPathTrace (the same machine spec as C01/C02), results are compared with the
isolated ones before and after (history independence), and a compiler that is
scheduled while another goroutine is inside the critical section must stay out.
(iii) A free-running stress run under the race detector is judged by the same
sequential oracle and by the lookup sequence numbers taken under the mutex.
"""
import json, os, re, subprocess
from vlib import Infra, log, read_ndjson
import fam_xpath


def prove(ctx, module):
    """tlapm on spec/<module>.tla in a scratch copy; all obligations must be proved (a spec-level matter, not a code verdict)."""
    import shutil, time
    from vlib import SPEC
    d = ctx.path("tlapm-" + module, "x")
    d = os.path.dirname(d)
    for f in (module + ".tla",):
        shutil.copy(os.path.join(SPEC, f), d)
    t = time.time()
    try:
        r = subprocess.run(["tlapm", "--threads", "12", "--cleanfp", module + ".tla"], cwd=d, capture_output=True, text=True, timeout=900)
    except (subprocess.TimeoutExpired, FileNotFoundError) as e:
        raise Infra(f"tlapm on {module}: {e}")
    out = r.stdout + r.stderr
    m = re.search(r"All (\d+) obligations? proved", out)
    if r.returncode != 0 or not m:
        raise Infra(f"tlapm did not prove {module} (spec-level problem, not a code verdict):\n" + out[-2000:])
    log(f"tlapm {module}: {m.group(1)} obligations proved {time.time()-t:.1f}s")
    return dict(module=module, obligations=int(m.group(1)), wall_s=round(time.time() - t, 1))


def run(ctx):
    ctx.build(["xp"], race=True)
    quick = ctx.quick()
    # (i) exhaustive interleavings of small configurations
    ctx.tlc("XPathConc", "XPathConc_MC.cfg", workers=10, timeout=1800, heap="8g", consts={"Comps": "{1, 2}", "Runs": "{3}"})
    ctx.tlc("XPathConc", "XPathConc_MC.cfg", workers=10, timeout=1800, heap="8g",
            consts={"Comps": "{1}", "Runs": "{2, 3}"} if quick else {"Comps": "{1, 2}", "Runs": "{3, 4}"})
    # the lock protocol for any number of compilers and lookups: LockProto.tla, inductive invariant proved by TLAPS;
    # XPathConc refines it (PROPERTY RefinesLockProto in XPathConc_MC.cfg, checked by the two TLC runs above)
    proof = prove(ctx, "LockProto")
    # (ii) schedules from TLC, replayed on real goroutines
    nsched = 300 if quick else 4000
    files = []
    for cfgc in ({"Comps": "{1, 2}", "Runs": "{3, 4}"}, {"Comps": "{1, 2, 3}", "Runs": "{4}"}, {"Comps": "{1}", "Runs": "{2, 3, 4}"}):
        r = ctx.tlc("XPathConc", "XPathConc_Sim.cfg", workers=1, timeout=1800, heap="4g", consts=cfgc,
                    simulate=f"num={nsched // 3}", extra=["-depth", "200", "-seed", str(ctx.seed)])
        p = ctx.path(f"sched_{len(files)}.ndjson")
        n = 0
        with open(p, "w") as f:
            for l in r["out"].splitlines():
                if l.startswith('"SCHEDJSON '):
                    f.write(json.loads(l)[len("SCHEDJSON "):] + "\n")
                    n += 1
        if n == 0:
            raise Infra("TLC simulation produced no complete schedule")
        files.append(p)
    allsched = ctx.path("sched.ndjson")
    with open(allsched, "w") as f:
        for p in files:
            f.write(open(p).read())
    cres, ctrace = ctx.path("cres.ndjson"), ctx.path("ctrace.ndjson")
    r = ctx.run_bin("xp-race", ["conc", "-sched", allsched, "-out", cres, "-trace", ctrace], timeout=1800, check=False)
    races = r.stderr.count("WARNING: DATA RACE")
    fatal1 = re.search(r"fatal error: concurrent map[^\n]*", r.stderr)
    if fatal1:
        i = r.stderr.find("fatal error: concurrent map")
        ctx.disagree(dict(site="race-detector", phase="schedule-replay-fatal"), "the Go runtime aborted the schedule replay: " + fatal1.group(0),
                     dict(kind="race", report=r.stderr[i:i + 3000]))
        cstats, viol = dict(aborted=fatal1.group(0), steps=0, schedules=0), []
    elif r.returncode not in (0, 66) or not r.stdout.strip():
        raise Infra(f"xp conc failed rc={r.returncode}:\n{r.stderr[-3000:]}")
    else:
        cstats = json.loads(r.stdout.strip().splitlines()[-1])
        viol = read_ndjson(cres)
    # runner traces against the machine spec
    fails, runs, events = fam_xpath.validate_traces(ctx, ctrace, 6)
    ctx.traces += runs
    # history independence on the path families: every machine of the generated vectors is run on the
    # mock tree, then on a variant tree with different values, then on the first tree again (xp replay, kind "history")
    g = ctx.tlc("XPathGen", "XPathGen.cfg", workers=10, timeout=1800, heap="8g",
                consts={"Fams": "{12, 14, 18}" if quick else "{11, 12, 13, 14, 18}", "NRand": 0, "RandKind": '"path"'})
    hvecs = sorted(os.path.join(g["dir"], f) for f in os.listdir(g["dir"]) if re.match(r"vec_\d+_\d+\.ndjson$", f))
    hres = ctx.path("hres.ndjson")
    rh = ctx.run_bin("xp-race", ["replay", "-late", "20" if quick else "5", "-out", hres] + hvecs, timeout=1800, check=False)
    if rh.returncode not in (0, 66):
        raise Infra(f"xp replay (history) failed rc={rh.returncode}:\n{rh.stderr[-3000:]}")
    hraces = rh.stderr.count("WARNING: DATA RACE")
    if hraces:
        i = rh.stderr.find("WARNING: DATA RACE")
        ctx.disagree(dict(site="race-detector", phase="history-replay"), "data race reported while machines were run with the caller's context cancelled inside a callback",
                     dict(kind="race", report=rh.stderr[i:i + 3000]))
    nhist = 0
    for o in read_ndjson(hres):
        nhist += 1
        for m in o["mism"]:
            if m["kind"] in ("late-call", "late-result"):
                ctx.disagree(dict(site="concurrency", what="run-" + m["kind"]), f"{o['expr']!r}: the run is not over when Run returns ({m['got']})",
                             dict(kind=m["kind"], expr=o["expr"], want=m["want"], got=m["got"]))
            if m["kind"] == "history":
                ctx.disagree(dict(site="concurrency", what="run-history"), f"a later run of {o['expr']!r} on the same tree differs from the first one after a run on another tree",
                             dict(kind="history", expr=o["expr"], first=m["want"], later=m["got"]))
    # histories across machines: the scalar function families (incl. argument tuples that coincide under concatenation) are
    # replayed by two processes, one in the order of generation and one in reverse; a machine's first result may not depend on
    # which other machines ran before it in the process
    g2 = ctx.tlc("XPathGen", "XPathGen.cfg", workers=10, timeout=1800, heap="8g",
                 consts={"Fams": "{6, 22}" if quick else "{5, 6, 22}", "NRand": 0, "RandKind": '"scalar"'})
    svecs = sorted(os.path.join(g2["dir"], f) for f in os.listdir(g2["dir"]) if re.match(r"vec_\d+_\d+\.ndjson$", f))
    fwd, rev = ctx.path("ofwd.ndjson"), ctx.path("orev.ndjson")
    ctx.run_bin("xp-race", ["replay", "-results", "-out", fwd] + svecs, timeout=1800)
    ctx.run_bin("xp-race", ["replay", "-results", "-reverse", "-out", rev] + svecs, timeout=1800)
    first = {o["expr"]: o.get("res", "") for o in read_ndjson(fwd)}
    norder = 0
    for o in read_ndjson(rev):
        norder += 1
        if o["expr"] in first and first[o["expr"]] != o.get("res", ""):
            ctx.disagree(dict(site="concurrency", what="run-history-order"),
                         f"the first run of {o['expr']!r} gives a different result when other machines ran before it in the process",
                         dict(kind="history-order", expr=o["expr"], after_generation_order=first[o["expr"]], after_reverse_order=o.get("res", "")))
    # histories of registrations: machines compiled earlier keep their symbols whatever is registered later
    import fam_xfuncs
    ftab = fam_xfuncs.stage(ctx, "C06", binary="xp-race")
    # (iii) free-running stress under the race detector
    sres = ctx.path("sres.ndjson")
    r2 = ctx.run_bin("xp-race", ["stress", "-g", "16", "-n", "400" if quick else "5000", "-out", sres], timeout=1800, check=False)
    races2 = r2.stderr.count("WARNING: DATA RACE")
    fatal2 = re.search(r"fatal error: concurrent map[^\n]*", r2.stderr)
    if fatal2:
        # the Go runtime stopped the process: unsynchronised access to a map shared by the goroutines of the real code
        i = r2.stderr.find("fatal error: concurrent map")
        ctx.disagree(dict(site="race-detector", phase="stress-fatal"), "the Go runtime aborted the stress run: " + fatal2.group(0),
                     dict(kind="race", report=r2.stderr[i:i + 3000]))
        sstats = dict(aborted=fatal2.group(0))
    elif r2.returncode not in (0, 66) or not r2.stdout.strip():
        raise Infra(f"xp stress failed rc={r2.returncode}:\n{r2.stderr[-3000:]}")
    else:
        sstats = json.loads(r2.stdout.strip().splitlines()[-1])
        viol += read_ndjson(sres)

    for v in viol:
        ctx.disagree(dict(site="concurrency", what=v["sig"]), v["what"],
                     dict(kind="schedule", schedule=v["sched"], step=v["step"], detail=v["detail"],
                          how="xp conc -sched <schedules of this run> (seed %d); schedule index and step as given" % ctx.seed))
    for f in fails:
        sig = fam_xpath.fail_sig(f)
        sig["site"] = "concurrent-" + sig["site"]
        # known C01 findings about leaf-list string values also show here; they are not concurrency defects
        if "multi" in sig["args"] and f["instr"] == "bltin":
            continue
        ctx.disagree(sig, f"a runner's trace was rejected at {f['site']} {f['instr']} {f['fn']} ({f['what']}) under a concurrent schedule",
                     dict(kind="trace", failure=f))
    def first_race(text):
        i = text.find("WARNING: DATA RACE")
        return text[i:i + 2500]
    if races:
        ctx.disagree(dict(site="race-detector", phase="schedule-replay"), "the Go race detector reported a data race during schedule replay",
                     dict(kind="race", report=first_race(r.stderr)))
    if races2:
        ctx.disagree(dict(site="race-detector", phase="stress"), "the Go race detector reported a data race during the stress run",
                     dict(kind="race", report=first_race(r2.stderr)))
    samples = []
    with open(allsched) as fh:
        for i, line in enumerate(fh):
            if i in (0, 5):
                j = json.loads(line)
                samples.append(dict(compilers=j["comps"], runners=j["runs"], schedule=[f"{s['a']}({s['p']})" for s in j["steps"]][:40]))
    cov = dict(evaluations=cstats["steps"], distinct_nontrivial=cstats["schedules"],
               rule="schedules = complete behaviours of XPathConc.tla sampled by TLC -simulate (seeded), each replayed step by step on gated goroutines; "
                    "distinct = schedules (TLC's sampling does not repeat a behaviour with noticeable probability; not deduplicated)",
               samples=samples, schedule_replay=cstats, history_vectors=nhist, order_history_vectors=norder, function_table=ftab, lock_protocol_proof=proof, stress=sstats, trace_events=events,
               race_reports=races + races2, exhaustive=False,
               explanation="exhaustive interleavings of two small configurations on the spec (states/transitions), sampled interleavings replayed on real goroutines under -race")
    return ctx.finish(cov, [
        "the Go race detector is a trusted observer of memory-level races (outside TLA+)",
        "a compiler scheduled against a held mutex is given 3 ms to (wrongly) enter; a correct implementation can never be flagged by this probe",
        "plugin loading finds no plugins in this sandbox; load-once is observed through pluginsLoaded as seen under the mutex",
    ])


PROPS = {"C06": run}
MANIFEST = {
 "C06": dict(text="XPathConc.tla models compilations (function lookup under the global mutex with the lazy one-time plugin load, split at the three trace "
             "points) running concurrently with runs of shared machines on private contexts. TLC checks mutual exclusion, load-once-before-read, deadlock "
             "freedom, interleaving-independent results and refinement of LockProto.tla (the lock protocol alone, whose mutual exclusion / load-once / read-after-load are proved for any number of compilers by TLAPS from an inductive invariant) on all interleavings of small configurations, and samples complete interleavings that the harness "
             "executes step by step on real goroutines gated at the hooks, built with -race: per-instruction runner states are validated by the machine "
             "spec, results compared with isolated runs before and after, and a compiler scheduled against a held mutex must stay out. A 16-goroutine "
             "free-running stress run is judged by the same oracle. Histories of function registrations between compilations and runs (XPathFuncs.tla: machines keep the symbols they were compiled with) are sampled by TLC and replayed.",
             note="memory-level races are observed by the Go race detector (trusted); schedules are sampled, not exhaustive, on the real code",
             design="4 C06", technique="TLA+ specification of the lock protocol and runs, TLC exhaustive + simulated schedules replayed on gated goroutines under the race detector, trace validation"),
}
