"""Extension module X-validate-xpath: the when / must / leafref part of data validation
(schema/validate.go) and the adapter that presents a data tree to XPath (schema/xpath_adapter.go,
node_xpath.go) - behaviour that no listed property decides (C18 judges the structural part only).

  spec/ValidateXPath.tla        strings (natural order), schema records and their elaboration, the adapter
                                view, the validator as a transition system (StepWith), the intended meaning
  spec/ValidateXPathShapes.tla  13 schema shapes, enumeration of their data trees, seeded re-decoration,
                                the adapter / schema views written for the replay
  spec/ValidateXPathMC.tla      TLC: mechanism = meaning (bag of errors), RFC part, when stops must, visit
                                order, adapter laws, termination; ValidateXPathCache.cfg: the leafref cache
                                is sound; ValidateXPathHazard.cfg: caching everything is not (TLC must object)
  spec/ValidateXPathGen.tla     TLC writes schemas, per data tree and validation type the prescribed error
                                list, the adapter view, the schema view
  harness/cmd/vx                replays them on schema.ValidateSchema / SchemaValidator.Validate,
                                schema.ConvertToXpathNode and schema.NewXNode over really compiled YANG

Every replay stage has a binding self-test: a perturbed expectation must be reported, otherwise exit 2."""
import copy, json, os, re, concurrent.futures as cf
from vlib import Infra, log, read_ndjson, write_ndjson

NSHAPES = 13
BASE = list(range(1, NSHAPES + 1))
STATE_SHAPES = [4, 13]
# measured state counts of the exhaustive model per shape (MaxEntries 2, MaxLL 2), for load balancing
MC_WEIGHT = {1: 2357, 2: 31469, 3: 3397, 4: 21191, 5: 464, 6: 19481, 7: 4953, 8: 25509, 9: 1925, 10: 3289, 11: 15182, 12: 2589, 13: 301}
GEN_WEIGHT = {1: 57, 2: 472, 3: 85, 4: 320, 5: 20, 6: 250, 7: 145, 8: 343, 9: 50, 10: 100, 11: 273, 12: 73, 13: 30}


def set_lit(xs):
    return "{" + ", ".join(str(x) for x in xs) + "}"


def last_json(r):
    lines = [l for l in r.stdout.strip().splitlines() if l.startswith("{")]
    if not lines:
        raise Infra("harness printed no summary:\n" + r.stderr[-2000:])
    return json.loads(lines[-1])


def law_violations(out):
    return sorted(set(re.findall(r'"LAW VIOLATED",\s*"([^"]+)"', out)))


def groups(items, weight, k):
    """k groups of about equal weight (greedy, heaviest first)."""
    gs = [[0, []] for _ in range(k)]
    for it in sorted(items, key=lambda i: -weight(i)):
        g = min(gs, key=lambda g: g[0])
        g[0] += weight(it)
        g[1].append(it)
    return [sorted(g[1]) for g in gs if g[1]]


def mc(ctx, cfg, consts, timeout, workers=2):
    r = ctx.tlc("ValidateXPathMC", cfg, workers=workers, timeout=timeout, heap="3g", consts=consts, expect_ok=False)
    if not r["ok"]:
        raise Infra(f"ValidateXPathMC/{cfg} {consts.get('Shapes')}: TLC reports a problem of the specification itself "
                    f"(laws violated: {law_violations(r['out'])}):\n" + r["out"][-1500:])
    return r


def hazard(ctx, timeout):
    """Caching every leafref result must be found unsound by TLC (the invariant is not vacuous)."""
    r = ctx.tlc("ValidateXPathMC", "ValidateXPathHazard.cfg", workers=2, timeout=timeout, heap="2g", expect_ok=False)
    if r["ok"] or "CacheSound" not in law_violations(r["out"]):
        raise Infra("ValidateXPathHazard: TLC did not object to caching every leafref result:\n" + r["out"][-1500:])
    return r


def run(ctx):
    ctx.build(["vx"])
    q = ctx.quick()
    nrand = 3 if q else 39
    rand_ids = [101 + ((ctx.seed * 7 + i * 5) % NSHAPES) + NSHAPES * i for i in range(nrand)] if q else [101 + i for i in range(nrand)]
    ml = 2 if q else 3
    wide = [] if q else [3, 12]
    mc_shapes = [s for s in BASE if not (q and s in (8, 11))]          # quick: the two heaviest shapes are left to the thorough tier
    mc_consts = dict(MaxEntries=3, Wide=set_lit(wide), MaxLL=1 if q else 3, StateShapes=set_lit(STATE_SHAPES))
    gen_consts = dict(MaxEntries=3, Wide=set_lit(wide), MaxLL=ml, StateShapes=set_lit(STATE_SHAPES))
    tmo = 600 if q else 1500

    def gen(shapes):
        r = ctx.tlc("ValidateXPathGen", "ValidateXPathGen.cfg", workers=2, timeout=tmo, heap="3g",
                    consts=dict(gen_consts, Shapes=set_lit(shapes)), extra=["-seed", str(ctx.seed)])
        for s in shapes:
            for pre in ("vxs", "vxv", "vxa", "vxw"):
                if not os.path.exists(os.path.join(r["dir"], f"{pre}_{s}.ndjson")):
                    raise Infra(f"ValidateXPathGen did not write {pre}_{s}.ndjson")
        return {s: r["dir"] for s in shapes}

    def files(dirs, pre):
        out = []
        for s in sorted(dirs):
            out += [os.path.join(dirs[s], f"vxs_{s}.ndjson"), os.path.join(dirs[s], f"{pre}_{s}.ndjson")]
        return out

    def replay(dirs):
        res = ctx.path("res_replay.ndjson")
        stat = last_json(ctx.run_bin("vx", ["replay", "-out", res] + files(dirs, "vxv"), timeout=600))
        # self-test: vectors that prescribe errors, with one of them moved to another path, must be reported
        s0 = sorted(dirs)[0]
        vs = [v for v in read_ndjson(os.path.join(dirs[s0], f"vxv_{s0}.ndjson")) if v["code"] and v["vt"] == "all"][:3]
        if not vs:
            raise Infra("self-test: no vector with errors")
        for v in vs:
            v["code"][0]["path"] = v["code"][0]["path"] + ["no-such-node"]
            v["errs"] = v["code"]
        stv, sto = ctx.path("selftest", "vxv.ndjson"), ctx.path("selftest", "res_replay.ndjson")
        write_ndjson(stv, vs)
        st = last_json(ctx.run_bin("vx", ["replay", "-out", sto, os.path.join(dirs[s0], f"vxs_{s0}.ndjson"), stv], timeout=120))
        if st["mismatches"] < len(vs):
            raise Infra("self-test: vx replay accepted a perturbed expectation")
        return stat, read_ndjson(res)

    def adapter(dirs):
        res = ctx.path("res_adapter.ndjson")
        stat = last_json(ctx.run_bin("vx", ["adapter", "-out", res] + files(dirs, "vxa"), timeout=600))
        # self-test: a view whose sorted children are reversed somewhere must be reported
        s0 = 2 if 2 in dirs else sorted(dirs)[0]
        def rev(v):
            if len(v["kids"]) > 1 and v["kids"][0]["n"] + "=" + v["kids"][0]["v"] != v["kids"][-1]["n"] + "=" + v["kids"][-1]["v"]:
                v["kids"].reverse()
                return True
            return any(rev(k) for k in v["kids"])
        vs = []
        for v in read_ndjson(os.path.join(dirs[s0], f"vxa_{s0}.ndjson")):
            if rev(v["view"]):
                vs.append(v)
            if len(vs) == 3:
                break
        if not vs:
            raise Infra("self-test: no view with two children")
        stv, sto = ctx.path("selftest", "vxa.ndjson"), ctx.path("selftest", "res_adapter.ndjson")
        write_ndjson(stv, vs)
        st = last_json(ctx.run_bin("vx", ["adapter", "-out", sto, os.path.join(dirs[s0], f"vxs_{s0}.ndjson"), stv], timeout=120))
        if st["mismatches"] < len(vs):
            raise Infra("self-test: vx adapter accepted a perturbed view")
        return stat, read_ndjson(res)

    def xnode(dirs):
        res = ctx.path("res_xnode.ndjson")
        stat = last_json(ctx.run_bin("vx", ["xnode", "-out", res] + files(dirs, "vxw"), timeout=300))
        s0 = sorted(dirs)[0]
        v = read_ndjson(os.path.join(dirs[s0], f"vxw_{s0}.ndjson"))[0]
        v["kids"][0]["n"] = "no-such-node"
        stv, sto = ctx.path("selftest", "vxw.ndjson"), ctx.path("selftest", "res_xnode.ndjson")
        write_ndjson(stv, [v])
        st = last_json(ctx.run_bin("vx", ["xnode", "-out", sto, os.path.join(dirs[s0], f"vxs_{s0}.ndjson"), stv], timeout=120))
        if st["mismatches"] < 1:
            raise Infra("self-test: vx xnode accepted a perturbed schema view")
        return stat, read_ndjson(res)

    all_ids = BASE + rand_ids
    ggroups = groups(all_ids, lambda s: GEN_WEIGHT[(s - 101) % NSHAPES + 1 if s > 100 else s] * (3 if (s in (2,) and not q) else 1), 4 if q else 6)
    mgroups = groups(mc_shapes, lambda s: MC_WEIGHT[s], 5 if q else 6)
    with cf.ThreadPoolExecutor(max_workers=16) as ex:
        fgen = [ex.submit(gen, g) for g in ggroups]
        fmc = [ex.submit(mc, ctx, "ValidateXPathMC.cfg", dict(mc_consts, Shapes=set_lit(g)), tmo) for g in mgroups]
        fcache = ex.submit(mc, ctx, "ValidateXPathCache.cfg", dict(Shapes=set_lit([7, 14] if q else [7, 11, 14])), tmo)
        fhaz = ex.submit(hazard, ctx, tmo)
        dirs = {}
        for f in fgen:
            dirs.update(f.result())
        f1, f2, f3 = ex.submit(replay, dirs), ex.submit(adapter, dirs), ex.submit(xnode, dirs)
        rstat, rrecs = f1.result()
        astat, arecs = f2.result()
        xstat, xrecs = f3.result()
        for f in fmc:
            f.result()
        fcache.result()
        fhaz.result()

    how = f"bin/extra X-validate-xpath --tier {ctx.tier} --seed {ctx.seed}"
    for m in rrecs:
        if m["kind"] == "finding":
            sig = dict(site="replay", cause=m["cause"])
            ctx.disagree(sig, f"shape {m['shape']}, validation type {m['vt']}: the code shows oddity {m['cause']}",
                         dict(kind="replay", shape=m["shape"], api=m["api"], vt=m["vt"], data=m["d"], code_reports=m["got"], rfc_reading=m.get("rfc", []),
                              ignored_case_whens=m.get("cw", []), how=how + f"; vx probe vxs_{m['shape']}.ndjson '<data json>' {m['vt']}"))
            continue
        d = m["diff"]
        sig = dict(site="replay", cause="other", api=m["api"], vt=m["vt"], what=d["what"], src=d.get("src", ""))
        ctx.disagree(sig, f"shape {m['shape']}, {m['api']} / validation type {m['vt']}: {m['text']}",
                     dict(kind="replay", shape=m["shape"], api=m["api"], vt=m["vt"], data=m["d"], diff=d, want=m["want"], got=m["got"],
                          how=how + f"; vx probe vxs_{m['shape']}.ndjson '<data json>' {m['vt']}"))
    for m in arecs:
        mm = m["m"]
        flt = mm.get("flt") or {}
        sig = dict(site="adapter", what=mm["what"], filter=("config-only" if flt.get("cfgonly") else "full") if flt else "")
        ctx.disagree(sig, f"shape {m['shape']}, adapter node {mm['at']}: {mm['what']} " + (f"under filter {flt} " if flt else "") + f"prescribed {mm['want']}, observed {mm['got']}",
                     dict(kind="adapter", shape=m["shape"], data=m["d"], mismatch=mm, how=how))
    for m in xrecs:
        sig = dict(site="xnode", what=m["what"])
        ctx.disagree(sig, f"shape {m['shape']}, schema walker XNode at /{m['at']}: {m['what']} prescribed {m['want']}, observed {m['got']}",
                     dict(kind="xnode", shape=m["shape"], at=m["at"], what=m["what"], want=m["want"], got=m["got"], how=how))

    samples = []
    for s in (1, 6):
        for v in read_ndjson(os.path.join(dirs[s], f"vxv_{s}.ndjson")):
            if len(v["code"]) >= 3 and v["vt"] == "all":
                samples.append(dict(shape=s, data=v["d"], vt=v["vt"], prescribed=[{k: e[k] for k in ("k", "path", "msg", "tag")} for e in v["code"]]))
                break
    nvec = sum(len(read_ndjson(os.path.join(dirs[s], f"vxv_{s}.ndjson"))) for s in dirs)
    cov = dict(evaluations=rstat["evaluations"] + astat["nodes"] + xstat["nodes"], distinct_nontrivial=rstat["with_errors"],
               rule="replay: every data tree of 13 schema shapes (and of seeded re-decorations of them) within MaxEntries list entries / MaxLL leaf-list values, "
                    "under the validation types that matter (all four where the schema has config false nodes), through SchemaValidator and ValidateSchema; "
                    "distinct = evaluations whose prescribed error list is not empty; adapter: every node of the XPath view of every such tree; "
                    "xnode: every node of every compiled schema",
               samples=samples, shapes=len(BASE), redecorated_shapes=rand_ids, vectors=nvec, replay_evaluations=rstat["evaluations"],
               errors_prescribed=rstat["errors_prescribed"], agree=rstat["agree"], oddities_shown_by_the_code=rstat["findings"],
               adapter_trees=astat["trees"], adapter_nodes=astat["nodes"], xnode_nodes=xstat["nodes"],
               bounds=dict(MaxEntries=2, wide_shapes=wide, MaxEntries_wide=3, MaxLL=ml, mc_shapes=mc_shapes, mc_MaxLL=mc_consts["MaxLL"]), exhaustive=True,
               unjudged=dict(message_of_a_machine_that_failed_to_run="any non-empty text", order_of_sibling_non_presence_containers="any",
                             order_of_XNode_children="any", name_of_the_root_node="any"),
               explanation="TLC ran the validator machine on every data tree of the shapes, branching over the order of sibling non-presence containers, and checked "
                           "its error bag against the declarative meaning (both readings of O1), when-stops-must, visit order, termination, the adapter laws and the "
                           "soundness of the leafref cache (and that caching everything is unsound); every generated tree was replayed on the real validator "
                           "(kind, path, message, app-tag, order) and on the real adapter (names, values, XPath, flags, keys, parents, children under 6 + 4 per name filters, "
                           "sorted and unsorted)")
    return ctx.finish(cov, [
        "expressions are path-free (true / false by XPathAst!Denote) or contain a location path: under xpath.NewCtxFromMach every location path fails to run "
        "(exec error at the node's path, app-tag exec-failed; the message is the Go run time's and is not prescribed)",
        "a leafref check cannot run either: one raw (non-management) error per visited leafref value; the cache model (ValidateXPathCache.cfg) is checked by TLC only",
        "schemas have no mandatory / min-elements / unique statements (C18), no non-presence container inside a case, no when on a key leaf, one module",
        "known oddities O1 (np-when-ignored) and O2 (case-when-ignored) are reported as findings when the code shows them; a validator that follows the RFC reading is accepted too",
    ])


EXT = {"X-validate-xpath": run}
DOC = {"X-validate-xpath": dict(
    title="when / must / leafref validation of a data tree and the XPath adapter over data trees",
    covers="schema/validate.go: checkWhenAndMusts, checkNPContMusts(+Internal), getUnconfiguredNPContainerChildren, checkLeafref, leafrefIsCacheable, checkMachine, "
           "skipCheck, validateSchemaWithLog (visiting order), ValidateSchema, SchemaValidator; schema/xpath_adapter.go: xdatanode (children, XChildren, XParent, XRoot, "
           "XPath, path, isKey, XListKeys, XListKeyMatches), xvaluenode, xemptyleafnode; schema/node_xpath.go: XNode",
    spec=["ValidateXPath", "ValidateXPathShapes", "ValidateXPathMC", "ValidateXPathGen"],
    binding="TLC-generated schemas (rendered to YANG, compiled by the real compiler), data trees, validation types and the prescribed error lists / adapter views are "
            "replayed by harness/cmd/vx on ValidateSchema, NewSchemaValidator(...).SetValidation(...).Validate(), ConvertToXpathNode and NewXNode",
    not_judged="expressions with location paths beyond 'fail to run'; the leafref cache and allowed-value comparison (unreachable: machines cannot run); messages of run "
               "errors; order among sibling unconfigured non-presence containers and among XNode children (map iteration); XParent / XRoot of ephemeral nodes other than "
               "through the error path; structural validation (C18)")}
