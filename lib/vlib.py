"""Common driver machinery for /verif checks.

Exit codes of a check: 0 = everything explored agreed (known findings are
printed as KNOWN-FINDING lines), 1 = violation (VIOLATION line printed),
2 = infrastructure problem (never a violation).
"""
import atexit, json, os, re, shutil, subprocess, sys, tempfile, threading, time

VERIF = os.path.dirname(os.path.dirname(os.path.abspath(__file__)))
REPO = os.environ.get("VERIF_REPO", "/repo")   # development/mutation runs may point at a scratch worktree
SPEC = os.path.join(VERIF, "spec")
HARNESS = os.path.join(VERIF, "harness")
JAVA_CP = "/opt/veriftools/tla/tla2tools.jar:/opt/veriftools/tla/CommunityModules-deps.jar"

GOENV = dict(GOTOOLCHAIN="go1.23.11", GOFLAGS="-mod=mod", GOPROXY="off")


class Infra(Exception):
    """Infrastructure failure: reported as exit 2, never as a violation."""


def goenv():
    env = dict(os.environ)
    env.update(GOENV)
    env.pop("GOSUMDB", None)
    return env


def log(*a):
    print("[check]", *a, file=sys.stderr, flush=True)


class Ctx:
    def __init__(self, prop, tier, seed, ext=False):
        self.prop, self.tier, self.seed = prop, tier, seed
        self.ext = ext            # extension module (behaviour outside the listed properties): evidence_ext/, EXT- lines
        self.t0 = time.time()
        base = "/dev/shm" if os.path.isdir("/dev/shm") and os.access("/dev/shm", os.W_OK) else "/var/tmp"
        self.scratch = tempfile.mkdtemp(prefix=f"verif-{prop}-", dir=base)
        atexit.register(self.cleanup)
        self.states = 0
        self.transitions = 0
        self.traces = 0
        self.tlc_cmds = []
        self.tlc_runs = []
        self.violations = []      # dicts: {what, replay(dict)}
        self.known_hits = {}      # finding id -> count
        self.findings = load_findings(prop)
        self.n_tlc = 0
        self.lock = threading.Lock()   # ctx.tlc may be called from several threads
        self.bins = {}
        self.notes = []

    def cleanup(self):
        if os.environ.get("VERIF_KEEP"):
            log("keeping scratch", self.scratch)
            return
        shutil.rmtree(self.scratch, ignore_errors=True)

    def path(self, *a):
        p = os.path.join(self.scratch, *a)
        os.makedirs(os.path.dirname(p), exist_ok=True)
        return p

    def quick(self):
        return self.tier == "quick"

    # ---------------------------------------------------------------- build
    def build(self, cmds, race=False):
        """Build harness commands from /repo's working tree with hooks on."""
        gy = os.path.join(VERIF, ".cache", "goyacc")
        if not os.path.exists(gy):
            r = subprocess.run(["go", "build", "-o", gy, "golang.org/x/tools/cmd/goyacc"],
                               cwd=os.path.join(VERIF, "tools", "goyacc"), env=goenv(),
                               capture_output=True, text=True)
            if r.returncode != 0:
                raise Infra("goyacc build failed: " + r.stderr[-2000:])
        gen = self.path("gen", "leafref.go")
        r = subprocess.run([gy, "-o", gen, "-p", "leafref", "-v", self.path("gen", "y.output"),
                            os.path.join(REPO, "xpath/grammars/leafref/leafref.y")],
                           capture_output=True, text=True, cwd=os.path.dirname(gen))
        if r.returncode != 0:
            raise Infra("goyacc leafref.y failed: " + (r.stdout + r.stderr)[-2000:])
        ov = self.path("gen", "overlay.json")
        target = os.path.join(REPO, "xpath/grammars/leafref/leafref.go")
        repl = {} if os.path.exists(target) else {target: gen}
        json.dump({"Replace": repl}, open(ov, "w"))
        self.overlay = ov
        modargs = []
        if REPO != "/repo":
            # same module, but the replace directive points at the scratch worktree
            mf = self.path("gen", "go.mod")
            open(mf, "w").write(open(os.path.join(HARNESS, "go.mod")).read().replace("=> /repo", "=> " + REPO))
            shutil.copy(os.path.join(HARNESS, "go.sum"), self.path("gen", "go.sum"))
            modargs = ["-modfile", mf]
        for c in cmds:
            out = self.path("bin", c + ("-race" if race else ""))
            args = ["go", "build", "-tags", "verif", "-overlay", ov, "-o", out] + modargs
            if race:
                args.append("-race")
            args.append("./cmd/" + c)
            t = time.time()
            r = subprocess.run(args, cwd=HARNESS, env=goenv(), capture_output=True, text=True)
            if r.returncode != 0:
                raise Infra(f"harness build of {c} against /repo failed:\n" + r.stderr[-4000:])
            log(f"built {c}{' (race)' if race else ''} in {time.time()-t:.1f}s")
            self.bins[c + ("-race" if race else "")] = out
        return self.bins

    def run_bin(self, name, args, timeout=600, stdin=None, check=True, env=None):
        e = dict(os.environ)
        e["VERIF_SEED"] = str(self.seed)
        if env:
            e.update(env)
        t = time.time()
        try:
            r = subprocess.run([self.bins[name]] + args, capture_output=True, text=True, timeout=timeout,
                               input=stdin, env=e, cwd=self.scratch)
        except subprocess.TimeoutExpired:
            raise Infra(f"{name} {' '.join(args)} timed out after {timeout}s")
        log(f"{name} {' '.join(args[:3])} rc={r.returncode} {time.time()-t:.1f}s")
        if check and r.returncode != 0:
            raise Infra(f"{name} {' '.join(args)} failed rc={r.returncode}:\n{r.stderr[-4000:]}")
        return r

    # ------------------------------------------------------------------ TLC
    def tlc(self, module, cfg, data=None, workers=8, timeout=600, extra=None, consts=None,
            heap=None, expect_ok=True, simulate=None, depth_first=False):
        """Run TLC on spec/<module>.tla with spec/<cfg>; data: {filename: path} copied
        next to the spec. Returns dict(generated, distinct, out, ok, dir)."""
        with self.lock:
            self.n_tlc += 1
            n_tlc = self.n_tlc
        d = self.path(f"tlc{n_tlc}-{module}", "x")
        d = os.path.dirname(d)
        for f in os.listdir(SPEC):
            if f.endswith(".tla"):
                shutil.copy(os.path.join(SPEC, f), d)
        cfgtext = open(os.path.join(SPEC, cfg)).read()
        if consts:
            for k, v in consts.items():
                cfgtext, n = re.subn(rf"(?m)^(\s*{re.escape(k)}\s*=\s*).*$", rf"\g<1>{v}", cfgtext)
                if n == 0:
                    cfgtext += f"\nCONSTANT {k} = {v}\n"
        open(os.path.join(d, cfg), "w").write(cfgtext)
        for name, src in (data or {}).items():
            if os.path.abspath(src) != os.path.join(d, name):
                shutil.copy(src, os.path.join(d, name))
        cmd = ["java", "-XX:+UseParallelGC", f"-Xmx{heap or '8g'}", "-Xss64m"]
        if depth_first:
            cmd.append("-Dtlc2.tool.queue.IStateQueue=StateDeque")
        cmd += ["-cp", JAVA_CP, "tlc2.TLC", "-workers", str(workers), "-metadir", os.path.join(d, "meta"),
                "-config", cfg, "-noGenerateSpecTE"]
        if simulate:
            cmd += ["-simulate", simulate]
        cmd += (extra or []) + [module + ".tla"]
        with self.lock:
            self.tlc_cmds.append("cd spec && tlc " + " ".join(cmd[cmd.index("-workers"):]).replace(d, "<scratch>"))
        t = time.time()
        try:
            r = subprocess.run(cmd, cwd=d, capture_output=True, text=True, timeout=timeout)
        except subprocess.TimeoutExpired:
            subprocess.run(["pkill", "-f", d], capture_output=True)
            raise Infra(f"TLC {module}/{cfg} timed out after {timeout}s")
        out = r.stdout + r.stderr
        gen = dist = 0
        m = re.findall(r"(\d+) states generated, (\d+) distinct states found", out)
        if m:
            gen, dist = int(m[-1][0]), int(m[-1][1])
        m2 = re.search(r"The number of states generated: (\d+)", out)  # simulation mode
        if m2:
            gen = int(m2.group(1)); dist = dist or gen
        ok = r.returncode == 0 and "Error:" not in out
        log(f"TLC {module}/{cfg}: rc={r.returncode} generated={gen} distinct={dist} {time.time()-t:.1f}s")
        with self.lock:
            self.states += dist
            self.transitions += gen
            self.tlc_runs.append(dict(module=module, cfg=cfg, generated=gen, distinct=dist, wall_s=round(time.time() - t, 1)))
        if expect_ok and not ok:
            open(os.path.join(d, "tlc.out"), "w").write(out)
            keep = os.path.join(VERIF, "replay", self.prop, f"tlc-{module}-{cfg}.out")
            os.makedirs(os.path.dirname(keep), exist_ok=True)
            open(keep, "w").write(out[-20000:])
            raise Infra(f"TLC {module}/{cfg} failed (spec-level problem, not a code verdict); output kept at {keep}:\n" + tail_err(out))
        return dict(generated=gen, distinct=dist, out=out, ok=ok, dir=d, rc=r.returncode)

    # --------------------------------------------------------------- verdicts
    def disagree(self, sig, what, replay):
        """Record one disagreement between code and spec. sig: dict used for
        matching against known findings; replay: JSON-able reproduction."""
        for f in self.findings:
            if f.get("status") == "open" and match_sig(f["match"], sig):
                self.known_hits.setdefault(f["id"], dict(f=f, n=0, example=replay))
                self.known_hits[f["id"]]["n"] += 1
                return "known"
        self.violations.append(dict(sig=sig, what=what, replay=replay))
        return "violation"

    def finish(self, coverage, assumptions, level="model_checking"):
        wall = time.time() - self.t0
        cov = dict(coverage)
        cov.setdefault("states", self.states)
        cov.setdefault("transitions", self.transitions)
        cov.setdefault("traces_validated_against_impl", self.traces)
        cov["tlc_runs"] = self.tlc_runs
        cov["tlc_cmds"] = self.tlc_cmds[:12]
        cov["known_findings_met"] = {k: v["n"] for k, v in self.known_hits.items()}
        if self.notes:
            cov["notes"] = self.notes
        ev = dict(property_id=self.prop, tier=self.tier, seed=self.seed, level=level, coverage=cov,
                  assumptions=assumptions, wall_s=round(wall, 1), violations=len(self.violations))
        evdir = os.path.join(VERIF, "evidence_ext" if self.ext else "evidence")
        os.makedirs(evdir, exist_ok=True)
        json.dump(ev, open(os.path.join(evdir, self.prop + ".json"), "w"), indent=1, sort_keys=True)
        for k, v in sorted(self.known_hits.items()):
            print(f"{'EXT-' if self.ext else ''}KNOWN-FINDING: property={self.prop} {k}: {v['f']['what']} (met {v['n']}x this run)")
        if self.violations:
            rd = os.path.join(VERIF, "replay", self.prop)
            os.makedirs(rd, exist_ok=True)
            # group by signature so that one root cause prints one line
            seen = {}
            for v in self.violations:
                key = json.dumps(v["sig"], sort_keys=True)
                seen.setdefault(key, []).append(v)
            for i, (key, vs) in enumerate(sorted(seen.items())):
                if i >= 25:
                    break
                p = os.path.join(rd, f"violation-{self.tier}-{i}.json")
                json.dump(dict(property=self.prop, signature=vs[0]["sig"], what=vs[0]["what"], count=len(vs),
                               cases=[x["replay"] for x in vs[:5]]), open(p, "w"), indent=1)
                print(f"{'EXT-DISAGREEMENT module' if self.ext else 'VIOLATION property'}={self.prop} replay={p}  # {vs[0]['what']} ({len(vs)} cases)")
            print(f"[check] {self.prop} {self.tier}: {len(self.violations)} disagreements in {len(seen)} signatures, wall {wall:.0f}s", file=sys.stderr)
            return 1
        print(f"OK property={self.prop} tier={self.tier} seed={self.seed} states={cov['states']} traces={cov['traces_validated_against_impl']} wall={wall:.0f}s")
        return 0


def tail_err(out):
    i = out.find("Error:")
    return out[i:i + 3000] if i >= 0 else out[-3000:]


def match_sig(pat, sig):
    """pat matches sig iff every key of pat is present in sig and equal (or member
    of pat's list)."""
    for k, v in pat.items():
        if k not in sig:
            return False
        if isinstance(v, list):
            if sig[k] not in v:
                return False
        elif isinstance(v, dict) and "re" in v:
            if not re.search(v["re"], str(sig[k])):
                return False
        elif sig[k] != v:
            return False
    return True


def load_findings(prop):
    out = []
    ps = [os.path.join(VERIF, "known_findings.json")]
    d = os.path.join(VERIF, "known_findings.d")
    if os.path.isdir(d):
        ps += sorted(os.path.join(d, f) for f in os.listdir(d) if f.endswith(".json"))
    for p in ps:
        if os.path.exists(p):
            out += [f for f in json.load(open(p))["findings"] if f["property"] == prop]
    return out


def read_ndjson(path):
    out = []
    with open(path) as f:
        for line in f:
            line = line.strip()
            if line:
                out.append(json.loads(line))
    return out


def write_ndjson(path, rows):
    with open(path, "w") as f:
        for r in rows:
            f.write(json.dumps(r, separators=(",", ":"), ensure_ascii=True) + "\n")


def main(families, ext=False):
    import argparse
    ap = argparse.ArgumentParser()
    ap.add_argument("prop")
    ap.add_argument("--tier", default=os.environ.get("VERIF_TIER", "quick"), choices=["quick", "thorough"])
    ap.add_argument("--seed", type=int, default=int(os.environ.get("VERIF_SEED", "1") or 1))
    a = ap.parse_args()
    if a.prop not in families:
        print(f"unknown property {a.prop}", file=sys.stderr)
        return 2
    ctx = Ctx(a.prop, a.tier, a.seed, ext=ext)
    try:
        return families[a.prop](ctx)
    except Infra as e:
        print(f"INFRA-ERROR property={a.prop}: {e}", file=sys.stderr)
        return 2
    except subprocess.TimeoutExpired as e:
        print(f"INFRA-ERROR property={a.prop}: timeout {e}", file=sys.stderr)
        return 2
