package main

import (
	"bufio"
	"encoding/json"
	"flag"
	"fmt"
	"os"
	"sync"

	"github.com/sdcio/yang-parser/compile"

	"verif/harness/internal/schemadump"
	"verif/harness/internal/scm"
)

// conc: the filter is a value the caller owns and may share.  Every filter of the pool (and its twin whose basic
// predicates yield the processor) is built ONCE and handed to several compilations of DIFFERENT module sets that
// run at the same time.  Each result is compared with the sequential compile under a freshly built filter, and
// logged as a trace event (unfiltered dump, concurrent filtered dumps) for YangSchemaTrace (filtered = PruneSeq).
// Built with -race: a data race in the compiler or in a combinator is reported by the race detector.
func conc(args []string) {
	fs := flag.NewFlagSet("conc", flag.ExitOnError)
	out := fs.String("out", "conc.ndjson", "outcome file")
	trace := fs.String("trace", "conctrace.ndjson", "trace file")
	nsets := fs.Int("sets", 12, "number of module sets")
	ngo := fs.Int("goroutines", 8, "compilations running at the same time")
	rounds := fs.Int("rounds", 2, "rounds per filter value")
	base := fs.Int("base", 900000000, "first event id")
	fs.Parse(args)

	// module sets: every k-th judged vector that carries filters
	var all []Vector
	for _, p := range fs.Args() {
		err := readLines(p, func(line []byte) error {
			var v Vector
			if err := json.Unmarshal(line, &v); err != nil {
				return err
			}
			if len(v.Flt) > 0 && v.Verdict == "ok" {
				all = append(all, v)
			}
			return nil
		})
		if err != nil {
			fmt.Fprintln(os.Stderr, err)
			os.Exit(2)
		}
	}
	if len(all) == 0 {
		fmt.Fprintln(os.Stderr, "conc: no vectors with filters")
		os.Exit(2)
	}
	step := len(all) / *nsets
	if step < 1 {
		step = 1
	}
	var sets []Vector
	for i := 0; i < len(all) && len(sets) < *nsets; i += step {
		sets = append(sets, all[i])
	}
	// the filter pool: the filters of the first vector, plain and yielding
	type fval struct {
		expr  scm.Filter // the plain expression (what the trace spec prunes with)
		label string
		value compile.SchemaFilter
	}
	var pool []fval
	for _, fv := range sets[0].Flt {
		if fv.F.Op == "none" || fv.F.Op == "" {
			continue
		}
		for _, variant := range []scm.Filter{fv.F, fv.F.Yielding()} {
			val, err := variant.Build() // built once, shared by every compilation below
			if err != nil {
				fmt.Fprintln(os.Stderr, err)
				os.Exit(2)
			}
			pool = append(pool, fval{expr: normFilter(fv.F), label: variant.String(), value: val})
		}
	}
	// sequential reference
	unfiltered := make([]scm.Result, len(sets))
	for i, v := range sets {
		unfiltered[i] = scm.Compile(v.Mods, v.Feats, scm.Filter{Op: "none"})
	}
	events := make([]*TraceEvent, len(sets))
	for i, v := range sets {
		events[i] = &TraceEvent{ID: *base + i, Mods: v.Mods, OK: unfiltered[i].OK, Dump: unfiltered[i].Dump, Feats: [][]string{}, FSrc: scm.NamesSrc(v.Feats).Norm(), Filtered: []FilteredDump{}}
		if !unfiltered[i].OK {
			events[i].Dump = emptyTree
		}
	}
	of, _ := os.Create(*out)
	defer of.Close()
	w := bufio.NewWriter(of)
	defer w.Flush()
	ncomp := 0
	for _, f := range pool {
		type job struct {
			set int
			res scm.Result
		}
		jobs := make([]job, *ngo**rounds)
		var wg sync.WaitGroup
		start := make(chan struct{})
		for g := 0; g < *ngo; g++ {
			wg.Add(1)
			go func(g int) {
				defer wg.Done()
				<-start
				for r := 0; r < *rounds; r++ {
					k := g**rounds + r
					set := (g**rounds + r) % len(sets)
					jobs[k] = job{set: set, res: scm.CompileWith(sets[set].Mods, sets[set].Feats, f.value)}
				}
			}(g)
		}
		close(start)
		wg.Wait()
		for _, j := range jobs {
			ncomp++
			if !unfiltered[j.set].OK {
				continue
			}
			seq := scm.Compile(sets[j.set].Mods, sets[j.set].Feats, f.expr)
			o := Outcome{ID: *base + j.set, Fam: "conc", Verdict: "ok", Errs: []string{}, Mism: []Mism{}, CodeOK: j.res.OK, Cls: sets[j.set].Cls}
			if verdictOf(seq) != verdictOf(j.res) {
				o.Mism = append(o.Mism, Mism{Cmp: "concurrent-vs-sequential", Attr: "verdict", Want: verdictOf(seq), Got: verdictOf(j.res) + " " + short(j.res.Err), Filter: f.label})
			} else if seq.OK {
				if m := diffMism("concurrent-vs-sequential", seq.Dump, j.res.Dump, schemadump.Options{}, f.label); m != nil {
					o.Mism = append(o.Mism, *m)
				}
			}
			if len(o.Mism) > 0 {
				o.Texts = unfiltered[j.set].Texts
				b, _ := json.Marshal(o)
				w.Write(b)
				w.WriteByte('\n')
			}
			fd := FilteredDump{F: f.expr, OK: j.res.OK, Dump: j.res.Dump}
			if !j.res.OK {
				fd.Dump = emptyTree
			}
			events[j.set].Filtered = append(events[j.set].Filtered, fd)
		}
	}
	tf, _ := os.Create(*trace)
	defer tf.Close()
	tw := bufio.NewWriter(tf)
	defer tw.Flush()
	nev := 0
	for _, e := range events {
		if e.OK && len(e.Filtered) > 0 {
			b, _ := json.Marshal(e)
			tw.Write(b)
			tw.WriteByte('\n')
			nev++
		}
	}
	fmt.Printf("CONC sets=%d filters=%d compilations=%d events=%d\n", len(sets), len(pool), ncomp, nev)
}
