// sc: conformance harness for the schema-shaping part of the compiler
// (properties C12, C14, C20).  The expected behaviour always comes from TLC
// evaluating spec/YangSchema.tla; this program renders the statement trees,
// runs the real compiler and reports what it saw.
package main

import (
	"bufio"
	"encoding/json"
	"flag"
	"fmt"
	"os"
	"strings"

	"github.com/sdcio/yang-parser/compile"
	"github.com/sdcio/yang-parser/parse"

	"verif/harness/internal/schemadump"
	"verif/harness/internal/scm"
)

func usage() {
	fmt.Fprintln(os.Stderr, "usage: sc replay|record|conc|yang ...")
	os.Exit(2)
}

func main() {
	if len(os.Args) < 2 {
		usage()
	}
	switch os.Args[1] {
	case "replay":
		replay(os.Args[2:])
	case "record":
		record(os.Args[2:])
	case "conc":
		conc(os.Args[2:])
	case "yang":
		yang(os.Args[2:])
	default:
		usage()
	}
}

// yang: compile YANG text files by hand and print the canonical dump.
func yang(args []string) {
	fs := flag.NewFlagSet("yang", flag.ExitOnError)
	feats := fs.String("features", "", "comma separated module:feature names to enable")
	flt := fs.String("filter", `{"op":"none"}`, "filter expression (JSON)")
	fs.Parse(args)
	var f scm.Filter
	if err := json.Unmarshal([]byte(*flt), &f); err != nil {
		fmt.Fprintln(os.Stderr, err)
		os.Exit(2)
	}
	trees := map[string]*parse.Tree{}
	for _, p := range fs.Args() {
		b, err := os.ReadFile(p)
		if err != nil {
			fmt.Fprintln(os.Stderr, err)
			os.Exit(2)
		}
		t, err := parse.Parse(p, string(b), nil)
		if err != nil {
			fmt.Println("PARSE-ERROR", err)
			os.Exit(1)
		}
		trees[t.Root.Argument().String()] = t
	}
	sf, err := f.Build()
	if err != nil {
		fmt.Fprintln(os.Stderr, err)
		os.Exit(2)
	}
	var fl []string
	if *feats != "" {
		fl = strings.Split(*feats, ",")
	}
	ms, err := compile.CompileParseTrees(nil, trees, compile.FeaturesFromNames(true, fl...), false, sf)
	if err != nil {
		fmt.Println("COMPILE-ERROR", err)
		os.Exit(1)
	}
	b, _ := json.MarshalIndent(schemadump.Dump(ms), "", " ")
	fmt.Println(string(b))
}

func readLines(path string, fn func(line []byte) error) error {
	f, err := os.Open(path)
	if err != nil {
		return err
	}
	defer f.Close()
	sc := bufio.NewScanner(f)
	sc.Buffer(make([]byte, 1<<20), 1<<28)
	for sc.Scan() {
		if len(strings.TrimSpace(sc.Text())) == 0 {
			continue
		}
		if err := fn(sc.Bytes()); err != nil {
			return err
		}
	}
	return sc.Err()
}
