package main

import (
	"bufio"
	"crypto/sha1"
	"encoding/hex"
	"encoding/json"
	"flag"
	"fmt"
	"os"
	"strings"

	"verif/harness/internal/schemadump"
	"verif/harness/internal/scm"
)

// FltVec is one filter with the pruned schema the spec predicts.
type FltVec struct {
	F      scm.Filter       `json:"f"`
	Schema *schemadump.Node `json:"schema"`
}

// Vector is one generated case: module set, the spec's verdict and schema,
// the equivalent rewritten module set, per-filter predictions.
type Vector struct {
	Fam     string           `json:"fam"`
	Mods    []scm.Stmt       `json:"mods"`
	Feats   []string         `json:"feats"`
	Verdict string           `json:"verdict"`
	Errs    []string         `json:"errs"`
	Why     []string         `json:"why"`
	Schema  *schemadump.Node `json:"schema"`
	Open    []OpenAttr       `json:"open"`
	AltKind string           `json:"altkind"`
	Alt     []scm.Stmt       `json:"alt"`
	Flt     []FltVec         `json:"flt"`
	Cls     []string         `json:"cls"`
	FSrc    *scm.Src         `json:"fsrc"` // where the enabled features come from (nil: exactly Feats, by name)
}

// src is the feature source of the vector.
func (v *Vector) src() scm.Src {
	if v.FSrc != nil && v.FSrc.Op != "" {
		return *v.FSrc
	}
	return scm.NamesSrc(v.Feats)
}

// compileV compiles a module set with the vector's feature source; a failure of the harness itself ends the run.
func compileV(v *Vector, mods []scm.Stmt, f scm.Filter) scm.Result {
	r := scm.CompileFrom(mods, v.src(), f)
	if r.Stage == "harness" {
		fmt.Fprintln(os.Stderr, "harness failure:", r.Err)
		os.Exit(2)
	}
	return r
}

// OpenAttr names an attribute of a node (path = node names from the root) that the spec does not judge
// (verdict "open": neither the compile verdict nor these attributes are prescribed, the rest of the schema is).
type OpenAttr struct {
	Path []string `json:"path"`
	Attr string   `json:"attr"`
}

func nodeAt(n *schemadump.Node, path []string) *schemadump.Node {
	for _, name := range path {
		var next *schemadump.Node
		for _, c := range n.Children {
			if c.Name == name {
				next = c
				break
			}
		}
		if next == nil {
			return nil
		}
		n = next
	}
	return n
}

// unjudge makes the attributes that the spec leaves open equal in a prediction and a dump (the prediction takes the
// dump's value); a path that one of the two does not have is left alone (the children comparison reports it).
func unjudge(model, code *schemadump.Node, open []OpenAttr) {
	for _, oa := range open {
		m, c := nodeAt(model, oa.Path), nodeAt(code, oa.Path)
		if m == nil || c == nil {
			continue
		}
		switch oa.Attr {
		case "keys":
			m.Keys = c.Keys
		case "uniques":
			m.Uniques = c.Uniques
		case "def":
			m.HasDef, m.Def = c.HasDef, c.Def
		}
	}
}

// Mism is one disagreement between the code and the spec (or between the two
// compilations that the property says must agree).
type Mism struct {
	Cmp      string `json:"cmp"`  // model-vs-code | alt-vs-original | alt-vs-model | filter-vs-model | filter-vs-pruned
	Attr     string `json:"attr"` // verdict | attribute name | children
	NodeKind string `json:"nodekind"`
	Path     string `json:"path"`
	Want     string `json:"want"`
	Got      string `json:"got"`
	Filter   string `json:"filter"`
}

// Outcome is what happened for one vector.
type Outcome struct {
	ID      int      `json:"id"`
	Key     string   `json:"key"` // hash of the input (module set, features, filters): counts distinct cases
	Fam     string   `json:"fam"`
	Verdict string   `json:"verdict"`
	Errs    []string `json:"errs"`
	CodeOK  bool     `json:"codeok"`
	CodeErr string   `json:"codeerr"`
	AltKind string   `json:"altkind"`
	Cls     []string `json:"cls"`
	Src     string   `json:"src,omitempty"` // shape of the feature source when it is not the plain list of names
	Mism    []Mism   `json:"mism"`
	Texts   []string `json:"texts,omitempty"`
	AltText []string `json:"alttexts,omitempty"`
}

// TraceEvent logs what the code did for one module set, for the trace validator.
type TraceEvent struct {
	ID       int              `json:"id"`
	Judge    bool             `json:"judge"`
	Mods     []scm.Stmt       `json:"mods"`
	Feats    [][]string       `json:"feats"`
	FSrc     scm.Src          `json:"fsrc"`
	OK       bool             `json:"ok"`
	Dump     *schemadump.Node `json:"dump"`
	Filtered []FilteredDump   `json:"filtered"`
}

// FilteredDump is the result of compiling the same module set under a filter.
type FilteredDump struct {
	F    scm.Filter       `json:"f"`
	OK   bool             `json:"ok"`
	Dump *schemadump.Node `json:"dump"`
}

// normFilter makes the empty filter list an empty array (the TLA+ JSON reader rejects null).
func normFilter(f scm.Filter) scm.Filter {
	out := scm.Filter{Op: f.Op, B: f.B, Fs: []scm.Filter{}}
	for _, g := range f.Fs {
		out.Fs = append(out.Fs, normFilter(g))
	}
	return out
}

func short(s string) string {
	if len(s) > 300 {
		return s[:300] + "..."
	}
	return s
}

func verdictOf(r scm.Result) string {
	if r.OK {
		return "ok"
	}
	if r.Panic {
		return "panic"
	}
	return "err"
}

func diffMism(cmp string, want, got *schemadump.Node, o schemadump.Options, filter string) *Mism {
	d := schemadump.Diff(want, got, o)
	if d == nil {
		return nil
	}
	return &Mism{Cmp: cmp, Attr: d.Attr, NodeKind: d.Kind, Path: d.Path, Want: short(d.A), Got: short(d.B), Filter: filter}
}

var emptyTree = &schemadump.Node{Kind: "tree", Status: "current", Config: true, Min: "0", Max: "unbounded", OrdBy: "system",
	Keys: []string{}, Uniques: [][]string{}, Musts: []schemadump.Must{}, Whens: []schemadump.When{}, Children: []*schemadump.Node{}}

func judge(id int, v *Vector) (Outcome, *TraceEvent) {
	o := Outcome{ID: id, Fam: v.Fam, Verdict: v.Verdict, Errs: v.Errs, AltKind: v.AltKind, Cls: v.Cls, Mism: []Mism{}}
	r := compileV(v, v.Mods, scm.Filter{Op: "none"})
	o.CodeOK, o.CodeErr = r.OK, short(r.Err)
	h := sha1.New()
	for _, t := range r.Texts {
		h.Write([]byte(t))
	}
	fb, _ := json.Marshal(struct {
		F []string
		L int
	}{v.Feats, len(v.Flt)})
	h.Write(fb)
	if v.FSrc != nil && v.FSrc.Op != "" && !(v.FSrc.Op == "names" && v.FSrc.B) {
		sb, _ := json.Marshal(v.FSrc)
		h.Write(sb)
		o.Src = v.FSrc.String()
	}
	o.Key = hex.EncodeToString(h.Sum(nil))[:16]
	if id%1000000 == 1 {
		o.Texts = r.Texts // a sample of what was compiled, for the evidence file
	}
	if v.Verdict == "unjudged" || (v.Verdict == "err" && r.OK && len(v.Flt) > 0) {
		// the model does not judge this module set (or, for C20, rejects what the compiler accepts): the filtered
		// compiles are still logged - whatever compiles unfiltered must prune exactly (judged by the trace spec)
		return o, filterEvent(id, v, r, nil)
	}
	if v.Verdict == "record" {
		// a sampled module set without expectation: log what the code does, the trace validator judges it
		ev := &TraceEvent{ID: id, Judge: true, Mods: v.Mods, OK: r.OK, Dump: r.Dump, Feats: [][]string{}, FSrc: v.src().Norm(), Filtered: []FilteredDump{}}
		for _, f := range v.Feats {
			if i := strings.Index(f, ":"); i > 0 {
				ev.Feats = append(ev.Feats, []string{f[:i], f[i+1:]})
			}
		}
		if !r.OK {
			ev.Dump = emptyTree
		} else {
			for _, fv := range v.Flt {
				rf := compileV(v, v.Mods, fv.F)
				fd := FilteredDump{F: normFilter(fv.F), OK: rf.OK, Dump: rf.Dump}
				if !rf.OK {
					fd.Dump = emptyTree
				}
				ev.Filtered = append(ev.Filtered, fd)
			}
		}
		return o, ev
	}
	// what the spec predicts ignores the context flag of when conditions (the statement is silent on it)
	// against the model the context of a when is compared where the model fixes it (augment: target node; own: the node)
	optModel := schemadump.Options{IgnoreAsParent: true, ModelCtx: true}
	add := func(m *Mism) {
		if m != nil {
			o.Mism = append(o.Mism, *m)
		}
	}
	// verdict "open": whether the module set compiles is not prescribed (it must not panic); if it does, the schema is
	open := v.Verdict == "open"
	agrees := func(got string) bool { return v.Verdict == got || (open && got != "panic") }
	if !agrees(verdictOf(r)) {
		add(&Mism{Cmp: "model-vs-code", Attr: "verdict", Want: v.Verdict, Got: verdictOf(r) + " " + short(r.Err)})
	}
	if (v.Verdict == "ok" || open) && r.OK {
		schemadump.Canon(v.Schema)
		unjudge(v.Schema, r.Dump, v.Open)
		add(diffMism("model-vs-code", v.Schema, r.Dump, optModel, ""))
	}
	if v.AltKind != "none" {
		ra := compileV(v, v.Alt, scm.Filter{Op: "none"})
		o.AltText = ra.Texts
		if verdictOf(ra) != verdictOf(r) {
			add(&Mism{Cmp: "alt-vs-original", Attr: "verdict", Want: verdictOf(r) + " " + short(r.Err), Got: verdictOf(ra) + " " + short(ra.Err)})
		}
		if !agrees(verdictOf(ra)) {
			add(&Mism{Cmp: "alt-vs-model", Attr: "verdict", Want: v.Verdict, Got: verdictOf(ra) + " " + short(ra.Err)})
		}
		if r.OK && ra.OK {
			// a must that a deviation adds is written in the deviating module; in the edited source it is
			// written in the target's module: the scope of its unprefixed names is not comparable
			oa := schemadump.Options{IgnoreAsParent: true, IgnoreCondNs: v.AltKind == "edit"}
			add(diffMism("alt-vs-original", r.Dump, ra.Dump, oa, ""))
		}
	}
	ev := filterEvent(id, v, r, func(fv FltVec, rf scm.Result) {
		if !rf.OK {
			add(&Mism{Cmp: "filter-vs-model", Attr: "verdict", Want: "ok", Got: verdictOf(rf) + " " + short(rf.Err), Filter: fv.F.String()})
		} else if v.Verdict == "ok" || open {
			schemadump.Canon(fv.Schema)
			unjudge(fv.Schema, rf.Dump, v.Open)
			add(diffMism("filter-vs-model", fv.Schema, rf.Dump, schemadump.Options{IgnoreAsParent: true, ModelCtx: true}, fv.F.String()))
		}
	})
	if len(o.Mism) > 0 {
		o.Texts = r.Texts
	} else if id%1000000 != 1 {
		o.AltText = nil
	}
	return o, ev
}

// filterEvent compiles the module set under every filter of the vector and returns the trace event
// (unfiltered dump, filtered dumps); nil when there are no filters or the unfiltered compile failed.
func filterEvent(id int, v *Vector, r scm.Result, each func(FltVec, scm.Result)) *TraceEvent {
	if len(v.Flt) == 0 || !r.OK {
		return nil
	}
	ev := &TraceEvent{ID: id, Mods: v.Mods, OK: true, Dump: r.Dump, Feats: [][]string{}, FSrc: v.src().Norm(), Filtered: []FilteredDump{}}
	for _, fv := range v.Flt {
		rf := compileV(v, v.Mods, fv.F)
		fd := FilteredDump{F: normFilter(fv.F), OK: rf.OK, Dump: rf.Dump}
		if !rf.OK {
			fd.Dump = emptyTree
		}
		if each != nil {
			each(fv, rf)
		}
		ev.Filtered = append(ev.Filtered, fd)
	}
	return ev
}

// replay: vectors -> outcomes (and trace events for vectors that carry filters)
func replay(args []string) {
	fs := flag.NewFlagSet("replay", flag.ExitOnError)
	out := fs.String("out", "res.ndjson", "outcome file")
	trace := fs.String("trace", "", "trace file (events for the trace validator)")
	base := fs.Int("base", 0, "first vector id")
	fs.Parse(args)
	of, err := os.Create(*out)
	if err != nil {
		fmt.Fprintln(os.Stderr, err)
		os.Exit(2)
	}
	defer of.Close()
	w := bufio.NewWriterSize(of, 1<<20)
	defer w.Flush()
	var tw *bufio.Writer
	if *trace != "" {
		tf, err := os.Create(*trace)
		if err != nil {
			fmt.Fprintln(os.Stderr, err)
			os.Exit(2)
		}
		defer tf.Close()
		tw = bufio.NewWriterSize(tf, 1<<20)
		defer tw.Flush()
	}
	id := *base
	for _, p := range fs.Args() {
		err := readLines(p, func(line []byte) error {
			var v Vector
			if err := json.Unmarshal(line, &v); err != nil {
				return fmt.Errorf("%s: %v", p, err)
			}
			id++
			o, ev := judge(id, &v)
			b, _ := json.Marshal(o)
			w.Write(b)
			w.WriteByte('\n')
			if ev != nil && tw != nil {
				b, _ := json.Marshal(ev)
				tw.Write(b)
				tw.WriteByte('\n')
			}
			return nil
		})
		if err != nil {
			fmt.Fprintln(os.Stderr, err)
			os.Exit(2)
		}
	}
}

func record(args []string) { fmt.Fprintln(os.Stderr, "not yet"); os.Exit(2) }
