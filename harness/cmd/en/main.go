// en: conformance harness for the data codecs (property C19).
//
//	en replay -out events.ndjson vec_*.ndjson     model -> code: TLC-generated schemas, trees and mutants
//	en fuzz -spec fuzz.ndjson -out events.ndjson  code -> model: class strings and seeded random bytes
//
// Both only execute the real encoders/decoders and record what happened; the events are
// judged by TLC (EncodingTrace).
package main

import (
	"bufio"
	"encoding/json"
	"flag"
	"fmt"
	"math/rand"
	"os"
	"os/exec"
	"runtime/debug"
	"strconv"
	"sync"

	"github.com/sdcio/yang-parser/schema"

	"verif/harness/internal/enm"
)

func usage() {
	fmt.Fprintln(os.Stderr, "usage: en replay|fuzz|fuzzchild ...")
	os.Exit(2)
}

func main() {
	if len(os.Args) < 2 {
		usage()
	}
	switch os.Args[1] {
	case "replay":
		replay(os.Args[2:])
	case "fuzz":
		fuzz(os.Args[2:])
	case "fuzzchild":
		fuzzChild(os.Args[2:])
	default:
		usage()
	}
}

func seed() int64 {
	s, _ := strconv.ParseInt(os.Getenv("VERIF_SEED"), 10, 64)
	return s
}

func die(f string, a ...interface{}) {
	fmt.Fprintf(os.Stderr, f+"\n", a...)
	os.Exit(3)
}

// Line is one line of a TLC-written vector / alphabet file.
type Line struct {
	Kind  string     `json:"kind"`
	Items []int      `json:"items"`
	YA    string     `json:"ya"`
	YB    string     `json:"yb"`
	T     *enm.Tree  `json:"t"`
	Enc   string     `json:"enc"`
	Toks  []enm.JTok `json:"toks"`
	XToks []enm.XTok `json:"xtoks"`
	Pre   []enm.JTok `json:"pre"`
	Suf   []enm.JTok `json:"suf"`
	XPre  []enm.XTok `json:"xpre"`
	XSuf  []enm.XTok `json:"xsuf"`
}

// Event is what the trace spec reads; every field is always present.
type Event struct {
	Ev      string     `json:"ev"` // rt | dec
	ID      int        `json:"id"`
	Src     string     `json:"src"` // tree | shuffle | mut | cls | rnd
	Items   []int      `json:"items"`
	Enc     string     `json:"enc"`
	T       *enm.Tree  `json:"t"`       // rt: the tree that was encoded
	OutOK   bool       `json:"outok"`   // rt: the encoder's output could be tokenised
	Stable  bool       `json:"stable"`  // rt: the returned bytes were still the same after the later encoder calls of the batch
	HasToks bool       `json:"hastoks"` // the input of the decoder as tokens is known
	Toks    []enm.JTok `json:"toks"`
	XToks   []enm.XTok `json:"xtoks"`
	Out     string     `json:"out"` // tree | error | panic
	Tree    *enm.Tree  `json:"tree"`
	Detail  string     `json:"detail"`
	In      string     `json:"in"` // the input bytes (placeholders), only when there are no tokens
}

func readLines(path string, f func(l *Line)) {
	fh, err := os.Open(path)
	if err != nil {
		die("%v", err)
	}
	defer fh.Close()
	sc := bufio.NewScanner(fh)
	sc.Buffer(make([]byte, 1<<22), 1<<26)
	for sc.Scan() {
		if len(sc.Bytes()) == 0 {
			continue
		}
		var l Line
		if err := json.Unmarshal(sc.Bytes(), &l); err != nil {
			die("%s: %v", path, err)
		}
		f(&l)
	}
}

func tokenise(enc string, b []byte, ev *Event) bool {
	ev.Toks, ev.XToks = []enm.JTok{}, []enm.XTok{}
	if enc == "xml" {
		ts, ok := enm.XMLTokens(b)
		if ok {
			ev.XToks = ts
		}
		return ok
	}
	ts, ok := enm.JSONTokens(b)
	if ok {
		ev.Toks = ts
	}
	return ok
}

// shuffle the children the spec treats as sets (everything but user-ordered entries/values)
func shuffled(sn schema.Node, t *enm.Tree, r *rand.Rand) *enm.Tree {
	c := &enm.Tree{N: t.N, Vals: append([]string{}, t.Vals...), Kids: []*enm.Tree{}}
	keep := false
	switch v := sn.(type) {
	case schema.List:
		keep = v.OrdBy() == "user"
	case schema.LeafList:
		if v.OrdBy() != "user" {
			r.Shuffle(len(c.Vals), func(i, j int) { c.Vals[i], c.Vals[j] = c.Vals[j], c.Vals[i] })
		}
	}
	for _, k := range t.Kids {
		csn := sn.Child(enm.Unph(k.N))
		if csn == nil {
			c.Kids = append(c.Kids, k)
			continue
		}
		c.Kids = append(c.Kids, shuffled(csn, k, r))
	}
	if !keep {
		r.Shuffle(len(c.Kids), func(i, j int) { c.Kids[i], c.Kids[j] = c.Kids[j], c.Kids[i] })
	}
	return c
}

func replay(args []string) {
	fs := flag.NewFlagSet("replay", flag.ExitOnError)
	out := fs.String("out", "events.ndjson", "")
	shuf := fs.Int("shuffle", 4, "also replay a shuffled copy of every n-th tree (0 = never)")
	batch := fs.Int("batch", 4, "trees whose encodings are all produced before any of them is read")
	fs.Parse(args)
	oh, err := os.Create(*out)
	if err != nil {
		die("%v", err)
	}
	w := bufio.NewWriterSize(oh, 1<<20)
	encw := json.NewEncoder(w)
	encw.SetEscapeHTML(false)
	id := 0
	rng := rand.New(rand.NewSource(seed()))
	emit := func(e *Event) {
		id++
		e.ID = id
		if e.Ev != "rt" {
			e.Stable = true
		}
		if e.T == nil {
			e.T = enm.EmptyTree
		}
		if e.Tree == nil {
			e.Tree = enm.EmptyTree
		}
		if e.Toks == nil {
			e.Toks = []enm.JTok{}
		}
		if e.XToks == nil {
			e.XToks = []enm.XTok{}
		}
		if err := encw.Encode(e); err != nil {
			die("%v", err)
		}
	}
	ntree, nonempty := 0, 0
	// An encoding is a value: what an encoder returned must stay what it is while other trees are
	// encoded.  So the three encodings of all trees of a batch are produced first, back to back,
	// and kept exactly as returned (no copy); only then is each compared and decoded.  A copy taken
	// right after each call tells whether the kept bytes changed in the meantime.
	type pending struct {
		src        string
		t          *enm.Tree
		enc        string
		kept, copy []byte
		panicked   string
	}
	var pend []pending
	var pendTrees int
	var ms schema.ModelSet
	var items []int
	flush := func() {
		for _, p := range pend {
			ev := &Event{Ev: "rt", Src: p.src, Items: items, Enc: p.enc, T: p.t}
			if p.panicked != "" {
				ev.Out, ev.Detail = "panic", "encoder: "+enm.Ph(p.panicked)
				emit(ev)
				continue
			}
			ev.Stable = string(p.kept) == string(p.copy)
			ev.OutOK = tokenise(p.enc, p.kept, ev)
			ev.HasToks = ev.OutOK
			if !ev.OutOK {
				ev.In = enm.Ph(string(p.kept))
			}
			ev.Out, ev.Tree, ev.Detail = enm.Decode(p.enc, ms, p.kept)
			emit(ev)
		}
		pend, pendTrees = pend[:0], 0
	}
	for _, path := range fs.Args() {
		readLines(path, func(l *Line) {
			switch l.Kind {
			case "schema":
				flush()
				var err error
				ms, err = enm.Compile(l.YA, l.YB)
				if err != nil {
					die("schema of %s does not compile: %v\n%s\n%s", path, err, l.YA, l.YB)
				}
				items = l.Items
			case "tree":
				ntree++
				if len(l.T.Kids) > 0 {
					nonempty++
				}
				variants := []struct {
					src string
					t   *enm.Tree
				}{{"tree", l.T}}
				if *shuf > 0 && ntree%*shuf == 0 {
					variants = append(variants, struct {
						src string
						t   *enm.Tree
					}{"shuffle", shuffled(ms, l.T, rng)})
				}
				for _, v := range variants {
					dn := v.t.ToDataNode()
					for _, enc := range enm.Encs {
						b, p := enm.Encode(enc, ms, dn)
						pend = append(pend, pending{src: v.src, t: v.t, enc: enc, kept: b, copy: append([]byte(nil), b...), panicked: p})
					}
				}
				pendTrees++
				if pendTrees >= *batch {
					flush()
				}
			case "mut":
				flush()
				ev := &Event{Ev: "dec", Src: "mut", Items: items, Enc: l.Enc, HasToks: true, Toks: l.Toks, XToks: l.XToks}
				var b []byte
				if l.Enc == "xml" {
					b = enm.XMLBytes(l.XToks)
				} else {
					b = enm.JSONBytes(l.Toks)
				}
				ev.Out, ev.Tree, ev.Detail = enm.Decode(l.Enc, ms, b)
				emit(ev)
			}
		})
		flush()
	}
	w.Flush()
	oh.Close()
	fmt.Printf("{\"events\":%d,\"trees\":%d,\"nonempty\":%d}\n", id, ntree, nonempty)
}

// ------------------------------------------------------------------------ fuzz

type fuzzSpec struct {
	items  []int
	ya, yb string
	jalpha []enm.JTok
	jctx   [][2][]enm.JTok
	xalpha []enm.XTok
	xctx   [][2][]enm.XTok
	trees  []*enm.Tree
}

func readFuzzSpec(path string) *fuzzSpec {
	sp := &fuzzSpec{}
	readLines(path, func(l *Line) {
		switch l.Kind {
		case "schema":
			sp.items, sp.ya, sp.yb = l.Items, l.YA, l.YB
		case "jalpha":
			sp.jalpha = l.Toks
		case "jctx":
			sp.jctx = append(sp.jctx, [2][]enm.JTok{l.Pre, l.Suf})
		case "xalpha":
			sp.xalpha = l.XToks
		case "xctx":
			sp.xctx = append(sp.xctx, [2][]enm.XTok{l.XPre, l.XSuf})
		case "tree":
			sp.trees = append(sp.trees, l.T)
		}
	})
	return sp
}

type fcase struct {
	enc, src string
	toks     []enm.JTok
	xtoks    []enm.XTok
	hasToks  bool
	bytes    []byte
}

// cases enumerates the inputs in a fixed order; want(idx) selects the ones to build.
func cases(sp *fuzzSpec, ms schema.ModelSet, maxlen, nrand int, sd int64, want func(int) bool, visit func(int, *fcase)) int {
	idx := 0
	// 1. all class strings up to maxlen in every context
	for _, enc := range []string{"rfc", "json", "xml"} {
		na := len(sp.jalpha)
		nctx := len(sp.jctx)
		if enc == "xml" {
			na, nctx = len(sp.xalpha), len(sp.xctx)
		}
		for c := 0; c < nctx; c++ {
			lim := maxlen
			if c != 1 && lim > 1 {
				lim-- // full length inside the top container only (bare: ill-formed at the first token)
			}
			for n := 0; n <= lim; n++ {
				digits := make([]int, n)
				for {
					if want(idx) {
						fc := &fcase{enc: enc, src: "cls", hasToks: true}
						if enc == "xml" {
							ts := append([]enm.XTok{}, sp.xctx[c][0]...)
							for _, d := range digits {
								ts = append(ts, sp.xalpha[d])
							}
							fc.xtoks = append(ts, sp.xctx[c][1]...)
							fc.bytes = enm.XMLBytes(fc.xtoks)
						} else {
							ts := append([]enm.JTok{}, sp.jctx[c][0]...)
							for _, d := range digits {
								ts = append(ts, sp.jalpha[d])
							}
							fc.toks = append(ts, sp.jctx[c][1]...)
							fc.bytes = enm.JSONBytes(fc.toks)
						}
						visit(idx, fc)
					}
					idx++
					i := n - 1
					for i >= 0 {
						digits[i]++
						if digits[i] < na {
							break
						}
						digits[i] = 0
						i--
					}
					if i < 0 {
						break
					}
				}
			}
		}
	}
	// 2. seeded random: byte mutations of real encodings, longer class strings, raw bytes
	r := rand.New(rand.NewSource(sd))
	seeds := map[string][][]byte{}
	for _, t := range sp.trees {
		dn := t.ToDataNode()
		for _, enc := range enm.Encs {
			if b, p := enm.Encode(enc, ms, dn); p == "" {
				seeds[enc] = append(seeds[enc], b)
			}
		}
	}
	const pool = "{}[]:,\"\\<>/=&; \n0123456789.-+eE\x00\xff\xc3\xa9abcxkisluntrf"
	for i := 0; i < nrand; i++ {
		enc := enm.Encs[r.Intn(3)]
		kind := r.Intn(10)
		var fc *fcase
		switch {
		case kind == 0: // raw bytes
			b := make([]byte, r.Intn(17))
			for j := range b {
				if r.Intn(3) == 0 {
					b[j] = byte(r.Intn(256))
				} else {
					b[j] = pool[r.Intn(len(pool))]
				}
			}
			fc = &fcase{enc: enc, src: "rnd", bytes: b}
		case kind <= 3: // a longer class string
			n := maxlen + 1 + r.Intn(6)
			fc = &fcase{enc: enc, src: "cls", hasToks: true}
			if enc == "xml" {
				c := r.Intn(len(sp.xctx))
				ts := append([]enm.XTok{}, sp.xctx[c][0]...)
				for j := 0; j < n; j++ {
					ts = append(ts, sp.xalpha[r.Intn(len(sp.xalpha))])
				}
				fc.xtoks = append(ts, sp.xctx[c][1]...)
				fc.bytes = enm.XMLBytes(fc.xtoks)
			} else {
				c := r.Intn(len(sp.jctx))
				ts := append([]enm.JTok{}, sp.jctx[c][0]...)
				for j := 0; j < n; j++ {
					ts = append(ts, sp.jalpha[r.Intn(len(sp.jalpha))])
				}
				fc.toks = append(ts, sp.jctx[c][1]...)
				fc.bytes = enm.JSONBytes(fc.toks)
			}
		default: // byte mutations of a real encoding
			ss := seeds[enc]
			if len(ss) == 0 {
				fc = &fcase{enc: enc, src: "rnd", bytes: []byte{}}
				break
			}
			b := append([]byte{}, ss[r.Intn(len(ss))]...)
			for m := 1 + r.Intn(3); m > 0 && len(b) > 0; m-- {
				p := r.Intn(len(b))
				switch r.Intn(6) {
				case 0:
					b[p] = pool[r.Intn(len(pool))]
				case 1:
					q := p + 1 + r.Intn(4)
					if q > len(b) {
						q = len(b)
					}
					b = append(b[:p:p], b[q:]...)
				case 2:
					q := p + 1 + r.Intn(12)
					if q > len(b) {
						q = len(b)
					}
					b = append(b[:q:q], append(append([]byte{}, b[p:q]...), b[q:]...)...)
				case 3:
					b = append(b[:p:p], append([]byte{pool[r.Intn(len(pool))]}, b[p:]...)...)
				case 4:
					b = b[:p]
				case 5:
					b[p] = byte(r.Intn(256))
				}
			}
			fc = &fcase{enc: enc, src: "rnd", bytes: b}
		}
		if want(idx) {
			visit(idx, fc)
		}
		idx++
	}
	return idx
}

func fuzzFlags(name string, args []string) (spec *string, maxlen, nrand, shard, nshards, skip *int, out *string) {
	fs := flag.NewFlagSet(name, flag.ExitOnError)
	spec = fs.String("spec", "fuzz.ndjson", "")
	maxlen = fs.Int("maxlen", 3, "")
	nrand = fs.Int("nrand", 1000, "")
	shard = fs.Int("shard", 0, "")
	nshards = fs.Int("nshards", 1, "")
	skip = fs.Int("skip", 0, "cases of this shard to skip")
	out = fs.String("out", "events", "prefix of the per-shard event files")
	fs.Parse(args)
	return
}

func eventOf(sp *fuzzSpec, idx int, fc *fcase) *Event {
	ev := &Event{Ev: "dec", ID: idx + 1, Src: fc.src, Items: sp.items, Enc: fc.enc, T: enm.EmptyTree, Tree: enm.EmptyTree, Stable: true,
		HasToks: fc.hasToks, Toks: fc.toks, XToks: fc.xtoks}
	if !fc.hasToks {
		ev.HasToks = tokenise(fc.enc, fc.bytes, ev)
		if !ev.HasToks {
			ev.In = enm.Ph(string(fc.bytes))
		}
	}
	if ev.Toks == nil {
		ev.Toks = []enm.JTok{}
	}
	if ev.XToks == nil {
		ev.XToks = []enm.XTok{}
	}
	return ev
}

// child: runs the cases of one shard in order, one event per line on stdout
func fuzzChild(args []string) {
	spec, maxlen, nrand, shard, nshards, skip, _ := fuzzFlags("fuzzchild", args)
	debug.SetMaxStack(256 << 20)
	sp := readFuzzSpec(*spec)
	ms, err := enm.Compile(sp.ya, sp.yb)
	if err != nil {
		die("fuzz schema does not compile: %v", err)
	}
	w := bufio.NewWriterSize(os.Stdout, 1<<16)
	encw := json.NewEncoder(w)
	encw.SetEscapeHTML(false)
	seen := 0
	cases(sp, ms, *maxlen, *nrand, seed(), func(i int) bool {
		if i%*nshards != *shard {
			return false
		}
		seen++
		return seen > *skip
	}, func(idx int, fc *fcase) {
		ev := eventOf(sp, idx, fc)
		// the line is flushed only after the decoder returned: a fatal error (stack overflow)
		// kills the process and the parent attributes it to the first case without a line
		ev.Out, ev.Tree, ev.Detail = enm.Decode(fc.enc, ms, fc.bytes)
		encw.Encode(ev)
		w.Flush()
	})
	w.Flush()
}

// parent: one child per shard; a child that dies is restarted after the case that killed it
func fuzz(args []string) {
	spec, maxlen, nrand, _, nshards, _, out := fuzzFlags("fuzz", args)
	sp := readFuzzSpec(*spec)
	ms, err := enm.Compile(sp.ya, sp.yb)
	if err != nil {
		die("fuzz schema does not compile: %v", err)
	}
	self, _ := os.Executable()
	var wg sync.WaitGroup
	counts := make([]int, *nshards)
	fatals := make([]int, *nshards)
	for s := 0; s < *nshards; s++ {
		wg.Add(1)
		go func(s int) {
			defer wg.Done()
			oh, err := os.Create(fmt.Sprintf("%s_%d.ndjson", *out, s))
			if err != nil {
				die("%v", err)
			}
			defer oh.Close()
			w := bufio.NewWriterSize(oh, 1<<20)
			defer w.Flush()
			done := 0
			for attempt := 0; attempt < 50; attempt++ {
				cmd := exec.Command(self, "fuzzchild", "-spec", *spec, "-maxlen", strconv.Itoa(*maxlen), "-nrand", strconv.Itoa(*nrand),
					"-shard", strconv.Itoa(s), "-nshards", strconv.Itoa(*nshards), "-skip", strconv.Itoa(done))
				cmd.Stderr = nil
				po, _ := cmd.StdoutPipe()
				if err := cmd.Start(); err != nil {
					die("%v", err)
				}
				sc := bufio.NewScanner(po)
				sc.Buffer(make([]byte, 1<<20), 1<<26)
				for sc.Scan() {
					w.Write(sc.Bytes())
					w.WriteByte('\n')
					done++
				}
				if err := cmd.Wait(); err == nil {
					break
				}
				// the child died while decoding case number done (0-based) of this shard
				seen := 0
				cases(sp, ms, *maxlen, *nrand, seed(), func(i int) bool {
					if i%*nshards != s {
						return false
					}
					seen++
					return seen == done+1
				}, func(idx int, fc *fcase) {
					ev := eventOf(sp, idx, fc)
					ev.Out, ev.Detail = "panic", "fatal: decoder killed the process"
					b, _ := json.Marshal(ev)
					w.Write(b)
					w.WriteByte('\n')
				})
				done++
				fatals[s]++
			}
			counts[s] = done
		}(s)
	}
	wg.Wait()
	total, fat := 0, 0
	for s := range counts {
		total += counts[s]
		fat += fatals[s]
	}
	fmt.Printf("{\"events\":%d,\"fatal\":%d,\"files\":%d}\n", total, fat, *nshards)
}
