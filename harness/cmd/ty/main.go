// ty: conformance harness for the type families (properties C13, C16).
//
//	ty run -out obs.ndjson [-yang] vec_*.ndjson   execute every vector (chain + probe lexemes) on the real
//	                                              compiler and validators, one observation per vector
//	ty render < vector.json                       print the YANG modules of one vector
//	ty try -leaf c/x1 -v v1,v2 a.yang b.yang      compile hand-written modules, show what the leaf accepts (for exploring)
package main

import (
	"bufio"
	"encoding/json"
	"flag"
	"fmt"
	"os"
	"path/filepath"
	"runtime"
	"sort"
	"strings"
	"sync"

	"verif/harness/internal/tym"
)

type probe struct {
	V tym.Cps `json:"v"`
}

// a vector is one chain with its probes or, with grp, several chains that are
// compiled together as the leaves of one module set
type vector struct {
	Fam    int       `json:"fam"`
	Chain  tym.Chain `json:"chain"`
	Probes []probe   `json:"probes"`
	Grp    []vector  `json:"grp"`
}

func (v vector) members() []vector {
	if len(v.Grp) > 0 {
		return v.Grp
	}
	return []vector{v}
}

// one result per vector; Grp has one observation per member (ids ID*64 + member index)
type result struct {
	ID   int       `json:"id"`
	File string    `json:"file"`
	Line int       `json:"line"`
	Grp  []tym.Obs `json:"grp"`
}

func main() {
	if len(os.Args) < 2 {
		fmt.Fprintln(os.Stderr, "usage: ty run|conc|render ...")
		os.Exit(2)
	}
	switch os.Args[1] {
	case "run":
		run(os.Args[2:])
	case "conc":
		conc(os.Args[2:])
	case "render":
		render()
	case "try":
		try(os.Args[2:])
	default:
		fmt.Fprintln(os.Stderr, "usage: ty run|conc|render ...")
		os.Exit(2)
	}
}

// conc: every (single-chain) vector is compiled afresh several times and its lexemes are validated from many
// goroutines released together (first use of the compiled type); meant to be run in a binary built with -race.
func conc(args []string) {
	fs := flag.NewFlagSet("conc", flag.ExitOnError)
	out := fs.String("out", "conc.ndjson", "observations (ndjson)")
	base := fs.Int("base", 1000000, "first observation id")
	rounds := fs.Int("rounds", 6, "fresh compilations per vector")
	procs := fs.Int("procs", 16, "goroutines per compilation")
	fs.Parse(args)
	fh, err := os.Create(*out)
	if err != nil {
		fmt.Fprintln(os.Stderr, err)
		os.Exit(2)
	}
	w := bufio.NewWriter(fh)
	enc := json.NewEncoder(w)
	id := *base
	for _, f := range fs.Args() {
		in, err := os.Open(f)
		if err != nil {
			fmt.Fprintln(os.Stderr, err)
			os.Exit(2)
		}
		sc := bufio.NewScanner(in)
		sc.Buffer(make([]byte, 1<<20), 1<<28)
		line := 0
		for sc.Scan() {
			line++
			if len(sc.Bytes()) == 0 {
				continue
			}
			var v vector
			if err := json.Unmarshal(sc.Bytes(), &v); err != nil {
				fmt.Fprintf(os.Stderr, "%s:%d: %v\n", f, line, err)
				os.Exit(2)
			}
			id++
			r := result{ID: id, File: f, Line: line}
			for _, m := range v.members() {
				lex := make([]tym.Cps, len(m.Probes))
				for k, p := range m.Probes {
					lex[k] = p.V
				}
				r.Grp = append(r.Grp, tym.ObserveConcurrent(m.Chain, lex, *rounds, *procs, true))
			}
			enc.Encode(r)
		}
		in.Close()
	}
	w.Flush()
	fh.Close()
}

func render() {
	var v vector
	if err := json.NewDecoder(os.Stdin).Decode(&v); err != nil {
		fmt.Fprintln(os.Stderr, err)
		os.Exit(2)
	}
	cs := []tym.Chain{}
	for _, m := range v.members() {
		cs = append(cs, m.Chain)
	}
	mods := tym.Render(cs)
	names := []string{}
	for n := range mods {
		names = append(names, n)
	}
	sort.Strings(names)
	for _, n := range names {
		fmt.Print(mods[n])
	}
}

// try: compile hand-written module files and print the verdict of every value for one leaf (no expectations)
func try(args []string) {
	fs := flag.NewFlagSet("try", flag.ExitOnError)
	leaf := fs.String("leaf", "c/x1", "data path of the leaf")
	vals := fs.String("v", "", "comma-separated values")
	fs.Parse(args)
	mods := map[string]string{}
	for _, f := range fs.Args() {
		b, err := os.ReadFile(f)
		if err != nil {
			fmt.Fprintln(os.Stderr, err)
			os.Exit(2)
		}
		mods[strings.TrimSuffix(filepath.Base(f), ".yang")] = string(b)
	}
	for _, l := range tym.Try(mods, strings.Split(*leaf, "/"), strings.Split(*vals, ",")) {
		fmt.Println(l)
	}
}

type job struct {
	id   int
	file string
	line int
	text []byte
}

func run(args []string) {
	fs := flag.NewFlagSet("run", flag.ExitOnError)
	out := fs.String("out", "obs.ndjson", "observations (ndjson)")
	yang := fs.Bool("yang", false, "include the rendered modules in every observation")
	fs.Parse(args)
	var jobs []job
	for _, f := range fs.Args() {
		fh, err := os.Open(f)
		if err != nil {
			fmt.Fprintln(os.Stderr, err)
			os.Exit(2)
		}
		sc := bufio.NewScanner(fh)
		sc.Buffer(make([]byte, 1<<20), 1<<28)
		line := 0
		for sc.Scan() {
			line++
			if len(sc.Bytes()) == 0 {
				continue
			}
			jobs = append(jobs, job{id: len(jobs) + 1, file: f, line: line, text: append([]byte{}, sc.Bytes()...)})
		}
		fh.Close()
	}
	results := make([]result, len(jobs))
	var wg sync.WaitGroup
	ch := make(chan int)
	nw := runtime.NumCPU()
	if nw > 12 {
		nw = 12
	}
	for w := 0; w < nw; w++ {
		wg.Add(1)
		go func() {
			defer wg.Done()
			for i := range ch {
				j := jobs[i]
				var v vector
				r := result{ID: j.id, File: j.file, Line: j.line}
				if err := json.Unmarshal(j.text, &v); err != nil {
					fmt.Fprintf(os.Stderr, "%s:%d: %v\n", j.file, j.line, err)
					os.Exit(2)
				}
				ms := v.members()
				cs := make([]tym.Chain, len(ms))
				lex := make([][]tym.Cps, len(ms))
				for mi, m := range ms {
					cs[mi] = m.Chain
					lex[mi] = make([]tym.Cps, len(m.Probes))
					for k, p := range m.Probes {
						lex[mi][k] = p.V
					}
				}
				r.Grp = tym.Observe(cs, lex, *yang)
				results[i] = r
			}
		}()
	}
	for i := range jobs {
		ch <- i
	}
	close(ch)
	wg.Wait()
	fh, err := os.Create(*out)
	if err != nil {
		fmt.Fprintln(os.Stderr, err)
		os.Exit(2)
	}
	w := bufio.NewWriter(fh)
	enc := json.NewEncoder(w)
	for _, r := range results {
		enc.Encode(r)
	}
	w.Flush()
	fh.Close()
}
