package main

import (
	"encoding/json"
	"flag"
	"fmt"
	"math/rand"
	"os"
	"sort"
	"strings"
	"sync"

	"github.com/sdcio/yang-parser/data/datanode"
	"github.com/sdcio/yang-parser/schema"

	"verif/harness/internal/dvm"
)

// ------------------------------------------------------------------ C18

type dataVec struct {
	D    []dvm.DNode `json:"d"`
	Viol []dvm.Viol  `json:"viol"`
	Must []dvm.Viol  `json:"must"`
	Deco []dvm.DNode `json:"deco"`
}

type dataMism struct {
	Shape int         `json:"shape"`
	Kind  string      `json:"kind"` // verdict spurious unreported decorate twice explicit-altered verdict-changed panic
	D     []dvm.DNode `json:"d"`
	Want  interface{} `json:"want"`
	Got   interface{} `json:"got"`
	V     *dvm.Viol   `json:"v,omitempty"` // the violation concerned (spurious / unreported)
}

// observation of the real code on one data tree
// Protocol on ONE tree object: validate, walk the decorated view once and twice, then walk
// the original object again and validate it again (the decorated view is a pure view: the
// explicit tree and its verdict must be what they were).
type dataObs struct {
	Errs  []dvm.Viol
	Deco1 []dvm.DNode
	Deco2 []dvm.DNode
	After []dvm.DNode // walk of the original tree object after the decorated views were walked
	Errs2 []dvm.Viol  // ValidateSchema on the original tree object afterwards
	Panic string
}

func validate(ms schema.ModelSet, tree datanode.DataNode) []dvm.Viol {
	out := []dvm.Viol{}
	_, errs, ok := schema.ValidateSchema(ms, tree, false)
	for _, e := range errs {
		out = append(out, dvm.DecodeViol(e))
	}
	if !ok && len(errs) == 0 {
		out = append(out, dvm.Viol{K: "other", N: "not ok without errors", Path: []string{}})
	}
	if ok && len(errs) != 0 {
		out = append(out, dvm.Viol{K: "other", N: "ok with errors", Path: []string{}})
	}
	return out
}

func observe(ms schema.ModelSet, d []dvm.DNode) (o dataObs) {
	o.Errs, o.Errs2, o.Deco1, o.Deco2, o.After = []dvm.Viol{}, []dvm.Viol{}, []dvm.DNode{}, []dvm.DNode{}, []dvm.DNode{}
	tree := dvm.Build(d)
	step := func(what string, f func()) {
		defer func() {
			if r := recover(); r != nil && o.Panic == "" {
				o.Panic = strings.ReplaceAll(fmt.Sprint(what, ": ", r), "Error:", "E:")
			}
		}()
		f()
	}
	step("ValidateSchema", func() { o.Errs = validate(ms, tree) })
	step("AddDefaults", func() {
		o.Deco1 = dvm.Walk(schema.AddDefaults(ms, tree))
		o.Deco2 = dvm.Walk(schema.AddDefaults(ms, schema.AddDefaults(ms, tree)))
	})
	step("walk of the explicit tree", func() { o.After = dvm.Walk(tree) })
	step("ValidateSchema after AddDefaults", func() { o.Errs2 = validate(ms, tree) })
	return
}

// judgeErrs compares the reported errors with the spec's violation sets, independent of message
// wording (the same rule as JudgeErrs in DataValidateTrace.tla): errors and violations are counted
// per key (error type class + path); a refined error (known wording) must find a violation of its
// class, unrefined errors stand for any violation of their key.  "" = agreed.
func judgeErrs(viol, mustv, errs []dvm.Viol) (string, *dvm.Viol) {
	if (len(errs) == 0) != (len(viol) == 0) {
		for _, x := range append(append([]dvm.Viol{}, viol...), errs...) {
			x := x
			return "verdict", &x
		}
	}
	cls := func(v dvm.Viol) string {
		if v.K == "missing" {
			return "missing " + v.N
		}
		return v.K
	}
	type cnt struct{ all, must, obs, open int }
	keys := map[string]*cnt{}
	classes := map[string]map[string]*cnt{} // key -> class -> counts (obs = refined errors)
	at := func(k string) *cnt {
		if keys[k] == nil {
			keys[k] = &cnt{}
			classes[k] = map[string]*cnt{}
		}
		return keys[k]
	}
	atc := func(k, c string) *cnt {
		at(k)
		if classes[k][c] == nil {
			classes[k][c] = &cnt{}
		}
		return classes[k][c]
	}
	rep := map[string]dvm.Viol{}
	for _, v := range viol {
		at(v.Key()).all++
		atc(v.Key(), cls(v)).all++
	}
	for _, v := range mustv {
		at(v.Key()).must++
		atc(v.Key(), cls(v)).must++
		rep[v.Key()] = v
	}
	for _, e := range errs {
		at(e.Key()).obs++
		if e.K == "" {
			at(e.Key()).open++
		} else {
			atc(e.Key(), cls(e)).obs++
		}
		if _, ok := rep[e.Key()]; !ok {
			rep[e.Key()] = e
		}
	}
	ks := []string{}
	for k := range keys {
		ks = append(ks, k)
	}
	sort.Strings(ks)
	for _, k := range ks {
		c := keys[k]
		spur := c.obs > c.all
		for _, cc := range classes[k] {
			if cc.obs > cc.all {
				spur = true
			}
		}
		if spur {
			x := rep[k]
			for _, e := range errs {
				if e.Key() == k {
					x = e
				}
			}
			return "spurious", &x
		}
	}
	for _, k := range ks {
		left := 0
		for _, cc := range classes[k] {
			if cc.must > cc.obs {
				left += cc.must - cc.obs
			}
		}
		if left > keys[k].open {
			x := rep[k]
			return "unreported", &x
		}
	}
	return "", nil
}

// judgeData compares what the real code did on one tree with the vector's expectations.
func judgeData(sh dvm.Shape, v dataVec, o dataObs) []dataMism {
	out := []dataMism{}
	mism := func(kind string, want, got interface{}, vv *dvm.Viol) {
		out = append(out, dataMism{sh.ID, kind, v.D, want, got, vv})
	}
	if o.Panic != "" {
		mism("panic", "", o.Panic, nil)
		return out
	}
	if k, x := judgeErrs(v.Viol, v.Must, o.Errs); k != "" {
		mism(k, v.Viol, o.Errs, x)
	} else if k, x := judgeErrs(v.Viol, v.Must, o.Errs2); k != "" {
		// the same tree object judged again after its decorated views were walked
		mism("verdict-changed", v.Viol, o.Errs2, x)
	}
	if dvm.KeyOf(o.After) != dvm.KeyOf(v.D) {
		mism("explicit-altered", dvm.Canon(v.D), dvm.Canon(o.After), nil)
	}
	wd := dvm.KeyOf(v.Deco)
	g1 := dvm.Canon(dvm.PruneNP(sh.Kids, o.Deco1))
	g2 := dvm.Canon(dvm.PruneNP(sh.Kids, o.Deco2))
	if dvm.KeyOf(g1) != wd {
		mism("decorate", dvm.Canon(v.Deco), g1, nil)
	} else if dvm.KeyOf(g2) != wd {
		mism("twice", dvm.Canon(v.Deco), g2, nil)
	}
	return out
}

func loadDataShape(schemaFile, vecFile string) (dvm.Shape, schema.ModelSet, []dataVec) {
	shs := readShapes(schemaFile)
	if len(shs) != 1 {
		die("%s: one schema expected", schemaFile)
	}
	sh := shs[0]
	ms, err := dvm.Compile(sh)
	if err != nil {
		die("shape %d does not compile: %v\n%s", sh.ID, err, dvm.RenderYang(sh))
	}
	vs := []dataVec{}
	eachLine(vecFile, func(b []byte) {
		var v dataVec
		if err := json.Unmarshal(b, &v); err != nil {
			die("%s: %v", vecFile, err)
		}
		vs = append(vs, v)
	})
	return sh, ms, vs
}

func replayData(args []string) {
	fs := flag.NewFlagSet("replay-data", flag.ExitOnError)
	out := fs.String("out", "res.ndjson", "mismatches")
	fs.Parse(args)
	files := fs.Args()
	if len(files)%2 != 0 {
		die("replay-data wants pairs of schema and vector files")
	}
	w := create(*out)
	n, bad, withViol, withDef := 0, 0, 0, 0
	for i := 0; i < len(files); i += 2 {
		sh, ms, vs := loadDataShape(files[i], files[i+1])
		for _, v := range vs {
			n++
			if len(v.Viol) > 0 {
				withViol++
			}
			if dvm.KeyOf(v.Deco) != dvm.KeyOf(dvm.PruneNP(sh.Kids, v.D)) {
				withDef++
			}
			for _, m := range judgeData(sh, v, observe(ms, v.D)) {
				bad++
				w.put(m)
			}
		}
	}
	w.close()
	fmt.Printf("{\"evaluations\":%d,\"mismatches\":%d,\"with_violations\":%d,\"with_defaults_added\":%d}\n", n, bad, withViol, withDef)
}

// concData: one compiled schema per shape is shared by G goroutines that validate / decorate
// DISTINCT data trees at the same time (released together, several rounds); every outcome is
// judged like in replay-data.  Meant to be built with the race detector.
func concData(args []string) {
	fs := flag.NewFlagSet("conc-data", flag.ExitOnError)
	out := fs.String("out", "conc.ndjson", "mismatches")
	max := fs.Int("max", 120, "trees per shape")
	g := fs.Int("g", 16, "goroutines")
	fs.Parse(args)
	files := fs.Args()
	w := create(*out)
	r := rand.New(rand.NewSource(seed()))
	n, bad := 0, 0
	for i := 0; i+1 < len(files); i += 2 {
		shs := readShapes(files[i])
		sh := shs[0]
		ms, err := dvm.Compile(sh)
		if err != nil {
			die("shape %d does not compile: %v", sh.ID, err)
		}
		lines := [][]byte{} // parse only the drawn vectors (the race build is slow at everything)
		eachLine(files[i+1], func(b []byte) { lines = append(lines, append([]byte{}, b...)) })
		r.Shuffle(len(lines), func(a, b int) { lines[a], lines[b] = lines[b], lines[a] })
		if len(lines) > *max {
			lines = lines[:*max]
		}
		vs := []dataVec{}
		for _, b := range lines {
			var v dataVec
			if err := json.Unmarshal(b, &v); err != nil {
				die("%s: %v", files[i+1], err)
			}
			vs = append(vs, v)
		}
		obs := make([]dataObs, len(vs))
		var wg sync.WaitGroup
		start := make(chan struct{})
		for k := 0; k < *g; k++ {
			wg.Add(1)
			go func(k int) {
				defer wg.Done()
				<-start
				for x := k; x < len(vs); x += *g {
					obs[x] = observe(ms, vs[x].D)
				}
			}(k)
		}
		close(start)
		wg.Wait()
		for x, v := range vs {
			n++
			for _, m := range judgeData(sh, v, obs[x]) {
				bad++
				w.put(m)
			}
		}
	}
	w.close()
	fmt.Printf("{\"evaluations\":%d,\"mismatches\":%d}\n", n, bad)
}

type randCase struct {
	ID   int         `json:"id"`
	Kids []dvm.SNode `json:"kids"`
	D    []dvm.DNode `json:"d"`
}

type dataEvent struct {
	Sid   int         `json:"sid"`
	Mut   string      `json:"mut"`
	D     []dvm.DNode `json:"d"`
	Errs  []dvm.Viol  `json:"errs"`
	Deco1 []dvm.DNode `json:"deco1"`
	Deco2 []dvm.DNode `json:"deco2"`
	After []dvm.DNode `json:"after"` // the explicit tree object walked again afterwards
	Errs2 []dvm.Viol  `json:"errs2"` // and validated again
}

// recordData: every case file line is [id, kids (schema), d (data)].
func recordData(args []string) {
	fs := flag.NewFlagSet("record-data", flag.ExitOnError)
	cases := fs.String("cases", "dvrand.ndjson", "schema / data pairs")
	mut := fs.Int("mut", 3, "seeded mutations of each data tree")
	trace := fs.String("trace", "trace.ndjson", "events")
	schemas := fs.String("schemas", "schemas.ndjson", "schemas used (for the trace spec)")
	fs.Parse(args)
	r := rand.New(rand.NewSource(seed()))
	w, ws := create(*trace), create(*schemas)
	ev, uncompilable := 0, 0
	eachLine(*cases, func(b []byte) {
		var c randCase
		if err := json.Unmarshal(b, &c); err != nil {
			die("%s: %v", *cases, err)
		}
		sh := dvm.Shape{ID: c.ID, Kids: c.Kids}
		ms, err := dvm.Compile(sh)
		if err != nil {
			// a sampled schema the compiler refuses is not this property's business: counted, not judged
			fmt.Fprintf(os.Stderr, "dv: sampled schema %d does not compile: %v\n", sh.ID, err)
			uncompilable++
			return
		}
		ws.put(sh)
		seen := map[string]bool{}
		emit := func(how string, d []dvm.DNode) {
			d = dvm.Canon(d)
			k := dvm.KeyOf(d)
			if seen[k] {
				return
			}
			seen[k] = true
			o := observe(ms, d)
			if o.Panic != "" {
				o.Errs = append(o.Errs, dvm.Viol{K: "panic", N: o.Panic, Path: []string{}})
			}
			w.put(dataEvent{c.ID, how, d, o.Errs, dvm.Canon(o.Deco1), dvm.Canon(o.Deco2), dvm.Canon(o.After), o.Errs2})
			ev++
		}
		emit("", c.D)
		for i := 0; i < *mut; i++ {
			how, d := dvm.Mutate(r, c.Kids, c.D)
			if how != "" {
				emit(how, d)
			}
		}
	})
	w.close()
	ws.close()
	fmt.Printf("{\"events\":%d,\"uncompilable\":%d}\n", ev, uncompilable)
}
