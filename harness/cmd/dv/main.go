// dv: conformance harness for schema path validation (C17) and structural data
// validation / default decoration (C18).
//
//	dv replay-path -out res.ndjson sps_1.ndjson spv_1.ndjson ...   model -> code, C17
//	dv record-path -schemas s.ndjson -n N -trace t.ndjson          code -> model, C17
//	dv conc-path -out res.ndjson sps_1.ndjson spv_1.ndjson ...     shared schema, concurrent callers, C17
//	dv conc-data -out res.ndjson dvs_1.ndjson dvv_1.ndjson ...     shared schema, concurrent callers, C18
//	dv replay-data -out res.ndjson dvs_1.ndjson dvv_1.ndjson ...   model -> code, C18
//	dv record-data -cases c.ndjson -mut K -trace t.ndjson          code -> model, C18
//	dv yang shape.ndjson                                           print the rendered YANG
//	dv probe shape.json (tokens... | -data JSON)                   try one input by hand
package main

import (
	"bufio"
	"encoding/json"
	"flag"
	"fmt"
	"math/rand"
	"os"
	"strconv"
	"sync"

	"github.com/sdcio/yang-parser/schema"

	"verif/harness/internal/dvm"
)

func usage() {
	fmt.Fprintln(os.Stderr, "usage: dv replay-path|record-path|replay-data|record-data|yang|probe ...")
	os.Exit(2)
}

func die(f string, a ...interface{}) {
	fmt.Fprintf(os.Stderr, "dv: "+f+"\n", a...)
	os.Exit(2)
}

func main() {
	if len(os.Args) < 2 {
		usage()
	}
	switch os.Args[1] {
	case "replay-path":
		replayPath(os.Args[2:])
	case "record-path":
		recordPath(os.Args[2:])
	case "conc-path":
		concPath(os.Args[2:])
	case "conc-data":
		concData(os.Args[2:])
	case "replay-data":
		replayData(os.Args[2:])
	case "record-data":
		recordData(os.Args[2:])
	case "yang":
		for _, sh := range readShapes(os.Args[2]) {
			fmt.Println(dvm.RenderYang(sh))
		}
	case "probe":
		probe(os.Args[2:])
	default:
		usage()
	}
}

func seed() int64 {
	n, err := strconv.ParseInt(os.Getenv("VERIF_SEED"), 10, 64)
	if err != nil {
		return 1
	}
	return n
}

func eachLine(path string, f func([]byte)) {
	fh, err := os.Open(path)
	if err != nil {
		die("%v", err)
	}
	defer fh.Close()
	sc := bufio.NewScanner(fh)
	sc.Buffer(make([]byte, 1<<24), 1<<24)
	for sc.Scan() {
		if len(sc.Bytes()) > 0 {
			f(sc.Bytes())
		}
	}
	if err := sc.Err(); err != nil {
		die("%s: %v", path, err)
	}
}

func readShapes(path string) []dvm.Shape {
	out := []dvm.Shape{}
	eachLine(path, func(b []byte) {
		var sh dvm.Shape
		if err := json.Unmarshal(b, &sh); err != nil {
			die("%s: %v", path, err)
		}
		out = append(out, sh)
	})
	return out
}

type writer struct {
	f *os.File
	w *bufio.Writer
}

func create(path string) *writer {
	f, err := os.Create(path)
	if err != nil {
		die("%v", err)
	}
	return &writer{f, bufio.NewWriterSize(f, 1<<20)}
}
func (w *writer) put(v interface{}) {
	b, err := json.Marshal(v)
	if err != nil {
		die("%v", err)
	}
	w.w.Write(b)
	w.w.WriteByte('\n')
}
func (w *writer) close() { w.w.Flush(); w.f.Close() }

// ------------------------------------------------------------------ C17

type pv struct {
	Ok bool   `json:"ok"`
	At int    `json:"at"`
	Ph string `json:"ph"`
}

// unjudged: the specification prescribes no verdict (at = -1: past the first key value of a list
// with several keys).  The call is made - it is part of the history - and not compared.
func (v pv) unjudged() bool { return v.At < 0 }
type pathVec struct {
	P []string `json:"p"`
	S pv       `json:"s"`
	I pv       `json:"i"`
}
type pathMism struct {
	Shape int             `json:"shape"`
	P     []string        `json:"p"`
	Inc   bool            `json:"inc"`
	Want  pv              `json:"want"`
	Got   dvm.PathVerdict `json:"got"`
	GotAt int             `json:"gotat"`
	Pass  int             `json:"pass"` // 1: rejected paths first, 2: accepted paths first (fresh schema each)
}

// replayPath: files come in pairs sps_N (schema) spv_N (vectors).
func replayPath(args []string) {
	fs := flag.NewFlagSet("replay-path", flag.ExitOnError)
	out := fs.String("out", "res.ndjson", "mismatches")
	fs.Parse(args)
	files := fs.Args()
	if len(files)%2 != 0 {
		die("replay-path wants pairs of schema and vector files")
	}
	w := create(*out)
	n, bad, unj := 0, 0, 0
	for i := 0; i < len(files); i += 2 {
		shs := readShapes(files[i])
		if len(shs) != 1 {
			die("%s: one schema expected", files[i])
		}
		sh := shs[0]
		type item struct {
			p    []string
			inc  bool
			want pv
		}
		items := []item{}
		eachLine(files[i+1], func(b []byte) {
			var v pathVec
			if err := json.Unmarshal(b, &v); err != nil {
				die("%s: %v", files[i+1], err)
			}
			items = append(items, item{v.P, false, v.S}, item{v.P, true, v.I})
		})
		// The verdict on a path must not depend on what was validated before: every vector is run
		// twice, each time on a freshly compiled schema - once with all paths the spec rejects
		// first, once with all paths it accepts first.
		reported := map[string]bool{}
		for pass, rejectedFirst := range []bool{true, false} {
			ms, err := dvm.Compile(sh)
			if err != nil {
				die("shape %d does not compile: %v\n%s", sh.ID, err, dvm.RenderYang(sh))
			}
			for _, first := range []bool{true, false} {
				for _, m := range items {
					if (m.want.Ok != rejectedFirst) != first {
						continue
					}
					got := dvm.ValidatePath(ms, m.p, m.inc)
					if m.want.unjudged() {
						unj++
						continue
					}
					n++
					good, at := pathAgrees(m.p, m.want, got)
					if !good {
						k := fmt.Sprint(m.p, m.inc)
						if reported[k] {
							continue
						}
						reported[k] = true
						bad++
						w.put(pathMism{sh.ID, m.p, m.inc, m.want, got, at, pass + 1})
					}
				}
			}
		}
	}
	w.close()
	fmt.Printf("{\"evaluations\":%d,\"mismatches\":%d,\"unjudged\":%d}\n", n, bad, unj)
}

// pathAgrees: same verdict, and for a rejection the error identifies the spec's first offending
// element (its decoded path is the input's own prefix up to that element, its info tag that element).
func pathAgrees(p []string, want pv, got dvm.PathVerdict) (bool, int) {
	ats := got.Ats(p)
	at := -1
	if len(ats) > 0 {
		at = ats[0]
	}
	if got.Ok != want.Ok {
		return false, at
	}
	if got.Ok {
		return true, at
	}
	for _, a := range ats {
		if a == want.At {
			return true, at
		}
	}
	return false, at
}

// concPath: one compiled ModelSet per shape is shared by G goroutines that validate DIFFERENT
// paths (accepted and rejected, both modes, shuffled so that subtrees and depths mix) at the same
// time, released together; every verdict and every error is judged like in replay-path.  Meant
// to be built with the race detector.
func concPath(args []string) {
	fs := flag.NewFlagSet("conc-path", flag.ExitOnError)
	out := fs.String("out", "conc.ndjson", "mismatches")
	max := fs.Int("max", 4000, "calls per shape")
	g := fs.Int("g", 16, "goroutines")
	fs.Parse(args)
	files := fs.Args()
	w := create(*out)
	r := rand.New(rand.NewSource(seed()))
	n, bad := 0, 0
	type item struct {
		p    []string
		inc  bool
		want pv
	}
	for i := 0; i+1 < len(files); i += 2 {
		shs := readShapes(files[i])
		sh := shs[0]
		ms, err := dvm.Compile(sh)
		if err != nil {
			die("shape %d does not compile: %v", sh.ID, err)
		}
		lines := [][]byte{} // parse only the drawn vectors (the race build is slow at everything)
		eachLine(files[i+1], func(b []byte) { lines = append(lines, append([]byte{}, b...)) })
		r.Shuffle(len(lines), func(a, b int) { lines[a], lines[b] = lines[b], lines[a] })
		if len(lines) > *max/2 {
			lines = lines[:*max/2]
		}
		items := []item{}
		for _, b := range lines {
			var v pathVec
			if err := json.Unmarshal(b, &v); err != nil {
				die("%s: %v", files[i+1], err)
			}
			items = append(items, item{v.P, false, v.S}, item{v.P, true, v.I})
		}
		r.Shuffle(len(items), func(a, b int) { items[a], items[b] = items[b], items[a] })
		got := make([]dvm.PathVerdict, len(items))
		var wg sync.WaitGroup
		start := make(chan struct{})
		for k := 0; k < *g; k++ {
			wg.Add(1)
			go func(k int) {
				defer wg.Done()
				<-start
				for x := k; x < len(items); x += *g {
					got[x] = dvm.ValidatePath(ms, items[x].p, items[x].inc)
				}
			}(k)
		}
		close(start)
		wg.Wait()
		for x, m := range items {
			if m.want.unjudged() {
				continue
			}
			n++
			if ok, at := pathAgrees(m.p, m.want, got[x]); !ok {
				bad++
				w.put(pathMism{sh.ID, m.p, m.inc, m.want, got[x], at, 0})
			}
		}
	}
	w.close()
	fmt.Printf("{\"evaluations\":%d,\"mismatches\":%d}\n", n, bad)
}

type pathEvent struct {
	Sid   int      `json:"sid"`
	P     []string `json:"p"`
	Inc   bool     `json:"inc"`
	Ok    bool     `json:"ok"`
	Form  string   `json:"form"`
	Epath []string `json:"epath"`
	Tok   string   `json:"tok"`
	MV    bool     `json:"mv"`
	Err   string   `json:"err"`
}

func recordPath(args []string) {
	fs := flag.NewFlagSet("record-path", flag.ExitOnError)
	schemas := fs.String("schemas", "schemas.ndjson", "schema records")
	n := fs.Int("n", 100, "paths per schema")
	trace := fs.String("trace", "trace.ndjson", "events")
	fs.Parse(args)
	r := rand.New(rand.NewSource(seed()))
	w := create(*trace)
	ev, skipped, uncompilable := 0, 0, 0
	for _, sh := range readShapes(*schemas) {
		ms, err := dvm.Compile(sh)
		if err != nil {
			// a sampled schema the compiler refuses is not this property's business: counted, not judged
			if sh.ID < 1000 {
				die("schema %d does not compile: %v\n%s", sh.ID, err, dvm.RenderYang(sh))
			}
			fmt.Fprintf(os.Stderr, "dv: sampled schema %d does not compile: %v\n", sh.ID, err)
			uncompilable++
			continue
		}
		type call struct {
			p   []string
			inc bool
		}
		seen := map[string]bool{}
		calls := []call{}
		for i := 0; i < *n; i++ {
			p := dvm.RandPath(r, sh)
			inc := r.Intn(2) == 0
			k := fmt.Sprint(p, inc)
			if seen[k] {
				skipped++
				continue
			}
			seen[k] = true
			calls = append(calls, call{p, inc})
		}
		// the same calls in the drawn order and, on a freshly compiled schema, in the reverse order:
		// what Validate answers must not depend on the calls made before
		for pass := 0; pass < 2; pass++ {
			if pass == 1 {
				if ms, err = dvm.Compile(sh); err != nil {
					die("schema %d does not compile the second time: %v", sh.ID, err)
				}
			}
			for i := range calls {
				c := calls[i]
				if pass == 1 {
					c = calls[len(calls)-1-i]
				}
				got := dvm.ValidatePath(ms, c.p, c.inc)
				w.put(pathEvent{sh.ID, c.p, c.inc, got.Ok, got.Form, got.Epath, got.Tok, got.MV, got.Err})
				ev++
			}
		}
	}
	w.close()
	fmt.Printf("{\"events\":%d,\"duplicates_skipped\":%d,\"uncompilable\":%d}\n", ev, skipped, uncompilable)
}

// ------------------------------------------------------------------ by hand

func probe(args []string) {
	shs := readShapes(args[0])
	sh := shs[0]
	fmt.Println(dvm.RenderYang(sh))
	ms, err := dvm.Compile(sh)
	if err != nil {
		die("%v", err)
	}
	if len(args) > 1 && args[1] == "-data" {
		var d []dvm.DNode
		if err := json.Unmarshal([]byte(args[2]), &d); err != nil {
			die("%v", err)
		}
		tree := dvm.Build(d)
		_, errs, ok := schema.ValidateSchema(ms, tree, false)
		fmt.Println("ok", ok)
		for _, e := range errs {
			fmt.Printf("  %T %+v\n   -> %+v\n", e, e, dvm.DecodeViol(e))
		}
		fmt.Println("deco1", dvm.KeyOf(dvm.Walk(schema.AddDefaults(ms, tree))))
		fmt.Println("deco2", dvm.KeyOf(dvm.Walk(schema.AddDefaults(ms, schema.AddDefaults(ms, tree)))))
		return
	}
	p := args[1:]
	for _, inc := range []bool{false, true} {
		fmt.Printf("inc=%v %+v\n", inc, dvm.ValidatePath(ms, p, inc))
	}
}
