// vx: conformance harness of the extension module X-validate-xpath (when / must / leafref part
// of data validation, schema/validate.go, and the XPath adapter over data trees,
// schema/xpath_adapter.go).  Expectations come from TLC (spec/ValidateXPath*.tla).
//
//	vx replay -out res.ndjson vxs_1.ndjson vxv_1.ndjson ...    validator: model -> code
//	vx adapter -out res.ndjson vxs_1.ndjson vxa_1.ndjson ...   adapter view: model -> code
//	vx xnode -out res.ndjson vxs_1.ndjson vxw_1.ndjson ...     schema walker XNode (node_xpath.go)
//	vx yang vxs_1.ndjson                                       print the rendered YANG
//	vx probe vxs_1.ndjson '<data json>' [all|none|state|config|func]   try one input by hand
//	vx probe-yang file.yang '<data json>' [all|none|state|config|func]
package main

import (
	"bufio"
	"encoding/json"
	"flag"
	"fmt"
	"os"

	"github.com/sdcio/yang-parser/compile"
	"github.com/sdcio/yang-parser/parse"
	"github.com/sdcio/yang-parser/schema"

	"verif/harness/internal/vxm"
)

func die(f string, a ...interface{}) {
	fmt.Fprintf(os.Stderr, "vx: "+f+"\n", a...)
	os.Exit(2)
}

func main() {
	if len(os.Args) < 2 {
		die("usage: vx replay|adapter|xnode|yang|probe|probe-yang ...")
	}
	switch os.Args[1] {
	case "replay":
		replay(os.Args[2:])
	case "adapter":
		adapter(os.Args[2:])
	case "xnode":
		xnode(os.Args[2:])
	case "yang":
		for _, sh := range readShapes(os.Args[2]) {
			fmt.Println(vxm.RenderYang(sh))
		}
	case "probe":
		probe(os.Args[2:])
	case "probe-yang":
		probeYang(os.Args[2:])
	default:
		die("unknown command %s", os.Args[1])
	}
}

func eachLine(path string, f func([]byte)) {
	fh, err := os.Open(path)
	if err != nil {
		die("%v", err)
	}
	defer fh.Close()
	sc := bufio.NewScanner(fh)
	sc.Buffer(make([]byte, 1<<26), 1<<26)
	for sc.Scan() {
		if len(sc.Bytes()) > 0 {
			f(sc.Bytes())
		}
	}
	if err := sc.Err(); err != nil {
		die("%s: %v", path, err)
	}
}

func readShapes(path string) []vxm.Shape {
	out := []vxm.Shape{}
	eachLine(path, func(b []byte) {
		var sh vxm.Shape
		if err := json.Unmarshal(b, &sh); err != nil {
			die("%s: %v", path, err)
		}
		out = append(out, sh)
	})
	return out
}

func loadShape(path string) (vxm.Shape, schema.ModelSet) {
	shs := readShapes(path)
	if len(shs) != 1 {
		die("%s: one schema expected", path)
	}
	ms, err := vxm.Compile(shs[0])
	if err != nil {
		die("shape %d does not compile: %v\n%s", shs[0].ID, err, vxm.RenderYang(shs[0]))
	}
	return shs[0], ms
}

type writer struct {
	f *os.File
	w *bufio.Writer
}

func create(path string) *writer {
	f, err := os.Create(path)
	if err != nil {
		die("%v", err)
	}
	return &writer{f, bufio.NewWriterSize(f, 1<<20)}
}
func (w *writer) put(v interface{}) {
	b, err := json.Marshal(v)
	if err != nil {
		die("%v", err)
	}
	w.w.Write(b)
	w.w.WriteByte('\n')
}
func (w *writer) close() { w.w.Flush(); w.f.Close() }

// one record of the replay result: a disagreement, or (kind "finding") an oddity the code shows
type replayRec struct {
	Kind  string      `json:"kind"` // mismatch | finding
	Cause string      `json:"cause,omitempty"`
	Shape int         `json:"shape"`
	Api   string      `json:"api"`
	Vt    string      `json:"vt"`
	D     []vxm.DNode `json:"d"`
	Diff  *vxm.Diff   `json:"diff,omitempty"`
	Text  string      `json:"text,omitempty"`
	Want  []vxm.WErr  `json:"want"`
	Rfc   []vxm.WErr  `json:"rfc,omitempty"`
	Cw    []string    `json:"cw,omitempty"`
	Got   []vxm.Err   `json:"got"`
}

func replay(args []string) {
	fs := flag.NewFlagSet("replay", flag.ExitOnError)
	out := fs.String("out", "res.ndjson", "mismatches and findings")
	maxf := fs.Int("maxfindings", 3, "finding records kept per shape and cause")
	fs.Parse(args)
	files := fs.Args()
	if len(files)%2 != 0 {
		die("replay wants pairs of schema and vector files")
	}
	w := create(*out)
	n, bad, withErrs, errsSeen := 0, 0, 0, 0
	agree := map[string]int{}
	findings := map[string]int{}
	for i := 0; i < len(files); i += 2 {
		sh, ms := loadShape(files[i])
		kept := map[string]int{}
		eachLine(files[i+1], func(b []byte) {
			var v vxm.Vec
			if err := json.Unmarshal(b, &v); err != nil {
				die("%s: %v", files[i+1], err)
			}
			apis := []string{"sv"}
			if v.Vt == "all" {
				apis = append(apis, "func")
			}
			for _, api := range apis {
				n++
				if len(v.Code) > 0 {
					withErrs++
					errsSeen += len(v.Code)
				}
				o := vxm.Validate(ms, v.D, api, v.Vt)
				vd := vxm.Judge(v, o)
				if vd.Diff != nil {
					bad++
					w.put(replayRec{Kind: "mismatch", Shape: sh.ID, Api: api, Vt: v.Vt, D: v.D, Diff: vd.Diff, Text: vd.Diff.Describe(), Want: v.Code, Rfc: v.Errs, Cw: v.Cw, Got: o.Errs})
					continue
				}
				agree[vd.Agree]++
				for cause, hit := range map[string]bool{"np-when-ignored": vd.O1, "case-when-ignored": vd.O2} {
					if !hit {
						continue
					}
					findings[cause]++
					if kept[cause] < *maxf {
						kept[cause]++
						w.put(replayRec{Kind: "finding", Cause: cause, Shape: sh.ID, Api: api, Vt: v.Vt, D: v.D, Want: v.Code, Rfc: v.Errs, Cw: v.Cw, Got: o.Errs})
					}
				}
			}
		})
	}
	w.close()
	b, _ := json.Marshal(map[string]interface{}{"evaluations": n, "mismatches": bad, "with_errors": withErrs, "errors_prescribed": errsSeen, "agree": agree, "findings": findings})
	fmt.Println(string(b))
}

type adapterRec struct {
	Shape int         `json:"shape"`
	D     []vxm.DNode `json:"d"`
	M     vxm.AMism   `json:"m"`
}

func adapter(args []string) {
	fs := flag.NewFlagSet("adapter", flag.ExitOnError)
	out := fs.String("out", "resa.ndjson", "mismatches")
	fs.Parse(args)
	files := fs.Args()
	if len(files)%2 != 0 {
		die("adapter wants pairs of schema and view files")
	}
	w := create(*out)
	n, nodes, bad := 0, 0, 0
	for i := 0; i < len(files); i += 2 {
		sh, ms := loadShape(files[i])
		eachLine(files[i+1], func(b []byte) {
			var v vxm.AVec
			if err := json.Unmarshal(b, &v); err != nil {
				die("%s: %v", files[i+1], err)
			}
			n++
			ms2, k := vxm.CheckAdapter(sh, ms, v, 5)
			nodes += k
			for _, m := range ms2 {
				bad++
				w.put(adapterRec{sh.ID, v.D, m})
			}
		})
	}
	w.close()
	fmt.Printf("{\"trees\":%d,\"nodes\":%d,\"mismatches\":%d}\n", n, nodes, bad)
}

func parseData(s string) []vxm.DNode {
	var d []vxm.DNode
	if err := json.Unmarshal([]byte(s), &d); err != nil {
		die("data: %v", err)
	}
	return d
}

func show(ms schema.Node, d []vxm.DNode, vt string) {
	api := "sv"
	if vt == "func" {
		api, vt = "func", "all"
	}
	o := vxm.Validate(ms, d, api, vt)
	b, _ := json.MarshalIndent(o, "", " ")
	fmt.Println(string(b))
}

func probe(args []string) {
	if len(args) < 2 {
		die("probe vxs_N.ndjson data-json [valtype]")
	}
	_, ms := loadShape(args[0])
	vt := "func"
	if len(args) > 2 {
		vt = args[2]
	}
	show(ms, parseData(args[1]), vt)
}

func probeYang(args []string) {
	if len(args) < 2 {
		die("probe-yang file.yang data-json [valtype]")
	}
	text, err := os.ReadFile(args[0])
	if err != nil {
		die("%v", err)
	}
	t, err := parse.Parse("m.yang", string(text), nil)
	if err != nil {
		die("parse: %v", err)
	}
	ms, err := compile.CompileParseTrees(nil, map[string]*parse.Tree{"m": t}, compile.FeaturesFromNames(true), false, nil)
	if err != nil {
		die("compile: %v", err)
	}
	vt := "func"
	if len(args) > 2 {
		vt = args[2]
	}
	show(ms, parseData(args[1]), vt)
}

type xnodeRec struct {
	Shape int         `json:"shape"`
	At    string      `json:"at"`
	What  string      `json:"what"`
	Want  interface{} `json:"want"`
	Got   interface{} `json:"got"`
}

// xnode: the schema walker of node_xpath.go (schema.NewXNode) against the schema view of the spec.
func xnode(args []string) {
	fs := flag.NewFlagSet("xnode", flag.ExitOnError)
	out := fs.String("out", "resx.ndjson", "mismatches")
	fs.Parse(args)
	files := fs.Args()
	if len(files)%2 != 0 {
		die("xnode wants pairs of schema and schema-view files")
	}
	w := create(*out)
	n, bad := 0, 0
	for i := 0; i < len(files); i += 2 {
		sh, ms := loadShape(files[i])
		eachLine(files[i+1], func(b []byte) {
			var v vxm.SView
			if err := json.Unmarshal(b, &v); err != nil {
				die("%s: %v", files[i+1], err)
			}
			ms2, k := vxm.CheckXNode(sh, ms, v)
			n += k
			for _, m := range ms2 {
				bad++
				w.put(xnodeRec{sh.ID, m.At, m.What, m.Want, m.Got})
			}
		})
	}
	w.close()
	fmt.Printf("{\"nodes\":%d,\"mismatches\":%d}\n", n, bad)
}
