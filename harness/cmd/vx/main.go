// vx: conformance harness of the extension module X-validate-xpath (when / must / leafref part
// of data validation and the XPath adapter over data trees).
//
//	vx probe-yang file.yang '<data json>' [all|none|state|config|func]   try one input by hand
package main

import (
	"encoding/json"
	"fmt"
	"os"

	"github.com/sdcio/yang-parser/compile"
	"github.com/sdcio/yang-parser/parse"

	"verif/harness/internal/vxm"
)

func die(f string, a ...interface{}) {
	fmt.Fprintf(os.Stderr, "vx: "+f+"\n", a...)
	os.Exit(2)
}

func main() {
	if len(os.Args) < 2 {
		die("usage: vx probe-yang ...")
	}
	switch os.Args[1] {
	case "probe-yang":
		probeYang(os.Args[2:])
	default:
		die("unknown command %s", os.Args[1])
	}
}

func probeYang(args []string) {
	if len(args) < 2 {
		die("probe-yang file.yang data-json [valtype]")
	}
	text, err := os.ReadFile(args[0])
	if err != nil {
		die("%v", err)
	}
	t, err := parse.Parse("m.yang", string(text), nil)
	if err != nil {
		die("parse: %v", err)
	}
	ms, err := compile.CompileParseTrees(nil, map[string]*parse.Tree{"m": t}, compile.FeaturesFromNames(true), false, nil)
	if err != nil {
		die("compile: %v", err)
	}
	var d []vxm.DNode
	if err := json.Unmarshal([]byte(args[1]), &d); err != nil {
		die("data: %v", err)
	}
	vt := "func"
	if len(args) > 2 {
		vt = args[2]
	}
	api := "sv"
	if vt == "func" {
		api = "func"
	}
	o := vxm.Validate(ms, d, api, vt)
	b, _ := json.MarshalIndent(o, "", " ")
	fmt.Println(string(b))
}
