// ypt: yp plus the bridge to the lexer hooks (parse/verif_hooks.go, build tag verif); it
// builds only against a repository that carries pending/yangparse/01-lexer-hooks.patch.
package main

import (
	"github.com/sdcio/yang-parser/parse"

	"verif/harness/internal/ypm"
)

func main() {
	ypm.InstallTracer = func(f func(ypm.LexEvent)) {
		if f == nil {
			parse.VerifSetLexTracer(nil)
			return
		}
		parse.VerifSetLexTracer(func(e parse.VerifLexEvent) {
			f(ypm.LexEvent{Lexer: e.Lexer, Name: e.Name, Ev: e.Ev, Typ: e.Typ, Pos: e.Pos, End: e.End})
		})
	}
	ypm.Main()
}
