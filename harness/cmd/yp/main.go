// yp: conformance harness for the YANG text parser (package parse; properties C07, C08, C10)
// through its public API only.
package main

import "verif/harness/internal/ypm"

func main() { ypm.Main() }
