// ys: conformance harness for the statement grammar (property C09, spec YangStmt.tla).
//
//	ys run    -in probes.ndjson -out res.ndjson     replay TLC-generated probes (model -> code)
//	ys record -in trees.ndjson -out events.ndjson   mutate TLC-sampled trees (seeded), run the code,
//	                                                log (tree, verdicts, error location) events (code -> model)
//	ys text   file.yang [-compile]                  run one YANG text by hand
//	ys tree   file.json                             render one tree and run it
package main

import (
	"bufio"
	"encoding/json"
	"flag"
	"fmt"
	"math/rand"
	"os"
	"runtime"
	"strconv"
	"strings"

	"verif/harness/internal/ysm"
)

func usage() {
	fmt.Fprintln(os.Stderr, "usage: ys run|record|text|tree ...")
	os.Exit(2)
}

func main() {
	if len(os.Args) < 2 {
		usage()
	}
	switch os.Args[1] {
	case "run":
		run(os.Args[2:])
	case "record":
		record(os.Args[2:])
	case "text":
		text(os.Args[2:])
	case "tree":
		tree(os.Args[2:])
	default:
		usage()
	}
}

// Probe is one TLC-generated vector: the tree, whether a compile is wanted and the
// companion module texts (trees) that must be loaded with it.  Everything else in
// the line (expectation) is for the driver and is passed through untouched.
type Probe struct {
	Tree    *ysm.Stmt       `json:"tree"`
	Compile bool            `json:"compile"`
	Comp    []*ysm.Stmt     `json:"comp"`
	Kwq     string          `json:"kwq"`    // keyword-table query: is this keyword a YANG statement for the parser?
	Expand  []ysm.Directive `json:"expand"` // large multiplicities: copies the renderer must write out
}

type Result struct {
	ID      int      `json:"id"` // line number of the probe in its file
	Text    string   `json:"text"`
	Comp    []string `json:"comp,omitempty"`
	Obs     ysm.Obs  `json:"obs"`
	KwKnown bool     `json:"kwKnown"`
}

func readLines(path string, f func(line []byte) error) error {
	fh, err := os.Open(path)
	if err != nil {
		return err
	}
	defer fh.Close()
	sc := bufio.NewScanner(fh)
	sc.Buffer(make([]byte, 1<<20), 1<<26)
	for sc.Scan() {
		b := sc.Bytes()
		if len(b) == 0 {
			continue
		}
		if err := f(b); err != nil {
			return err
		}
	}
	return sc.Err()
}

func die(err error) {
	fmt.Fprintln(os.Stderr, "ys:", err)
	os.Exit(2)
}

func run(args []string) {
	fs := flag.NewFlagSet("run", flag.ExitOnError)
	in := fs.String("in", "", "probe file (ndjson)")
	out := fs.String("out", "", "result file (ndjson)")
	fs.Parse(args)
	of, err := os.Create(*out)
	if err != nil {
		die(err)
	}
	w := bufio.NewWriter(of)
	enc := json.NewEncoder(w)
	n := 0
	err = readLines(*in, func(b []byte) error {
		var p Probe
		if err := json.Unmarshal(b, &p); err != nil {
			return fmt.Errorf("line %d: %v", n+1, err)
		}
		n++
		if p.Tree == nil {
			return enc.Encode(Result{ID: n, KwKnown: ysm.KeywordKnown(p.Kwq)})
		}
		tree := p.Tree
		if len(p.Expand) > 0 {
			tree = ysm.Expand(tree, p.Expand)
		}
		r := ysm.Render(tree)
		var comps []string
		for _, c := range p.Comp {
			comps = append(comps, ysm.Render(c).Text)
		}
		o := ysm.Run(r, p.Compile, comps)
		text := r.Text
		if len(text) > 4000 {
			text = text[:2000] + "\n... (" + strconv.Itoa(len(text)) + " bytes; expand directives applied) ...\n" + text[len(text)-1500:]
		}
		return enc.Encode(Result{ID: n, Text: text, Comp: comps, Obs: o})
	})
	if err != nil {
		die(err)
	}
	w.Flush()
	of.Close()
	fmt.Fprintf(os.Stderr, "ys run: %d probes\n", n)
}

// ---------------------------------------------------------------- record

// Event is one code -> model observation: the tree that was actually fed to the
// code (after seeded mutation) and what the code did.  YangStmtTrace.tla judges it.
type Event struct {
	ID      int       `json:"id"`
	Mut     string    `json:"mut"`
	Tree    *ysm.Stmt `json:"tree"`
	ParseOk bool      `json:"parseOk"`
	Ok      bool      `json:"ok"` // parsed and compiled
	Panic   bool      `json:"panic"`
	Skipped bool      `json:"skipped"` // parsed, but the compile was not attempted (possible definition cycle)
	Located bool      `json:"located"`
	ErrPath []int     `json:"errPath"`
	AtStmt  bool      `json:"atStmt"` // the error line is the first line of a statement
	Named   []string  `json:"named"`
	Err     string    `json:"err"` // error text, ASCII only
	Ext     string    `json:"ext"` // name (in YangStmt.tla ExtFns) of the extension cardinality function this parse was given
	Text    string    `json:"-"`
}

// History is a TLC-generated sequence of trees to be parsed with one shared pair of interners.
type History struct {
	Label []string    `json:"label"`
	Seq   []*ysm.Stmt `json:"seq"`
	// histories of parses with different extension cardinality functions (third argument of parse.Parse)
	Blocks []struct {
		Ext   string      `json:"ext"`
		Trees []*ysm.Stmt `json:"trees"`
	} `json:"blocks"` // the trees parsed under each function
	Orders [][]string `json:"orders"` // every order in which the blocks are run
	Exts   []struct {
		Name  string        `json:"name"`
		Cells []ysm.ExtCell `json:"cells"`
	} `json:"exts"`
}

type Base struct {
	ID   int         `json:"id"`
	Tree *ysm.Stmt   `json:"tree"`
	Pool []*ysm.Stmt `json:"pool"`
}

func clone(s *ysm.Stmt) *ysm.Stmt {
	c := &ysm.Stmt{Kw: s.Kw, Arg: s.Arg}
	for _, x := range s.Subs {
		c.Subs = append(c.Subs, clone(x))
	}
	if c.Subs == nil {
		c.Subs = []*ysm.Stmt{}
	}
	return c
}

func allNodes(s *ysm.Stmt, acc *[]*ysm.Stmt) {
	*acc = append(*acc, s)
	for _, c := range s.Subs {
		allNodes(c, acc)
	}
}

// mutate applies one seeded structural edit; the result is judged by the spec, so
// no edit needs to know whether it keeps the tree valid.
func mutate(rng *rand.Rand, t *ysm.Stmt, pool []*ysm.Stmt) (string, *ysm.Stmt) {
	t = clone(t)
	var nodes []*ysm.Stmt
	allNodes(t, &nodes)
	withKids := nodes[:0:0]
	for _, n := range nodes {
		if len(n.Subs) > 0 {
			withKids = append(withKids, n)
		}
	}
	pick := func(xs []*ysm.Stmt) *ysm.Stmt { return xs[rng.Intn(len(xs))] }
	switch k := rng.Intn(7); {
	case k == 0 || len(withKids) == 0:
		return "none", t
	case k == 1: // duplicate a child in place
		p := pick(withKids)
		i := rng.Intn(len(p.Subs))
		d := clone(p.Subs[i])
		p.Subs = append(p.Subs[:i+1], append([]*ysm.Stmt{d}, p.Subs[i+1:]...)...)
		return "dup", t
	case k == 2: // drop a child
		p := pick(withKids)
		i := rng.Intn(len(p.Subs))
		p.Subs = append(p.Subs[:i], p.Subs[i+1:]...)
		return "drop", t
	case k == 3: // swap two children
		p := pick(withKids)
		i, j := rng.Intn(len(p.Subs)), rng.Intn(len(p.Subs))
		p.Subs[i], p.Subs[j] = p.Subs[j], p.Subs[i]
		return "swap", t
	case k == 4: // move a subtree under another statement
		p := pick(withKids)
		i := rng.Intn(len(p.Subs))
		c := p.Subs[i]
		p.Subs = append(p.Subs[:i], p.Subs[i+1:]...)
		var cands []*ysm.Stmt
		var inC []*ysm.Stmt
		allNodes(c, &inC)
		in := map[*ysm.Stmt]bool{}
		for _, x := range inC {
			in[x] = true
		}
		for _, n := range nodes {
			if !in[n] {
				cands = append(cands, n)
			}
		}
		q := pick(cands)
		j := rng.Intn(len(q.Subs) + 1)
		q.Subs = append(q.Subs[:j], append([]*ysm.Stmt{c}, q.Subs[j:]...)...)
		return "move", t
	case k == 5 && len(pool) > 0: // graft a statement from the pool (argument and keyword variety)
		q := pick(nodes)
		c := clone(pick(pool))
		j := rng.Intn(len(q.Subs) + 1)
		q.Subs = append(q.Subs[:j], append([]*ysm.Stmt{c}, q.Subs[j:]...)...)
		return "graft", t
	default: // take the argument of another statement
		a, b := pick(nodes), pick(nodes)
		if a.Arg != ysm.NoArg && b.Arg != ysm.NoArg {
			a.Arg = b.Arg
		}
		return "arg", t
	}
}

// ascii keeps the error text readable for TLC's JSON reader
func ascii(s string) string {
	b := []byte(s)
	for i, c := range b {
		if c >= 0x7f || (c < 0x20 && c != '\n') {
			b[i] = '?'
		}
	}
	return string(b)
}

func record(args []string) {
	fs := flag.NewFlagSet("record", flag.ExitOnError)
	in := fs.String("in", "", "base trees (ndjson)")
	out := fs.String("out", "", "event file (ndjson)")
	per := fs.Int("per", 4, "mutants per base tree")
	fs.Parse(args)
	hists := fs.Args() // history files: sequences of trees parsed with one shared pair of interners
	seed, _ := strconv.ParseInt(os.Getenv("VERIF_SEED"), 10, 64)
	rng := rand.New(rand.NewSource(seed*7919 + 17))
	of, err := os.Create(*out)
	if err != nil {
		die(err)
	}
	w := bufio.NewWriter(of)
	enc := json.NewEncoder(w)
	n := 0
	err = readLines(*in, func(b []byte) error {
		var base Base
		if err := json.Unmarshal(b, &base); err != nil {
			return err
		}
		for m := 0; m < *per; m++ {
			name, t := "none", clone(base.Tree)
			if m > 0 {
				name, t = mutate(rng, base.Tree, base.Pool)
				if rng.Intn(3) == 0 {
					var n2 string
					n2, t = mutate(rng, t, base.Pool)
					name += "+" + n2
				}
			}
			r := ysm.Render(t)
			risky := ysm.CompileRisky(t)
			o := ysm.Run(r, !risky, nil)
			n++
			ev := Event{ID: n, Mut: name, Tree: t, ParseOk: o.ParseOk, Ok: o.ParseOk && o.CompileOk, Located: o.Located,
				ErrPath: o.ErrPathSeq, AtStmt: o.ErrPath != "-", Named: o.Named, Text: r.Text,
				Skipped: o.ParseOk && risky, Ext: "empty"}
			if o.Panic != "" {
				ev.Err = ascii("PANIC " + o.Panic)
				ev.Panic = true
			} else {
				ev.Err = ascii(o.ParseErr + o.CompileErr)
			}
			if ev.ErrPath == nil {
				ev.ErrPath = []int{}
			}
			if err := enc.Encode(ev); err != nil {
				return err
			}
		}
		return nil
	})
	if err != nil {
		die(err)
	}
	// histories: every text of a sequence goes through parse.ParseWithInterners with the SAME interners;
	// each is logged as an ordinary event and judged on its own by the spec.
	//
	// At the pin a failed parse leaves its lexer goroutine behind (property C07); with shared interners
	// that goroutine may still be interning its look-ahead token while the next parse has started
	// ("fatal error: concurrent map read and map write" in StringInterner.Intern, observed here).  That
	// is not what this property is about, so histories run on one P and yield after every parse, which
	// lets an abandoned lexer run into its blocking send before the next text is parsed.
	nh := 0
	if len(hists) > 0 {
		runtime.GOMAXPROCS(1)
	}
	for _, hf := range hists {
		err = readLines(hf, func(b []byte) error {
			var h History
			if err := json.Unmarshal(b, &h); err != nil {
				return err
			}
			nh++
			in := ysm.NewInterners()
			for k, t := range h.Seq {
				r := ysm.Render(t)
				risky := ysm.CompileRisky(t)
				o := ysm.RunWith(r, !risky, nil, in)
				for y := 0; y < 3; y++ {
					runtime.Gosched()
				}
				n++
				ev := Event{ID: n, Mut: fmt.Sprintf("hist:%s:%d.%d/%d", strings.Join(h.Label, ","), nh, k+1, len(h.Seq)), Tree: t,
					ParseOk: o.ParseOk, Ok: o.ParseOk && o.CompileOk, Located: o.Located,
					ErrPath: o.ErrPathSeq, AtStmt: o.ErrPath != "-", Named: o.Named, Skipped: o.ParseOk && risky, Ext: "empty"}
				if o.Panic != "" {
					ev.Err = ascii("PANIC " + o.Panic)
					ev.Panic = true
				} else {
					ev.Err = ascii(o.ParseErr + o.CompileErr)
				}
				if ev.ErrPath == nil {
					ev.ErrPath = []int{}
				}
				if err := enc.Encode(ev); err != nil {
					return err
				}
			}
			// parses with different extension cardinality functions, one after the other in this process;
			// what is checked of an extension statement is checked by the parser, so these are parse-only
			exts := map[string]*ysm.ExtCard{}
			for _, x := range h.Exts {
				exts[x.Name] = &ysm.ExtCard{Nil: x.Name == "nil", Cells: x.Cells}
			}
			blocks := map[string][]*ysm.Stmt{}
			for _, b := range h.Blocks {
				blocks[b.Ext] = b.Trees
			}
			for oi, order := range h.Orders {
				for bi, name := range order {
					ext, ok := exts[name]
					if !ok {
						return fmt.Errorf("history %d: unknown extension function %q", nh, name)
					}
					for k, tr := range blocks[name] {
						r := ysm.Render(tr)
						o := ysm.RunExt(r, false, nil, nil, ext)
						n++
						ev := Event{ID: n, Mut: fmt.Sprintf("xhist:%s:order %d (%s) block %d tree %d", name, oi+1, strings.Join(order, ">"), bi+1, k+1), Tree: tr,
							ParseOk: o.ParseOk, Ok: o.ParseOk, Located: o.Located, ErrPath: o.ErrPathSeq, AtStmt: o.ErrPath != "-",
							Named: o.Named, Ext: name}
						if o.Panic != "" {
							ev.Err = ascii("PANIC " + o.Panic)
							ev.Panic = true
						} else {
							ev.Err = ascii(o.ParseErr)
						}
						if ev.ErrPath == nil {
							ev.ErrPath = []int{}
						}
						if err := enc.Encode(ev); err != nil {
							return err
						}
					}
				}
			}
			return nil
		})
		if err != nil {
			die(err)
		}
	}
	w.Flush()
	of.Close()
	fmt.Fprintf(os.Stderr, "ys record: %d events (%d histories)\n", n, nh)
}

// ---------------------------------------------------------------- by hand

func text(args []string) {
	fs := flag.NewFlagSet("text", flag.ExitOnError)
	comp := fs.Bool("compile", false, "also compile")
	fs.Parse(args)
	for _, f := range fs.Args() {
		b, err := os.ReadFile(f)
		if err != nil {
			die(err)
		}
		r := &ysm.Rendered{Text: string(b), PathAt: map[int]string{}, KwAt: map[int]string{}}
		o := ysm.Run(r, *comp, nil)
		j, _ := json.MarshalIndent(o, "", " ")
		fmt.Println(string(j))
	}
}

func tree(args []string) {
	fs := flag.NewFlagSet("tree", flag.ExitOnError)
	fs.Parse(args)
	for _, f := range fs.Args() {
		b, err := os.ReadFile(f)
		if err != nil {
			die(err)
		}
		var p Probe
		if err := json.Unmarshal(b, &p); err != nil {
			die(err)
		}
		r := ysm.Render(p.Tree)
		var comps []string
		for _, c := range p.Comp {
			comps = append(comps, ysm.Render(c).Text)
		}
		o := ysm.Run(r, p.Compile, comps)
		fmt.Print(r.Text)
		j, _ := json.MarshalIndent(o, "", " ")
		fmt.Println(string(j))
	}
}
