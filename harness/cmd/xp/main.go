// xp: conformance harness for the XPath layer (properties C01-C06).
package main

import (
	"bufio"
	"context"
	"encoding/json"
	"errors"
	"flag"
	"fmt"
	"os"
	"reflect"
	"strings"
	"time"

	"github.com/sdcio/yang-parser/xpath"
	"github.com/sdcio/yang-parser/xpath/grammars/expr"

	"verif/harness/internal/xpm"
)

func usage() {
	fmt.Fprintln(os.Stderr, "usage: xp replay|record|lex|total|conc ...")
	os.Exit(2)
}

func main() {
	if len(os.Args) < 2 {
		usage()
	}
	switch os.Args[1] {
	case "replay":
		replay(os.Args[2:])
	case "record":
		record(os.Args[2:])
	case "eval":
		evalCmd(os.Args[2:])
	case "funcs":
		funcsCmd(os.Args[2:])
	case "gram":
		gram(os.Args[2:])
	case "total":
		total(os.Args[2:])
	case "conc":
		conc(os.Args[2:])
	case "stress":
		stress(os.Args[2:])
	default:
		usage()
	}
}

func mapFn(prefix string) (string, error) {
	switch prefix {
	case "":
		return "urn:self", nil
	case "p":
		return "urn:p", nil
	case "q":
		return "urn:q", nil
	}
	return "", fmt.Errorf("unknown prefix %q", prefix)
}

// A call into the library that does not come back: waited for hangFirst, then for hangConfirm more (a starved
// goroutine on a loaded machine comes back, an endless loop does not).  The goroutine is left behind; after
// maxHangs of them the process stops feeding inputs (each one burns a core).
const (
	hangFirst   = 5 * time.Second
	hangConfirm = 25 * time.Second
	maxHangs    = 3
)

var nHangs int

func watchdog(f func()) (hung bool) {
	done := make(chan struct{})
	go func() {
		defer close(done)
		f()
	}()
	select {
	case <-done:
		return false
	case <-time.After(hangFirst):
	}
	select {
	case <-done:
		return false
	case <-time.After(hangConfirm):
		nHangs++
		return true
	}
}

var errHang = errors.New("VERIF-HANG: the call did not return")

// compile under a panic trap and a watchdog
func compile(text string) (m *xpath.Machine, err error, panicked interface{}) {
	if watchdog(func() { m, err, panicked = compileRaw(text) }) {
		return nil, errHang, nil
	}
	return
}

func compileRaw(text string) (m *xpath.Machine, err error, panicked interface{}) {
	defer func() {
		if r := recover(); r != nil {
			panicked = r
		}
	}()
	m, err = expr.NewExprMachine(text, mapFn)
	return
}

type Vector struct {
	Fam       int        `json:"fam"`
	Expr      string     `json:"expr"`
	Variants  []string   `json:"variants"`
	Prog      []xpm.Ins  `json:"prog"`
	Calls     []xpm.Call `json:"calls"`
	T         string     `json:"t"`
	VClass    string     `json:"vclass"`
	Judged    bool       `json:"judged"`
	Rb        bool       `json:"rb"`
	Rn        xpm.NumRec `json:"rn"`
	Rs        string     `json:"rs"`
	RnJudged  bool       `json:"rnJudged"`
	InfStr    bool       `json:"infstr"`    // some sub-expression denotes the string 'Infinity' / '-Infinity'
	MultiConv bool       `json:"multiconv"` // a multi-valued leaf-list is operand of a function or of arithmetic
}

type Mism struct {
	Kind string      `json:"kind"`
	Want interface{} `json:"want"`
	Got  interface{} `json:"got"`
}

type Outcome struct {
	BlackBox  bool   `json:"blackbox"`  // the listing was not recognised: judged by result and requests only
	MultiConv bool   `json:"multiconv"` // the expression converts a multi-valued leaf-list (function / arithmetic operand)
	InfStr    bool   `json:"infstr"`    // the expression consumes the string 'Infinity' / '-Infinity'
	ID        int    `json:"id"`
	Fam       int    `json:"fam"`
	Expr      string `json:"expr"`
	VClass    string `json:"vclass"`
	Res       string `json:"res,omitempty"` // observed result of the first run (replay -results)
	Mism      []Mism `json:"mism"`
}

// RunResult is what a caller of the machine can observe.
type RunResult struct {
	Err    string
	B      bool
	N      float64
	S      string
	BErr   string
	Calls  []xpm.Call
	Events []xpm.Event
	Panic  interface{}
	Hang   bool
}

var curSink func(xpath.VerifEvent)

func init() {
	xpath.VerifSetTracer(func(e xpath.VerifEvent) {
		if curSink != nil {
			curSink(e)
		}
	})
}

func callsNorm(cs []xpm.Call) []xpm.Call {
	if cs == nil {
		return []xpm.Call{}
	}
	return cs
}

// run the machine once on a fresh mock tree, collecting trace events; under a watchdog
func runOnce(id int, m *xpath.Machine, failAt int, trace bool) (rr RunResult) {
	var inner RunResult
	if watchdog(func() { inner = runOnceRaw(id, m, failAt, trace) }) {
		curSink = nil
		return RunResult{Hang: true, Err: errHang.Error(), BErr: errHang.Error(), Calls: []xpm.Call{}}
	}
	return inner
}

func runOnceRaw(id int, m *xpath.Machine, failAt int, trace bool) (rr RunResult) {
	tree := &xpm.Tree{FailAt: failAt}
	seen := 0
	if trace {
		curSink = func(e xpath.VerifEvent) {
			if e.Ev != "step" && e.Ev != "end" {
				return
			}
			all := tree.Calls
			nc := append([]xpm.Call{}, all[seen:]...)
			seen = len(all)
			rr.Events = append(rr.Events, xpm.StepEvent(id, e, nc))
		}
	}
	defer func() {
		curSink = nil
		if r := recover(); r != nil {
			rr.Panic = fmt.Sprint(r)
		}
	}()
	res := xpath.NewCtxFromCurrent(context.Background(), m, &xpm.Entry{T: tree}).Run()
	if err := res.GetError(); err != nil {
		rr.Err = err.Error()
	}
	var err error
	if rr.B, err = res.GetBoolResult(); err != nil {
		rr.BErr = err.Error()
	}
	rr.N, _ = res.GetNumResult()
	s, _ := res.GetLiteralResult()
	rr.S = xpm.ToModel(s)
	rr.Calls = callsNorm(tree.Calls)
	return
}

// runWithOptions: one run on a fresh tree (callback failAt failing, 0 = none) with the context options of the public API set:
// debug output, validation mode, accessible tree restricted to configuration.  The options are documented as
// diagnostics / filters; whatever they are, the run must still end in a value or an error, and a failure of the tree must
// still be the error that is reported.
func runWithOptions(m *xpath.Machine, failAt int, debug, validate, cfgOnly bool) (o runOutcome, errText string) {
	defer func() {
		if r := recover(); r != nil {
			o.pan = r
		}
	}()
	c := xpath.NewCtxFromCurrent(context.Background(), m, &xpm.Entry{T: &xpm.Tree{FailAt: failAt}}).SetDebug(debug).SetValidation(validate)
	if cfgOnly {
		c = c.AccessibleTreeConfigOnly()
	}
	res := c.Run()
	if e := res.GetError(); e != nil {
		o.hasErr = true
		errText = e.Error()
	}
	_, e1 := res.GetBoolResult()
	_, e2 := res.GetLiteralResult()
	_, e3 := res.GetNumResult()
	o.hasValue = e1 == nil && e2 == nil && e3 == nil
	if (e1 == nil) != (e2 == nil) || (e2 == nil) != (e3 == nil) {
		o.pan = "accessors disagree on value-vs-error"
	}
	return
}

// runDebug: the plain run of runOnceRaw with the debug option of the context API switched on
func runDebug(m *xpath.Machine) (rr RunResult) {
	tree := &xpm.Tree{}
	defer func() {
		if r := recover(); r != nil {
			rr.Panic = fmt.Sprint(r)
		}
		rr.Calls = callsNorm(tree.Calls)
	}()
	res := xpath.NewCtxFromCurrent(context.Background(), m, &xpm.Entry{T: tree}).SetDebug(true).Run()
	if err := res.GetError(); err != nil {
		rr.Err = err.Error()
	}
	var err error
	if rr.B, err = res.GetBoolResult(); err != nil {
		rr.BErr = err.Error()
	}
	rr.N, _ = res.GetNumResult()
	s, _ := res.GetLiteralResult()
	rr.S = xpm.ToModel(s)
	return
}

func resultText(res *xpath.Result) string {
	b, e1 := res.GetBoolResult()
	n, e2 := res.GetNumResult()
	l, e3 := res.GetLiteralResult()
	return fmt.Sprintf("err=%v b=%v/%v n=%v/%v s=%q/%v", res.GetError(), b, e1, n, e2, l, e3)
}

// runLate: the caller's Go context is cancelled inside callback k, which then stays in the tree for a moment
func runLate(m *xpath.Machine, k int) (lateCalls int, before, after string) {
	defer func() {
		if r := recover(); r != nil {
			before, after = "panic", "panic"
		}
	}()
	gc, cancel := context.WithCancel(context.Background())
	defer cancel()
	tree := &xpm.Tree{CancelAt: k, Cancel: cancel, CancelHold: 5 * time.Millisecond}
	res := xpath.NewCtxFromCurrent(gc, m, &xpm.Entry{T: tree}).Run()
	tree.Returned.Store(true)
	before = resultText(res)
	time.Sleep(20 * time.Millisecond)
	after = resultText(res)
	return int(tree.Late.Load()), before, after
}

// runCancelled: one run whose caller's Go context is cancelled before the run (k = 0) or inside the k-th callback
func runCancelled(m *xpath.Machine, k int) (o runOutcome) {
	defer func() {
		if r := recover(); r != nil {
			o.pan = r
		}
	}()
	gc, cancel := context.WithCancel(context.Background())
	defer cancel()
	if k == 0 {
		cancel()
	}
	res := xpath.NewCtxFromCurrent(gc, m, &xpm.Entry{T: &xpm.Tree{CancelAt: k, Cancel: cancel}}).Run()
	o.hasErr = res.GetError() != nil
	_, e1 := res.GetBoolResult()
	_, e2 := res.GetLiteralResult()
	_, e3 := res.GetNumResult()
	o.hasValue = e1 == nil && e2 == nil && e3 == nil
	if (e1 == nil) != (e2 == nil) || (e2 == nil) != (e3 == nil) {
		o.pan = "accessors disagree on value-vs-error"
	}
	return
}

func sameCalls(a, b []xpm.Call) bool {
	if len(a) != len(b) {
		return false
	}
	for i := range a {
		if a[i].Op != b[i].Op || a[i].Req.Root != b[i].Req.Root || len(a[i].Req.Elems) != len(b[i].Req.Elems) {
			return false
		}
		for j := range a[i].Req.Elems {
			x, y := a[i].Req.Elems[j], b[i].Req.Elems[j]
			if x.N != y.N || len(x.Keys) != len(y.Keys) {
				return false
			}
			for k, v := range x.Keys {
				if w, ok := y.Keys[k]; !ok || w != v {
					return false
				}
			}
		}
	}
	return true
}

// Elem keys arrive as [] (empty TLC function) or as an object
func fixVector(raw []byte) (Vector, error) {
	var v Vector
	var generic map[string]interface{}
	if err := json.Unmarshal(raw, &generic); err != nil {
		return v, err
	}
	var walk func(x interface{}) interface{}
	walk = func(x interface{}) interface{} {
		switch t := x.(type) {
		case map[string]interface{}:
			for k, val := range t {
				if k == "keys" {
					if arr, ok := val.([]interface{}); ok && len(arr) == 0 {
						t[k] = map[string]interface{}{}
						continue
					}
				}
				t[k] = walk(val)
			}
			return t
		case []interface{}:
			for i := range t {
				t[i] = walk(t[i])
			}
			return t
		}
		return x
	}
	fixed, _ := json.Marshal(walk(generic))
	err := json.Unmarshal(fixed, &v)
	return v, err
}

func replay(args []string) {
	fs := flag.NewFlagSet("replay", flag.ExitOnError)
	out := fs.String("out", "results.ndjson", "per-vector outcomes")
	tr := fs.String("trace", "", "write the instruction-level trace of every run here")
	faults := fs.Bool("faults", false, "also run every vector with each data-tree callback failing in turn")
	reverse := fs.Bool("reverse", false, "replay the vectors in reverse order (histories: a result may not depend on what ran before)")
	results := fs.Bool("results", false, "record the observed result of the first run in every outcome")
	debugRuns := fs.Bool("debugruns", false, "run every vector with data-tree requests once more with the debug option on: same requests, same result")
	late := fs.Int("late", 0, "every N-th vector with data-tree requests: cancel the caller's Go context inside a callback and watch the tree and the result after Run has returned")
	fs.Parse(args)
	of, _ := os.Create(*out)
	defer of.Close()
	ow := bufio.NewWriter(of)
	defer ow.Flush()
	oenc := json.NewEncoder(ow)
	var tenc *json.Encoder
	if *tr != "" {
		tf, _ := os.Create(*tr)
		defer tf.Close()
		tw := bufio.NewWriterSize(tf, 1<<20)
		defer tw.Flush()
		tenc = json.NewEncoder(tw)
	}
	id := 0
	nvec, nmis, ntrace, nunknown, nskipped := 0, 0, 0, 0, 0
	emit := func(id int, text string, prog []xpm.Ins, failAt int, rr RunResult) {
		if tenc == nil {
			return
		}
		ntrace++
		tenc.Encode(xpm.Event{Ev: "init", ID: id, Expr: xpm.ToModel(text), Prog: prog, FailAt: failAt,
			Ds: []xpm.Val{}, Ps: []xpm.Req{}, Ks: []map[string]string{}, Calls: []xpm.Call{}, Err: "none",
			Res: xpm.Val{T: "b", N: xpm.NaNRec, Ms: []string{}, J: true}})
		for _, e := range rr.Events {
			tenc.Encode(e)
		}
	}
	var lines [][]byte
	for _, file := range fs.Args() {
		f, err := os.Open(file)
		if err != nil {
			fmt.Fprintln(os.Stderr, err)
			os.Exit(2)
		}
		sc := bufio.NewScanner(f)
		sc.Buffer(make([]byte, 1<<22), 1<<22)
		for sc.Scan() {
			lines = append(lines, append([]byte{}, sc.Bytes()...))
		}
		f.Close()
	}
	if *reverse {
		for i, j := 0, len(lines)-1; i < j; i, j = i+1, j-1 {
			lines[i], lines[j] = lines[j], lines[i]
		}
	}
	{
		for _, line := range lines {
			v, err := fixVector(line)
			if err != nil {
				fmt.Fprintln(os.Stderr, "bad vector:", err)
				os.Exit(2)
			}
			id++
			nvec++
			o := Outcome{ID: id, Fam: v.Fam, Expr: v.Expr, VClass: v.VClass, Mism: []Mism{}}
			text := xpm.ToReal(v.Expr)
			if nHangs >= maxHangs {
				nskipped++
				continue
			}
			m, cerr, pan := compile(text)
			if cerr == errHang {
				o.Mism = append(o.Mism, Mism{"hang", "compilation returns", "NewExprMachine did not return within 30 s"})
				oenc.Encode(o)
				nmis++
				continue
			}
			if pan != nil || cerr != nil || m == nil {
				o.Mism = append(o.Mism, Mism{"compile", "ok", fmt.Sprint(cerr, pan)})
				oenc.Encode(o)
				nmis++
				continue
			}
			listing := m.PrintMachine()
			prog, _ := xpm.ParseListing(listing)
			known := xpm.Recognised(prog)
			if !known {
				nunknown++
				o.BlackBox = true
				o.MultiConv, o.InfStr = v.MultiConv, v.InfStr
			} else if !reflect.DeepEqual(prog, v.Prog) {
				o.Mism = append(o.Mism, Mism{"prog", v.Prog, prog})
			}
			rr := runOnce(id, m, 0, tenc != nil && known)
			if rr.Hang {
				o.Mism = append(o.Mism, Mism{"hang", "the run returns", "Run did not return within 30 s"})
				oenc.Encode(o)
				nmis++
				continue
			}
			if known {
				emit(id, text, prog, 0, rr)
			}
			if *results {
				o.Res = short(rr)
			}
			if rr.Panic != nil {
				o.Mism = append(o.Mism, Mism{"panic", "none", rr.Panic})
			}
			if !sameCalls(rr.Calls, v.Calls) {
				o.Mism = append(o.Mism, Mism{"calls", v.Calls, rr.Calls})
			}
			if rr.Err != "" {
				o.Mism = append(o.Mism, Mism{"error", "none", rr.Err})
			} else if v.Judged {
				if rr.B != v.Rb {
					o.Mism = append(o.Mism, Mism{"result:bool", v.Rb, rr.B})
				}
				if rr.S != v.Rs {
					o.Mism = append(o.Mism, Mism{"result:string", v.Rs, rr.S})
				}
				if want, ok := v.Rn.ToFloat(); ok && v.RnJudged && !xpm.SameFloat(want, rr.N) {
					o.Mism = append(o.Mism, Mism{"result:number", v.Rn, xpm.FromFloat(rr.N)})
				}
			}
			// history independence: the same machine run on another data tree and then again on this one
			// must make the same requests and return the same result as the first time
			if len(v.Calls) > 0 && rr.Panic == nil {
				func() {
					defer func() { recover() }()
					xpath.NewCtxFromCurrent(context.Background(), m, &xpm.Entry{T: &xpm.Tree{Variant: true}}).Run()
				}()
				r3 := runOnce(id, m, 0, false)
				if r3.Err != rr.Err || r3.B != rr.B || r3.S != rr.S || !xpm.SameFloat(r3.N, rr.N) || !sameCalls(r3.Calls, rr.Calls) {
					o.Mism = append(o.Mism, Mism{"history", short(rr), short(r3)})
				}
			}
			// the debug option is a diagnostic: the requests to the data tree and the result are those of the plain run
			if *debugRuns && len(v.Calls) > 0 && rr.Panic == nil {
				var rd RunResult
				if watchdog(func() { rd = runDebug(m) }) {
					o.Mism = append(o.Mism, Mism{"hang", "the run returns", "Run with the debug option did not return within 30 s"})
				} else {
					if !sameCalls(rd.Calls, rr.Calls) {
						o.Mism = append(o.Mism, Mism{"debug-calls", callsNorm(rr.Calls), rd.Calls})
					}
					if rd.Err != rr.Err || rd.B != rr.B || rd.S != rr.S || !xpm.SameFloat(rd.N, rr.N) || fmt.Sprint(rd.Panic) != fmt.Sprint(rr.Panic) {
						o.Mism = append(o.Mism, Mism{"debug-result", short(rr), short(rd)})
					}
				}
			}
			// a run is over when Run returns: with the caller's Go context cancelled inside the k-th callback (which stays in the
			// tree a little longer) no callback may arrive after Run has returned and the result handed out may not change
			if *late > 0 && len(v.Calls) > 0 && rr.Panic == nil && id%*late == 0 {
				for k := 1; k <= len(v.Calls) && k <= 3; k++ {
					n, before, after := runLate(m, k)
					if n > 0 {
						o.Mism = append(o.Mism, Mism{"late-call", "no data-tree callback after Run has returned", fmt.Sprintf("%d callbacks after Run returned (context cancelled inside callback %d)", n, k)})
					}
					if before != after {
						o.Mism = append(o.Mism, Mism{"late-result", before, after})
					}
				}
			}
			// C03: every rendering compiles to the same program and gives the same result
			for vi, vt := range v.Variants {
				m2, e2, p2 := compile(xpm.ToReal(vt))
				if p2 != nil || e2 != nil || m2 == nil {
					o.Mism = append(o.Mism, Mism{"variant-compile", vt, fmt.Sprint(e2, p2)})
					continue
				}
				if l2 := m2.PrintMachine(); l2 != listing {
					o.Mism = append(o.Mism, Mism{"variant-prog", vt, vi})
					continue
				}
				r2 := runOnce(id, m2, 0, false)
				if r2.Err != rr.Err || r2.B != rr.B || r2.S != rr.S || !xpm.SameFloat(r2.N, rr.N) || !sameCalls(r2.Calls, rr.Calls) {
					o.Mism = append(o.Mism, Mism{"variant-result", vt, vi})
				}
			}
			if *faults {
				for k := 1; k <= len(v.Calls); k++ {
					if nHangs >= maxHangs {
						break
					}
					rf := runOnce(id, m, k, tenc != nil && known)
					if rf.Hang {
						o.Mism = append(o.Mism, Mism{"hang", "the run returns", fmt.Sprintf("Run with callback %d failing did not return within 30 s", k)})
						continue
					}
					if known {
						emit(id, text, prog, k, rf)
					}
					want := fmt.Sprintf("ENVFAIL-%d", k)
					if rf.Panic != nil {
						o.Mism = append(o.Mism, Mism{"fault-panic", want, rf.Panic})
					} else if !strings.Contains(rf.Err, want) {
						o.Mism = append(o.Mism, Mism{"fault-error", want, rf.Err})
					} else if !strings.Contains(rf.BErr, want) {
						o.Mism = append(o.Mism, Mism{"fault-accessor", want, rf.BErr})
					}
				}
			}
			if *faults {
				// every option of the context API, with no fault and with each callback failing in turn
				for _, opt := range [][3]bool{{true, false, false}, {false, true, false}, {false, false, true}, {true, true, true}} {
					for k := 0; k <= len(v.Calls); k++ {
						if nHangs >= maxHangs {
							break
						}
						var co runOutcome
						var et string
						kk, oo := k, opt
						name := fmt.Sprintf("debug=%v validation=%v config-only=%v fault=%d", opt[0], opt[1], opt[2], k)
						if watchdog(func() { co, et = runWithOptions(m, kk, oo[0], oo[1], oo[2]) }) {
							o.Mism = append(o.Mism, Mism{"hang", "the run returns", "Run with " + name + " did not return within 30 s"})
							continue
						}
						want := fmt.Sprintf("ENVFAIL-%d", k)
						switch {
						case co.pan != nil:
							o.Mism = append(o.Mism, Mism{"fault-panic", name, fmt.Sprint(co.pan)})
						case co.hasErr == co.hasValue:
							o.Mism = append(o.Mism, Mism{"fault-neither", "a value or an error (" + name + ")", fmt.Sprintf("error=%v value=%v", co.hasErr, co.hasValue)})
						case k > 0 && !strings.Contains(et, want):
							o.Mism = append(o.Mism, Mism{"fault-error", want + " (" + name + ")", et})
						}
					}
				}
			}
			if *faults {
				// the caller's Go context cancelled before the run (k = 0) or inside the k-th callback: still a value or an error
				for k := 0; k <= len(v.Calls); k++ {
					if nHangs >= maxHangs {
						break
					}
					var co runOutcome
					kk := k
					if watchdog(func() { co = runCancelled(m, kk) }) {
						o.Mism = append(o.Mism, Mism{"hang", "the run returns", fmt.Sprintf("Run with the context cancelled at callback %d did not return within 30 s", k)})
						continue
					}
					if co.pan != nil {
						o.Mism = append(o.Mism, Mism{"fault-panic", fmt.Sprintf("cancel-%d", k), fmt.Sprint(co.pan)})
					} else if co.hasErr == co.hasValue {
						o.Mism = append(o.Mism, Mism{"fault-neither", fmt.Sprintf("a value or an error (context cancelled at callback %d)", k), fmt.Sprintf("error=%v value=%v", co.hasErr, co.hasValue)})
					}
				}
			}
			if len(o.Mism) > 0 {
				nmis++
			}
			oenc.Encode(o)
		}
	}
	fmt.Fprintf(os.Stderr, "replayed %d vectors, %d with mismatches, %d traces, %d listings outside the instruction vocabulary, %d vectors skipped after %d hangs\n", nvec, nmis, ntrace, nunknown, nskipped, nHangs)
}

// record: run expression texts (one per line) and log the instruction-level traces;
// there is no AST, so the trace is validated against the printed program only.
func record(args []string) {
	fs := flag.NewFlagSet("record", flag.ExitOnError)
	exprs := fs.String("exprs", "", "file with one expression per line")
	tr := fs.String("trace", "trace.ndjson", "trace output")
	base := fs.Int("base", 1000000, "first run id")
	fs.Parse(args)
	f, err := os.Open(*exprs)
	if err != nil {
		fmt.Fprintln(os.Stderr, err)
		os.Exit(2)
	}
	defer f.Close()
	tf, _ := os.Create(*tr)
	defer tf.Close()
	tw := bufio.NewWriterSize(tf, 1<<20)
	defer tw.Flush()
	tenc := json.NewEncoder(tw)
	sc := bufio.NewScanner(f)
	id, n, rejected := *base, 0, 0
	for sc.Scan() {
		text := sc.Text()
		if text == "" {
			continue
		}
		m, cerr, pan := compile(text)
		if pan != nil || cerr != nil || m == nil {
			rejected++
			continue
		}
		id++
		n++
		prog, _ := xpm.ParseListing(m.PrintMachine())
		if !xpm.Recognised(prog) {
			id--
			n--
			rejected++
			continue
		}
		rr := runOnce(id, m, 0, true)
		tenc.Encode(xpm.Event{Ev: "init", ID: id, Expr: xpm.ToModel(text), Prog: prog,
			Ds: []xpm.Val{}, Ps: []xpm.Req{}, Ks: []map[string]string{}, Calls: []xpm.Call{}, Err: "none",
			Res: xpm.Val{T: "b", N: xpm.NaNRec, Ms: []string{}, J: true}})
		for _, e := range rr.Events {
			tenc.Encode(e)
		}
	}
	fmt.Fprintf(os.Stderr, "recorded %d runs (%d texts rejected by the compiler)\n", n, rejected)
}

// eval: compile and run expressions given on the command line (exploration aid)
func evalCmd(args []string) {
	for _, e := range args {
		m, err, pan := compile(xpm.ToReal(e))
		fmt.Printf("== %s\n", e)
		if err != nil || pan != nil {
			fmt.Printf("   compile: %v %v\n", err, pan)
			continue
		}
		prog, _ := xpm.ParseListing(m.PrintMachine())
		for _, in := range prog {
			fmt.Printf("   %s %s\n", in.I, in.S)
		}
		rr := runOnce(0, m, 0, true)
		fmt.Printf("   result: %s panic=%v\n", short(rr), rr.Panic)
	}
}
