package main

import (
	"bufio"
	"bytes"
	"context"
	"encoding/json"
	"flag"
	"fmt"
	"os"
	"runtime"
	"sort"
	"strconv"
	"strings"
	"sync"
	"sync/atomic"
	"time"

	"github.com/sdcio/yang-parser/xpath"

	"verif/harness/internal/xpm"
)

// ---- schedule replay (XPathConc.tla behaviours executed on real goroutines) ----

type SchedStep struct {
	A string `json:"a"`
	P int    `json:"p"`
}
type Schedule struct {
	Comps    []string          `json:"comps"`
	Runs     map[string]string `json:"runs"`
	NLookups []int             `json:"nlookups"`
	Steps    []SchedStep       `json:"steps"`
}

func curGID() int64 {
	b := make([]byte, 64)
	b = b[:runtime.Stack(b, false)]
	b = bytes.TrimPrefix(b, []byte("goroutine "))
	i := bytes.IndexByte(b, ' ')
	n, _ := strconv.ParseInt(string(b[:i]), 10, 64)
	return n
}

type arrival struct {
	pid int
	ev  xpath.VerifEvent
	fin bool   // the process function returned
	pan string // it panicked
}

type gate struct {
	mu      sync.Mutex
	gidPid  map[int64]int
	arrive  chan arrival
	grant   map[int]chan struct{}
	lookups []xpath.VerifEvent // every "lookup" event of the whole process, in Seq order (taken under xpath's mu)
	lmu     sync.Mutex
}

var theGate = &gate{gidPid: map[int64]int{}, grant: map[int]chan struct{}{}, arrive: make(chan arrival, 64)}

// concTracer is installed for the whole life of the process when running `xp conc`.
func concTracer(e xpath.VerifEvent) {
	if e.Ev == "lookup" {
		theGate.lmu.Lock()
		theGate.lookups = append(theGate.lookups, e)
		theGate.lmu.Unlock()
	}
	theGate.mu.Lock()
	pid, ok := theGate.gidPid[curGID()]
	var g chan struct{}
	if ok {
		g = theGate.grant[pid]
	}
	theGate.mu.Unlock()
	if !ok {
		return // not a scheduled goroutine (setup, reference runs)
	}
	theGate.arrive <- arrival{pid: pid, ev: e}
	<-g // parked at the trace point until the scheduler lets this process go on
}

type ConcOut struct {
	Sched int    `json:"sched"`
	Step  int    `json:"step"`
	What  string `json:"what"`
	Sig   string `json:"sig"`
	Det   string `json:"detail"`
}

const waitLong = 10 * time.Second
const waitBlocked = 3 * time.Millisecond

func conc(args []string) {
	fs := flag.NewFlagSet("conc", flag.ExitOnError)
	schedFile := fs.String("sched", "", "schedules (ndjson)")
	out := fs.String("out", "cres.ndjson", "violations")
	tr := fs.String("trace", "ctrace.ndjson", "per-runner instruction traces")
	fs.Parse(args)
	xpath.VerifSetTracer(concTracer)
	f, err := os.Open(*schedFile)
	if err != nil {
		fmt.Fprintln(os.Stderr, err)
		os.Exit(2)
	}
	of, _ := os.Create(*out)
	defer of.Close()
	oenc := json.NewEncoder(of)
	tf, _ := os.Create(*tr)
	defer tf.Close()
	tw := bufio.NewWriterSize(tf, 1<<20)
	defer tw.Flush()
	tenc := json.NewEncoder(tw)
	sc := bufio.NewScanner(f)
	sc.Buffer(make([]byte, 1<<22), 1<<22)
	nsched, nsteps, nviol, nprobe, ntraces := 0, 0, 0, 0, 0
	runID := 2000000
	report := func(o ConcOut) { oenc.Encode(o); nviol++ }
	for sc.Scan() {
		line := sc.Text()
		var s Schedule
		if err := json.Unmarshal([]byte(line), &s); err != nil {
			fmt.Fprintln(os.Stderr, "bad schedule:", err)
			os.Exit(2)
		}
		nsched++
		// ---- setup (unscheduled goroutine): shared machines and sequential references
		machines := map[string]*xpath.Machine{}
		loose := map[string]bool{}
		refListing := map[string]string{}
		for _, e := range s.Comps {
			if _, ok := refListing[e]; !ok {
				m, err, pan := compileRaw(xpm.ToReal(e))
				if err != nil || pan != nil {
					fmt.Fprintln(os.Stderr, "setup: cannot compile", e, err, pan)
					os.Exit(2)
				}
				refListing[e] = m.PrintMachine()
			}
		}
		runPids := []int{}
		for k := range s.Runs {
			p, _ := strconv.Atoi(k)
			runPids = append(runPids, p)
		}
		sort.Ints(runPids)
		refRes := map[string]RunResult{}
		for _, p := range runPids {
			e := s.Runs[strconv.Itoa(p)]
			if _, ok := machines[e]; !ok {
				m, err, pan := compileRaw(xpm.ToReal(e))
				if err != nil || pan != nil {
					fmt.Fprintln(os.Stderr, "setup: cannot compile", e, err, pan)
					os.Exit(2)
				}
				machines[e] = m
				refRes[e] = plainRun(m) // history: one run before the concurrent ones
			}
			// the schedule has one step per instruction of the specification's program
			want := 0
			for _, st := range s.Steps {
				if st.P == p && st.A == "step" {
					want++
				}
			}
			if prog, _ := xpm.ParseListing(machines[e].PrintMachine()); !xpm.Recognised(prog) || len(prog) != want {
				loose[e] = true
			}
		}
		// ---- processes
		type proc struct {
			kind    string
			expr    string
			started bool
			fin     bool
			at      string // last trace point reached
			events  []xpath.VerifEvent
			tree    *xpm.Tree
			calls   int
			tevents []xpm.Event
			res     RunResult
			listing string
		}
		procs := map[int]*proc{}
		startGate := map[int]chan struct{}{}
		theGate.mu.Lock()
		theGate.gidPid = map[int64]int{}
		theGate.grant = map[int]chan struct{}{}
		theGate.mu.Unlock()
		spawn := func(pid int, pr *proc, body func()) {
			procs[pid] = pr
			sg := make(chan struct{})
			startGate[pid] = sg
			g := make(chan struct{})
			theGate.mu.Lock()
			theGate.grant[pid] = g
			theGate.mu.Unlock()
			go func() {
				theGate.mu.Lock()
				theGate.gidPid[curGID()] = pid
				theGate.mu.Unlock()
				<-sg
				a := arrival{pid: pid, fin: true}
				func() {
					defer func() {
						if r := recover(); r != nil {
							a.pan = fmt.Sprint(r)
						}
					}()
					body()
				}()
				theGate.arrive <- a
			}()
		}
		for i, e := range s.Comps {
			pid, expr := i+1, e
			pr := &proc{kind: "comp", expr: expr}
			spawn(pid, pr, func() {
				m, err, pan := compileRaw(xpm.ToReal(expr))
				if err != nil || pan != nil || m == nil {
					pr.listing = fmt.Sprint("COMPILE FAILED: ", err, pan)
					return
				}
				pr.listing = m.PrintMachine()
			})
		}
		for _, p := range runPids {
			pid, expr := p, s.Runs[strconv.Itoa(p)]
			pr := &proc{kind: "run", expr: expr, tree: &xpm.Tree{}}
			m := machines[expr]
			spawn(pid, pr, func() {
				res := xpath.NewCtxFromCurrent(context.Background(), m, &xpm.Entry{T: pr.tree}).Run()
				pr.res = resultOf(res, pr.tree)
			})
		}
		// arrivals that came in before the scheduler asked for them
		pending := map[int][]arrival{}
		waitFor := func(pid int, d time.Duration) (arrival, bool) {
			if q := pending[pid]; len(q) > 0 {
				pending[pid] = q[1:]
				return q[0], true
			}
			deadline := time.After(d)
			for {
				select {
				case a := <-theGate.arrive:
					if a.pid == pid {
						return a, true
					}
					pending[a.pid] = append(pending[a.pid], a)
				case <-deadline:
					return arrival{}, false
				}
			}
		}
		note := func(pid int, a arrival) {
			pr := procs[pid]
			if a.fin {
				pr.fin = true
				pr.at = "done"
				return
			}
			pr.at = a.ev.Ev
			if pr.kind == "run" && (a.ev.Ev == "step" || a.ev.Ev == "end") {
				all := pr.tree.Calls
				nc := append([]xpm.Call{}, all[pr.calls:]...)
				pr.calls = len(all)
				pr.tevents = append(pr.tevents, xpm.StepEvent(0, a.ev, nc))
			}
		}
		// absorb arrivals that are already queued (a process may have run further than the specification expects)
		drain := func() {
			for {
				select {
				case a := <-theGate.arrive:
					pending[a.pid] = append(pending[a.pid], a)
				default:
					return
				}
			}
		}
		letGo := func(pid int) bool {
			pr := procs[pid]
			if !pr.started {
				pr.started = true
				close(startGate[pid])
				return true
			}
			drain()
			if pr.fin || len(pending[pid]) > 0 {
				return false // it is not parked at a trace point: it finished, or an arrival is still unconsumed
			}
			theGate.mu.Lock()
			g := theGate.grant[pid]
			theGate.mu.Unlock()
			select {
			case g <- struct{}{}:
				return true
			case <-time.After(waitLong):
				fmt.Fprintf(os.Stderr, "INFRA: schedule %d: process %d is not parked at a trace point\n", nsched, pid)
				os.Exit(2)
			}
			return false
		}
		blocked := 0 // pid of the compiler blocked in mu.Lock(), if any
		infra := func(msg string) {
			fmt.Fprintf(os.Stderr, "INFRA: schedule %d: %s\n", nsched, msg)
			os.Exit(2)
		}
		expectAt := func(pid int, want ...string) {
			a, ok := waitFor(pid, waitLong)
			if !ok {
				infra(fmt.Sprintf("process %d did not reach %v", pid, want))
			}
			note(pid, a)
			if a.pan != "" {
				report(ConcOut{nsched, nsteps, "process panicked", "panic", a.pan})
				return
			}
			for _, w := range want {
				if procs[pid].at == w {
					return
				}
			}
			report(ConcOut{nsched, nsteps, fmt.Sprintf("process %d reached trace point %q, the specification expects %v", pid, procs[pid].at, want), "trace-point-order", ""})
		}
		aborted := false
		for _, st := range s.Steps {
			if aborted {
				break
			}
			nsteps++
			pr := procs[st.P]
			if pr.kind == "run" && loose[pr.expr] {
				// the machine's listing is not the specification's program (reworded or regrouped instructions): the
				// runner is still interleaved one trace point per scheduled step, but its trace points are not matched
				if !pr.fin {
					letGo(st.P)
					a, ok := waitFor(st.P, waitLong)
					if !ok {
						infra(fmt.Sprintf("process %d did not reach a trace point", st.P))
					}
					note(st.P, a)
					if a.pan != "" {
						report(ConcOut{nsched, nsteps, "process panicked", "panic", a.pan})
					}
				}
				continue
			}
			if pr.fin {
				report(ConcOut{nsched, nsteps, fmt.Sprintf("process %d (%s %s) finished although the specification has further steps for it (%s)", st.P, pr.kind, pr.expr, st.A), "trace-point-order", ""})
				aborted = true
				break
			}
			switch st.A {
			case "arrive":
				letGo(st.P)
				expectAt(st.P, "lookup-enter", "done")
			case "acquire":
				letGo(st.P)
				expectAt(st.P, "lookup")
			case "block":
				// mu is held by a compiler parked inside the critical section: this one must stay out
				nprobe++
				letGo(st.P)
				if a, ok := waitFor(st.P, waitBlocked); ok {
					note(st.P, a)
					report(ConcOut{nsched, nsteps, fmt.Sprintf("process %d entered the function-table critical section (%s) while another goroutine was inside it", st.P, pr.at), "mutual-exclusion", ""})
				} else {
					blocked = st.P
				}
			case "body":
				letGo(st.P)
				expectAt(st.P, "lookup-exit")
			case "release":
				letGo(st.P)
				expectAt(st.P, "lookup-enter", "done")
				if blocked != 0 {
					expectAt(blocked, "lookup") // the waiter gets the lock
					blocked = 0
				}
			case "step":
				letGo(st.P)
				expectAt(st.P, "step")
			default:
				infra("unknown action " + st.A)
			}
		}
		// let everything run to completion
		for pid, pr := range procs {
			for !pr.fin {
				letGo(pid)
				a, ok := waitFor(pid, waitLong)
				if !ok {
					infra(fmt.Sprintf("process %d did not finish", pid))
				}
				note(pid, a)
			}
		}
		// ---- results
		for i, e := range s.Comps {
			pr := procs[i+1]
			if pr.listing != refListing[e] {
				report(ConcOut{nsched, nsteps, "concurrent compilation of " + e + " produced a different program than in isolation", "compile-result", pr.listing})
			}
		}
		for _, p := range runPids {
			pr := procs[p]
			ref := refRes[pr.expr]
			if !sameRun(pr.res, ref) {
				report(ConcOut{nsched, nsteps, "concurrent run of " + pr.expr + " returned a different result than in isolation", "run-result", fmt.Sprintf("%+v vs %+v", short(pr.res), short(ref))})
			}
			after := plainRun(machines[pr.expr]) // history independence: the same machine again, afterwards
			if !sameRun(after, ref) {
				report(ConcOut{nsched, nsteps, "a later run of " + pr.expr + " differs from the first one", "run-history", fmt.Sprintf("%+v vs %+v", short(after), short(ref))})
			}
			prog, _ := xpm.ParseListing(machines[pr.expr].PrintMachine())
			if !xpm.Recognised(prog) {
				continue // reworded listing: the run is judged by its result only
			}
			runID++
			ntraces++
			tenc.Encode(xpm.Event{Ev: "init", ID: runID, Expr: pr.expr, Prog: prog,
				Ds: []xpm.Val{}, Ps: []xpm.Req{}, Ks: []map[string]string{}, Calls: []xpm.Call{}, Err: "none",
				Res: xpm.Val{T: "b", N: xpm.NaNRec, Ms: []string{}, J: true}})
			for _, e := range pr.tevents {
				e.ID = runID
				tenc.Encode(e)
			}
		}
	}
	// ---- the lookup log of the whole process: sequence numbers taken under mu are gap-free and the
	// plugin table was loaded by the first lookup only
	theGate.lmu.Lock()
	ls := append([]xpath.VerifEvent{}, theGate.lookups...)
	theGate.lmu.Unlock()
	sort.Slice(ls, func(i, j int) bool { return ls[i].Seq < ls[j].Seq })
	for i, e := range ls {
		if e.Seq != uint64(i+1) {
			report(ConcOut{0, 0, fmt.Sprintf("lookup sequence numbers taken under mu are not gap-free at %d (got %d)", i+1, e.Seq), "lookup-sequence", ""})
			break
		}
		if e.Loaded != (i > 0) {
			report(ConcOut{0, 0, fmt.Sprintf("lookup %d saw pluginsLoaded=%v", i+1, e.Loaded), "load-once", ""})
			break
		}
	}
	fmt.Printf("{\"schedules\":%d,\"steps\":%d,\"blocked_probes\":%d,\"violations\":%d,\"traces\":%d,\"lookups\":%d}\n", nsched, nsteps, nprobe, nviol, ntraces, len(ls))
}

func resultOf(res *xpath.Result, tree *xpm.Tree) (rr RunResult) {
	if err := res.GetError(); err != nil {
		rr.Err = err.Error()
	}
	rr.B, _ = res.GetBoolResult()
	rr.N, _ = res.GetNumResult()
	s, _ := res.GetLiteralResult()
	rr.S = xpm.ToModel(s)
	rr.Calls = callsNorm(tree.Calls)
	return
}

func plainRun(m *xpath.Machine) RunResult {
	tree := &xpm.Tree{}
	res := xpath.NewCtxFromCurrent(context.Background(), m, &xpm.Entry{T: tree}).Run()
	return resultOf(res, tree)
}

func sameRun(a, b RunResult) bool {
	return a.Err == b.Err && a.B == b.B && a.S == b.S && xpm.SameFloat(a.N, b.N) && sameCalls(a.Calls, b.Calls)
}

func short(r RunResult) string {
	cs := []string{}
	for _, c := range r.Calls {
		cs = append(cs, c.Op+":"+c.Req.String())
	}
	return fmt.Sprintf("err=%q b=%v n=%v s=%q calls=%s", r.Err, r.B, r.N, r.S, strings.Join(cs, ","))
}

// ---- free-running stress under the race detector ----

// freshExpr builds an expression that is true by construction from a number nobody used before;
// which selects the function of the library it exercises.
func freshExpr(which, uniq int) string {
	k := strconv.Itoa(uniq)
	mapped := strings.Map(func(r rune) rune { return 'a' + (r - '0') }, k)
	switch which % 16 {
	case 0:
		return "re-match('ab" + k + "', 'ab" + k + "')"
	case 1:
		return "not(re-match('zz', 'a" + k + "b*'))"
	case 2:
		return "re-match('x" + k + "y', 'x[0-9]+y')"
	case 3:
		return "contains(concat('x', '" + k + "'), '" + k + "')"
	case 4:
		return "starts-with('" + k + "z', '" + k + "')"
	case 5:
		return "substring-before('" + k + ":v', ':') = '" + k + "'"
	case 6:
		return "substring-after('v:" + k + "', ':') = '" + k + "'"
	case 7:
		return "substring('" + k + "', 2, 99) = '" + k[1:] + "'"
	case 8:
		return "translate('" + k + "', '0123456789', 'abcdefghij') = '" + mapped + "'"
	case 9:
		return "normalize-space('  " + k + "   q ') = '" + k + " q'"
	case 10:
		return "string-length('" + k + "') = " + strconv.Itoa(len(k))
	case 11:
		return "number('" + k + "') + 1 = " + strconv.Itoa(uniq+1)
	case 12:
		return "floor(" + k + ".5) = " + k + " and ceiling(" + k + ".5) = " + strconv.Itoa(uniq+1) + " and round(" + k + ".5) = " + strconv.Itoa(uniq+1)
	case 13:
		return "string(" + k + ") = '" + k + "' and boolean('" + k + "')"
	case 14:
		return "a[k='" + k + "']/b = concat('V(CTX/a[k=', concat('" + k + "', ']/b)'))"
	}
	return "re-match(concat('" + k + "', vnum), '" + k + "1?2?')"
}

func stress(args []string) {
	fs := flag.NewFlagSet("stress", flag.ExitOnError)
	g := fs.Int("g", 16, "goroutines")
	n := fs.Int("n", 2000, "iterations per goroutine")
	out := fs.String("out", "sres.ndjson", "violations")
	fs.Parse(args)
	var lmu sync.Mutex
	lookups := []xpath.VerifEvent{}
	inside := int32(0)
	_ = inside
	xpath.VerifSetTracer(func(e xpath.VerifEvent) {
		if e.Ev == "lookup" {
			lmu.Lock()
			lookups = append(lookups, e)
			lmu.Unlock()
		}
	})
	exprs := []string{"not(true()) and concat('a','b') = 'ab'", "string-length(concat(string(1),'x')) + 1", "a/b", "/a = 'x'",
		"a[k=current()/z]/b", "vnum + 1", "string(vmulti)", "b/a", "substring('12345', 1.5, 2.6)", "count(a) > 1", "deref(a)/b",
		"translate(vtxt, 'ab', 'AB')", "round(2.5) div 0", "a[k='x'][j=/z]/c = vmulti"}
	machines := []*xpath.Machine{}
	refs := []RunResult{}
	listings := []string{}
	for _, e := range exprs {
		m, err, pan := compileRaw(e)
		if err != nil || pan != nil {
			fmt.Fprintln(os.Stderr, "setup: cannot compile", e, err, pan)
			os.Exit(2)
		}
		machines = append(machines, m)
		refs = append(refs, plainRun(m))
		listings = append(listings, m.PrintMachine())
	}
	of, _ := os.Create(*out)
	defer of.Close()
	oenc := json.NewEncoder(of)
	var omu sync.Mutex
	nviol := 0
	report := func(o ConcOut) { omu.Lock(); oenc.Encode(o); nviol++; omu.Unlock() }
	var nfresh atomic.Int64
	var wg sync.WaitGroup
	seed, _ := strconv.Atoi(os.Getenv("VERIF_SEED"))
	for gi := 0; gi < *g; gi++ {
		wg.Add(1)
		go func(gi int) {
			defer wg.Done()
			x := uint32(seed*7919 + gi*104729 + 1)
			for it := 0; it < *n; it++ {
				x = x*1664525 + 1013904223
				k := int(x>>8) % len(exprs)
				if (x>>5)%4 == 1 {
					// a machine nobody has compiled or run before, over arguments nobody has used before: whatever a
					// function keeps per argument value (caches, interned strings) is touched for the first time here
					e := freshExpr(int(x>>10), gi*(*n)+it+1+seed*1000003)
					m, err, pan := compileRaw(e)
					if err != nil || pan != nil {
						report(ConcOut{0, it, "concurrent compilation of " + e + " failed", "fresh-compile", fmt.Sprint(err, pan)})
						continue
					}
					var r RunResult
					func() {
						defer func() {
							if p := recover(); p != nil {
								r.Err = fmt.Sprint("PANIC ", p)
							}
						}()
						r = plainRun(m)
					}()
					if r.Err != "" || !r.B {
						report(ConcOut{0, it, "first run of " + e + " (true by construction) under concurrency", "fresh-run", short(r)})
					}
					nfresh.Add(1)
					continue
				}
				if (x>>3)%4 == 0 {
					m, err, pan := compileRaw(exprs[k])
					if err != nil || pan != nil || m.PrintMachine() != listings[k] {
						report(ConcOut{0, it, "concurrent compilation of " + exprs[k] + " differs from the one in isolation", "compile-result", fmt.Sprint(err, pan)})
					}
				} else {
					var r RunResult
					func() {
						defer func() {
							if p := recover(); p != nil {
								r.Err = fmt.Sprint("PANIC ", p)
							}
						}()
						r = plainRun(machines[k])
					}()
					if !sameRun(r, refs[k]) {
						report(ConcOut{0, it, "concurrent run of " + exprs[k] + " differs from the one in isolation", "run-result", short(r) + " vs " + short(refs[k])})
					}
				}
			}
		}(gi)
	}
	wg.Wait()
	// simultaneous FIRST runs: a machine nobody has run yet is run for the first time by several goroutines at once (whatever
	// an instruction sets up lazily on its first execution is then set up under contention); the oracle is a twin machine
	// compiled from the same text and run alone, so the machine under test is never warmed up
	nfirst := 0
	for r := 0; r < *n/4+8; r++ {
		u := strconv.Itoa(seed*1000 + r)
		var e string
		switch r % 5 {
		case 0:
			e = "a[k='" + u + "'][j=current()/z][m='q']/b"
		case 1:
			e = "/a[m='" + u + "'][k=../y]/c[j='" + u + "']/d = vmulti"
		case 2:
			e = "deref(a[k='" + u + "'])/../b[j='" + u + "'][k=1]"
		case 3:
			e = "concat(a[k='" + u + "'][j='" + u + "x']/b, translate('" + u + "', '0123456789', 'abcdefghij'))"
		default:
			e = "count(a[kk='" + u + "'][k='" + u + "'][j='" + u + "']) > 0 or a[k='" + u + "'][j=2][m=3]/b = '" + u + "'"
		}
		twin, err1, pan1 := compileRaw(e)
		m, err2, pan2 := compileRaw(e)
		if err1 != nil || pan1 != nil || err2 != nil || pan2 != nil {
			report(ConcOut{0, r, "compilation of " + e + " failed", "first-compile", fmt.Sprint(err1, pan1, err2, pan2)})
			continue
		}
		ref := plainRun(twin)
		start := make(chan struct{})
		res := make([]RunResult, 8)
		var fw sync.WaitGroup
		for gi := range res {
			fw.Add(1)
			go func(gi int) {
				defer fw.Done()
				defer func() {
					if p := recover(); p != nil {
						res[gi].Err = fmt.Sprint("PANIC ", p)
					}
				}()
				<-start
				res[gi] = plainRun(m)
			}(gi)
		}
		close(start)
		fw.Wait()
		nfirst++
		for gi := range res {
			if !sameRun(res[gi], ref) {
				report(ConcOut{0, r, "one of eight simultaneous first runs of " + e + " differs from the run of a twin machine in isolation", "first-runs", short(res[gi]) + " vs " + short(ref)})
				break
			}
		}
	}
	for k := range machines { // history independence after thousands of runs
		if r := plainRun(machines[k]); !sameRun(r, refs[k]) {
			report(ConcOut{0, 0, "a later run of " + exprs[k] + " differs from the first one", "run-history", short(r)})
		}
	}
	sort.Slice(lookups, func(i, j int) bool { return lookups[i].Seq < lookups[j].Seq })
	for i, e := range lookups {
		if e.Seq != uint64(i+1) {
			report(ConcOut{0, 0, fmt.Sprintf("lookup sequence numbers taken under mu are not gap-free at %d (got %d)", i+1, e.Seq), "lookup-sequence", ""})
			break
		}
		if e.Loaded != (i > 0) {
			report(ConcOut{0, 0, fmt.Sprintf("lookup %d saw pluginsLoaded=%v", i+1, e.Loaded), "load-once", ""})
			break
		}
	}
	fmt.Printf("{\"goroutines\":%d,\"iterations\":%d,\"lookups\":%d,\"fresh_machines\":%d,\"simultaneous_first_runs\":%d,\"violations\":%d}\n", *g, *n, len(lookups), nfresh.Load(), nfirst, nviol)
}
