package main

// funcs: replay of behaviours of XPathFuncs.tla (function table: registration of custom
// functions, lookup with the custom gate and the user checker, compilation against the
// table of the moment, runs of machines compiled earlier) on the real package state.

import (
	"bufio"
	"encoding/json"
	"flag"
	"fmt"
	"os"
	"strings"

	"github.com/sdcio/yang-parser/xpath"
	"github.com/sdcio/yang-parser/xpath/grammars/expr"
	"verif/harness/internal/xpm"
)

type FInfo struct {
	Name string   `json:"name"`
	Args []string `json:"args"`
	Ret  string   `json:"ret"`
	Beh  string   `json:"beh"`
	Def  string   `json:"def"`
	Gen  int      `json:"gen"`
}

type FWant struct {
	Obs string     `json:"obs"` // lookup: found/notfound; compile: ok/unknown/arity; run: value/err/unjudged
	Rb  bool       `json:"rb"`
	Rn  xpm.NumRec `json:"rn"`
	Rs  string     `json:"rs"`
}

type FStep struct {
	A     string   `json:"a"`
	Infos []FInfo  `json:"infos"`
	Name  string   `json:"name"`
	Allow bool     `json:"allow"`
	Chk   []string `json:"chk"`
	M     int      `json:"m"`
	Expr  string   `json:"expr"`
	Want  FWant    `json:"want"`
}

type FBehaviour struct {
	Steps []FStep `json:"steps"`
}

type FMism struct {
	Beh   int         `json:"beh"`
	Step  int         `json:"step"`
	A     string      `json:"a"`
	What  string      `json:"what"`
	Want  interface{} `json:"want"`
	Got   interface{} `json:"got"`
	Steps []FStep     `json:"steps"`
}

func typeChecker(t string) xpath.DatumTypeChecker {
	switch t {
	case "n":
		return xpath.TypeIsNumber
	case "s":
		return xpath.TypeIsLiteral
	case "b":
		return xpath.TypeIsBool
	}
	return xpath.TypeIsObject
}

func typedDatum(t string, n float64, s string, b bool) xpath.Datum {
	switch t {
	case "n":
		return xpath.NewNumDatum(n)
	case "s":
		return xpath.NewLiteralDatum(s)
	}
	return xpath.NewBoolDatum(b)
}

// curGen: registrations so far in the behaviour being replayed (the variable gen of XPathFuncs.tla)
var curGen int

func makeInfo(fi FInfo) xpath.CustomFunctionInfo {
	var args []xpath.DatumTypeChecker
	for _, a := range fi.Args {
		args = append(args, typeChecker(a))
	}
	var fn xpath.CustomFn
	gen := fi.Gen
	switch fi.Beh {
	case "const":
		fn = func([]xpath.Datum) xpath.Datum {
			return typedDatum(fi.Ret, float64(gen), fmt.Sprintf("g%d", gen), gen%2 == 1)
		}
	case "arg":
		fn = func(a []xpath.Datum) xpath.Datum { return a[0] }
	case "ext":
		// consults state outside the data tree: the number of registrations so far (curGen), at the time of the call
		fn = func([]xpath.Datum) xpath.Datum {
			g := curGen
			return typedDatum(fi.Ret, float64(g), fmt.Sprintf("g%d", g), g%2 == 1)
		}
	case "partial":
		// BadArg of XPathFuncs.tla: fails on the empty string / NaN / false, echoes every other operand
		fn = func(a []xpath.Datum) xpath.Datum {
			if len(a) == 0 {
				panic("custom function failed")
			}
			bad := true
			switch fi.Args[0] {
			case "s":
				bad = a[0].Literal("partial") == ""
			case "n":
				n := a[0].Number("partial")
				bad = n != n
			case "b":
				bad = !a[0].Boolean("partial")
			}
			if bad {
				panic("custom function failed on this operand")
			}
			return a[0]
		}
	default:
		fn = func([]xpath.Datum) xpath.Datum { panic("custom function failed") }
	}
	var def xpath.Datum
	if fi.Def == "typed" {
		def = typedDatum(fi.Ret, 99, "def", true)
	}
	return xpath.CustomFunctionInfo{Name: fi.Name, FnPtr: fn, Args: args, RetType: typeChecker(fi.Ret), DefaultRetVal: def}
}

func checker(names []string) xpath.UserCustomFunctionCheckerFn {
	if len(names) == 0 {
		return nil
	}
	return func(name string) (*xpath.Symbol, bool) {
		for _, n := range names {
			if n == name {
				return xpath.NewDummyFnSym(name), true
			}
		}
		return nil, false
	}
}

func compileWith(text string, allow bool, chk []string) (m *xpath.Machine, err error, panicked interface{}) {
	defer func() {
		if r := recover(); r != nil {
			panicked = r
		}
	}()
	pb := xpath.NewProgBuilder(text)
	lexer := expr.NewExprLex(text, pb, mapFn)
	if allow {
		lexer.AllowCustomFns()
	}
	lexer.SetUserFnChecker(checker(chk))
	lexer.Parse()
	prog, err := lexer.CreateProgram(text)
	if err != nil {
		return nil, err, nil
	}
	return xpath.NewMachine(text, prog, "exprMachine"), nil, nil
}

func compileClass(err error, pan interface{}) string {
	if pan != nil {
		return fmt.Sprintf("panic:%v", pan)
	}
	if err == nil {
		return "ok"
	}
	s := err.Error()
	switch {
	case strings.Contains(s, "Unknown function or node type"):
		return "unknown"
	case strings.Contains(s, "args, not"):
		return "arity"
	}
	return "err:" + s
}

func funcsCmd(args []string) {
	fs := flag.NewFlagSet("funcs", flag.ExitOnError)
	out := fs.String("out", "", "mismatches (ndjson)")
	verbose := fs.Bool("v", false, "print every observation")
	fs.Parse(args)
	w := os.Stdout
	if *out != "" {
		f, err := os.Create(*out)
		if err != nil {
			fmt.Fprintln(os.Stderr, err)
			os.Exit(2)
		}
		defer f.Close()
		w = f
	}
	enc := json.NewEncoder(w)
	nbeh, nsteps, nmism := 0, 0, 0
	counts := map[string]int{}
	for _, file := range fs.Args() {
		fh, err := os.Open(file)
		if err != nil {
			fmt.Fprintln(os.Stderr, err)
			os.Exit(2)
		}
		sc := bufio.NewScanner(fh)
		sc.Buffer(make([]byte, 1<<20), 1<<26)
		for sc.Scan() {
			var b FBehaviour
			if err := json.Unmarshal(sc.Bytes(), &b); err != nil {
				fmt.Fprintln(os.Stderr, "bad behaviour:", err)
				os.Exit(2)
			}
			nbeh++
			xpath.VerifResetFunctionTable()
			curGen = 0
			machines := map[int]*xpath.Machine{}
			report := func(i int, what string, want, got interface{}) {
				nmism++
				enc.Encode(FMism{Beh: nbeh, Step: i + 1, A: b.Steps[i].A, What: what, Want: want, Got: got, Steps: b.Steps[:i+1]})
			}
			for i, st := range b.Steps {
				nsteps++
				switch st.A {
				case "reg":
					curGen++
					var tbl []xpath.CustomFunctionInfo
					for _, fi := range st.Infos {
						tbl = append(tbl, makeInfo(fi))
					}
					func() {
						defer func() {
							if r := recover(); r != nil {
								report(i, "register-panic", "no panic", fmt.Sprint(r))
							}
						}()
						xpath.RegisterCustomFunctions(tbl)
					}()
					counts["reg"]++
				case "lookup":
					_, ok := xpath.LookupXpathFunction(st.Name, st.Allow, checker(st.Chk))
					got := "notfound"
					if ok {
						got = "found"
					}
					counts["lookup:"+got]++
					if *verbose {
						fmt.Printf("lookup %s allow=%v chk=%v -> %s\n", st.Name, st.Allow, st.Chk, got)
					}
					if got != st.Want.Obs {
						report(i, "lookup", st.Want.Obs, got)
					}
				case "compile":
					m, err, pan := compileWith(xpm.ToReal(st.Expr), st.Allow, st.Chk)
					got := compileClass(err, pan)
					counts["compile:"+strings.SplitN(got, ":", 2)[0]]++
					if *verbose {
						fmt.Printf("compile %q allow=%v chk=%v -> %s\n", st.Expr, st.Allow, st.Chk, got)
					}
					if got != st.Want.Obs {
						report(i, "compile", st.Want.Obs, got)
					}
					if m != nil {
						machines[st.M] = m
					}
				case "run":
					m := machines[st.M]
					if m == nil {
						continue // the compile step already disagreed
					}
					rr := runOnce(0, m, 0, false)
					got := "value"
					if rr.Panic != nil {
						got = fmt.Sprintf("panic:%v", rr.Panic)
					} else if rr.Err != "" {
						got = "err"
					}
					counts["run:"+strings.SplitN(got, ":", 2)[0]]++
					if *verbose {
						fmt.Printf("run %d -> %s %s\n", st.M, got, short(rr))
					}
					if st.Want.Obs == "unjudged" {
						if rr.Panic != nil {
							report(i, "run-panic", "value or error", got)
						}
						continue
					}
					if got != st.Want.Obs {
						report(i, "run-outcome", st.Want.Obs, got+" "+rr.Err)
						continue
					}
					if got == "value" {
						wn, ok := st.Want.Rn.ToFloat()
						if rr.B != st.Want.Rb {
							report(i, "run-boolean", st.Want.Rb, rr.B)
						} else if rr.S != st.Want.Rs {
							report(i, "run-string", st.Want.Rs, rr.S)
						} else if ok && !xpm.SameFloat(rr.N, wn) {
							report(i, "run-number", st.Want.Rn, xpm.FromFloat(rr.N))
						}
					}
				}
			}
		}
		fh.Close()
	}
	xpath.VerifResetFunctionTable()
	js, _ := json.Marshal(map[string]interface{}{"behaviours": nbeh, "steps": nsteps, "mismatches": nmism, "counts": counts})
	fmt.Println(string(js))
}
