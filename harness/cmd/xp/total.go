package main

import (
	"bufio"
	"context"
	"encoding/json"
	"flag"
	"fmt"
	"os"
	"regexp"
	"strconv"
	"strings"

	"github.com/sdcio/yang-parser/xpath"
	"github.com/sdcio/yang-parser/xpath/grammars/expr"
	"github.com/sdcio/yang-parser/xpath/grammars/leafref"
	"github.com/sdcio/yang-parser/xpath/grammars/path_eval"

	"verif/harness/internal/xpm"
)

type TOut struct {
	Text    string `json:"text"`
	Grammar string `json:"grammar"`
	Stage   string `json:"stage"` // build | message | run-nil | run-tree | run-failing
	What    string `json:"what"`
	Detail  string `json:"detail"`
}

func build(grammar, text string) (m *xpath.Machine, err error, pan interface{}) {
	defer func() {
		if r := recover(); r != nil {
			pan = r
		}
	}()
	switch grammar {
	case "expr":
		m, err = expr.NewExprMachine(text, mapFn)
	case "path_eval":
		m, err = path_eval.NewPathEvalMachine(text, mapFn, "verif:1")
	case "leafref":
		m, err = leafref.NewLeafrefMachine(text, mapFn)
	}
	return
}

// messageOK: the error quotes the expression and marks a position inside it:
// "... Got to approx [X] in 'P [X] S'" with P ++ S = expression.
func messageOK(text, msg string) string {
	if !strings.Contains(msg, text) {
		return "error text does not quote the expression"
	}
	// a position is marked by the expression split in two around a marker "[X]" (with or without a blank on
	// either side), anywhere in the text, or by a number that is a byte/character offset into the expression
	sawMarker := false
	for from := 0; ; {
		i := strings.Index(msg[from:], "[X]")
		if i < 0 {
			break
		}
		i += from
		from = i + 1
		sawMarker = true
		lefts := []string{msg[:i]}
		if i > 0 && msg[i-1] == ' ' {
			lefts = append(lefts, msg[:i-1])
		}
		rights := []string{msg[i+3:]}
		if i+3 < len(msg) && msg[i+3] == ' ' {
			rights = append(rights, msg[i+4:])
		}
		for p := 0; p <= len(text); p++ {
			for _, l := range lefts {
				if !strings.HasSuffix(l, text[:p]) {
					continue
				}
				for _, r := range rights {
					if strings.HasPrefix(r, text[p:]) {
						return ""
					}
				}
			}
		}
	}
	if !sawMarker {
		if m := offsetRe.FindStringSubmatch(strings.Replace(msg, text, "", -1)); m != nil {
			if n, err := strconv.Atoi(m[2]); err == nil && n >= 0 && n <= len(text)+1 {
				return ""
			}
		}
		return "error text marks no position"
	}
	return "marked text is not the expression split at a position"
}

var offsetRe = regexp.MustCompile(`(?i)\b(byte|offset|position|pos|column|col|char|character|index)s?\W{0,3}(\d+)`)

type runOutcome struct {
	pan      interface{}
	hasErr   bool
	hasValue bool
}

func runTotal(m *xpath.Machine, mode string) (o runOutcome) {
	defer func() {
		if r := recover(); r != nil {
			o.pan = r
		}
	}()
	var res *xpath.Result
	switch mode {
	case "run-nil":
		res = xpath.NewCtxFromMach(m, nil).Run()
	case "run-tree":
		res = xpath.NewCtxFromCurrent(context.Background(), m, &xpm.Entry{T: &xpm.Tree{}}).Run()
	case "run-failing":
		res = xpath.NewCtxFromCurrent(context.Background(), m, &xpm.Entry{T: &xpm.Tree{FailAt: 1}}).Run()
	case "run-cancelled":
		// "any context": the caller's Go context is already cancelled when the run starts
		gc, cancel := context.WithCancel(context.Background())
		cancel()
		res = xpath.NewCtxFromCurrent(gc, m, &xpm.Entry{T: &xpm.Tree{}}).Run()
	case "run-cancel-in-callback":
		// ... or is cancelled while the first data-tree callback is in progress
		gc, cancel := context.WithCancel(context.Background())
		defer cancel()
		res = xpath.NewCtxFromCurrent(gc, m, &xpm.Entry{T: &xpm.Tree{CancelAt: 1, Cancel: cancel}}).Run()
	}
	o.hasErr = res.GetError() != nil
	_, e1 := res.GetBoolResult()
	_, e2 := res.GetLiteralResult()
	_, e3 := res.GetNumResult()
	o.hasValue = e1 == nil && e2 == nil && e3 == nil
	if (e1 == nil) != (e2 == nil) || (e2 == nil) != (e3 == nil) {
		o.pan = "accessors disagree on value-vs-error"
	}
	return
}

// total: totality of machine construction (three grammars) and of running whatever was built.
func total(args []string) {
	fs := flag.NewFlagSet("total", flag.ExitOnError)
	out := fs.String("out", "tres.ndjson", "violations of totality")
	fs.Parse(args)
	of, _ := os.Create(*out)
	defer of.Close()
	ow := bufio.NewWriter(of)
	defer ow.Flush()
	enc := json.NewEncoder(ow)
	texts, builds, machines, runs, bad := 0, 0, 0, 0, 0
	report := func(t TOut) { enc.Encode(t); bad++ }
	for _, file := range fs.Args() {
		f, err := os.Open(file)
		if err != nil {
			fmt.Fprintln(os.Stderr, err)
			os.Exit(2)
		}
		sc := bufio.NewScanner(f)
		sc.Buffer(make([]byte, 1<<20), 1<<20)
		for sc.Scan() {
			var v GVec
			if err := json.Unmarshal(sc.Bytes(), &v); err != nil {
				fmt.Fprintln(os.Stderr, "bad vector", err)
				os.Exit(2)
			}
			var text string
			if v.Kind == "chars" {
				text = charSubst.Replace(v.Ts[0])
			} else {
				text = joinMin(v.Ts)
			}
			texts++
			for _, g := range []string{"expr", "path_eval", "leafref"} {
				builds++
				if nHangs >= maxHangs {
					continue
				}
				var m *xpath.Machine
				var err error
				var pan interface{}
				if watchdog(func() { m, err, pan = build(g, text) }) {
					report(TOut{text, g, "build", "hang", "the constructor did not return within 30 s"})
					continue
				}
				switch {
				case pan != nil:
					report(TOut{text, g, "build", "panic", fmt.Sprint(pan)})
					continue
				case (m == nil) == (err == nil):
					report(TOut{text, g, "build", "neither-or-both", fmt.Sprint(m != nil, err)})
					continue
				}
				if err != nil {
					if text != "" {
						if why := messageOK(text, err.Error()); why != "" {
							report(TOut{text, g, "message", why, err.Error()})
						}
					}
					continue
				}
				machines++
				for _, mode := range []string{"run-nil", "run-tree", "run-failing", "run-cancelled", "run-cancel-in-callback"} {
					runs++
					if nHangs >= maxHangs {
						continue
					}
					var o runOutcome
					if watchdog(func() { o = runTotal(m, mode) }) {
						report(TOut{text, g, mode, "hang", "Run did not return within 30 s"})
						continue
					}
					switch {
					case o.pan != nil:
						report(TOut{text, g, mode, "panic", fmt.Sprint(o.pan)})
					case o.hasErr == o.hasValue:
						report(TOut{text, g, mode, "value-and-error-or-neither", fmt.Sprint(o.hasErr, o.hasValue)})
					}
				}
			}
		}
		f.Close()
	}
	fmt.Printf("{\"texts\":%d,\"builds\":%d,\"machines\":%d,\"runs\":%d,\"violations\":%d}\n", texts, builds, machines, runs, bad)
}
