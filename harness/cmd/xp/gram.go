package main

import (
	"bufio"
	"encoding/json"
	"flag"
	"fmt"
	"os"
	"strings"

	"github.com/sdcio/yang-parser/xpath"
	"github.com/sdcio/yang-parser/xpath/grammars/expr"
	"github.com/sdcio/yang-parser/xpath/grammars/leafref"
)

// GVec is one token sequence with the verdict XPathGrammar.tla prescribes.
type GVec struct {
	Kind string   `json:"kind"`
	Lang string   `json:"lang"`
	Ts   []string `json:"ts"`
	V    string   `json:"v"`
	Why  string   `json:"why"`
	V2   string   `json:"v2"` // verdict under the second prefix environment ("" = not judged there)
}

type GOut struct {
	Kind string   `json:"kind"`
	Lang string   `json:"lang"`
	Ts   []string `json:"ts"`
	Text string   `json:"text"`
	Want string   `json:"want"`
	Why  string   `json:"why"`
	Got  string   `json:"got"`
	Note string   `json:"note"`
}

// placeholders of XPathGrammarGen's character alphabet
var charSubst = strings.NewReplacer("~", "\u00e9", "`", "\xff", "^", "\x0b", "{", "\x00", "}", "\u00a0")

func isWord(c byte) bool {
	return c == '_' || c == '-' || c == '.' || c == ':' || (c >= '0' && c <= '9') || (c >= 'a' && c <= 'z') || (c >= 'A' && c <= 'Z')
}

// needsSep: would the two tokens, written without a separator, be read differently?
func needsSep(a, b string) bool {
	if a == "" || b == "" {
		return false
	}
	x, y := a[len(a)-1], b[0]
	if isWord(x) && isWord(y) {
		return true
	}
	switch string([]byte{x, y}) {
	case "//", "<=", ">=", "!=", "::", "..":
		return true
	}
	return false
}

func joinMin(ts []string) string {
	var b strings.Builder
	for i, t := range ts {
		if i > 0 && needsSep(ts[i-1], t) {
			b.WriteByte(' ')
		}
		b.WriteString(t)
	}
	return b.String()
}

func joinWs(ts []string) string {
	var b strings.Builder
	seps := []string{" ", "\t", "\n ", "  ", " \n", "\r\n", "\t\r\n "}
	b.WriteString(" ")
	for i, t := range ts {
		if i > 0 {
			b.WriteString(seps[i%len(seps)])
		}
		b.WriteString(t)
	}
	b.WriteString("\n")
	return b.String()
}

func compileLeafref(text string) (m *xpath.Machine, err error, panicked interface{}) {
	return compileLeafrefIn(text, mapFn)
}

func compileLeafrefIn(text string, env func(string) (string, error)) (m *xpath.Machine, err error, panicked interface{}) {
	defer func() {
		if r := recover(); r != nil {
			panicked = r
		}
	}()
	m, err = leafref.NewLeafrefMachine(text, env)
	return
}

// mapFnB is the second prefix environment of XPathGrammarGen.tla: it knows "", zz and q (mapFn knows "", p and q)
func mapFnB(prefix string) (string, error) {
	switch prefix {
	case "":
		return "urn:self", nil
	case "zz":
		return "urn:zz", nil
	case "q":
		return "urn:q", nil
	}
	return "", fmt.Errorf("unknown prefix %q", prefix)
}

func compileExprIn(text string, env func(string) (string, error)) (m *xpath.Machine, err error, panicked interface{}) {
	defer func() {
		if r := recover(); r != nil {
			panicked = r
		}
	}()
	m, err = expr.NewExprMachine(text, env)
	return
}

func verdictOf(lang, text string) string { return verdictIn(lang, text, false) }

func verdictIn(lang, text string, envB bool) string {
	var m *xpath.Machine
	var err error
	var pan interface{}
	switch {
	case lang == "leafref" && envB:
		m, err, pan = compileLeafrefIn(text, mapFnB)
	case lang == "leafref":
		m, err, pan = compileLeafref(text)
	case envB:
		if watchdog(func() { m, err, pan = compileExprIn(text, mapFnB) }) {
			m, err, pan = nil, errHang, nil
		}
	default:
		m, err, pan = compile(text)
	}
	switch {
	case pan != nil:
		return "panic"
	case err != nil && m != nil:
		return "both"
	case err != nil:
		return "reject"
	case m == nil:
		return "neither"
	}
	return "accept"
}

// gram: compile every token sequence in two renderings and compare with the verdict.
func gram(args []string) {
	fs := flag.NewFlagSet("gram", flag.ExitOnError)
	out := fs.String("out", "gres.ndjson", "disagreements")
	fs.Parse(args)
	of, _ := os.Create(*out)
	defer of.Close()
	ow := bufio.NewWriter(of)
	defer ow.Flush()
	enc := json.NewEncoder(ow)
	n, judged, bad, nested := 0, 0, 0, 0
	prevText, prevLang, prevGot := "", "", ""
	counts := map[string]int{}
	for _, file := range fs.Args() {
		f, err := os.Open(file)
		if err != nil {
			fmt.Fprintln(os.Stderr, err)
			os.Exit(2)
		}
		sc := bufio.NewScanner(f)
		sc.Buffer(make([]byte, 1<<20), 1<<20)
		for sc.Scan() {
			var v GVec
			if err := json.Unmarshal(sc.Bytes(), &v); err != nil {
				fmt.Fprintln(os.Stderr, "bad vector", err)
				os.Exit(2)
			}
			n++
			t1, t2 := joinMin(v.Ts), joinWs(v.Ts)
			if v.Kind == "chars" { // a raw character string: ~ is a non-ASCII name character, \f an invalid byte
				t1 = charSubst.Replace(v.Ts[0])
				t2 = t1
			}
			g1, g2 := verdictOf(v.Lang, t1), verdictOf(v.Lang, t2)
			counts[v.Lang+":"+v.V+":"+g1]++
			rec := GOut{Kind: v.Kind, Lang: v.Lang, Ts: v.Ts, Text: t1, Want: v.V, Why: v.Why, Got: g1}
			if g1 != g2 {
				rec.Note = "whitespace changes the verdict: " + g2 + " with whitespace at every token boundary"
				enc.Encode(rec)
				bad++
				continue
			}
			if g1 != "accept" && g1 != "reject" {
				rec.Note = "not machine-xor-error"
				enc.Encode(rec)
				bad++
				continue
			}
			// the prefix environment is an input of THIS call only: the same text under the second environment, then under
			// the first one again (verdicts must follow the environment, whatever was compiled before)
			if v.V2 != "" {
				gB, gA := verdictIn(v.Lang, t1, true), verdictOf(v.Lang, t1)
				switch {
				case gA != g1:
					rec.Note = "history: " + gA + " under the same prefix environment after a compilation of the same text under another one (first: " + g1 + ")"
					enc.Encode(rec)
					bad++
					continue
				case v.V2 != "unspecified" && v.V != "unspecified" && gB != v.V2:
					rec.Note = "second prefix environment (knows zz, not p): " + gB + ", specification says " + v.V2
					rec.Want, rec.Got = v.V2, gB
					enc.Encode(rec)
					bad++
					continue
				}
			}
			// overlapping compilations: the prefix callback of this compilation compiles another text (the previous vector's)
			// before it answers; both compilations must come out as they do on their own
			if v.Kind != "chars" && strings.Contains(t1, ":") && prevText != "" {
				nested++
				innerGot, called := "", false
				env := func(pfx string) (string, error) {
					if !called {
						called = true
						innerGot = verdictOf(prevLang, prevText)
					}
					return mapFn(pfx)
				}
				var m *xpath.Machine
				var err error
				var pan interface{}
				if v.Lang == "leafref" {
					m, err, pan = compileLeafrefIn(t1, env)
				} else if watchdog(func() { m, err, pan = compileExprIn(t1, env) }) {
					m, err, pan = nil, errHang, nil
				}
				gN := "accept"
				switch {
				case pan != nil:
					gN = "panic"
				case err != nil && m != nil:
					gN = "both"
				case err != nil:
					gN = "reject"
				case m == nil:
					gN = "neither"
				}
				if gN != g1 || (called && innerGot != prevGot) {
					rec.Note = fmt.Sprintf("overlapping compilations: %s with %q (%s) compiled inside its prefix callback, which came out %s; alone: %s and %s",
						gN, prevText, prevLang, innerGot, g1, prevGot)
					rec.Got = gN
					enc.Encode(rec)
					bad++
					prevText, prevLang, prevGot = t1, v.Lang, g1
					continue
				}
			}
			prevText, prevLang, prevGot = t1, v.Lang, g1
			if v.V == "unspecified" {
				continue
			}
			judged++
			if g1 != v.V {
				enc.Encode(rec)
				bad++
			}
		}
		f.Close()
	}
	cj, _ := json.Marshal(counts)
	fmt.Printf("{\"sequences\":%d,\"judged\":%d,\"disagreements\":%d,\"nested_compilations\":%d,\"counts\":%s}\n", n, judged, bad, nested, cj)
}
