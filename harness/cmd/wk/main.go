// wk: conformance harness for the extension module X-walk (spec/SchemaWalk*.tla):
// ModelSet.FindOrWalk, schema.FilterTree and the compile.Extensions hooks.
//
//	wk replay-walk -out res.ndjson sws_1.ndjson swv_1.ndjson ...    model -> code, FindOrWalk
//	wk record-walk -schemas s.ndjson -n N -trace t.ndjson           code -> model, FindOrWalk
//	wk replay-filter -out res.ndjson sfs_1.ndjson sfv_1.ndjson ...  model -> code, FilterTree
//	wk replay-ext -out res.ndjson sxv.ndjson ...                    model -> code, Extensions hooks
//	wk probe-ext [-mode wrap|identity] a.yang b.yang ...            print the hook calls of a compilation
//	wk probe-alias sws_N.ndjson                                     does a retained `path` slice change later in the walk?
package main

import (
	"bufio"
	"encoding/json"
	"fmt"
	"os"
	"strconv"
)

func usage() {
	fmt.Fprintln(os.Stderr, "usage: wk replay-walk|record-walk|replay-filter|replay-ext|probe-ext ...")
	os.Exit(2)
}

func die(f string, a ...interface{}) {
	fmt.Fprintf(os.Stderr, "wk: "+f+"\n", a...)
	os.Exit(2)
}

func main() {
	if len(os.Args) < 2 {
		usage()
	}
	switch os.Args[1] {
	case "replay-walk":
		replayWalk(os.Args[2:])
	case "record-walk":
		recordWalk(os.Args[2:])
	case "replay-filter":
		replayFilter(os.Args[2:])
	case "replay-ext":
		replayExt(os.Args[2:])
	case "probe-ext":
		probeExt(os.Args[2:])
	case "probe-alias":
		probeAlias(os.Args[2:])
	default:
		usage()
	}
}

func seed() int64 {
	n, err := strconv.ParseInt(os.Getenv("VERIF_SEED"), 10, 64)
	if err != nil {
		return 1
	}
	return n
}

func eachLine(path string, f func([]byte)) {
	fh, err := os.Open(path)
	if err != nil {
		die("%v", err)
	}
	defer fh.Close()
	sc := bufio.NewScanner(fh)
	sc.Buffer(make([]byte, 1<<26), 1<<26)
	for sc.Scan() {
		if len(sc.Bytes()) > 0 {
			f(sc.Bytes())
		}
	}
	if err := sc.Err(); err != nil {
		die("%s: %v", path, err)
	}
}

type writer struct {
	f *os.File
	w *bufio.Writer
}

func create(path string) *writer {
	f, err := os.Create(path)
	if err != nil {
		die("%v", err)
	}
	return &writer{f, bufio.NewWriterSize(f, 1<<20)}
}
func (w *writer) put(v interface{}) {
	b, err := json.Marshal(v)
	if err != nil {
		die("%v", err)
	}
	w.w.Write(b)
	w.w.WriteByte('\n')
}
func (w *writer) close() {
	w.w.Flush()
	w.f.Close()
}
