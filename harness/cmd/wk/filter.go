package main

import (
	"encoding/json"
	"flag"
	"fmt"

	"verif/harness/internal/wkm"
)

type filterVec struct {
	D     wkm.ONode      `json:"d"`
	P     wkm.Pred       `json:"p"`
	View  wkm.ONode      `json:"view"`
	Keeps []wkm.KeepCall `json:"keeps"`
}

func normTree(n *wkm.ONode) {
	if n.Vals == nil {
		n.Vals = []string{}
	}
	if n.Kids == nil {
		n.Kids = []wkm.ONode{}
	}
	for i := range n.Kids {
		normTree(&n.Kids[i])
	}
}

func readFShapes(path string) []wkm.FShape {
	out := []wkm.FShape{}
	eachLine(path, func(b []byte) {
		var sh wkm.FShape
		if err := json.Unmarshal(b, &sh); err != nil {
			die("%s: %v", path, err)
		}
		out = append(out, sh)
	})
	return out
}

// firstDiff names the first node (pre-order) where two trees differ, in specification terms.
func firstDiff(want, got wkm.ONode, path string) string {
	if want.Name != got.Name {
		return "name"
	}
	if canon(want.Vals) != canon(got.Vals) {
		return "values"
	}
	wn, gn := []string{}, []string{}
	ws, gs := map[string]bool{}, map[string]bool{}
	for _, k := range want.Kids {
		wn = append(wn, k.Name)
		ws[k.Name] = true
	}
	for _, k := range got.Kids {
		gn = append(gn, k.Name)
		gs[k.Name] = true
	}
	if canon(wn) != canon(gn) {
		for _, n := range gn {
			if !ws[n] {
				return "extra-node"
			}
		}
		for _, n := range wn {
			if !gs[n] {
				return "missing-node"
			}
		}
		return "order"
	}
	for i := range want.Kids {
		if d := firstDiff(want.Kids[i], got.Kids[i], path+"/"+want.Kids[i].Name); d != "" {
			return d
		}
	}
	return ""
}

func replayFilter(args []string) {
	fs := flag.NewFlagSet("replay-filter", flag.ExitOnError)
	out := fs.String("out", "res_filter.ndjson", "mismatches")
	fs.Parse(args)
	w := create(*out)
	defer w.close()
	rest := fs.Args()
	evals, mism, nontrivial := 0, 0, 0
	for i := 0; i+1 < len(rest); i += 2 {
		shs := readFShapes(rest[i])
		if len(shs) != 1 {
			die("%s: one schema expected", rest[i])
		}
		ms, err := wkm.CompileShape(shs[0])
		if err != nil {
			die("shape %d does not compile: %v\n%s", shs[0].ID, err, wkm.YangOf(shs[0]))
		}
		eachLine(rest[i+1], func(b []byte) {
			var v filterVec
			if err := json.Unmarshal(b, &v); err != nil {
				die("%s: %v", rest[i+1], err)
			}
			normTree(&v.D)
			normTree(&v.View)
			if v.Keeps == nil {
				v.Keeps = []wkm.KeepCall{}
			}
			o := wkm.RunFilter(ms, v.D, v.P)
			evals++
			if canon(v.View) != canon(v.D) {
				nontrivial++
			}
			what, diff := "", ""
			switch {
			case o.Panic != "":
				what = "panic"
			case o.NilView:
				what = "no-view"
			case canon(o.View) != canon(v.View):
				what, diff = "view", firstDiff(v.View, o.View, "")
			case canon(o.Keeps) != canon(v.Keeps):
				what = "keep-calls"
			case canon(o.NoSort) != canon(o.View):
				what, diff = "nosorting-differs", firstDiff(o.View, o.NoSort, "")
			case canon(o.View2) != canon(v.View):
				what, diff = "not-idempotent", firstDiff(v.View, o.View2, "")
			case canon(o.After) != canon(v.D):
				what, diff = "underlying-altered", firstDiff(v.D, o.After, "")
			case canon(o.After2) != canon(v.View):
				what, diff = "view-altered", firstDiff(v.View, o.After2, "")
			}
			if what != "" {
				mism++
				w.put(map[string]interface{}{"shape": shs[0].ID, "p": v.P, "d": v.D, "what": what, "diff": diff, "want": v.View, "wantkeeps": v.Keeps, "got": o})
			}
		})
	}
	fmt.Println(canon(map[string]int{"evaluations": evals, "mismatches": mism, "nontrivial": nontrivial}))
}
