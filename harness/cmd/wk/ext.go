package main

import (
	"encoding/json"
	"flag"
	"fmt"
	"os"
	"path/filepath"
	"sort"
	"strings"

	"github.com/sdcio/yang-parser/compile"
	"github.com/sdcio/yang-parser/parse"
	"github.com/sdcio/yang-parser/schema"

	"verif/harness/internal/schemadump"
	"verif/harness/internal/scm"
	"verif/harness/internal/wkm"
)

// compileTexts parses and compiles YANG texts (name -> text) with the given Extensions.
func compileTexts(texts map[string]string, ext compile.Extensions) (ms schema.ModelSet, err error) {
	defer func() {
		if r := recover(); r != nil {
			err = fmt.Errorf("panic: %v", r)
		}
	}()
	trees := map[string]*parse.Tree{}
	for name, text := range texts {
		t, e := parse.Parse(name+".yang", text, nil)
		if e != nil {
			return nil, fmt.Errorf("parse %s: %v", name, e)
		}
		trees[name] = t
	}
	return compile.CompileParseTrees(ext, trees, compile.FeaturesFromNames(true), false, nil)
}

// HC is a hook call in the terms of spec/SchemaWalkExt.tla.
type HC struct {
	Hook string   `json:"hook"`
	Path []string `json:"path"`
	Arg  string   `json:"arg"`
	Base string   `json:"base"`
	Nk   int      `json:"nk"`
}

type modSeq struct {
	Mod string `json:"mod"`
	Seq []HC   `json:"seq"`
}

type failAt struct {
	Mod string `json:"mod"`
	N   int    `json:"n"`
}

type failVec struct {
	Fail struct {
		Hook string `json:"hook"`
		Arg  string `json:"arg"`
	} `json:"fail"`
	At  []failAt `json:"at"`
	Set bool     `json:"set"`
}

type mustVec struct {
	Ext   string         `json:"ext"`
	Nodes []wkm.MustNode `json:"nodes"`
}

type extVec struct {
	ID      int        `json:"id"`
	Mods    []scm.Stmt `json:"mods"`
	Calls   []modSeq   `json:"calls"`
	SetCall HC         `json:"setcall"`
	Fails   []failVec  `json:"fails"`
	Musts   []mustVec  `json:"musts"`
}

func textsOf(v extVec) map[string]string {
	texts := map[string]string{}
	for _, m := range v.Mods {
		texts[m.Arg[0]] = scm.Render(m)
	}
	return texts
}

var nodeHooks = map[string]bool{"container": true, "list": true, "leaf": true, "leaflist": true, "choice": true, "case": true}

// resolve turns the recorded calls of a successful wrapping compilation into specification calls:
// node hooks get the path where their wrapper sits in the compiled model set, type calls the path of
// the leaf / leaf-list hook that follows them, must calls the path of the hook with the same parse node.
func resolve(rec *wkm.Recorder, placed []wkm.Placed) ([]HC, []string) {
	problems := []string{}
	where := map[int][]string{}
	count := map[int]int{}
	for _, p := range placed {
		if p.Id == 0 {
			problems = append(problems, "object-not-from-a-hook:"+p.Kind+":"+strings.Join(p.Path, "/"))
			continue
		}
		count[p.Id]++
		where[p.Id] = p.Path
	}
	// the tree a model was built from is not reachable on its own: it sits where the model sits
	for model, tree := range rec.TreeOf {
		if p, ok := where[model]; ok {
			where[tree] = p
			count[tree]++
		}
	}
	out := make([]HC, len(rec.Calls))
	for i, c := range rec.Calls {
		h := HC{Hook: c.Hook, Arg: c.Arg, Base: c.Base, Nk: c.Built, Path: []string{"?"}}
		switch {
		case c.Hook == "type" || c.Hook == "must":
			if c.Hook == "must" {
				h.Base = ""
			}
		default:
			if p, ok := where[c.Id]; ok {
				h.Path = p
				if count[c.Id] > 1 {
					problems = append(problems, "wrapper-placed-twice:"+c.Hook+":"+c.Name)
				}
			} else {
				h.Path = []string{"?orphan"}
				problems = append(problems, "replacement-not-in-the-tree:"+c.Hook+":"+c.Name)
			}
		}
		out[i] = h
	}
	for i, c := range rec.Calls {
		switch c.Hook {
		case "type":
			for j := i + 1; j < len(rec.Calls); j++ {
				if rec.Calls[j].Hook == "leaf" || rec.Calls[j].Hook == "leaflist" {
					out[i].Path = out[j].Path
					break
				}
				if rec.Calls[j].Hook != "type" && rec.Calls[j].Hook != "must" {
					break
				}
			}
		case "must":
			for j := 0; j < len(rec.Calls); j++ {
				if j != i && rec.Calls[j].Hook != "must" && rec.Calls[j].Hook != "type" && rec.PNodes[j] != nil && rec.PNodes[j] == rec.PNodes[i] {
					out[i].Path = out[j].Path
					break
				}
			}
		}
	}
	return out, problems
}

func proj(cs []HC) []HC {
	out := make([]HC, len(cs))
	for i, c := range cs {
		out[i] = HC{Hook: c.Hook, Arg: c.Arg, Base: c.Base, Nk: c.Nk, Path: []string{}}
	}
	return out
}

func rawCalls(rec *wkm.Recorder) []HC {
	out := []HC{}
	for _, c := range rec.Calls {
		h := HC{Hook: c.Hook, Arg: c.Arg, Base: c.Base, Nk: c.Built, Path: []string{}}
		if c.Hook == "must" {
			h.Base = ""
		}
		out = append(out, h)
	}
	return out
}

// diffSeq: where and how an observed call sequence departs from the prescribed one.
func diffSeq(want, got []HC) (string, HC) {
	n := len(want)
	if len(got) < n {
		n = len(got)
	}
	for i := 0; i < n; i++ {
		if canon(want[i]) != canon(got[i]) {
			bag := map[string]int{}
			for _, c := range want {
				bag[canon(c)]++
			}
			for _, c := range got {
				bag[canon(c)]--
			}
			same := true
			for _, v := range bag {
				if v != 0 {
					same = false
				}
			}
			if same {
				return "order", want[i]
			}
			w, g := want[i], got[i]
			if w.Hook == g.Hook && canon(w.Path) == canon(g.Path) {
				return "arguments", w
			}
			if bag[canon(w)] > 0 {
				return "call-missing", w
			}
			return "call-extra", g
		}
	}
	if len(got) < len(want) {
		return "call-missing", want[len(got)]
	}
	if len(got) > len(want) {
		return "call-extra", got[len(want)]
	}
	return "", HC{}
}

func replayExt(args []string) {
	fs := flag.NewFlagSet("replay-ext", flag.ExitOnError)
	out := fs.String("out", "res_ext.ndjson", "mismatches")
	fs.Parse(args)
	w := create(*out)
	defer w.close()
	evals, mism, hooks, vecs := 0, 0, 0, 0
	report := func(v extVec, what string, detail interface{}, call HC) {
		mism++
		w.put(map[string]interface{}{"id": v.ID, "what": what, "detail": detail, "hook": call.Hook, "call": call, "texts": textsOf(v)})
	}
	for _, f := range fs.Args() {
		eachLine(f, func(b []byte) {
			var v extVec
			if err := json.Unmarshal(b, &v); err != nil {
				die("%s: %v", f, err)
			}
			vecs++
			texts := textsOf(v)
			want := map[string][]HC{}
			for _, m := range v.Calls {
				for i := range m.Seq {
					if m.Seq[i].Path == nil {
						m.Seq[i].Path = []string{}
					}
				}
				want["m:"+m.Mod] = m.Seq
			}
			if v.SetCall.Path == nil {
				v.SetCall.Path = []string{}
			}
			// 1. no Extensions, identity Extensions, wrapping Extensions: the same schema
			msNil, err := compileTexts(texts, nil)
			if err != nil {
				die("vector %d does not compile: %v\n%v", v.ID, err, texts)
			}
			dumpNil := schemadump.JSON(schemadump.Dump(msNil))
			idr := &wkm.Recorder{Mode: "identity"}
			msId, err := compileTexts(texts, idr)
			evals++
			if err != nil {
				report(v, "identity-extensions-fail", err.Error(), HC{})
			} else if schemadump.JSON(schemadump.Dump(msId)) != dumpNil {
				report(v, "identity-extensions-change-the-schema", "", HC{})
			}
			rec := &wkm.Recorder{Mode: "wrap"}
			ms, err := compileTexts(texts, rec)
			evals++
			hooks += len(rec.Calls)
			if err != nil {
				report(v, "wrapping-extensions-fail", err.Error(), HC{})
				return
			}
			if schemadump.JSON(schemadump.Dump(ms)) != dumpNil {
				report(v, "forwarding-wrappers-change-the-schema", "", HC{})
			}
			noNk := func(cs []HC) []HC {
				for i := range cs {
					cs[i].Nk = 0 // an identity hook returns no wrapper that could be counted
				}
				return cs
			}
			if canon(noNk(rawCalls(idr))) != canon(noNk(rawCalls(rec))) {
				report(v, "calls-depend-on-what-hooks-return", "", HC{})
			}
			// 2. the calls, module by module
			placed, merged := wkm.Locate(ms)
			obs, problems := resolve(rec, placed)
			for _, p := range problems {
				parts := strings.SplitN(p, ":", 3)
				report(v, parts[0], p, HC{Hook: parts[1]})
			}
			if len(problems) > 0 {
				return // without the places of the replacements the calls have no paths to be compared by
			}
			ids := map[int]bool{}
			for _, p := range placed {
				if len(p.Path) > 1 && p.Path[1] != "rpc:" && p.Path[1] != "notification:" {
					ids[p.Id] = true
				}
			}
			for _, id := range merged {
				if !ids[id] {
					report(v, "merged-tree-holds-other-nodes", id, HC{})
					break
				}
			}
			seqBad := false
			if len(obs) == 0 || obs[len(obs)-1].Hook != "modelset" {
				report(v, "modelset-call-not-last", "", v.SetCall)
				seqBad = true
			} else {
				if canon(obs[len(obs)-1]) != canon(v.SetCall) {
					report(v, "arguments", map[string]interface{}{"want": v.SetCall, "got": obs[len(obs)-1]}, v.SetCall)
					seqBad = true
				}
				obs = obs[:len(obs)-1]
			}
			got := map[string][]HC{}
			order := []string{}
			for _, c := range obs {
				m := "?"
				if len(c.Path) > 0 {
					m = c.Path[0]
				}
				if len(order) == 0 || order[len(order)-1] != m {
					order = append(order, m)
				}
				got[m] = append(got[m], c)
			}
			seen := map[string]bool{}
			for _, m := range order {
				if seen[m] && !strings.HasPrefix(m, "?") {
					report(v, "modules-interleaved", order, HC{})
					seqBad = true
				}
				seen[m] = true
			}
			names := []string{}
			for m := range want {
				names = append(names, m)
			}
			for m := range got {
				if _, ok := want[m]; !ok {
					names = append(names, m)
				}
			}
			sort.Strings(names)
			for _, m := range names {
				if strings.HasPrefix(m, "?") {
					continue // calls whose replacement is nowhere in the tree: reported above
				}
				if what, c := diffSeq(want[m], got[m]); what != "" {
					report(v, what, map[string]interface{}{"module": m, "want": want[m], "got": got[m]}, c)
					seqBad = true
				}
			}
			if seqBad || len(problems) > 0 {
				return // the refusal and replacement runs below presuppose the call sequence
			}
			// 3. a hook that refuses: the compilation stops there with an error
			for _, fv := range v.Fails {
				fr := &wkm.Recorder{Mode: "wrap", FailHook: fv.Fail.Hook, FailName: fv.Fail.Arg}
				_, ferr := compileTexts(texts, fr)
				evals++
				fc := HC{Hook: fv.Fail.Hook, Arg: fv.Fail.Arg}
				if ferr == nil {
					report(v, "refusal-ignored", fv.Fail, fc)
					continue
				}
				if strings.HasPrefix(ferr.Error(), "panic:") {
					report(v, "refusal-panics", ferr.Error(), fc)
					continue
				}
				raw := rawCalls(fr)
				// split at the model calls
				var segs [][]HC
				cur := []HC{}
				for _, c := range raw {
					cur = append(cur, c)
					if c.Hook == "model" {
						segs = append(segs, cur)
						cur = []HC{}
					}
				}
				full := map[string]string{}
				prefix := map[string]string{}
				for _, a := range fv.At {
					seq := proj(want["m:"+a.Mod])
					if a.N == 0 {
						full[canon(seq)] = a.Mod
					} else {
						prefix[canon(seq[:a.N])] = a.Mod
					}
				}
				ok := true
				for _, s := range segs {
					if _, isFull := full[canon(s)]; !isFull {
						if _, isPre := prefix[canon(s)]; !(isPre && len(cur) == 0 && canon(s) == canon(segs[len(segs)-1])) {
							ok = false
						}
					}
				}
				last := cur
				if len(last) == 0 && len(segs) > 0 {
					last = segs[len(segs)-1]
				}
				if len(prefix) > 0 {
					if _, isPre := prefix[canon(last)]; !isPre {
						ok = false
					}
				} else {
					// only the model set's call is refused: every module complete, then that call
					if !(fv.Set && len(cur) == 1 && canon(cur[0]) == canon(proj([]HC{v.SetCall})[0]) && len(segs) == len(fv.At)) {
						ok = false
					}
				}
				if !ok {
					report(v, "refusal-does-not-stop-there", map[string]interface{}{"fail": fv.Fail, "got": raw}, fc)
				}
			}
			// 4. ExtendMust's replacement
			for _, mv := range v.Musts {
				mr := &wkm.Recorder{Mode: "identity", MustExt: mv.Ext}
				mms, merr := compileTexts(texts, mr)
				evals++
				if merr != nil {
					report(v, "must-replacement-fails", map[string]string{"ext": mv.Ext, "err": merr.Error()}, HC{Hook: "must"})
					continue
				}
				gotM := wkm.MustsOf(mms)
				key := func(ns []wkm.MustNode) string {
					xs := []string{}
					for _, n := range ns {
						if n.Texts == nil {
							n.Texts = []string{}
						}
						xs = append(xs, canon(n))
					}
					sort.Strings(xs)
					return canon(xs)
				}
				if key(gotM) != key(mv.Nodes) {
					report(v, "must-replacement", map[string]interface{}{"ext": mv.Ext, "want": mv.Nodes, "got": gotM}, HC{Hook: "must"})
				}
			}
		})
	}
	fmt.Println(canon(map[string]int{"evaluations": evals, "mismatches": mism, "hook_calls": hooks, "vectors": vecs}))
}

func probeExt(args []string) {
	fs := flag.NewFlagSet("probe-ext", flag.ExitOnError)
	mode := fs.String("mode", "wrap", "wrap | identity")
	fh := fs.String("failhook", "", "hook that returns an error")
	fn := fs.String("failname", "", "... for the parse node with this argument")
	mx := fs.String("mustext", "", "replacement expression returned by ExtendMust")
	dump := fs.Bool("dump", false, "print the canonical dump too")
	fs.Parse(args)
	texts := map[string]string{}
	for _, f := range fs.Args() {
		b, err := os.ReadFile(f)
		if err != nil {
			die("%v", err)
		}
		texts[strings.TrimSuffix(filepath.Base(f), ".yang")] = string(b)
	}
	rec := &wkm.Recorder{Mode: *mode, FailHook: *fh, FailName: *fn, MustExt: *mx}
	ms, err := compileTexts(texts, rec)
	if err != nil {
		for _, c := range rec.Calls {
			fmt.Println(canon(c))
		}
		fmt.Println("ERROR:", err)
		return
	}
	placed, _ := wkm.Locate(ms)
	obs, problems := resolve(rec, placed)
	for _, c := range obs {
		fmt.Println(canon(c))
	}
	for _, p := range problems {
		fmt.Println("PROBLEM", p)
	}
	for _, m := range wkm.MustsOf(ms) {
		fmt.Println("musts", canon(m))
	}
	if *dump {
		fmt.Println(schemadump.JSON(schemadump.Dump(ms)))
	}
}
