package main

import (
	"encoding/json"
	"flag"
	"fmt"
	"os"
	"path/filepath"
	"strings"

	"github.com/sdcio/yang-parser/compile"
	"github.com/sdcio/yang-parser/parse"
	"github.com/sdcio/yang-parser/schema"

	"verif/harness/internal/schemadump"
	"verif/harness/internal/wkm"
)

// compileTexts parses and compiles YANG texts (name -> text) with the given Extensions.
func compileTexts(texts map[string]string, ext compile.Extensions) (ms schema.ModelSet, err error) {
	defer func() {
		if r := recover(); r != nil {
			err = fmt.Errorf("panic: %v", r)
		}
	}()
	trees := map[string]*parse.Tree{}
	for name, text := range texts {
		t, e := parse.Parse(name+".yang", text, nil)
		if e != nil {
			return nil, fmt.Errorf("parse %s: %v", name, e)
		}
		trees[name] = t
	}
	return compile.CompileParseTrees(ext, trees, compile.FeaturesFromNames(true), false, nil)
}

func probeExt(args []string) {
	fs := flag.NewFlagSet("probe-ext", flag.ExitOnError)
	mode := fs.String("mode", "wrap", "wrap | identity")
	fh := fs.String("failhook", "", "hook that returns an error")
	fn := fs.String("failname", "", "... for the node of this name")
	mx := fs.String("mustext", "", "replacement expression returned by ExtendMust")
	dump := fs.Bool("dump", false, "print the canonical dump too")
	fs.Parse(args)
	texts := map[string]string{}
	for _, f := range fs.Args() {
		b, err := os.ReadFile(f)
		if err != nil {
			die("%v", err)
		}
		texts[strings.TrimSuffix(filepath.Base(f), ".yang")] = string(b)
	}
	rec := &wkm.Recorder{Mode: *mode, FailHook: *fh, FailName: *fn, MustExt: *mx}
	ms, err := compileTexts(texts, rec)
	for _, c := range rec.Calls {
		b, _ := json.Marshal(c)
		fmt.Println(string(b))
	}
	if err != nil {
		fmt.Println("ERROR:", err)
		return
	}
	for _, p := range wkm.Locate(ms) {
		b, _ := json.Marshal(p)
		fmt.Println("placed", string(b))
	}
	if *dump {
		fmt.Println(schemadump.JSON(schemadump.Dump(ms)))
	}
}
