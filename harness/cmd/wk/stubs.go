package main

func replayExt(a []string) {}
