package main

import (
	"encoding/json"
	"flag"
	"fmt"
	"math/rand"
	"sort"

	"github.com/sdcio/yang-parser/schema"

	"verif/harness/internal/dvm"
	"verif/harness/internal/wkm"
)

func readShapes(path string) []dvm.Shape {
	out := []dvm.Shape{}
	eachLine(path, func(b []byte) {
		var sh dvm.Shape
		if err := json.Unmarshal(b, &sh); err != nil {
			die("%s: %v", path, err)
		}
		out = append(out, sh)
	})
	return out
}

type walkVec struct {
	Q    wkm.Query     `json:"q"`
	Behs []wkm.Outcome `json:"behs"`
}

func canon(v interface{}) string {
	b, err := json.Marshal(v)
	if err != nil {
		die("%v", err)
	}
	return string(b)
}

func normOutcome(o *wkm.Outcome) {
	if o.Calls == nil {
		o.Calls = []wkm.WCall{}
	}
	for i := range o.Calls {
		if o.Calls[i].Path == nil {
			o.Calls[i].Path = []string{}
		}
		if o.Calls[i].Par == nil {
			o.Calls[i].Par = []string{}
		}
	}
	if o.Node == nil {
		o.Node = []string{}
	}
	if o.Ret == nil {
		o.Ret = []wkm.Item{}
	}
}

func callBag(cs []wkm.WCall) string {
	xs := []string{}
	for _, c := range cs {
		xs = append(xs, canon(c))
	}
	sort.Strings(xs)
	return canon(xs)
}

// replayWalk: every observation of a query has to be one of the behaviours TLC wrote for it.
func replayWalk(args []string) {
	fs := flag.NewFlagSet("replay-walk", flag.ExitOnError)
	out := fs.String("out", "res_walk.ndjson", "mismatches")
	runs := fs.Int("runs", 6, "calls of FindOrWalk per query (the sibling order changes between calls)")
	fs.Parse(args)
	w := create(*out)
	defer w.close()
	rest := fs.Args()
	evals, mism, orders := 0, 0, 0
	for i := 0; i+1 < len(rest); i += 2 {
		shs := readShapes(rest[i])
		if len(shs) != 1 {
			die("%s: one schema expected", rest[i])
		}
		ms, err := dvm.Compile(shs[0])
		if err != nil {
			die("shape %d does not compile: %v\n%s", shs[0].ID, err, dvm.RenderYang(shs[0]))
		}
		eachLine(rest[i+1], func(b []byte) {
			var v walkVec
			if err := json.Unmarshal(b, &v); err != nil {
				die("%s: %v", rest[i+1], err)
			}
			if v.Q.Path == nil {
				v.Q.Path = []string{}
			}
			allowed := map[string]bool{}
			byCalls := map[string]bool{}
			byBag := map[string]bool{}
			for k := range v.Behs {
				normOutcome(&v.Behs[k])
				allowed[canon(v.Behs[k])] = true
				byCalls[canon(v.Behs[k].Calls)] = true
				byBag[callBag(v.Behs[k].Calls)] = true
			}
			distinct := map[string]bool{}
			for r := 0; r < *runs; r++ {
				o := wkm.RunWalk(ms, v.Q)
				evals++
				key := canon(o)
				distinct[key] = true
				if allowed[key] {
					continue
				}
				mism++
				why := "calls"
				if byCalls[canon(o.Calls)] {
					why = "result"
				} else if byBag[callBag(o.Calls)] {
					why = "order"
				}
				w.put(map[string]interface{}{"shape": shs[0].ID, "q": v.Q, "got": o, "why": why, "nbehs": len(v.Behs), "want1": v.Behs[0]})
			}
			orders += len(distinct)
		})
	}
	fmt.Println(canon(map[string]int{"evaluations": evals, "mismatches": mism, "distinct_observations": orders}))
}

// recordWalk: seeded queries on sampled schemas; one event per call of FindOrWalk.
func recordWalk(args []string) {
	fs := flag.NewFlagSet("record-walk", flag.ExitOnError)
	schemas := fs.String("schemas", "", "schema records (ndjson)")
	n := fs.Int("n", 20, "queries per schema")
	trace := fs.String("trace", "trace_walk.ndjson", "events")
	fs.Parse(args)
	w := create(*trace)
	defer w.close()
	rnd := rand.New(rand.NewSource(seed()))
	events, bad := 0, 0
	modes := []string{"walk", "walkfalse", "find", "find", "match", "match", "name", "name", "nil"}
	kinds := []string{"container", "list", "leaf", "leaflist", "modelset"}
	for _, sh := range readShapes(*schemas) {
		ms, err := dvm.Compile(sh)
		if err != nil {
			bad++
			continue
		}
		full := wkm.RunWalk(ms, wkm.Query{Mode: "walk", Path: []string{}})
		for k := 0; k < *n; k++ {
			q := wkm.Query{Mode: modes[rnd.Intn(len(modes))], Path: []string{}, Stype: kinds[rnd.Intn(len(kinds))]}
			if len(full.Calls) > 0 {
				c := full.Calls[rnd.Intn(len(full.Calls))]
				q.Path = append(append([]string{}, c.Path...), c.Name)
				if rnd.Intn(3) == 0 {
					q.Stype = c.Kind
				}
			}
			switch rnd.Intn(8) {
			case 0:
				q.Path = append(q.Path, "zz")
			case 1:
				if len(q.Path) > 0 {
					q.Path = q.Path[:len(q.Path)-1]
				}
			case 2:
				if len(q.Path) > 1 {
					q.Path = q.Path[1:]
				}
			}
			o := wkm.RunWalk(ms, q)
			w.put(map[string]interface{}{"sid": sh.ID, "q": q, "o": o})
			events++
		}
	}
	fmt.Println(canon(map[string]int{"events": events, "uncompilable": bad}))
}

// probeAlias: does the `path` slice an action function receives stay what it was once the walk goes on?
// (an action that keeps the slice without copying it shares its backing array with later calls)
func probeAlias(args []string) {
	for _, sh := range readShapes(args[0]) {
		ms, err := dvm.Compile(sh)
		if err != nil {
			die("%v", err)
		}
		type kept struct {
			name string
			path []string
			copy []string
		}
		var ks []kept
		ms.FindOrWalk(schema.NodeSpec{}, func(t schema.Node, p *schema.XNode, s schema.NodeSpec, path []string, param interface{}) (bool, bool, []interface{}) {
			ks = append(ks, kept{t.Name(), path, append([]string{}, path...)})
			return false, true, nil
		}, nil)
		changed := 0
		for _, k := range ks {
			if canon(k.path) != canon(k.copy) {
				changed++
				fmt.Printf("shape %d: path kept for %q was %v, is now %v\n", sh.ID, k.name, k.copy, k.path)
			}
		}
		fmt.Printf("shape %d: %d calls, %d kept paths changed afterwards\n", sh.ID, len(ks), changed)
	}
}
