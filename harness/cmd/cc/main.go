// cc: harness for the compile families (C11 CompilePipeline, C15 PrefixScope).
//
//	cc run -in cases.ndjson -out res.ndjson [-k K] [-workers N] [-timeout S] [-lean]
//	    every case {"id","mods":[{name,file,text}],"xp":bool} is compiled K times, each
//	    time in a CHILD process (stack cap, watchdog) with the parse trees supplied in a
//	    different order; one result line per case (-lean: without the schema dump and
//	    the phase events, for callers that only judge verdicts and compiled expressions).
//	cc child        (internal) one request per line on stdin, one answer per line on stdout
//	cc one file.json   compile the case in-process and print the result (replay aid)
package main

import (
	"bufio"
	"bytes"
	"crypto/sha256"
	"encoding/hex"
	"encoding/json"
	"flag"
	"fmt"
	"io"
	"math/rand"
	"os"
	"os/exec"
	"runtime/debug"
	"strconv"
	"strings"
	"sync"
	"time"

	"verif/harness/internal/ccm"
)

type Case struct {
	ID   int       `json:"id"`
	Mods []ccm.Mod `json:"mods"`
	Xp   bool      `json:"xp"`
	Off  []string  `json:"off"`
}

type Req struct {
	Case
	Order []int `json:"order"`
}

type Run struct {
	Order   []int       `json:"order"`
	Verdict string      `json:"verdict"` // ok | error | parse-error | crash | timeout
	Err     string      `json:"err"`
	Dump    string      `json:"dump"` // sha256 of the canonical dump
	Raw     string      `json:"raw"`  // sha256 of the order-preserving dump
	Events  []ccm.Event `json:"events"`
}

type Out struct {
	ID    int             `json:"id"`
	Runs  []Run           `json:"runs"`
	First json.RawMessage `json:"first"` // canonical dump of the first successful run
	Xps   []ccm.Xp        `json:"xps"`
}

func main() {
	if len(os.Args) < 2 {
		fmt.Fprintln(os.Stderr, "usage: cc run|child|one ...")
		os.Exit(2)
	}
	switch os.Args[1] {
	case "child":
		child()
	case "run":
		run(os.Args[2:])
	case "one":
		one(os.Args[2:])
	default:
		fmt.Fprintln(os.Stderr, "unknown command", os.Args[1])
		os.Exit(2)
	}
}

func hash(s string) string {
	if s == "" {
		return ""
	}
	h := sha256.Sum256([]byte(s))
	return hex.EncodeToString(h[:8])
}

// ---------------------------------------------------------------- child

type childAns struct {
	ccm.Result
}

func child() {
	debug.SetMaxStack(64 << 20)
	wd := 20 * time.Second
	if s := os.Getenv("CC_WATCHDOG_S"); s != "" {
		if n, err := strconv.Atoi(s); err == nil {
			wd = time.Duration(n) * time.Second
		}
	}
	in := bufio.NewReaderSize(os.Stdin, 1<<20)
	out := bufio.NewWriter(os.Stdout)
	for {
		line, err := in.ReadBytes('\n')
		if len(bytes.TrimSpace(line)) > 0 {
			var rq Req
			if e := json.Unmarshal(line, &rq); e != nil {
				fmt.Fprintln(os.Stderr, "cc child: bad request:", e)
				os.Exit(2)
			}
			t := time.AfterFunc(wd, func() {
				fmt.Fprintln(os.Stderr, "cc child: WATCHDOG: compile did not return")
				os.Exit(3)
			})
			res := ccm.Compile(rq.Mods, rq.Order, rq.Off, rq.Xp)
			t.Stop()
			b, _ := json.Marshal(res)
			out.Write(b)
			out.WriteByte('\n')
			out.Flush()
		}
		if err != nil {
			return
		}
	}
}

// ---------------------------------------------------------------- parent

type worker struct {
	cmd    *exec.Cmd
	stdin  io.WriteCloser
	stdout *bufio.Reader
	stderr *bytes.Buffer
}

func startWorker() *worker {
	w := &worker{stderr: &bytes.Buffer{}}
	w.cmd = exec.Command(os.Args[0], "child")
	w.cmd.Stderr = w.stderr
	var err error
	w.stdin, err = w.cmd.StdinPipe()
	if err != nil {
		panic(err)
	}
	so, err := w.cmd.StdoutPipe()
	if err != nil {
		panic(err)
	}
	w.stdout = bufio.NewReaderSize(so, 1<<20)
	if err := w.cmd.Start(); err != nil {
		panic(err)
	}
	return w
}

func (w *worker) kill() {
	w.stdin.Close()
	w.cmd.Process.Kill()
	w.cmd.Wait()
}

// ask sends one request; on a dead or silent child it reports crash/timeout with the
// head of the child's stderr and the caller restarts the child.
func (w *worker) ask(rq Req, timeout time.Duration) (ccm.Result, string, string) {
	b, _ := json.Marshal(rq)
	b = append(b, '\n')
	if _, err := w.stdin.Write(b); err != nil {
		w.cmd.Wait()
		return ccm.Result{}, "crash", headOf(w.stderr.String())
	}
	type ans struct {
		line []byte
		err  error
	}
	ch := make(chan ans, 1)
	go func() {
		l, e := w.stdout.ReadBytes('\n')
		ch <- ans{l, e}
	}()
	select {
	case a := <-ch:
		if a.err != nil || len(a.line) == 0 {
			w.cmd.Wait()
			msg := headOf(w.stderr.String())
			if strings.Contains(msg, "WATCHDOG") {
				return ccm.Result{}, "timeout", msg
			}
			return ccm.Result{}, "crash", msg
		}
		var r ccm.Result
		if e := json.Unmarshal(a.line, &r); e != nil {
			return ccm.Result{}, "crash", "bad answer: " + e.Error()
		}
		return r, "", ""
	case <-time.After(timeout):
		w.cmd.Process.Kill()
		w.cmd.Wait()
		return ccm.Result{}, "timeout", "no answer within " + timeout.String()
	}
}

func headOf(s string) string {
	// first line that tells what happened plus the first frames
	lines := strings.Split(s, "\n")
	keep := []string{}
	for _, l := range lines {
		if strings.HasPrefix(l, "fatal error:") || strings.HasPrefix(l, "panic:") || strings.Contains(l, "WATCHDOG") ||
			strings.HasPrefix(l, "runtime: goroutine stack exceeds") || strings.Contains(l, "[recovered]") {
			keep = append(keep, l)
		}
	}
	// top-most frames of the compile package
	n := 0
	for _, l := range lines {
		if strings.HasPrefix(l, "github.com/sdcio/yang-parser/") && n < 4 {
			keep = append(keep, strings.SplitN(l, "(", 2)[0])
			n++
		}
	}
	if len(keep) == 0 && len(s) > 600 {
		return s[:600]
	}
	if len(keep) == 0 {
		return s
	}
	return strings.Join(keep, " | ")
}

func perms(n int) [][]int {
	var out [][]int
	a := make([]int, n)
	for i := range a {
		a[i] = i
	}
	var rec func(k int)
	rec = func(k int) {
		if k == n {
			out = append(out, append([]int{}, a...))
			return
		}
		for i := k; i < n; i++ {
			a[k], a[i] = a[i], a[k]
			rec(k + 1)
			a[k], a[i] = a[i], a[k]
		}
	}
	rec(0)
	return out
}

// orders: K orders for n texts: all permutations (in a seeded shuffle) repeated as needed.
func orders(n, k int, rng *rand.Rand) [][]int {
	var ps [][]int
	if n <= 5 {
		ps = perms(n)
		rest := ps[1:]
		rng.Shuffle(len(rest), func(i, j int) { rest[i], rest[j] = rest[j], rest[i] })
	} else {
		id := make([]int, n)
		for i := range id {
			id[i] = i
		}
		ps = append(ps, id)
		for i := 1; i < k; i++ {
			p := append([]int{}, id...)
			rng.Shuffle(n, func(a, b int) { p[a], p[b] = p[b], p[a] })
			ps = append(ps, p)
		}
	}
	out := [][]int{}
	for i := 0; i < k; i++ {
		out = append(out, ps[i%len(ps)])
	}
	return out
}

func run(args []string) {
	fs := flag.NewFlagSet("run", flag.ExitOnError)
	inP := fs.String("in", "", "cases (ndjson)")
	outP := fs.String("out", "", "results (ndjson)")
	k := fs.Int("k", 4, "compilations per case")
	nw := fs.Int("workers", 12, "parallel child processes")
	to := fs.Int("timeout", 30, "seconds per compilation")
	lean := fs.Bool("lean", false, "omit the schema dump and the phase events from the results")
	fs.Parse(args)
	seed, _ := strconv.ParseInt(os.Getenv("VERIF_SEED"), 10, 64)

	f, err := os.Open(*inP)
	if err != nil {
		fmt.Fprintln(os.Stderr, err)
		os.Exit(2)
	}
	defer f.Close()
	var cases []Case
	rd := bufio.NewReaderSize(f, 1<<20)
	for {
		line, err := rd.ReadBytes('\n')
		if len(bytes.TrimSpace(line)) > 0 {
			var c Case
			if e := json.Unmarshal(line, &c); e != nil {
				fmt.Fprintln(os.Stderr, "bad case:", e)
				os.Exit(2)
			}
			cases = append(cases, c)
		}
		if err != nil {
			break
		}
	}
	// Results are written in case order as soon as every earlier case is done and then dropped (a reorder window),
	// so that the memory needed does not grow with the number of cases (each result holds K event lists and a dump).
	of, err := os.Create(*outP)
	if err != nil {
		fmt.Fprintln(os.Stderr, err)
		os.Exit(2)
	}
	bw := bufio.NewWriterSize(of, 1<<20)
	outs := make([]*Out, len(cases))
	var outMu sync.Mutex
	next := 0
	deliver := func(ci int, o *Out) {
		outMu.Lock()
		defer outMu.Unlock()
		outs[ci] = o
		for next < len(outs) && outs[next] != nil {
			b, _ := json.Marshal(outs[next])
			bw.Write(b)
			bw.WriteByte('\n')
			outs[next] = nil
			next++
		}
	}
	jobs := make(chan int)
	var wg sync.WaitGroup
	for wi := 0; wi < *nw; wi++ {
		wg.Add(1)
		go func() {
			defer wg.Done()
			w := startWorker()
			defer func() { w.kill() }()
			for ci := range jobs {
				c := cases[ci]
				rng := rand.New(rand.NewSource(seed*1000003 + int64(c.ID)))
				o := Out{ID: c.ID, Runs: []Run{}, Xps: []ccm.Xp{}}
				for _, ord := range orders(len(c.Mods), *k, rng) {
					res, bad, msg := w.ask(Req{c, ord}, time.Duration(*to)*time.Second)
					if bad != "" {
						o.Runs = append(o.Runs, Run{Order: ord, Verdict: bad, Err: msg, Events: []ccm.Event{}})
						w.kill()
						w = startWorker()
						continue
					}
					if *lean {
						res.Events = []ccm.Event{}
					}
					o.Runs = append(o.Runs, Run{Order: ord, Verdict: res.Verdict, Err: res.Err, Dump: hash(res.Dump),
						Raw: hash(res.Raw), Events: res.Events})
					if res.Verdict == "ok" && o.First == nil {
						o.First = json.RawMessage(res.Dump)
						if *lean {
							o.First = json.RawMessage("{}")
						}
						o.Xps = res.Xps
					}
				}
				if o.First == nil {
					o.First = json.RawMessage("{}")
				}
				deliver(ci, &o)
			}
		}()
	}
	for i := range cases {
		jobs <- i
	}
	close(jobs)
	wg.Wait()
	if next != len(outs) {
		fmt.Fprintf(os.Stderr, "cc run: %d of %d results written\n", next, len(outs))
		os.Exit(2)
	}
	bw.Flush()
	of.Close()
}

func one(args []string) {
	b, err := os.ReadFile(args[0])
	if err != nil {
		fmt.Fprintln(os.Stderr, err)
		os.Exit(2)
	}
	var c Case
	if e := json.Unmarshal(b, &c); e != nil {
		fmt.Fprintln(os.Stderr, e)
		os.Exit(2)
	}
	ord := make([]int, len(c.Mods))
	for i := range ord {
		ord[i] = i
	}
	res := ccm.Compile(c.Mods, ord, c.Off, true)
	out, _ := json.MarshalIndent(res, "", " ")
	fmt.Println(string(out))
}
