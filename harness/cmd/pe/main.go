// pe: conformance harness of the extension module X-patheval (path_eval grammar and machine, its use by
// compile.go, the xutils path / warning / node-reference helpers).
//
//	pe replay -out res.ndjson pvec_*.ndjson    vectors of PathEvalGen.tla on the real grammar, machine and compiler
//	pe utils  -out res.ndjson uvec_*.ndjson    vectors of PathEvalUtilGen.tla on the real xutils helpers
//	pe probe EXPR...                           try expressions by hand
//	pe probe-yang FILE                         compile one module with warnings on
package main

import (
	"bufio"
	"context"
	"encoding/json"
	"encoding/xml"
	"flag"
	"fmt"
	"os"
	"reflect"
	"strings"

	"github.com/sdcio/yang-parser/compile"
	"github.com/sdcio/yang-parser/parse"
	"github.com/sdcio/yang-parser/schema"
	"github.com/sdcio/yang-parser/xpath"
	"github.com/sdcio/yang-parser/xpath/grammars/path_eval"
	"github.com/sdcio/yang-parser/xpath/xutils"

	"verif/harness/internal/pem"
	"verif/harness/internal/xpm"
)

func mapFn(prefix string) (string, error) {
	switch prefix {
	case "":
		return "urn:self", nil
	case "p":
		return "urn:p", nil
	case "q":
		return "urn:q", nil
	}
	return "", fmt.Errorf("unknown prefix %q", prefix)
}

func die(f string, a ...interface{}) {
	fmt.Fprintf(os.Stderr, "pe: "+f+"\n", a...)
	os.Exit(2)
}

func main() {
	if len(os.Args) < 2 {
		die("usage: pe replay|utils|probe|probe-yang ...")
	}
	switch os.Args[1] {
	case "replay":
		replay(os.Args[2:])
	case "utils":
		utils(os.Args[2:])
	case "probe":
		probe(os.Args[2:])
	case "probe-yang":
		probeYang(os.Args[2:])
	default:
		die("unknown command %s", os.Args[1])
	}
}

// ------------------------------------------------------------------ interchange

type Obs struct {
	Err     string `json:"err"`
	HasRes  bool   `json:"hasRes"`
	Res     bool   `json:"res"`
	NTested int    `json:"ntested"`
}

type PPath struct {
	Root  bool     `json:"root"`
	Names []string `json:"names"`
}

type PState struct {
	Ps     []PPath `json:"ps"`
	NilPs  bool    `json:"nilps"`
	Nds    int     `json:"nds"`
	Err    string  `json:"err"`
	HasRes bool    `json:"hasRes"`
	Res    bool    `json:"res"`
}

type UseOut struct {
	Error           bool `json:"error"`
	CompilerError   int  `json:"compilerError"`
	ConfigdError    int  `json:"configdError"`
	BadFields       int  `json:"badFields"`
	InvalidPath     int  `json:"invalidPath"`
	OnNPCont        int  `json:"onNPCont"`
	OnNPContNPChild int  `json:"onNPContNPChild"`
}

// UV of PathEvalGen.tla: <<error, compilerError, configdError, badFields, invalidPath, onNPCont, onNPContNPChild>>
type UV [7]int

func (u UV) Out() UseOut {
	return UseOut{Error: u[0] == 1, CompilerError: u[1], ConfigdError: u[2], BadFields: u[3], InvalidPath: u[4], OnNPCont: u[5], OnNPContNPChild: u[6]}
}

type Use struct {
	H    string `json:"h"`
	Stmt string `json:"stmt"`
	I    UV     `json:"i"` // the meaning
	F    UV     `json:"f"` // the fork: F2 and F3
	G    UV     `json:"g"` // F3 alone
}

type Vector struct {
	Fam      int       `json:"fam"`
	Expr     string    `json:"expr"`
	Variants []string  `json:"variants"`
	Prog     []pem.Ins `json:"prog"`
	ProgFork []pem.Ins `json:"progFork"`
	Rejects  bool      `json:"rejects"`
	HasPreds bool      `json:"hasPreds"`
	BehCur   []PState  `json:"behCur"`  // fork machine on PathEvalCompileFork, context of NewCtxFromCurrent
	BehCurI  []PState  `json:"behCurI"` // fork machine on PathEvalCompile (the listing without the leak)
	ForkMach Obs       `json:"forkMach"`
	MeanB    Obs       `json:"meanB"`
	MeanC    Obs       `json:"meanC"`
	Use      []Use     `json:"use"`
}

type Mism struct {
	Site string      `json:"site"` // compile | listing | variant | run-cur | run-schema | use
	Kind string      `json:"kind"`
	As   string      `json:"as"` // "" or the finding of PathEval.tla's header the code's behaviour equals: F1 F2 F3
	Want interface{} `json:"want"`
	Got  interface{} `json:"got"`
}

type Outcome struct {
	ID       int    `json:"id"`
	Fam      int    `json:"fam"`
	Expr     string `json:"expr"`
	BlackBox bool   `json:"blackbox"`
	Runs     int    `json:"runs"`
	Mism     []Mism `json:"mism"`
}

// ------------------------------------------------------------------ machine

func build(text string) (m *xpath.Machine, err error, pan interface{}) {
	defer func() {
		if r := recover(); r != nil {
			pan = r
		}
	}()
	m, err = path_eval.NewPathEvalMachine(text, mapFn, "verif:1")
	return
}

var curSink func(xpath.VerifEvent)

func init() {
	xpath.VerifSetTracer(func(e xpath.VerifEvent) {
		if curSink != nil {
			curSink(e)
		}
	})
}

func stateOf(e xpath.VerifEvent) PState {
	s := PState{Ps: []PPath{}, NilPs: e.NilPaths, Nds: len(e.Stack), HasRes: e.HasValue}
	for _, p := range e.Paths {
		pp := PPath{Root: p.Root, Names: []string{}}
		for _, el := range p.Elems {
			pp.Names = append(pp.Names, el.Name)
		}
		s.Ps = append(s.Ps, pp)
	}
	if e.Err == "" {
		s.Err = "none"
	} else {
		s.Err = pem.ErrClass(fmt.Errorf("%s", e.Err))
	}
	if e.HasValue && e.Value.Kind == "b" {
		s.Res = e.Value.B
	}
	return s
}

// run on a context of NewCtxFromCurrent (mock data tree) and record the state after every instruction that
// completed and at the end of the run
func runCur(m *xpath.Machine) (steps []PState, end PState, pan interface{}) {
	defer func() {
		curSink = nil
		if r := recover(); r != nil {
			pan = r
		}
	}()
	curSink = func(e xpath.VerifEvent) {
		switch e.Ev {
		case "step":
			steps = append(steps, stateOf(e))
		case "end":
			end = stateOf(e)
		}
	}
	res := xpath.NewCtxFromCurrent(context.Background(), m, &xpm.Entry{T: &xpm.Tree{}}).Run()
	// the public accessors must tell the same story as the hooks
	b, berr := res.GetBoolResult()
	if (res.GetError() == nil) != (end.Err == "none") || (berr == nil) != end.HasRes || (berr == nil && b != end.Res) {
		end.Err = fmt.Sprintf("accessors disagree with the final state: err=%v bool=%v berr=%v", res.GetError(), b, berr)
	}
	return
}

func samePS(a, b []PPath) bool {
	if len(a) != len(b) {
		return false
	}
	for i := range a {
		if a[i].Root != b[i].Root || len(a[i].Names) != len(b[i].Names) {
			return false
		}
		for j := range a[i].Names {
			if a[i].Names[j] != b[i].Names[j] {
				return false
			}
		}
	}
	return true
}

func sameState(a, b PState) bool {
	return samePS(a.Ps, b.Ps) && a.NilPs == b.NilPs && a.Nds == b.Nds && a.Err == b.Err && a.HasRes == b.HasRes && a.Res == b.Res
}

// compare the recorded run with a behaviour of the model: the states after the instructions that completed,
// then the final state (an instruction that fails leaves no step event: its state is the final one)
func sameBehaviour(steps []PState, end PState, beh []PState) string {
	if len(beh) == 0 {
		return "the model has no step"
	}
	want := beh
	last := beh[len(beh)-1]
	if last.Err != "none" {
		want = beh[:len(beh)-1]
	}
	if len(steps) != len(want) {
		return fmt.Sprintf("%d instructions completed, the model completes %d", len(steps), len(want))
	}
	for i := range want {
		if !sameState(steps[i], want[i]) {
			return fmt.Sprintf("state after instruction %d differs", i+1)
		}
	}
	if !sameState(end, last) {
		return "final state differs"
	}
	return ""
}

// ------------------------------------------------------------------ schema tree for the intended runs

type schemaCtx struct {
	b, c *schema.XNode
}

func compileMods(main string, warn bool) (schema.ModelSet, []xutils.Warning, error, interface{}) {
	var ms schema.ModelSet
	var ws []xutils.Warning
	var err error
	var pan interface{}
	func() {
		defer func() {
			if r := recover(); r != nil {
				pan = r
			}
		}()
		trees := map[string]*parse.Tree{}
		for name, text := range map[string]string{"m": main, "mp": pem.ModP, "mq": pem.ModQ} {
			t, e := parse.Parse(name+".yang", text, nil)
			if e != nil {
				err = fmt.Errorf("parse %s: %v", name, e)
				return
			}
			trees[name] = t
		}
		if warn {
			ms, ws, err = compile.CompileModulesWithWarnings(nil, trees, "", false, nil)
		} else {
			ms, err = compile.CompileModules(nil, trees, "", false, nil)
		}
	}()
	return ms, ws, err, pan
}

func child(x *schema.XNode, name string) *schema.XNode {
	for _, c := range x.Children() {
		if c.Name() == name {
			return schema.NewXNode(c, x)
		}
	}
	return nil
}

func schemaNodes() (*schemaCtx, error) {
	ms, _, err, pan := compileMods(pem.HolderModule("pres", "", ""), false)
	if err != nil || pan != nil {
		return nil, fmt.Errorf("plain schema tree does not compile: %v %v", err, pan)
	}
	root := schema.NewXNode(ms, nil)
	a := child(root, "a")
	if a == nil {
		return nil, fmt.Errorf("no node a")
	}
	b := child(a, "b")
	if b == nil {
		return nil, fmt.Errorf("no node a/b")
	}
	c := child(b, "c")
	if c == nil {
		return nil, fmt.Errorf("no node a/b/c")
	}
	return &schemaCtx{b: b, c: c}, nil
}

func runSchema(m *xpath.Machine, node *schema.XNode) (o Obs, pan interface{}) {
	defer func() {
		if r := recover(); r != nil {
			pan = r
		}
	}()
	res := xpath.NewCtxFromMach(m, node).Run()
	o.Err = pem.ErrClass(res.GetError())
	b, berr := res.GetBoolResult()
	o.HasRes = berr == nil
	o.Res = o.HasRes && b
	for _, w := range res.GetWarnings() {
		if w.GetType() == xutils.DoesntExist || w.GetType() == xutils.MissingOrWrongPrefix {
			o.NTested++
		}
	}
	for _, w := range res.GetNonWarnings() {
		if w.GetType() == xutils.ValidPath {
			o.NTested++
		}
	}
	return
}

func useOf(holder, stmt, expr string) (UseOut, string) {
	var u UseOut
	mod := pem.HolderModule(holder, stmt, expr)
	_, ws, err, pan := compileMods(mod, true)
	node := "b"
	if holder == "leaf" {
		node = "c"
	}
	line := 1 + strings.Count(mod[:strings.Index(mod, stmt+" \"")], "\n")
	want := xutils.NewWarning(xutils.CompilerError, node, expr, fmt.Sprintf("m.yang:%d", line), "(n/a)", "")
	if pan != nil {
		return u, fmt.Sprint("panic: ", pan)
	}
	if err != nil {
		u.Error = true
		return u, err.Error()
	}
	for _, w := range ws {
		switch w.GetType() {
		case xutils.CompilerError:
			u.CompilerError++
			if w.Match(want) != nil {
				u.BadFields++
			}
		case xutils.ConfigdMustCompilerError:
			u.ConfigdError++
		case xutils.DoesntExist, xutils.MissingOrWrongPrefix:
			u.InvalidPath++
		case xutils.MustOnNPContainer:
			u.OnNPCont++
		case xutils.MustOnNPContWithNPChild:
			u.OnNPContNPChild++
		}
	}
	return u, ""
}

// ------------------------------------------------------------------ replay

func replay(args []string) {
	fs := flag.NewFlagSet("replay", flag.ExitOnError)
	out := fs.String("out", "pres.ndjson", "per-vector outcomes (vectors with mismatches only)")
	useEvery := fs.Int("use-every", 1, "compile.go stage on every n-th vector")
	fs.Parse(args)
	of, err := os.Create(*out)
	if err != nil {
		die("%v", err)
	}
	defer of.Close()
	ow := bufio.NewWriter(of)
	defer ow.Flush()
	oenc := json.NewEncoder(ow)
	sc, err := schemaNodes()
	if err != nil {
		die("%v", err)
	}
	holders := []string{"leaf", "np", "pres", "npdef", "npchild"}
	id, nblack, nruns, nuse, nuseSkipped, nlisting := 0, 0, 0, 0, 0, 0
	for _, file := range fs.Args() {
		f, err := os.Open(file)
		if err != nil {
			die("%v", err)
		}
		scn := bufio.NewScanner(f)
		scn.Buffer(make([]byte, 1<<24), 1<<24)
		for scn.Scan() {
			var v Vector
			if err := json.Unmarshal(scn.Bytes(), &v); err != nil {
				die("bad vector in %s: %v", file, err)
			}
			id++
			o := Outcome{ID: id, Fam: v.Fam, Expr: v.Expr, Mism: []Mism{}}
			add := func(site, kind, as string, want, got interface{}) {
				o.Mism = append(o.Mism, Mism{site, kind, as, want, got})
			}
			text := xpm.ToReal(v.Expr)
			m, cerr, pan := build(text)
			switch {
			case pan != nil:
				add("compile", "panic", "", "a machine", fmt.Sprint(pan))
			case cerr != nil || m == nil:
				as := ""
				if v.Rejects {
					as = "F2"
				}
				add("compile", "rejected", as, "a machine", fmt.Sprint(cerr))
			}
			if m != nil && pan == nil && cerr == nil {
				listing := m.PrintMachine()
				prog, known := pem.ParseListing(listing)
				leak := false
				if !known {
					nblack++
					o.BlackBox = true
				} else {
					nlisting++
					switch {
					case pem.SameProg(prog, v.Prog):
					case pem.SameProg(prog, v.ProgFork):
						leak = true
						add("listing", "program", "F1", v.Prog, prog)
					default:
						add("listing", "program", "", v.Prog, prog)
					}
				}
				// the constructor that admits custom functions builds the same program (no custom function is in play)
				func() {
					defer func() {
						if r := recover(); r != nil {
							add("variant", "panic", "", "a machine", fmt.Sprint(r))
						}
					}()
					mc, ec := path_eval.NewPathEvalMachineWithCustomFns(text, mapFn, "verif:1", nil)
					if ec != nil || mc == nil {
						add("variant", "rejected", "", "NewPathEvalMachineWithCustomFns", fmt.Sprint(ec))
					} else if mc.PrintMachine() != listing || mc.GetExpr() != text || mc.GetLocation() != "verif:1" {
						add("variant", "program", "", "NewPathEvalMachineWithCustomFns", mc.PrintMachine())
					}
				}()
				for vi, vt := range v.Variants {
					m2, e2, p2 := build(xpm.ToReal(vt))
					if p2 != nil || e2 != nil || m2 == nil {
						add("variant", "rejected", "", vt, fmt.Sprint(e2, p2))
					} else if m2.PrintMachine() != listing {
						add("variant", "program", "", vt, vi)
					}
				}
				// mechanism of the fork's machine on a NewCtxFromCurrent context, instruction by instruction
				steps, end, rp := runCur(m)
				nruns++
				if rp != nil {
					add("run-cur", "panic", "", "none", fmt.Sprint(rp))
				} else {
					d1 := sameBehaviour(steps, end, v.BehCur)
					d2 := sameBehaviour(steps, end, v.BehCurI)
					switch {
					case known && leak && d1 != "":
						add("run-cur", "behaviour", "", v.BehCur, map[string]interface{}{"why": d1, "steps": steps, "end": end})
					case known && !leak && d2 != "":
						add("run-cur", "behaviour", "", v.BehCurI, map[string]interface{}{"why": d2, "steps": steps, "end": end})
					case !known && d1 != "" && d2 != "":
						add("run-cur", "behaviour", "", v.BehCur, map[string]interface{}{"why": d1, "steps": steps, "end": end})
					}
				}
				// the meaning: the machine validates the paths against the schema tree from the context node
				for _, c := range []struct {
					name string
					node *schema.XNode
					want Obs
				}{{"a/b", sc.b, v.MeanB}, {"a/b/c", sc.c, v.MeanC}} {
					got, sp := runSchema(m, c.node)
					nruns++
					if sp != nil {
						add("run-schema", "panic", "", c.want, fmt.Sprint(sp))
					} else if got != c.want {
						as := ""
						if got == v.ForkMach {
							as = "F3"
						}
						add("run-schema", "outcome@"+c.name, as, c.want, got)
					}
				}
			}
			// what compile.go makes of it
			if id%*useEvery == 0 {
				if !pem.SafeForYang(text) {
					nuseSkipped++
				} else {
					h := holders[(id / *useEvery)%len(holders)]
					for _, u := range v.Use {
						if u.H != h {
							continue
						}
						got, detail := useOf(h, u.Stmt, text)
						nuse++
						intent, fork, f3 := u.I.Out(), u.F.Out(), u.G.Out()
						if strings.HasPrefix(detail, "panic") {
							add("use", "panic", "", intent, detail)
						} else if got != intent {
							as := ""
							if got == fork {
								as = "F3"
								if fork.Error || fork.CompilerError > 0 {
									as = "F2"
								}
							} else if got == f3 {
								as = "F3"
							}
							add("use", u.Stmt+"@"+h, as, intent, map[string]interface{}{"out": got, "detail": detail})
						}
					}
				}
			}
			o.Runs = nruns
			if len(o.Mism) > 0 {
				oenc.Encode(o)
			}
		}
		f.Close()
	}
	st := map[string]int{"vectors": id, "listings_compared": nlisting, "listings_outside_vocabulary": nblack, "runs": nruns,
		"compilations_with_warnings": nuse, "use_skipped_unsafe_text": nuseSkipped}
	b, _ := json.Marshal(st)
	fmt.Println(string(b))
}

// ------------------------------------------------------------------ utils

type UVec struct {
	Kind string `json:"kind"`
	// abs
	Expr    string          `json:"expr"`
	Cur     []string        `json:"cur"`
	Wf      bool            `json:"wf"`
	NPreds  int             `json:"npreds"`
	Mech    []string        `json:"mech"`
	Fixed   []string        `json:"fixed"`
	Intent  json.RawMessage `json:"intent"`
	Npt     []string        `json:"npt"`
	Str     string          `json:"str"`
	Spaced  string          `json:"spaced"`
	Uniq    string          `json:"uniq"`
	UniqRaw string          `json:"uniqRaw"`
	// filter
	F struct {
		Space, Local, On string
	} `json:"f"`
	T struct {
		Space, Local, Tt string
	} `json:"t"`
	Want json.RawMessage `json:"want"`
	FCfg bool            `json:"fcfg"`
	TCfg bool            `json:"tcfg"`
	TOpd bool            `json:"topd"`
	// warn
	W     *WRec  `json:"w"`
	E     *WRec  `json:"e"`
	Exact string `json:"exact"`
	Loose string `json:"loose"`
	Types []int  `json:"types"`
}

type RVec struct {
	Tree     []pem.TNode `json:"tree"`
	Start    int         `json:"start"`
	Ref      []RefElem   `json:"ref"`
	RefStr   string      `json:"refstr"`
	Intent   int         `json:"intent"`
	Mech     int         `json:"mech"`
	StartRef string      `json:"startRef"`
	Eq       bool        `json:"eq"`
}

type WRec struct {
	Typ  int    `json:"typ"`
	Node string `json:"node"`
	Stmt string `json:"stmt"`
	Loc  string `json:"loc"`
	Test string `json:"test"`
	Dbg  string `json:"dbg"`
}

type RefElem struct {
	Name string      `json:"name"`
	Keys [][2]string `json:"keys"`
}

type UMism struct {
	Kind string      `json:"kind"`
	Op   string      `json:"op"`
	As   string      `json:"as"` // "" | U1 | U3 : the code's result equals the named oddity of PathEvalUtil.tla
	In   interface{} `json:"in"`
	Want interface{} `json:"want"`
	Got  interface{} `json:"got"`
}

func strs(p []string) []string {
	if p == nil {
		return []string{}
	}
	return p
}

func sameStrs(a, b []string) bool {
	if len(a) != len(b) {
		return false
	}
	for i := range a {
		if a[i] != b[i] {
			return false
		}
	}
	return true
}

func xmlName(space, local string) xml.Name { return xml.Name{Space: space, Local: local} }

func wOf(r *WRec) xutils.Warning {
	return xutils.NewWarning(xutils.WarnType(r.Typ), r.Node, r.Stmt, r.Loc, r.Test, r.Dbg)
}

func errText(e error) string {
	if e == nil {
		return ""
	}
	return e.Error()
}

func utils(args []string) {
	fs := flag.NewFlagSet("utils", flag.ExitOnError)
	out := fs.String("out", "ures.ndjson", "mismatches")
	fs.Parse(args)
	of, err := os.Create(*out)
	if err != nil {
		die("%v", err)
	}
	defer of.Close()
	ow := bufio.NewWriter(of)
	defer ow.Flush()
	oenc := json.NewEncoder(ow)
	counts := map[string]int{}
	nmis := 0
	report := func(m UMism) {
		nmis++
		oenc.Encode(m)
	}
	guard := func(kind, op string, in interface{}, f func()) {
		defer func() {
			if r := recover(); r != nil {
				report(UMism{Kind: kind, Op: op, In: in, Want: "no panic", Got: fmt.Sprint(r)})
			}
		}()
		f()
	}
	for _, file := range fs.Args() {
		f, err := os.Open(file)
		if err != nil {
			die("%v", err)
		}
		scn := bufio.NewScanner(f)
		scn.Buffer(make([]byte, 1<<24), 1<<24)
		for scn.Scan() {
			// the generic form first: TLC writes an empty sequence and an empty function both as []
			var raw map[string]json.RawMessage
			if err := json.Unmarshal(scn.Bytes(), &raw); err != nil {
				die("bad vector in %s: %v", file, err)
			}
			var kind string
			json.Unmarshal(raw["kind"], &kind)
			counts[kind]++
			switch kind {
			case "abs":
				var v UVec
				if err := json.Unmarshal(scn.Bytes(), &v); err != nil {
					die("bad abs vector: %v", err)
				}
				var intent []string
				json.Unmarshal(v.Intent, &intent)
				in := map[string]interface{}{"expr": v.Expr, "cur": v.Cur}
				guard("abs", "GetAbsPath", in, func() {
					cur := xutils.PathType(append([]string{}, v.Cur...))
					got := strs(xutils.GetAbsPath(v.Expr, cur))
					if v.Wf {
						counts["abs-judged-by-meaning"]++
						if !sameStrs(got, intent) {
							as := ""
							if sameStrs(got, v.Mech) && v.NPreds >= 2 {
								as = "U1"
							}
							report(UMism{Kind: "abs", Op: "GetAbsPath", As: as, In: in, Want: intent, Got: got})
						}
					} else if !sameStrs(got, v.Mech) && !sameStrs(got, v.Fixed) {
						report(UMism{Kind: "abs", Op: "GetAbsPath/mechanism", In: in, Want: v.Mech, Got: got})
					}
				})
				guard("abs", "PathType", v.Expr, func() {
					pt := xutils.NewPathType(v.Expr)
					if !sameStrs(strs(pt), v.Npt) {
						report(UMism{Kind: "abs", Op: "NewPathType", In: v.Expr, Want: v.Npt, Got: strs(pt)})
						return
					}
					if s := pt.String(); s != v.Str {
						report(UMism{Kind: "abs", Op: "String", In: v.Npt, Want: v.Str, Got: s})
					}
					if s := pt.SpacedString(); s != v.Spaced {
						report(UMism{Kind: "abs", Op: "SpacedString", In: v.Npt, Want: v.Spaced, Got: s})
					}
					// EqualTo: reflexive on a copy, false against the path extended, shortened or changed in one element
					cp := xutils.PathType(append([]string{}, pt...))
					if !pt.EqualTo(cp) || !cp.EqualTo(pt) {
						report(UMism{Kind: "abs", Op: "EqualTo", In: v.Npt, Want: true, Got: false})
					}
					ext := append(xutils.PathType(append([]string{}, pt...)), "x")
					if pt.EqualTo(ext) || ext.EqualTo(pt) {
						report(UMism{Kind: "abs", Op: "EqualTo/longer", In: v.Npt, Want: false, Got: true})
					}
					if len(pt) > 0 {
						ch := xutils.PathType(append([]string{}, pt...))
						ch[len(ch)-1] += "x"
						if pt.EqualTo(ch) {
							report(UMism{Kind: "abs", Op: "EqualTo/changed", In: v.Npt, Want: false, Got: true})
						}
					}
				})
				guard("abs", "GetUniqueString", v.Expr, func() {
					w := xutils.NewWarning(xutils.DoesntExist, "n", "s", "m.yang:7", v.Expr, "")
					if s := w.GetUniqueString(xutils.StripPrefix); s != v.Uniq {
						report(UMism{Kind: "abs", Op: "GetUniqueString/strip", In: v.Expr, Want: v.Uniq, Got: s})
					}
					if s := w.GetUniqueString(xutils.DontStripPrefix); s != v.UniqRaw {
						report(UMism{Kind: "abs", Op: "GetUniqueString", In: v.Expr, Want: v.UniqRaw, Got: s})
					}
				})
			case "filter":
				var v UVec
				json.Unmarshal(scn.Bytes(), &v)
				var want bool
				json.Unmarshal(v.Want, &want)
				guard("filter", "MatchFilter", scn.Text(), func() {
					on := map[string]xutils.MatchType{"full": xutils.FullTree, "config": xutils.ConfigOnly, "opd": xutils.OpdOnly}[v.F.On]
					tt := map[string]xutils.TargetType{"none": xutils.NotConfigOrOpdTarget, "config": xutils.ConfigTarget, "opd": xutils.OpdTarget}[v.T.Tt]
					flt := xutils.NewXFilter(xmlName(v.F.Space, v.F.Local), on)
					tgt := xutils.NewXTarget(xmlName(v.T.Space, v.T.Local), tt)
					if got := xutils.MatchFilter(flt, tgt); got != want {
						report(UMism{Kind: "filter", Op: "MatchFilter", In: map[string]interface{}{"f": v.F, "t": v.T}, Want: want, Got: got})
					}
					if flt.Name() != xmlName(v.F.Space, v.F.Local) || flt.MatchConfigOnly() != v.FCfg || tgt.Name() != xmlName(v.T.Space, v.T.Local) ||
						tgt.IsConfig() != v.TCfg || tgt.IsOpd() != v.TOpd {
						report(UMism{Kind: "filter", Op: "XFilter/XTarget accessors", In: map[string]interface{}{"f": v.F, "t": v.T},
							Want: []bool{v.FCfg, v.TCfg, v.TOpd}, Got: []bool{flt.MatchConfigOnly(), tgt.IsConfig(), tgt.IsOpd()}})
					}
					// the constructors agree with the general one
					if v.F.On == "full" && xutils.MatchFilter(xutils.NewXFilterFullTree(xmlName(v.F.Space, v.F.Local)), tgt) != want {
						report(UMism{Kind: "filter", Op: "NewXFilterFullTree", In: map[string]interface{}{"f": v.F, "t": v.T}, Want: want, Got: !want})
					}
					if v.F.On == "config" && xutils.MatchFilter(xutils.NewXFilterConfigOnly(xmlName(v.F.Space, v.F.Local)), tgt) != want {
						report(UMism{Kind: "filter", Op: "NewXFilterConfigOnly", In: map[string]interface{}{"f": v.F, "t": v.T}, Want: want, Got: !want})
					}
					if v.T.Tt == "config" && xutils.MatchFilter(flt, xutils.NewXConfigTarget(xmlName(v.T.Space, v.T.Local))) != want {
						report(UMism{Kind: "filter", Op: "NewXConfigTarget", In: map[string]interface{}{"f": v.F, "t": v.T}, Want: want, Got: !want})
					}
					if v.T.Tt == "none" && xutils.MatchFilter(flt, xutils.NewXNonConfigOrOpdTarget(xmlName(v.T.Space, v.T.Local))) != want {
						report(UMism{Kind: "filter", Op: "NewXNonConfigOrOpdTarget", In: map[string]interface{}{"f": v.F, "t": v.T}, Want: want, Got: !want})
					}
				})
			case "warn":
				var v UVec
				json.Unmarshal(scn.Bytes(), &v)
				guard("warn", "Match", scn.Text(), func() {
					w, e := wOf(v.W), wOf(v.E)
					if got := errText(w.Match(e)); got != v.Exact {
						report(UMism{Kind: "warn", Op: "Match", In: map[string]interface{}{"w": v.W, "e": v.E}, Want: v.Exact, Got: got})
					}
					if got := errText(w.MatchDebugContains(e)); got != v.Loose {
						report(UMism{Kind: "warn", Op: "MatchDebugContains", In: map[string]interface{}{"w": v.W, "e": v.E}, Want: v.Loose, Got: got})
					}
				})
			case "np":
				var v UVec
				json.Unmarshal(scn.Bytes(), &v)
				var want []int
				json.Unmarshal(v.Want, &want)
				guard("warn", "RemoveNPContainerWarnings", v.Types, func() {
					var ws []xutils.Warning
					for i, t := range v.Types {
						ws = append(ws, xutils.NewWarning(xutils.WarnType(t), fmt.Sprint("n", i), "", "", "", ""))
					}
					got := []int{}
					for _, w := range xutils.RemoveNPContainerWarnings(ws) {
						got = append(got, int(w.GetType()))
					}
					if want == nil {
						want = []int{}
					}
					if !reflect.DeepEqual(got, want) {
						report(UMism{Kind: "warn", Op: "RemoveNPContainerWarnings", In: v.Types, Want: want, Got: got})
					}
				})
			case "ref":
				var v RVec
				if err := json.Unmarshal(scn.Bytes(), &v); err != nil {
					die("bad ref vector: %v", err)
				}
				intent, mech := v.Intent, v.Mech
				in := map[string]interface{}{"start": v.Start, "ref": v.RefStr, "tree": len(v.Tree)}
				guard("ref", "FindNode", in, func() {
					all := pem.BuildTree(v.Tree)
					ref := xutils.NewNodeRef(0)
					for _, e := range v.Ref {
						var ks []xutils.NodeRefKey
						for _, k := range e.Keys {
							ks = append(ks, xutils.NewNodeRefKey(k[0], k[1]))
						}
						ref.AddElem(e.Name, ks)
					}
					if s := ref.String(); s != v.RefStr {
						report(UMism{Kind: "ref", Op: "NodeRef.String", In: in, Want: v.RefStr, Got: s})
					}
					// the reference of the start node, observed through FindNode on the whole tree and through String of
					// a reference rebuilt from the node (getNodeRef is reached through FindNode and NodeString)
					if s := xutils.NodeString(all[v.Start]); s != v.StartRef {
						report(UMism{Kind: "ref", Op: "getNodeRef(NodeString)", In: in, Want: v.StartRef, Got: s})
					}
					sref := xutils.NewNodeRef(0)
					chain := []int{}
					for i := v.Start; v.Tree[i-1].Parent != 0; i = v.Tree[i-1].Parent {
						chain = append([]int{i}, chain...)
					}
					for _, i := range chain {
						var ks []xutils.NodeRefKey
						for _, k := range v.Tree[i-1].Keys {
							ks = append(ks, xutils.NewNodeRefKey(k[0], k[1]))
						}
						sref.AddElem(v.Tree[i-1].Name, ks)
					}
					if got := sref.EqualTo(ref); got != v.Eq {
						report(UMism{Kind: "ref", Op: "NodeRef.EqualTo", In: in, Want: v.Eq, Got: got})
					}
					if got := ref.EqualTo(sref); got != v.Eq {
						report(UMism{Kind: "ref", Op: "NodeRef.EqualTo/sym", In: in, Want: v.Eq, Got: got})
					}
					found := xutils.FindNode(all[v.Start], ref)
					got := 0
					if found != nil {
						if d, ok := found.(*pem.DNode); ok && d != nil {
							got = d.Index()
						}
					}
					if got != intent {
						as := ""
						if got == mech && intent == 0 {
							as = "U3"
						}
						report(UMism{Kind: "ref", Op: "FindNode", As: as, In: in, Want: intent, Got: got})
					}
				})
			default:
				die("unknown vector kind %q", kind)
			}
		}
		f.Close()
	}
	counts["mismatches"] = nmis
	b, _ := json.Marshal(counts)
	fmt.Println(string(b))
}

// ------------------------------------------------------------------ probes

func probe(args []string) {
	sc, err := schemaNodes()
	if err != nil {
		die("%v", err)
	}
	for _, e := range args {
		m, err, pan := build(e)
		fmt.Printf("== %q\n", e)
		if err != nil || pan != nil {
			fmt.Printf("  compile error: %v %v\n", err, pan)
			continue
		}
		fmt.Printf("%q\n", m.PrintMachine())
		steps, end, rp := runCur(m)
		fmt.Printf("  NewCtxFromCurrent: %d steps, end=%+v panic=%v\n", len(steps), end, rp)
		o, sp := runSchema(m, sc.b)
		fmt.Printf("  NewCtxFromMach(schema a/b): %+v panic=%v\n", o, sp)
	}
}

func probeYang(args []string) {
	text, err := os.ReadFile(args[0])
	if err != nil {
		die("%v", err)
	}
	_, ws, err, pan := compileMods(string(text), true)
	fmt.Println("err:", err, "panic:", pan)
	for _, w := range ws {
		fmt.Printf("WARN type=%d %s\n", w.GetType(), w.String())
	}
}
