package xpm

import (
	"regexp"
	"strconv"
	"strings"

	"github.com/sdcio/yang-parser/xpath"
)

// Ins is the interchange form of one instruction: [i, s, n] of XPathAst.tla.
type Ins struct {
	I string `json:"i"`
	S string `json:"s"`
	N NumRec `json:"n"`
}

var zeroRec = NumRec{C: "fin", D: 1}

var reName = regexp.MustCompile(`^Name-Push\t\{(\S*) (\S+)\}$`)
var reBltin = regexp.MustCompile(`^(bltin|custom)\t\t(\S+)\(\)$`)

// ParseListing turns Machine.PrintMachine() into instructions (and the namespaces of
// the name tests, in order).
func ParseListing(listing string) (prog []Ins, namespaces []string) {
	prog = []Ins{}
	lines := strings.Split(listing, "\n")
	for li := 0; li < len(lines); li++ {
		l := lines[li]
		// a literal may contain line breaks: glue the listing lines back together
		if strings.HasPrefix(l, "litpush\t\t'") {
			for (len(l) == len("litpush\t\t'") || !strings.HasSuffix(l, "'")) && li+1 < len(lines) {
				li++
				l += "\n" + lines[li]
			}
		}
		if strings.HasPrefix(l, "---") || l == "" {
			continue
		}
		in := Ins{N: zeroRec}
		switch {
		case reName.MatchString(l):
			m := reName.FindStringSubmatch(l)
			in.I, in.S = "name", m[2]
			namespaces = append(namespaces, m[1])
		case reBltin.MatchString(l):
			in.I, in.S = "bltin", reBltin.FindStringSubmatch(l)[2]
		case strings.HasPrefix(l, "PathOper-Push\t"):
			switch strings.TrimPrefix(l, "PathOper-Push\t") {
			case "/", "/ (2f)":
				in.I = "root"
			case "..":
				in.I = "dotdot"
			default:
				in.I = l
			}
		case strings.HasPrefix(l, "litpush\t\t'") && strings.HasSuffix(l, "'"):
			in.I, in.S = "litpush", ToModel(l[len("litpush\t\t'"):len(l)-1])
		case strings.HasPrefix(l, "numpush\t\t"):
			f, err := strconv.ParseFloat(strings.TrimPrefix(l, "numpush\t\t"), 64)
			in.I = "numpush"
			if err != nil {
				in.N = NumRec{C: "oom", D: 1}
			} else {
				in.N = FromFloat(f)
			}
		default:
			in.I = l
		}
		prog = append(prog, in)
	}
	return
}

// vocabulary is the instruction set of XPathExec.tla.  The names come from the debug text of
// the machine listing, which the implementation is free to reword: a listing with a name
// outside the vocabulary is not compared with the specification's program and its runs are
// not traced (results and data-tree requests are still compared).
var vocabulary = map[string]bool{"numpush": true, "litpush": true, "bltin": true, "name": true, "root": true, "dotdot": true,
	"add": true, "sub": true, "mul": true, "div": true, "mod": true, "negate": true, "eq": true, "ne": true, "lt": true, "le": true,
	"gt": true, "ge": true, "and": true, "or": true, "evalLocPath": true, "store": true, "PredicatesStart": true,
	"PredicatesEnd": true, "PREDSTART": true, "PREDEND": true, "pathsetcurrent": true, "deref": true, "union": true}

func Recognised(prog []Ins) bool {
	for _, in := range prog {
		if !vocabulary[in.I] {
			return false
		}
	}
	return true
}

// Val is the interchange form of a value (VB/VN/VS/VAbsent/VMulti of XPathValues.tla).
type Val struct {
	T  string   `json:"t"`
	B  bool     `json:"b"`
	N  NumRec   `json:"n"`
	S  string   `json:"s"`
	Ms []string `json:"ms"`
	J  bool     `json:"j"`
}

func ValOf(d xpath.VerifDatum) Val {
	v := Val{N: NaNRec, Ms: []string{}, J: true}
	switch d.Kind {
	case "b":
		v.T, v.B = "b", d.B
	case "n":
		v.T, v.N = "n", FromFloat(d.N)
	case "s":
		v.T, v.S = "s", ToModel(d.S)
	case "ns":
		if d.Len == 0 {
			v.T = "abs"
		} else {
			v.T = "other:nodeset"
		}
	case "ds":
		v.T = "multi"
		for _, m := range d.DS {
			if m.Kind != "s" {
				v.T = "other:ds-of-" + m.Kind
			}
			v.Ms = append(v.Ms, ToModel(m.S))
		}
	default:
		v.T = "other:" + d.Kind
	}
	return v
}

// Event is one line of a recorded trace (see XPathTrace.tla).
type Event struct {
	Ev        string              `json:"ev"`
	ID        int                 `json:"id"`
	Expr      string              `json:"expr,omitempty"`
	Prog      []Ins               `json:"prog,omitempty"`
	FailAt    int                 `json:"failAt"`
	HasAst    bool                `json:"hasAst"`
	Ast       interface{}         `json:"ast,omitempty"`
	Idx       int                 `json:"idx"`
	Name      string              `json:"name"`
	Ds        []Val               `json:"ds"`
	Ps        []Req               `json:"ps"`
	Ks        []map[string]string `json:"ks"`
	PredCount int                 `json:"predCount"`
	PredEval  int                 `json:"predEval"`
	Llf       bool                `json:"llf"`
	PrevELP   bool                `json:"prevELP"`
	Err       string              `json:"err"`
	Calls     []Call              `json:"calls"`
	HasRes    bool                `json:"hasRes"`
	Res       Val                 `json:"res"`
}

// ErrClass maps an error text to the model's error values: none | env:k | run.
func ErrClass(s string) string {
	if s == "" {
		return "none"
	}
	if i := strings.Index(s, "ENVFAIL-"); i >= 0 {
		j := i + len("ENVFAIL-")
		k := j
		for k < len(s) && s[k] >= '0' && s[k] <= '9' {
			k++
		}
		// the text of the tree's error reaches the caller (possibly re-wrapped)
		return "env:" + s[j:k]
	}
	return "run"
}

func StepEvent(id int, e xpath.VerifEvent, newCalls []Call) Event {
	ev := Event{Ev: e.Ev, ID: id, Idx: e.Idx, Name: e.Name, PredCount: e.PredCount, PredEval: e.PredEval,
		Llf: e.LLFilter, PrevELP: e.PrevELP, Err: ErrClass(e.Err), Ds: []Val{}, Ps: []Req{}, Ks: []map[string]string{},
		Calls: newCalls, HasRes: e.HasValue, Res: Val{T: "b", N: NaNRec, Ms: []string{}, J: true}}
	if ev.Calls == nil {
		ev.Calls = []Call{}
	}
	for _, d := range e.Stack {
		ev.Ds = append(ev.Ds, ValOf(d))
	}
	for _, p := range e.Paths {
		r := Req{Root: p.Root, Elems: []Elem{}}
		for _, el := range p.Elems {
			k := map[string]string{}
			for _, kv := range el.Keys {
				k[kv[0]] = ToModel(kv[1])
			}
			r.Elems = append(r.Elems, Elem{N: el.Name, Keys: k})
		}
		ev.Ps = append(ev.Ps, r)
	}
	for _, m := range e.Keys {
		c := map[string]string{}
		for k, v := range m {
			c[ToModel(k)] = ToModel(v)
		}
		ev.Ks = append(ev.Ks, c)
	}
	if e.HasValue {
		ev.Res = ValOf(e.Value)
	}
	return ev
}
