// Package xpm binds the TLA+ XPath machine specification to the real xpath
// packages: value/number interchange, a recording fault-injecting data tree,
// program listing parser and trace event construction.
package xpm

import (
	"math"
	"strconv"
	"strings"
	"unicode/utf8"
)

const MaxN = 1048576

// NumRec is the interchange form of an XPath number (see XPathValues.tla).
type NumRec struct {
	C   string `json:"c"`
	Neg bool   `json:"neg"`
	N   int    `json:"n"`
	D   int    `json:"d"`
}

var NaNRec = NumRec{C: "nan", N: 0, D: 1}

// BigTxt mirrors BigTxt of XPathValues.tla: exact doubles needing 16-17 significant digits.
var BigTxt = []string{"4503599627370497", "9007199254740991", "0.49999999999999994"}

func gcd(a, b int64) int64 {
	for b != 0 {
		a, b = b, a%b
	}
	return a
}

// FromFloat projects a float64 onto the model's number domain ("oom" if outside).
func FromFloat(x float64) NumRec {
	switch {
	case math.IsNaN(x):
		return NaNRec
	case math.IsInf(x, 1):
		return NumRec{C: "inf", D: 1}
	case math.IsInf(x, -1):
		return NumRec{C: "inf", Neg: true, D: 1}
	case x == 0:
		return NumRec{C: "fin", Neg: math.Signbit(x), D: 1}
	}
	neg := x < 0
	a := math.Abs(x)
	if a8 := a * 8; a8 == math.Trunc(a8) && a8 <= MaxN*8 {
		n8 := int64(a8)
		g := gcd(n8, 8)
		n, d := n8/g, 8/g
		if n <= MaxN {
			return NumRec{C: "fin", Neg: neg, N: int(n), D: int(d)}
		}
	}
	for i, t := range BigTxt {
		if b, _ := strconv.ParseFloat(t, 64); a == b {
			return NumRec{C: "big", Neg: neg, N: i + 1, D: 1}
		}
	}
	for e := -9; e <= 22; e++ {
		if e >= 0 && e <= 6 {
			continue
		}
		p, _ := strconv.ParseFloat("1e"+strconv.Itoa(e), 64)
		if a == p {
			return NumRec{C: "p10", Neg: neg, N: e, D: 1}
		}
	}
	return NumRec{C: "oom", D: 1}
}

// ToFloat gives the float64 a model number denotes (ok=false for oom).
func (r NumRec) ToFloat() (float64, bool) {
	s := 1.0
	if r.Neg {
		s = -1
	}
	switch r.C {
	case "nan":
		return math.NaN(), true
	case "inf":
		return math.Inf(int(s)), true
	case "fin":
		if r.N == 0 {
			if r.Neg {
				return math.Copysign(0, -1), true
			}
			return 0, true
		}
		return s * float64(r.N) / float64(r.D), true
	case "p10":
		p, _ := strconv.ParseFloat("1e"+strconv.Itoa(r.N), 64)
		return s * p, true
	case "big":
		if r.N < 1 || r.N > len(BigTxt) {
			return 0, false
		}
		p, _ := strconv.ParseFloat(BigTxt[r.N-1], 64)
		return s * p, true
	}
	return 0, false
}

// SameFloat: equal as IEEE values including the sign of zero; all NaNs are the same.
func SameFloat(a, b float64) bool {
	if math.IsNaN(a) || math.IsNaN(b) {
		return math.IsNaN(a) && math.IsNaN(b)
	}
	return a == b && math.Signbit(a) == math.Signbit(b)
}

// The spec's strings are ASCII; ~ ^ ` stand for a 2-, 3- and 4-byte character.
// { } @ stand for no-break space, form feed and em space: white space to Unicode, ordinary characters to XPath.
var toReal = strings.NewReplacer("~", "é", "^", "€", "`", "\U0001F600", "{", "\u00a0", "}", "\f", "@", "\u2003")

func ToReal(s string) string { return toReal.Replace(s) }

// ToModel maps a real string back; anything that is not ASCII or one of the three
// placeholders (e.g. a split multi-byte sequence) becomes #xx per byte so that it can
// never equal a spec string.
func ToModel(s string) string {
	var b strings.Builder
	for i := 0; i < len(s); {
		r, w := utf8.DecodeRuneInString(s[i:])
		switch {
		case r == utf8.RuneError && w <= 1:
			b.WriteString("#" + strconv.FormatInt(int64(s[i]), 16))
		case r == 0xe9:
			b.WriteByte('~')
		case r == 0x20ac:
			b.WriteByte('^')
		case r == 0x1F600:
			b.WriteByte('`')
		case r == 0xa0:
			b.WriteByte('{')
		case r == '\f':
			b.WriteByte('}')
		case r == 0x2003:
			b.WriteByte('@')
		case r < 0x80 && r != '~' && r != '^' && r != '`' && r != '#' && r != '{' && r != '}' && r != '@':
			b.WriteRune(r)
		default:
			for k := 0; k < w; k++ {
				b.WriteString("#" + strconv.FormatInt(int64(s[i+k]), 16))
			}
		}
		i += w
	}
	return b.String()
}
