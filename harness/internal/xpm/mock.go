package xpm

import (
	"sync/atomic"
	"time"
	"context"
	"fmt"
	"sort"
	"strings"
	"sync"

	sdcpb "github.com/sdcio/sdc-protos/sdcpb"
	"github.com/sdcio/yang-parser/xpath"
	"github.com/sdcio/yang-parser/xpath/xutils"
)

// Req is the interchange form of a navigation request.
type Elem struct {
	N    string            `json:"n"`
	Keys map[string]string `json:"keys"`
}
type Req struct {
	Root  bool   `json:"root"`
	Elems []Elem `json:"elems"`
}
type Call struct {
	Op  string `json:"op"`
	Req Req    `json:"req"`
}

func ReqOf(p *sdcpb.Path) Req {
	r := Req{Root: p.GetIsRootBased(), Elems: []Elem{}}
	for _, e := range p.GetElem() {
		k := map[string]string{}
		for kk, v := range e.GetKey() {
			k[kk] = ToModel(v)
		}
		r.Elems = append(r.Elems, Elem{N: e.GetName(), Keys: k})
	}
	return r
}

func (r Req) String() string {
	var b strings.Builder
	if r.Root {
		b.WriteString("ROOT")
	} else {
		b.WriteString("CTX")
	}
	for _, e := range r.Elems {
		b.WriteString("/" + e.N)
		ks := []string{}
		for k := range e.Keys {
			ks = append(ks, k)
		}
		sort.Strings(ks)
		for _, k := range ks {
			b.WriteString("[" + k + "=" + e.Keys[k] + "]")
		}
	}
	return b.String()
}

func (r Req) LastName() string {
	if len(r.Elems) == 0 {
		return ""
	}
	return r.Elems[len(r.Elems)-1].N
}

// Tree is the recording, fault-injecting data tree shared by all entries of one run.
type Tree struct {
	mu     sync.Mutex
	Calls  []Call
	FailAt int // k > 0: the k-th callback fails
	// Variant: another data tree over the same schema - every generic value differs
	// (used to give a machine a different history between two runs on the normal tree)
	Variant bool
	// CancelAt k > 0: the k-th callback calls Cancel (the caller's Go context is cancelled while the tree is being asked)
	CancelAt int
	Cancel   func()
	// CancelHold: the cancelling callback stays in the tree that long after Cancel (a run that gives up at once is then
	// still inside the tree); Returned is set by the caller when Run has returned, Late counts callbacks after that
	CancelHold time.Duration
	Returned   atomic.Bool
	Late       atomic.Int32
}

type EnvError struct{ K int }

func (e *EnvError) Error() string { return fmt.Sprintf("ENVFAIL-%d", e.K) }

func (t *Tree) record(op string, r Req) error {
	t.mu.Lock()
	defer t.mu.Unlock()
	t.Calls = append(t.Calls, Call{Op: op, Req: r})
	if t.Returned.Load() {
		t.Late.Add(1)
	}
	if t.CancelAt > 0 && len(t.Calls) == t.CancelAt && t.Cancel != nil {
		t.Cancel()
		if t.CancelHold > 0 {
			t.mu.Unlock()
			time.Sleep(t.CancelHold)
			t.mu.Lock()
		}
	}
	if t.FailAt > 0 && len(t.Calls) == t.FailAt {
		return &EnvError{K: t.FailAt}
	}
	return nil
}

func (t *Tree) NCalls() int {
	t.mu.Lock()
	defer t.mu.Unlock()
	return len(t.Calls)
}

type Entry struct {
	T   *Tree
	Req Req
	Tgt *sdcpb.Path // non-nil: this entry is a leafref target
}

func lits(ss ...string) []xpath.Datum {
	out := []xpath.Datum{}
	for _, s := range ss {
		out = append(out, xpath.NewLiteralDatum(ToReal(s)))
	}
	return out
}

// TreeValue mirrors TreeVal of XPathAst.tla.
func TreeValue(r Req) xpath.Datum { return treeValue(r, false) }

func treeValue(r Req, variant bool) xpath.Datum {
	switch r.LastName() {
	case "vabs":
		return xpath.NewNodesetDatum([]xutils.XpathNode{})
	case "vmulti":
		return xpath.NewDatumSliceDatum(lits("1", "x", " 2.5 "))
	case "vm2":
		return xpath.NewDatumSliceDatum(lits("", "7"))
	case "vone":
		return xpath.NewDatumSliceDatum(lits("0"))
	case "vnil":
		return xpath.NewDatumSliceDatum(lits(""))
	case "vempty":
		return xpath.NewLiteralDatum("")
	case "vnum":
		return xpath.NewLiteralDatum("12")
	case "vneg":
		return xpath.NewLiteralDatum(" -1.5 ")
	case "vtxt":
		return xpath.NewLiteralDatum(ToReal("a~b"))
	}
	if variant {
		return xpath.NewLiteralDatum(ToReal("W(" + r.String() + ")"))
	}
	return xpath.NewLiteralDatum(ToReal("V(" + r.String() + ")"))
}

func (e *Entry) GetValue() (xpath.Datum, error) {
	if err := e.T.record("get", e.Req); err != nil {
		return nil, err
	}
	return treeValue(e.Req, e.T.Variant), nil
}

func (e *Entry) Navigate(p *sdcpb.Path) (xpath.Entry, error) {
	r := ReqOf(p)
	if err := e.T.record("nav", r); err != nil {
		return nil, err
	}
	return &Entry{T: e.T, Req: r}, nil
}

func (e *Entry) Copy() xpath.Entry { c := *e; return &c }

func (e *Entry) FollowLeafRef() (xpath.Entry, error) {
	if err := e.T.record("follow", e.Req); err != nil {
		return nil, err
	}
	tgt := &sdcpb.Path{IsRootBased: true, Elem: []*sdcpb.PathElem{{Name: "tgt", Key: map[string]string{"k": ToReal(e.Req.String()),
		"j": "2001:db8::1", "m": "p:x", "kk": "a/b[c='d'] =e"}}}} // mirrors DerefTarget of XPathAst.tla
	return &Entry{T: e.T, Req: ReqOf(tgt), Tgt: tgt}, nil
}

func (e *Entry) GetSdcpbPath() *sdcpb.Path {
	if e.Tgt != nil {
		return e.Tgt.DeepCopy()
	}
	return &sdcpb.Path{}
}

func (e *Entry) BreadthSearch(_ context.Context, p *sdcpb.Path) ([]xpath.Entry, error) {
	r := ReqOf(p)
	if err := e.T.record("search", r); err != nil {
		return nil, err
	}
	return []xpath.Entry{&Entry{T: e.T, Req: r}, &Entry{T: e.T, Req: r}}, nil
}
