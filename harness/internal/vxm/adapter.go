package vxm

import (
	"encoding/xml"
	"fmt"
	"strings"

	"github.com/sdcio/yang-parser/schema"
	"github.com/sdcio/yang-parser/xpath/xutils"
)

// The adapter view of ValidateXPathShapes.tla (XT): what the spec prescribes for every node of the
// XPath view of a data tree that is reachable through XChildren.
type NV struct {
	N string `json:"n"`
	V string `json:"v"`
}

type FltRec struct {
	Name    string `json:"name"`
	Ns      string `json:"ns"` // "" | own | other
	Cfgonly bool   `json:"cfgonly"`
}

type FltRes struct {
	F   FltRec `json:"f"`
	Srt []NV   `json:"srt"`
	Uns []NV   `json:"uns"`
}

type KeyRec struct {
	K string `json:"k"`
	V string `json:"v"`
}

type Probe struct {
	Ns  string `json:"ns"`
	Key string `json:"key"`
	Val string `json:"val"`
	Res bool   `json:"res"`
}

type ParTag struct {
	Nil bool     `json:"nil"`
	N   string   `json:"n"`
	V   string   `json:"v"`
	Xp  []string `json:"xp"`
}

type View struct {
	N    string   `json:"n"`
	V    string   `json:"v"`
	Xp   []string `json:"xp"`
	Leaf bool     `json:"leaf"`
	LL   bool     `json:"ll"`
	Npc  bool     `json:"npc"`
	Keys []KeyRec `json:"keys"`
	Km   []Probe  `json:"km"`
	Par  ParTag   `json:"par"`
	Flt  []FltRes `json:"flt"`
	Kids []View   `json:"kids"`
}

// AVec is one vector of vxa_<shape>.ndjson.
type AVec struct {
	D    []DNode `json:"d"`
	View View    `json:"view"`
}

// AMism is one disagreement between the real adapter and the view.
type AMism struct {
	At   string      `json:"at"`   // XPath (and value) of the node concerned, as prescribed
	What string      `json:"what"` // name value xpath is-leaf is-leaf-list is-np-container ephemeral keys key-match parent root children:<sorted|unsorted> panic
	Flt  *FltRec     `json:"flt,omitempty"`
	Want interface{} `json:"want"`
	Got  interface{} `json:"got"`
}

func nsURI(sh Shape, ns string) string {
	switch ns {
	case "own":
		return Namespace(sh)
	case "other":
		return "urn:other"
	}
	return ""
}

func nvs(ns []xutils.XpathNode) []NV {
	out := []NV{}
	for _, n := range ns {
		out = append(out, NV{n.XName(), n.XValue()})
	}
	return out
}

func eqNV(a, b []NV) bool {
	if len(a) != len(b) {
		return false
	}
	for i := range a {
		if a[i] != b[i] {
			return false
		}
	}
	return true
}

// CheckAdapter walks the real adapter (schema.ConvertToXpathNode over the compiled schema and the
// built data tree) along the prescribed view.
func CheckAdapter(sh Shape, ms schema.ModelSet, v AVec, max int) (out []AMism, nodes int) {
	defer func() {
		if r := recover(); r != nil {
			out = append(out, AMism{At: "?", What: "panic", Want: "", Got: Clean(fmt.Sprint(r))})
		}
	}()
	root := schema.ConvertToXpathNode(Build(v.D), ms)
	var walk func(x xutils.XpathNode, w View, isRoot bool)
	walk = func(x xutils.XpathNode, w View, isRoot bool) {
		if len(out) >= max {
			return
		}
		nodes++
		at := strings.Join(w.Xp, " ") + " = " + w.V
		mis := func(what string, want, got interface{}) {
			out = append(out, AMism{At: at, What: what, Want: want, Got: got})
		}
		if !isRoot && x.XName() != w.N { // the name of the root (a Tree) is not prescribed
			mis("name", w.N, x.XName())
		}
		if x.XValue() != w.V {
			mis("value", w.V, x.XValue())
		}
		if !eqPath([]string(x.XPath()), w.Xp) {
			mis("xpath", w.Xp, []string(x.XPath()))
		}
		if x.XIsLeaf() != w.Leaf {
			mis("is-leaf", w.Leaf, x.XIsLeaf())
		}
		if x.XIsLeafList() != w.LL {
			mis("is-leaf-list", w.LL, x.XIsLeafList())
		}
		if x.XIsNonPresCont() != w.Npc {
			mis("is-np-container", w.Npc, x.XIsNonPresCont())
		}
		if x.XIsEphemeral() {
			mis("ephemeral", false, true)
		}
		ks := x.XListKeys()
		okKeys := len(ks) == len(w.Keys)
		for i := 0; okKeys && i < len(ks); i++ {
			okKeys = ks[i].EqualTo(xutils.NewNodeRefKey(w.Keys[i].K, w.Keys[i].V))
		}
		if !okKeys {
			mis("keys", w.Keys, fmt.Sprint(ks))
		}
		for _, p := range w.Km {
			if got := x.XListKeyMatches(xml.Name{Space: nsURI(sh, p.Ns), Local: p.Key}, p.Val); got != p.Res {
				mis("key-match", p, got)
			}
		}
		par := x.XParent()
		switch {
		case w.Par.Nil != (par == nil):
			mis("parent", w.Par, par == nil)
		case par != nil:
			// the parent of a child of the root is the root: its name is not prescribed
			isTree := len(w.Par.Xp) == 1 && w.Par.Xp[0] == "/"
			if (!isTree && par.XName() != w.Par.N) || par.XValue() != w.Par.V || !eqPath([]string(par.XPath()), w.Par.Xp) {
				mis("parent", w.Par, ParTag{false, par.XName(), par.XValue(), []string(par.XPath())})
			}
		}
		if x.XRoot() != root {
			mis("root", "the root node", "another node")
		}
		for i := range w.Flt {
			f := w.Flt[i]
			mt := xutils.FullTree
			if f.F.Cfgonly {
				mt = xutils.ConfigOnly
			}
			xf := xutils.NewXFilter(xml.Name{Space: nsURI(sh, f.F.Ns), Local: f.F.Name}, mt)
			if got := nvs(x.XChildren(xf, xutils.Sorted)); !eqNV(got, f.Srt) {
				out = append(out, AMism{At: at, What: "children:sorted", Flt: &w.Flt[i].F, Want: f.Srt, Got: got})
			}
			if got := nvs(x.XChildren(xf, xutils.Unsorted)); !eqNV(got, f.Uns) {
				out = append(out, AMism{At: at, What: "children:unsorted", Flt: &w.Flt[i].F, Want: f.Uns, Got: got})
			}
		}
		kids := x.XChildren(xutils.AllChildren, xutils.Sorted)
		if len(kids) != len(w.Kids) {
			mis("children:sorted", len(w.Kids), len(kids))
			return
		}
		for i, k := range kids {
			if k.XParent() != x {
				out = append(out, AMism{At: at, What: "parent", Want: "XParent of a node that XChildren returned is the node asked", Got: NV{k.XName(), k.XValue()}})
			}
			walk(k, w.Kids[i], false)
		}
	}
	walk(root, v.View, true)
	return out, nodes
}
