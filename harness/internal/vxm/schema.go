package vxm

import (
	"fmt"
	"strings"

	"github.com/sdcio/yang-parser/compile"
	"github.com/sdcio/yang-parser/parse"
	"github.com/sdcio/yang-parser/schema"
)

// Expr is an expression of the spec: its text and what running it gives (true / false / fail).
type Expr struct {
	Txt string `json:"txt"`
	V   string `json:"v"`
}

// MustRec is one must statement: expression, error-message ("" = none), error-app-tag ("" = none).
type MustRec struct {
	E   Expr   `json:"e"`
	Msg string `json:"msg"`
	Tag string `json:"tag"`
}

// LrefRec is a leafref path (only its text matters to the code).
type LrefRec struct {
	Txt string `json:"txt"`
}

// SNode is one source schema record of ValidateXPath.tla (SN).  kind: container list leaf leaflist
// choice case, and the pseudo nodes augment / uses that hand their when on to the nodes they introduce.
type SNode struct {
	Kind     string    `json:"kind"`
	Name     string    `json:"name"`
	Presence bool      `json:"presence"`
	State    bool      `json:"state"`
	Typ      string    `json:"typ"`
	Key      string    `json:"key"`
	User     bool      `json:"user"`
	When     []Expr    `json:"when"`
	Musts    []MustRec `json:"musts"`
	Lref     LrefRec   `json:"lref"`
	Kids     []SNode   `json:"kids"`
}

// Shape is a whole schema: the top-level nodes of one module.
type Shape struct {
	ID   int     `json:"id"`
	Kids []SNode `json:"kids"`
}

// Namespace of the module a shape is rendered to ("own" in the spec).
func Namespace(sh Shape) string { return fmt.Sprintf("urn:v%d", sh.ID) }

type renderer struct {
	groupings strings.Builder
	augments  strings.Builder
	ngroup    int
}

func q(s string) string {
	if strings.ContainsAny(s, "\"\\") {
		panic("vxm: text needs escaping: " + s)
	}
	return "\"" + s + "\""
}

// render writes node n; spath = the schema path of the parent ("/v:c/v:ch/v:ca"), used by augments.
func (r *renderer) render(b *strings.Builder, n SNode, ind, spath string) {
	w := func(f string, a ...interface{}) { fmt.Fprintf(b, ind+f+"\n", a...) }
	common := func() {
		for _, e := range n.When {
			w("  when %s;", q(e.Txt))
		}
		if n.State {
			w("  config false;")
		}
		for _, m := range n.Musts {
			if m.Msg == "" && m.Tag == "" {
				w("  must %s;", q(m.E.Txt))
				continue
			}
			w("  must %s {", q(m.E.Txt))
			if m.Msg != "" {
				w("    error-message %s;", q(m.Msg))
			}
			if m.Tag != "" {
				w("    error-app-tag %s;", q(m.Tag))
			}
			w("  }")
		}
	}
	typ := func() {
		switch n.Typ {
		case "string", "empty":
			w("  type %s;", n.Typ)
		case "leafref":
			w("  type leafref { path %s; }", q(n.Lref.Txt))
		default:
			panic("vxm: unknown type " + n.Typ)
		}
	}
	kids := func(b *strings.Builder, ind string, path string) {
		for _, k := range n.Kids {
			r.render(b, k, ind, path)
		}
	}
	here := spath + "/v:" + n.Name
	switch n.Kind {
	case "container":
		w("container %s {", n.Name)
		if n.Presence {
			w("  presence \"p\";")
		}
		common()
		kids(b, ind+"  ", here)
		w("}")
	case "list":
		w("list %s {", n.Name)
		w("  key %s;", q(n.Key))
		if n.User {
			w("  ordered-by user;")
		}
		common()
		kids(b, ind+"  ", here)
		w("}")
	case "leaf":
		w("leaf %s {", n.Name)
		typ()
		common()
		w("}")
	case "leaflist":
		w("leaf-list %s {", n.Name)
		typ()
		if n.User {
			w("  ordered-by user;")
		}
		common()
		w("}")
	case "choice":
		w("choice %s {", n.Name)
		common()
		kids(b, ind+"  ", here)
		w("}")
	case "case":
		w("case %s {", n.Name)
		common()
		kids(b, ind+"  ", here)
		w("}")
	case "uses":
		r.ngroup++
		g := fmt.Sprintf("g%d", r.ngroup)
		var gb strings.Builder
		fmt.Fprintf(&gb, "  grouping %s {\n", g)
		// nodes of a grouping are rendered in place; an augment inside a grouping is not generated
		kids(&gb, "    ", spath)
		gb.WriteString("  }\n")
		r.groupings.WriteString(gb.String())
		w("uses %s {", g)
		for _, e := range n.When {
			w("  when %s;", q(e.Txt))
		}
		w("}")
	case "augment":
		var ab strings.Builder
		fmt.Fprintf(&ab, "  augment %s {\n", q(spath))
		for _, e := range n.When {
			fmt.Fprintf(&ab, "    when %s;\n", q(e.Txt))
		}
		kids(&ab, "    ", spath)
		ab.WriteString("  }\n")
		r.augments.WriteString(ab.String())
	default:
		panic("vxm: unknown node kind " + n.Kind)
	}
}

// RenderYang renders the schema records as the text of one YANG module: groupings first, then the
// tree, then the augments (an augment at the top level of the tree cannot be written: the shapes have none).
func RenderYang(sh Shape) string {
	var r renderer
	var body strings.Builder
	for _, k := range sh.Kids {
		r.render(&body, k, "  ", "")
	}
	var b strings.Builder
	fmt.Fprintf(&b, "module v%d {\n  namespace \"%s\";\n  prefix v;\n", sh.ID, Namespace(sh))
	b.WriteString(r.groupings.String())
	b.WriteString(body.String())
	b.WriteString(r.augments.String())
	b.WriteString("}\n")
	return b.String()
}

// Compile parses and compiles the module with the real parser and compiler.
func Compile(sh Shape) (ms schema.ModelSet, err error) {
	defer func() {
		if r := recover(); r != nil {
			err = fmt.Errorf("panic while compiling: %v", r)
		}
	}()
	name := fmt.Sprintf("v%d", sh.ID)
	t, err := parse.Parse(name+".yang", RenderYang(sh), nil)
	if err != nil {
		return nil, err
	}
	return compile.CompileParseTrees(nil, map[string]*parse.Tree{name: t}, compile.FeaturesFromNames(true), false, nil)
}
