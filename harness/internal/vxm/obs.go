// Package vxm binds the ValidateXPath specification (extension module X-validate-xpath) to the
// real schema package: schema records written by TLC (with when / must / config / augment /
// leafref annotations) are rendered to YANG text and compiled by the real compiler, data trees
// are built with datanode.CreateDataNode, the errors of schema.ValidateSchema /
// SchemaValidator.Validate are decoded into (kind, path, message, app-tag) and the XPath adapter
// (schema.ConvertToXpathNode) is walked through its public interface.
package vxm

import (
	"fmt"
	"net/url"
	"regexp"
	"strings"

	"github.com/danos/mgmterror"
	"github.com/sdcio/yang-parser/data/datanode"
	"github.com/sdcio/yang-parser/schema"
)

// DNode is a data node of the spec: name, values (leaf / leaf-list), children (a list node has
// one child per entry, named by the key value, holding the entry's nodes including the key leaf).
type DNode struct {
	Name string   `json:"name"`
	Vals []string `json:"vals"`
	Kids []DNode  `json:"kids"`
}

// Build makes the real data tree; the synthetic root is named "root".
func Build(kids []DNode) datanode.DataNode {
	return datanode.CreateDataNode("root", buildKids(kids), nil)
}

func buildKids(kids []DNode) []datanode.DataNode {
	out := []datanode.DataNode{}
	for _, k := range kids {
		var vals []string
		if len(k.Vals) > 0 {
			vals = append(vals, k.Vals...)
		}
		out = append(out, datanode.CreateDataNode(k.Name, buildKids(k.Kids), vals))
	}
	return out
}

// Err is one decoded validation error.
//
//	k     "exec"  *mgmterror.ExecError  (a machine that failed to run; leafref; mandatory ...)
//	      "must"  *mgmterror.MustViolationError  (a when or must that evaluated to false)
//	      "count" too few / too many elements
//	      "other" anything else (the Go type is in Msg)
//	path  the decoded path of the error
//	msg   the message (line breaks replaced, the word "error" broken: it travels through TLC output)
//	tag   error-app-tag
type Err struct {
	K    string   `json:"k"`
	Path []string `json:"path"`
	Msg  string   `json:"msg"`
	Tag  string   `json:"tag"`
}

var reErr = regexp.MustCompile(`(?i)err(or)`)

// Clean makes an implementation text safe to travel through TLC's output.
func Clean(s string) string {
	return reErr.ReplaceAllString(strings.ReplaceAll(s, "\n", "|"), "err_$1")
}

// splitPathExact inverts pathutil.Pathstr.
func splitPathExact(p string) []string {
	if p == "" {
		return []string{}
	}
	out := strings.Split(strings.TrimPrefix(p, "/"), "/")
	for i, e := range out {
		if u, err := url.QueryUnescape(e); err == nil {
			out[i] = u
		}
	}
	return out
}

func splitXPath(p string) []string {
	p = strings.Trim(p, "/")
	if p == "" {
		return []string{}
	}
	return strings.Split(p, "/")
}

// Decode maps one error of the validator to the spec's terms.
func Decode(err error) Err {
	switch e := err.(type) {
	case *mgmterror.ExecError:
		return Err{K: "exec", Path: splitPathExact(e.Path), Msg: Clean(e.Message), Tag: e.AppTag}
	case *mgmterror.MustViolationError:
		return Err{K: "must", Path: splitPathExact(e.Path), Msg: Clean(e.Message), Tag: e.AppTag}
	case *mgmterror.TooFewElementsError:
		return Err{K: "count", Path: splitXPath(e.Path), Msg: Clean(e.Message), Tag: e.AppTag}
	case *mgmterror.TooManyElementsError:
		return Err{K: "count", Path: splitXPath(e.Path), Msg: Clean(e.Message), Tag: e.AppTag}
	}
	return Err{K: "other", Path: []string{}, Msg: Clean(fmt.Sprintf("%T: %v", err, err))}
}

// ValType maps the spec's names of the four validation types.
func ValType(s string) (schema.ValidationType, bool) {
	switch s {
	case "all":
		return schema.ValidateAll, true
	case "none":
		return schema.DontValidate, true
	case "state":
		return schema.ValidateState, true
	case "config":
		return schema.ValidateConfig, true
	}
	return schema.ValidateAll, false
}

// Obs is what the real validator said about one tree.
type Obs struct {
	Errs  []Err  `json:"errs"`
	Ok    bool   `json:"ok"`
	Outs  int    `json:"outs"`
	Panic string `json:"panic,omitempty"`
}

// Validate runs the real validator: api "func" = schema.ValidateSchema (always ValidateAll),
// api "sv" = NewSchemaValidator(...).SetValidation(vt).Validate().
func Validate(ms schema.Node, d []DNode, api, vt string) (o Obs) {
	o.Errs = []Err{}
	defer func() {
		if r := recover(); r != nil {
			o.Panic = Clean(fmt.Sprint(r))
		}
	}()
	tree := Build(d)
	var errs []error
	if api == "func" {
		outs, es, ok := schema.ValidateSchema(ms, tree, false)
		errs, o.Ok, o.Outs = es, ok, len(outs)
	} else {
		t, known := ValType(vt)
		if !known {
			panic("unknown validation type " + vt)
		}
		outs, es, ok := schema.NewSchemaValidator(ms, tree).SetValidation(t).Validate()
		errs, o.Ok, o.Outs = es, ok, len(outs)
	}
	for _, e := range errs {
		o.Errs = append(o.Errs, Decode(e))
	}
	return
}
