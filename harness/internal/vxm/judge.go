package vxm

import (
	"fmt"
	"strings"
)

// WErr is one prescribed error of a vector (ValidateXPath.tla Err): kind, path, message, app-tag,
// and where it belongs: at = address of the visited adapter node, np = chain of unconfigured
// non-presence containers below it, src = the step that reports it, sp = spurious under RFC 7950 (O1).
type WErr struct {
	K    string   `json:"k"`
	Path []string `json:"path"`
	Msg  string   `json:"msg"`
	Tag  string   `json:"tag"`
	At   []string `json:"at"`
	Np   []string `json:"np"`
	Src  string   `json:"src"`
	Sp   bool     `json:"sp"`
}

// Vec is one vector of vxv_<shape>.ndjson.
type Vec struct {
	D    []DNode  `json:"d"`
	Vt   string   `json:"vt"`
	Errs []WErr   `json:"errs"` // the run under the RFC reading of O1
	Code []WErr   `json:"code"` // the run as the code does it
	Cw   []string `json:"cw"`   // false whens on choices / cases that guard present data (O2)
}

func eqPath(a, b []string) bool {
	if len(a) != len(b) {
		return false
	}
	for i := range a {
		if a[i] != b[i] {
			return false
		}
	}
	return true
}

// same: does the observed error agree with the prescribed one?  The message of a machine that
// failed to run (exec, raw) is the Go run-time's and is not prescribed; a raw error is any error
// that is not a management error.  Returns the first field that differs ("" = agree).
func same(w WErr, g Err) string {
	wk := w.K
	if wk == "raw" {
		wk = "other"
	}
	switch {
	case wk != g.K:
		return "kind"
	case wk == "other":
		return ""
	case !eqPath(w.Path, g.Path):
		return "path"
	case w.Tag != g.Tag:
		return "app-tag"
	case wk == "must" && Clean(w.Msg) != g.Msg:
		return "message"
	case wk == "exec" && g.Msg == "":
		return "message"
	}
	return ""
}

// block: a maximal run of prescribed errors that belong to one non-presence container (np[:depth+1]
// equal) at the same visited node; the blocks of sibling containers may come in any order.
func regionEnd(es []WErr, i int) int {
	j := i
	for j < len(es) && len(es[j].Np) > 0 && eqPath(es[j].At, es[i].At) {
		j++
	}
	return j
}

func splitBlocks(es []WErr, depth int) [][]WErr {
	out := [][]WErr{}
	i := 0
	for i < len(es) {
		j := i + 1
		for j < len(es) && es[j].Np[depth] == es[i].Np[depth] {
			j++
		}
		out = append(out, es[i:j])
		i = j
	}
	return out
}

// matchRegion: got must be the errors of want with the blocks of sibling containers permuted, at
// every depth.  Returns "" or a description of the first disagreement.
func matchRegion(want []WErr, got []Err, depth int) (string, *WErr, *Err) {
	// the errors of this level's own container (np has exactly depth elements) come first, in order
	i := 0
	for i < len(want) && len(want[i].Np) == depth {
		if f := same(want[i], got[i]); f != "" {
			return f, &want[i], &got[i]
		}
		i++
	}
	rest, g := want[i:], got[i:]
	if len(rest) == 0 {
		return "", nil, nil
	}
	blocks := splitBlocks(rest, depth)
	used := make([]bool, len(blocks))
	pos := 0
	var lastF string
	var lastW *WErr
	var lastG *Err
	for n := 0; n < len(blocks); n++ {
		found := false
		for bi, b := range blocks {
			if used[bi] || pos+len(b) > len(g) {
				continue
			}
			f, w, gg := matchRegion(b, g[pos:pos+len(b)], depth+1)
			if f == "" {
				used[bi], found = true, true
				pos += len(b)
				break
			}
			if lastF == "" {
				lastF, lastW, lastG = f, w, gg
			}
		}
		if !found {
			if lastF == "" {
				lastF = "order"
			}
			return lastF, lastW, lastG
		}
	}
	return "", nil, nil
}

// Diff describes the first disagreement between a prescribed error list and the observed one.
type Diff struct {
	What  string `json:"what"` // count | kind | path | app-tag | message | order
	Src   string `json:"src"`  // step of the prescribed error concerned (when must npmust lref), "" if none
	Want  *WErr  `json:"want,omitempty"`
	Got   *Err   `json:"got,omitempty"`
	Index int    `json:"index"`
}

// Match compares the whole lists.  nil = agree.
func Match(want []WErr, got []Err) *Diff {
	if len(want) != len(got) {
		d := &Diff{What: "count", Index: -1}
		// name the first error that has no partner
		n := len(want)
		if len(got) < n {
			n = len(got)
		}
		i := 0
		for i < n && same(want[i], got[i]) == "" {
			i++
		}
		d.Index = i
		if i < len(want) {
			d.Want, d.Src = &want[i], want[i].Src
		}
		if i < len(got) {
			d.Got = &got[i]
		}
		return d
	}
	i := 0
	for i < len(want) {
		if len(want[i].Np) == 0 {
			if f := same(want[i], got[i]); f != "" {
				return &Diff{What: f, Src: want[i].Src, Want: &want[i], Got: &got[i], Index: i}
			}
			i++
			continue
		}
		j := regionEnd(want, i)
		if f, w, g := matchRegion(want[i:j], got[i:j], 0); f != "" {
			d := &Diff{What: f, Want: w, Got: g, Index: i}
			if w != nil {
				d.Src = w.Src
			}
			return d
		}
		i = j
	}
	return nil
}

func listsEqual(a, b []WErr) bool {
	if len(a) != len(b) {
		return false
	}
	for i := range a {
		if a[i].K != b[i].K || a[i].Msg != b[i].Msg || a[i].Tag != b[i].Tag || !eqPath(a[i].Path, b[i].Path) {
			return false
		}
	}
	return true
}

// Verdict of one replayed vector.
//
//	Agree    "code"  the observed list is the mechanism's (with O1)
//	         "rfc"   it is the list under the RFC reading of O1 (the lists differ and the code follows the RFC)
//	         "rfc-case-when"  as one of the two, plus errors for the false whens on choices / cases (O2 repaired)
//	         ""      disagreement: see Diff
//	O1, O2   the vector exercises the oddity and the code shows it
type Verdict struct {
	Agree string
	O1    bool
	O2    bool
	Diff  *Diff
}

// Judge compares one observation with the vector.
func Judge(v Vec, o Obs) Verdict {
	if o.Panic != "" {
		return Verdict{Diff: &Diff{What: "panic", Got: &Err{K: "other", Path: []string{}, Msg: o.Panic}}}
	}
	differ := !listsEqual(v.Errs, v.Code)
	dc := Match(v.Code, o.Errs)
	if dc == nil {
		if o.Ok != (len(o.Errs) == 0) {
			return Verdict{Diff: &Diff{What: "ok-flag"}}
		}
		return Verdict{Agree: "code", O1: differ, O2: len(v.Cw) > 0}
	}
	if differ && Match(v.Errs, o.Errs) == nil {
		return Verdict{Agree: "rfc"}
	}
	if len(v.Cw) > 0 {
		// a repaired validator reports the ignored whens: take those errors out and compare again
		msgs := map[string]bool{}
		for _, t := range v.Cw {
			msgs[Clean("'when' condition is false: '"+t+"'")] = true
		}
		rest := []Err{}
		for _, e := range o.Errs {
			if e.K == "must" && msgs[e.Msg] {
				continue
			}
			rest = append(rest, e)
		}
		if len(rest) < len(o.Errs) && (Match(v.Code, rest) == nil || Match(v.Errs, rest) == nil) {
			return Verdict{Agree: "rfc-case-when"}
		}
	}
	return Verdict{Diff: dc}
}

// Describe renders a diff for the report.
func (d *Diff) Describe() string {
	var b strings.Builder
	fmt.Fprintf(&b, "%s", d.What)
	if d.Want != nil {
		fmt.Fprintf(&b, "; prescribed %s error at /%s (%s, tag %q, message %q)", d.Want.K, strings.Join(d.Want.Path, "/"), d.Want.Src, d.Want.Tag, d.Want.Msg)
	} else {
		b.WriteString("; nothing more prescribed")
	}
	if d.Got != nil {
		fmt.Fprintf(&b, "; observed %s error at /%s (tag %q, message %q)", d.Got.K, strings.Join(d.Got.Path, "/"), d.Got.Tag, d.Got.Msg)
	} else {
		b.WriteString("; nothing more observed")
	}
	return b.String()
}
