package vxm

import (
	"fmt"
	"sort"
	"strings"

	"github.com/sdcio/yang-parser/schema"
	"github.com/sdcio/yang-parser/xpath/xutils"
)

// SView is the schema view of ValidateXPathShapes.tla (SW): what the schema walker XNode
// (node_xpath.go) shows of the compiled schema - children (as a set: Node.Children() ranges over a map), choices and cases
// looked through, names, the path from the start node, the kind flags.
type SView struct {
	N    string   `json:"n"`
	Xp   []string `json:"xp"`
	Leaf bool     `json:"leaf"`
	LL   bool     `json:"ll"`
	Npc  bool     `json:"npc"`
	Kids []SView  `json:"kids"`
}

// CheckXNode walks schema.NewXNode(ms, nil) along the view; the root's own name is not prescribed.
func CheckXNode(sh Shape, ms schema.ModelSet, v SView) (out []AMism, nodes int) {
	defer func() {
		if r := recover(); r != nil {
			out = append(out, AMism{At: "?", What: "panic", Want: "", Got: Clean(fmt.Sprint(r))})
		}
	}()
	root := schema.NewXNode(ms, nil)
	var walk func(x xutils.XpathNode, w SView, isRoot bool)
	walk = func(x xutils.XpathNode, w SView, isRoot bool) {
		nodes++
		at := strings.Join(w.Xp, "/")
		mis := func(what string, want, got interface{}) {
			out = append(out, AMism{At: at, What: what, Want: want, Got: got})
		}
		if !isRoot {
			if x.XName() != w.N {
				mis("name", w.N, x.XName())
			}
			// the path starts at the start node, whose name is not prescribed
			if xp := []string(x.XPath()); len(xp) != len(w.Xp)+1 || !eqPath(xp[1:], w.Xp) {
				mis("xpath", w.Xp, xp)
			}
			if x.XIsLeaf() != w.Leaf {
				mis("is-leaf", w.Leaf, x.XIsLeaf())
			}
			if x.XIsLeafList() != w.LL {
				mis("is-leaf-list", w.LL, x.XIsLeafList())
			}
			if x.XIsNonPresCont() != w.Npc {
				mis("is-np-container", w.Npc, x.XIsNonPresCont())
			}
		}
		if x.XRoot() != root {
			mis("root", "the start node", "another node")
		}
		if x.XIsEphemeral() {
			mis("ephemeral", false, true)
		}
		// Node.Children() ranges over a map: the children are prescribed as a set
		kids := x.XChildren(xutils.AllChildren, xutils.Sorted)
		byName := map[string]xutils.XpathNode{}
		names := []string{}
		for _, k := range kids {
			names = append(names, k.XName())
			byName[k.XName()] = k
		}
		wn := []string{}
		for _, k := range w.Kids {
			wn = append(wn, k.N)
		}
		sort.Strings(names)
		sort.Strings(wn)
		if !eqPath(names, wn) {
			mis("children", wn, names)
			return
		}
		for _, wk := range w.Kids {
			k := byName[wk.N]
			if k.XParent() != x {
				mis("parent", "XParent of a node that XChildren returned is the node asked", k.XName())
			}
			walk(k, wk, false)
		}
	}
	walk(root, v, true)
	return out, nodes
}
