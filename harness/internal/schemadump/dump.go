// Package schemadump writes a canonical, comparable form of a compiled
// schema.ModelSet: the schema-level tree (choices and cases kept as nodes,
// children sorted by name) with every attribute the public API exposes.
// It is an observation function only: nothing here decides a property.
package schemadump

import (
	"encoding/json"
	"fmt"
	"sort"
	"strconv"
	"strings"

	"github.com/sdcio/yang-parser/schema"
)

// When is one when-condition attached to a node.
type When struct {
	Text     string `json:"text"`
	Ns       string `json:"ns"`
	AsParent bool   `json:"asparent"`
	// Ctx is "parent" or "self" in a dump; a predicted schema may also say "any" (the statement does not fix
	// the context node of this when).
	Ctx string `json:"ctx"`
}

// Must is one must-condition attached to a node.
type Must struct {
	Text string `json:"text"`
	Ns   string `json:"ns"`
}

// Node is one schema node in canonical form.  Every kind carries every
// field (neutral value where the kind has no such attribute) so that the
// TLA+ side can treat nodes as uniform records.
type Node struct {
	Kind      string     `json:"kind"`
	Name      string     `json:"name"`
	Ns        string     `json:"ns"`
	Module    string     `json:"module"`
	Submodule string     `json:"submodule"`
	Config    bool       `json:"config"`
	Status    string     `json:"status"`
	Presence  bool       `json:"presence"`
	Mandatory bool       `json:"mandatory"`
	HasDef    bool       `json:"hasdef"`
	Def       string     `json:"def"`
	Keys      []string   `json:"keys"`
	Min       string     `json:"min"`
	Max       string     `json:"max"`
	OrdBy     string     `json:"ordby"`
	Uniques   [][]string `json:"uniques"`
	Type      string     `json:"type"`
	Musts     []Must     `json:"musts"`
	Whens     []When     `json:"whens"`
	Desc      string     `json:"desc"`
	Children  []*Node    `json:"children"`
}

func status(s schema.Status) string {
	switch s {
	case schema.Current:
		return "current"
	case schema.Deprecated:
		return "deprecated"
	case schema.Obsolete:
		return "obsolete"
	}
	return "status-" + strconv.Itoa(int(s))
}

func limit(v uint) string {
	if v == ^uint(0) {
		return "unbounded"
	}
	return strconv.FormatUint(uint64(v), 10)
}

// the text of a must/when as the compiler recorded it in the error message
func condText(msg string) string {
	for _, p := range []string{"'when' condition is false: '", "'must' condition is false: '"} {
		if strings.HasPrefix(msg, p) && strings.HasSuffix(msg, "'") {
			return msg[len(p) : len(msg)-1]
		}
	}
	return "msg:" + msg
}

// dataDescendants lists the data nodes (not choices/cases) reachable from a
// choice or case through choices and cases only: these are the nodes the
// schema package also lists ("flattened") among the children of the closest
// enclosing data node.
func dataDescendants(n schema.Node, out map[string]schema.Node) {
	for _, c := range n.Choices() {
		switch c.(type) {
		case schema.Choice, schema.Case:
			dataDescendants(c, out)
		default:
			out[c.Name()] = c
		}
	}
}

// SchemaChildren returns the schema-level children of a node: for a choice or
// case its members; for any other node its choices plus those children that
// are not members of one of its choices.  flatErr reports an inconsistency of
// the flattened view (a member of a choice that is not listed as a child of
// the enclosing data node, or listed as a different node).
func SchemaChildren(n schema.Node) (kids []schema.Node, flatErr string) {
	switch n.(type) {
	case schema.Choice, schema.Case:
		return n.Choices(), ""
	}
	under := map[string]schema.Node{}
	for _, c := range n.Choices() {
		kids = append(kids, c)
		dataDescendants(c, under)
	}
	seen := map[string]bool{}
	for _, c := range n.Children() {
		if m, ok := under[c.Name()]; ok {
			seen[c.Name()] = true
			if m != c {
				flatErr = "member " + c.Name() + " of a choice is listed as a different node"
			}
			continue
		}
		kids = append(kids, c)
	}
	for name := range under {
		if !seen[name] {
			flatErr = "member " + name + " of a choice is not listed below the enclosing data node"
		}
	}
	return kids, flatErr
}

func kind(n schema.Node) string {
	switch n.(type) {
	case schema.Container:
		return "container"
	case schema.List:
		return "list"
	case schema.LeafList:
		return "leaf-list"
	case schema.Leaf:
		return "leaf"
	case schema.Choice:
		return "choice"
	case schema.Case:
		return "case"
	case schema.OpdCommand:
		return "opd:command"
	case schema.OpdOption:
		return "opd:option"
	case schema.OpdArgument:
		return "opd:argument"
	case schema.Tree:
		return "tree"
	}
	return fmt.Sprintf("%T", n)
}

// DumpNode converts one schema node and its subtree.
func DumpNode(n schema.Node) *Node {
	d := &Node{
		Kind: kind(n), Name: n.Name(), Ns: n.Namespace(), Module: n.Module(), Submodule: n.Submodule(),
		Config: n.Config(), Status: status(n.Status()), Keys: []string{}, Min: "0", Max: "unbounded",
		OrdBy: "system", Uniques: [][]string{}, Musts: []Must{}, Whens: []When{}, Desc: n.Description(),
		Children: []*Node{},
	}
	switch v := n.(type) {
	case schema.Container:
		d.Presence = v.Presence()
	case schema.List:
		d.Keys = append(d.Keys, v.Keys()...)
		d.Min, d.Max = limit(v.Limit().Min), limit(v.Limit().Max)
		d.OrdBy = v.OrdBy()
		for _, u := range v.Uniques() {
			paths := []string{}
			for _, p := range u {
				steps := []string{}
				for _, s := range p {
					steps = append(steps, s.Local)
				}
				paths = append(paths, strings.Join(steps, "/"))
			}
			sort.Strings(paths)
			d.Uniques = append(d.Uniques, paths)
		}
		d.Uniques = sortUniques(d.Uniques)
	case schema.LeafList:
		d.Min, d.Max = limit(v.Limit().Min), limit(v.Limit().Max)
		d.OrdBy = v.OrdBy()
		if t := v.Type(); t != nil {
			d.Type = t.Name().Local
		}
	case schema.Leaf:
		d.Mandatory = v.Mandatory()
		d.Def, d.HasDef = v.Default()
		if t := v.Type(); t != nil {
			d.Type = t.Name().Local
		}
	case schema.Choice:
		d.Mandatory = v.Mandatory()
		d.Def = v.DefaultCase()
		d.HasDef = d.Def != ""
	case schema.OpdOption, schema.OpdArgument:
		if t := n.Type(); t != nil {
			d.Type = t.Name().Local
		}
	}
	for _, m := range n.Musts() {
		d.Musts = append(d.Musts, Must{Text: condText(m.ErrMsg), Ns: m.Namespace})
	}
	sort.Slice(d.Musts, func(i, j int) bool {
		return d.Musts[i].Text+"\x00"+d.Musts[i].Ns < d.Musts[j].Text+"\x00"+d.Musts[j].Ns
	})
	for _, w := range n.Whens() {
		ctx := "self"
		if w.RunAsParent {
			ctx = "parent"
		}
		d.Whens = append(d.Whens, When{Text: condText(w.ErrMsg), Ns: w.Namespace, AsParent: w.RunAsParent, Ctx: ctx})
	}
	sort.Slice(d.Whens, func(i, j int) bool {
		return d.Whens[i].Text+"\x00"+d.Whens[i].Ns < d.Whens[j].Text+"\x00"+d.Whens[j].Ns
	})
	kids, flatErr := SchemaChildren(n)
	if flatErr != "" {
		d.Desc += " [flatten: " + flatErr + "]"
	}
	for _, c := range kids {
		d.Children = append(d.Children, DumpNode(c))
	}
	SortChildren(d)
	return d
}

// sortUniques orders the unique constraints and drops repeated ones (the
// constraints of a list form a set).
func sortUniques(us [][]string) [][]string {
	sort.Slice(us, func(i, j int) bool {
		return strings.Join(us[i], " ") < strings.Join(us[j], " ")
	})
	out := [][]string{}
	for i, u := range us {
		if i > 0 && strings.Join(u, " ") == strings.Join(us[i-1], " ") {
			continue
		}
		out = append(out, u)
	}
	return out
}

// SortChildren orders the children of one node canonically (by name, then
// namespace, then kind).
func SortChildren(d *Node) {
	sort.SliceStable(d.Children, func(i, j int) bool {
		a, b := d.Children[i], d.Children[j]
		if a.Name != b.Name {
			return a.Name < b.Name
		}
		if a.Ns != b.Ns {
			return a.Ns < b.Ns
		}
		return a.Kind < b.Kind
	})
}

// pseudo makes a structural node (rpc, input, output, notification) out of a dumped tree.
func pseudo(kind, name, ns string, t *Node) *Node {
	t.Kind, t.Name, t.Ns = kind, name, ns
	return t
}

// Dump converts a whole model set: the root is a node of kind "tree"; besides the data tree it holds one node
// of kind "rpc" (children "input" and "output") per rpc and one of kind "notification" per notification, so
// that every tree the ModelSet exposes is covered.  The per-module trees (Modules()) must consist of the very
// nodes of the merged data tree; a deviation is reported in the root's description.
func Dump(ms schema.ModelSet) *Node {
	d := DumpNode(ms)
	d.Kind, d.Name = "tree", ""
	for ns, rpcs := range ms.Rpcs() {
		for name, r := range rpcs {
			rn := pseudo("rpc", name, ns, DumpNode(schema.Node(nil2tree(r.Input()))))
			rn.Children = []*Node{
				pseudo("input", "input", ns, DumpNode(nil2tree(r.Input()))),
				pseudo("output", "output", ns, DumpNode(nil2tree(r.Output()))),
			}
			d.Children = append(d.Children, rn)
		}
	}
	for ns, nots := range ms.Notifications() {
		for name, n := range nots {
			d.Children = append(d.Children, pseudo("notification", name, ns, DumpNode(nil2tree(n.Schema()))))
		}
	}
	SortChildren(d)
	// per-module trees
	owned := map[string]bool{}
	for mname, m := range ms.Modules() {
		for _, c := range m.Children() {
			owned[c.Name()] = true
			if ms.Child(c.Name()) != c {
				d.Desc += " [module-tree: " + mname + "/" + c.Name() + " is not the node of the merged tree]"
			}
		}
	}
	for _, c := range ms.Children() {
		if !owned[c.Name()] {
			d.Desc += " [module-tree: " + c.Name() + " is in no module's tree]"
		}
	}
	return d
}

var emptyTree, _ = schema.NewTree(nil)

func nil2tree(t schema.Tree) schema.Node {
	if t == nil {
		return emptyTree
	}
	return t
}

// Canon normalises a dump that came from elsewhere (the TLA+ side writes sets
// in arbitrary order): nil slices become empty, children, musts, whens and
// uniques are sorted.
func Canon(d *Node) {
	if d.Keys == nil {
		d.Keys = []string{}
	}
	if d.Uniques == nil {
		d.Uniques = [][]string{}
	}
	if d.Musts == nil {
		d.Musts = []Must{}
	}
	if d.Whens == nil {
		d.Whens = []When{}
	}
	if d.Children == nil {
		d.Children = []*Node{}
	}
	for _, u := range d.Uniques {
		sort.Strings(u)
	}
	d.Uniques = sortUniques(d.Uniques)
	sort.Slice(d.Musts, func(i, j int) bool {
		return d.Musts[i].Text+"\x00"+d.Musts[i].Ns < d.Musts[j].Text+"\x00"+d.Musts[j].Ns
	})
	sort.Slice(d.Whens, func(i, j int) bool {
		return d.Whens[i].Text+"\x00"+d.Whens[i].Ns < d.Whens[j].Text+"\x00"+d.Whens[j].Ns
	})
	for _, c := range d.Children {
		Canon(c)
	}
	SortChildren(d)
}

// JSON renders a dump on one line.
func JSON(d *Node) string {
	b, err := json.Marshal(d)
	if err != nil {
		panic(err)
	}
	return string(b)
}

// Difference names the first place where two canonical dumps differ.
type Difference struct {
	Path string `json:"path"` // slash-separated node names from the root
	Kind string `json:"kind"` // kind of the node at Path (of a, or of b if a lacks it)
	Attr string `json:"attr"` // attribute that differs; "children" when the child name sets differ
	A    string `json:"a"`
	B    string `json:"b"`
}

// Options selects attributes that are not compared.
type Options struct {
	IgnoreAsParent bool // do not compare the context flag of when conditions
	IgnoreCondNs   bool // do not compare the namespace that unprefixed names of must/when conditions resolve in
	ModelCtx       bool // the first dump is a prediction: its when conditions say "parent", "self" or "any" (not judged)
}

func whensStr(ws []When, o Options) string {
	parts := []string{}
	for _, w := range ws {
		s := w.Text
		if !o.IgnoreCondNs {
			s += "@" + w.Ns
		}
		if !o.IgnoreAsParent && w.AsParent {
			s += "@parent"
		}
		parts = append(parts, s)
	}
	sort.Strings(parts)
	return strings.Join(parts, " | ")
}

// whensAgree matches the when conditions of a prediction (model) with those of a dump as multisets of
// (text, namespace); a predicted context "parent" or "self" must be the dump's, "any" matches both.
func whensAgree(model, code []When) bool {
	if len(model) != len(code) {
		return false
	}
	used := make([]bool, len(code))
	match := func(m When, exact bool) bool {
		for i, c := range code {
			if used[i] || c.Text != m.Text || c.Ns != m.Ns {
				continue
			}
			if exact && c.Ctx != m.Ctx {
				continue
			}
			used[i] = true
			return true
		}
		return false
	}
	for _, m := range model {
		if m.Ctx != "any" && m.Ctx != "" && !match(m, true) {
			return false
		}
	}
	for _, m := range model {
		if (m.Ctx == "any" || m.Ctx == "") && !match(m, false) {
			return false
		}
	}
	return true
}

func whensCtxStr(ws []When) string {
	parts := []string{}
	for _, w := range ws {
		parts = append(parts, w.Text+"@"+w.Ns+"@"+w.Ctx)
	}
	sort.Strings(parts)
	return strings.Join(parts, " | ")
}

func mustsStr(ms []Must, o Options) string {
	parts := []string{}
	for _, m := range ms {
		if o.IgnoreCondNs {
			parts = append(parts, m.Text)
		} else {
			parts = append(parts, m.Text+"@"+m.Ns)
		}
	}
	return strings.Join(parts, " | ")
}

// with a prediction on the left the contexts of the when conditions are matched (see whensAgree)
func whenCtxA(a, b *Node, o Options) string {
	if !o.ModelCtx || whensAgree(a.Whens, b.Whens) {
		return ""
	}
	return whensCtxStr(a.Whens)
}

func whenCtxB(a, b *Node, o Options) string {
	if !o.ModelCtx || whensAgree(a.Whens, b.Whens) {
		return ""
	}
	return whensCtxStr(b.Whens)
}

func uniqStr(us [][]string) string {
	parts := []string{}
	for _, u := range us {
		parts = append(parts, strings.Join(u, " "))
	}
	return strings.Join(parts, " | ")
}

func names(cs []*Node) string {
	parts := []string{}
	for _, c := range cs {
		parts = append(parts, c.Name)
	}
	return strings.Join(parts, ",")
}

// Diff compares two canonical dumps attribute by attribute, top-down, and
// returns the first difference (nil if equal).
func Diff(a, b *Node, o Options) *Difference {
	return diff(a, b, "", o)
}

func diff(a, b *Node, path string, o Options) *Difference {
	attrs := []struct{ name, a, b string }{
		{"kind", a.Kind, b.Kind},
		{"name", a.Name, b.Name},
		{"namespace", a.Ns, b.Ns},
		{"module", a.Module, b.Module},
		{"submodule", a.Submodule, b.Submodule},
		{"config", strconv.FormatBool(a.Config), strconv.FormatBool(b.Config)},
		{"status", a.Status, b.Status},
		{"presence", strconv.FormatBool(a.Presence), strconv.FormatBool(b.Presence)},
		{"mandatory", strconv.FormatBool(a.Mandatory), strconv.FormatBool(b.Mandatory)},
		{"default", strconv.FormatBool(a.HasDef) + ":" + a.Def, strconv.FormatBool(b.HasDef) + ":" + b.Def},
		{"keys", strings.Join(a.Keys, " "), strings.Join(b.Keys, " ")},
		{"min-elements", a.Min, b.Min},
		{"max-elements", a.Max, b.Max},
		{"ordered-by", a.OrdBy, b.OrdBy},
		{"unique", uniqStr(a.Uniques), uniqStr(b.Uniques)},
		{"type", a.Type, b.Type},
		{"must", mustsStr(a.Musts, o), mustsStr(b.Musts, o)},
		{"when", whensStr(a.Whens, o), whensStr(b.Whens, o)},
		{"when-context", whenCtxA(a, b, o), whenCtxB(a, b, o)},
		{"description", a.Desc, b.Desc},
		{"children", names(a.Children), names(b.Children)},
	}
	for _, at := range attrs {
		if at.a != at.b {
			return &Difference{Path: path, Kind: a.Kind, Attr: at.name, A: at.a, B: at.b}
		}
	}
	for i := range a.Children {
		p := path + "/" + a.Children[i].Name
		if d := diff(a.Children[i], b.Children[i], p, o); d != nil {
			return d
		}
	}
	return nil
}
