// Package enm binds the Encoding spec (C19) to data/encoding: placeholder strings,
// tree conversion, schema compilation, token <-> byte conversion for JSON and XML and
// a panic-trapping decode call.  It only executes and records; every judgement is
// made by TLC (EncodingTrace).
package enm

import (
	"bytes"
	"encoding/json"
	"encoding/xml"
	"fmt"
	"io"
	"strconv"
	"strings"
	"unicode/utf8"

	"github.com/sdcio/yang-parser/compile"
	"github.com/sdcio/yang-parser/data/datanode"
	"github.com/sdcio/yang-parser/data/encoding"
	"github.com/sdcio/yang-parser/parse"
	"github.com/sdcio/yang-parser/schema"
)

// ---------------------------------------------------------------- placeholders

// Ph writes a string in the interchange alphabet: printable ASCII except the characters
// JSON or XML escape and '{' '}'; everything else becomes {HEX}.
func Ph(s string) string {
	var b strings.Builder
	for len(s) > 0 {
		r, n := utf8.DecodeRuneInString(s)
		if r == utf8.RuneError && n == 1 {
			fmt.Fprintf(&b, "{X%X}", s[0]) // invalid byte
			s = s[n:]
			continue
		}
		s = s[n:]
		if r >= 0x20 && r < 0x7f && !strings.ContainsRune("\"\\<>&'{}", r) {
			b.WriteRune(r)
		} else {
			fmt.Fprintf(&b, "{%X}", r)
		}
	}
	return b.String()
}

// Unph is the inverse of Ph.
func Unph(s string) string {
	if !strings.Contains(s, "{") {
		return s
	}
	var b strings.Builder
	for i := 0; i < len(s); {
		if s[i] == '{' {
			j := strings.IndexByte(s[i:], '}')
			if j > 0 {
				h := s[i+1 : i+j]
				if strings.HasPrefix(h, "X") {
					if v, err := strconv.ParseUint(h[1:], 16, 8); err == nil {
						b.WriteByte(byte(v))
						i += j + 1
						continue
					}
				} else if v, err := strconv.ParseUint(h, 16, 32); err == nil {
					b.WriteRune(rune(v))
					i += j + 1
					continue
				}
			}
		}
		b.WriteByte(s[i])
		i++
	}
	return b.String()
}

// ----------------------------------------------------------------------- trees

// Tree is a data tree in interchange form (strings with placeholders).
type Tree struct {
	N    string   `json:"n"`
	Vals []string `json:"vals"`
	Kids []*Tree  `json:"kids"`
}

var EmptyTree = &Tree{N: "", Vals: []string{}, Kids: []*Tree{}}

func (t *Tree) ToDataNode() datanode.DataNode {
	var kids []datanode.DataNode
	for _, k := range t.Kids {
		kids = append(kids, k.ToDataNode())
	}
	var vals []string
	for _, v := range t.Vals {
		vals = append(vals, Unph(v))
	}
	return datanode.CreateDataNode(Unph(t.N), kids, vals)
}

func FromDataNode(n datanode.DataNode) *Tree {
	t := &Tree{N: Ph(n.YangDataName()), Vals: []string{}, Kids: []*Tree{}}
	for _, v := range n.YangDataValues() {
		t.Vals = append(t.Vals, Ph(v))
	}
	for _, k := range n.YangDataChildren() {
		t.Kids = append(t.Kids, FromDataNode(k))
	}
	return t
}

// ---------------------------------------------------------------------- schema

func Compile(yangA, yangB string) (ms schema.ModelSet, err error) {
	defer func() {
		if r := recover(); r != nil {
			err = fmt.Errorf("panic compiling: %v", r)
		}
	}()
	trees := map[string]*parse.Tree{}
	for n, t := range map[string]string{"a": yangA, "b": yangB} {
		pt, e := parse.Parse(n+".yang", t, nil)
		if e != nil {
			return nil, e
		}
		trees[n] = pt
	}
	return compile.CompileParseTrees(nil, trees, compile.FeaturesFromNames(true), false, nil)
}

// ---------------------------------------------------------------------- codecs

var Encs = []string{"rfc", "json", "xml"}

func encType(enc string) encoding.EncType {
	switch enc {
	case "rfc":
		return encoding.RFC7951
	case "json":
		return encoding.JSON
	}
	return encoding.XML
}

// Encode runs the real encoder under a panic trap.
func Encode(enc string, sn schema.Node, n datanode.DataNode) (out []byte, panicked string) {
	defer func() {
		if r := recover(); r != nil {
			panicked = fmt.Sprint(r)
		}
	}()
	switch enc {
	case "rfc":
		out = encoding.ToRFC7951(sn, n)
	case "json":
		out = encoding.ToJSON(sn, n)
	default:
		out = encoding.ToXML(sn, n)
	}
	return
}

// Decode runs the real decoder under a panic trap: "tree", "error", "panic", or - value xor error -
// "tree-and-error" / "neither".
func Decode(enc string, sn schema.Node, in []byte) (out string, t *Tree, detail string) {
	defer func() {
		if r := recover(); r != nil {
			out, t, detail = "panic", EmptyTree, fmt.Sprint(r)
		}
	}()
	n, err := encoding.NewUnmarshaller(encType(enc)).SetValidation(schema.ValidateAll).Unmarshal(sn, in)
	if err != nil && n != nil {
		return "tree-and-error", FromDataNode(n), ""
	}
	if err != nil {
		msg := strings.SplitN(err.Error(), "\n", 2)[0]
		if len(msg) > 120 {
			msg = msg[:120]
		}
		return "error", EmptyTree, Ph(msg)
	}
	if n == nil {
		return "neither", EmptyTree, ""
	}
	return "tree", FromDataNode(n), ""
}

// ----------------------------------------------------------------- JSON tokens

// JTok is a JSON token class with its text: c in { } [ ] : , str num true false null raw.
type JTok struct {
	C string `json:"c"`
	S string `json:"s"`
}

// JSONBytes writes a token sequence (tokens separated by one space).
func JSONBytes(ts []JTok) []byte {
	var b bytes.Buffer
	for i, t := range ts {
		if i > 0 {
			b.WriteByte(' ')
		}
		switch t.C {
		case "str":
			q, _ := json.Marshal(Unph(t.S))
			b.Write(q)
		case "num", "raw":
			b.WriteString(Unph(t.S))
		default:
			b.WriteString(t.C)
		}
	}
	return b.Bytes()
}

// JSONTokens tokenises a document with encoding/json (numbers keep their literal); colons
// and commas, which the tokeniser checks but does not report, are put back.
func JSONTokens(in []byte) (ts []JTok, ok bool) {
	defer func() {
		if r := recover(); r != nil {
			ts, ok = nil, false
		}
	}()
	ts = []JTok{}
	dec := json.NewDecoder(bytes.NewReader(in))
	dec.UseNumber()
	type frame struct {
		obj   bool
		n     int  // values (or members) seen
		isKey bool // in an object: next string is a key
	}
	var st []frame
	before := func() { // separators before a value or key
		if len(st) == 0 {
			return
		}
		f := &st[len(st)-1]
		if f.obj {
			if f.isKey {
				if f.n > 0 {
					ts = append(ts, JTok{",", ""})
				}
			} else {
				ts = append(ts, JTok{":", ""})
			}
		} else if f.n > 0 {
			ts = append(ts, JTok{",", ""})
		}
	}
	after := func() { // a value or key was completed
		if len(st) == 0 {
			return
		}
		f := &st[len(st)-1]
		if f.obj {
			if f.isKey {
				f.isKey = false
			} else {
				f.isKey = true
				f.n++
			}
		} else {
			f.n++
		}
	}
	top := 0
	for {
		tok, err := dec.Token()
		if err == io.EOF {
			break
		}
		if err != nil {
			return nil, false
		}
		switch v := tok.(type) {
		case json.Delim:
			switch v {
			case '{', '[':
				before()
				ts = append(ts, JTok{string(v), ""})
				st = append(st, frame{obj: v == '{', isKey: v == '{'})
			default:
				ts = append(ts, JTok{string(v), ""})
				st = st[:len(st)-1]
				after()
			}
		case string:
			before()
			ts = append(ts, JTok{"str", Ph(v)})
			after()
		case json.Number:
			before()
			ts = append(ts, JTok{"num", Ph(v.String())})
			after()
		case bool:
			before()
			if v {
				ts = append(ts, JTok{"true", ""})
			} else {
				ts = append(ts, JTok{"false", ""})
			}
			after()
		case nil:
			before()
			ts = append(ts, JTok{"null", ""})
			after()
		}
		if len(st) == 0 {
			top++
		}
	}
	if len(st) != 0 || top != 1 {
		return nil, false
	}
	return ts, true
}

// ------------------------------------------------------------------ XML tokens

type XDecl struct {
	P   string `json:"p"`
	URI string `json:"uri"`
}

// XTok: c in start end text raw.
type XTok struct {
	C    string  `json:"c"`
	N    string  `json:"n"`
	NS   string  `json:"ns"`
	Decl []XDecl `json:"decl"`
	S    string  `json:"s"`
}

func XMLBytes(ts []XTok) []byte {
	var b bytes.Buffer
	for _, t := range ts {
		switch t.C {
		case "start":
			b.WriteString("<" + Unph(t.N))
			if t.NS != "" {
				b.WriteString(` xmlns="`)
				xml.EscapeText(&b, []byte(Unph(t.NS)))
				b.WriteString(`"`)
			}
			for _, d := range t.Decl {
				b.WriteString(" xmlns:" + Unph(d.P) + `="`)
				xml.EscapeText(&b, []byte(Unph(d.URI)))
				b.WriteString(`"`)
			}
			b.WriteString(">")
		case "end":
			b.WriteString("</" + Unph(t.N) + ">")
		case "text":
			xml.EscapeText(&b, []byte(Unph(t.S)))
		default:
			b.WriteString(Unph(t.S))
		}
	}
	return b.Bytes()
}

// XMLTokens tokenises with encoding/xml up to the end of the root element; comments,
// processing instructions and directives are dropped.  rest reports whether anything but
// white space follows the root element.
func XMLTokens(in []byte) (ts []XTok, ok bool) {
	defer func() {
		if r := recover(); r != nil {
			ts, ok = nil, false
		}
	}()
	ts = []XTok{}
	dec := xml.NewDecoder(bytes.NewReader(in))
	depth, seenRoot := 0, false
	for {
		tok, err := dec.Token()
		if err == io.EOF {
			break
		}
		if err != nil {
			return nil, false
		}
		switch v := tok.(type) {
		case xml.StartElement:
			if depth == 0 && seenRoot {
				// a second root: report it as it is (the spec calls that "trailing")
			}
			x := XTok{C: "start", N: Ph(v.Name.Local), NS: Ph(v.Name.Space), Decl: []XDecl{}}
			for _, a := range v.Attr {
				if a.Name.Space == "xmlns" {
					x.Decl = append(x.Decl, XDecl{Ph(a.Name.Local), Ph(a.Value)})
				}
			}
			ts = append(ts, x)
			depth++
			seenRoot = true
		case xml.EndElement:
			ts = append(ts, XTok{C: "end", N: Ph(v.Name.Local), Decl: []XDecl{}})
			depth--
		case xml.CharData:
			if depth == 0 {
				if len(bytes.TrimSpace(v)) == 0 {
					continue
				}
				if !seenRoot {
					return nil, false
				}
			}
			ts = append(ts, XTok{C: "text", S: Ph(string(v)), Decl: []XDecl{}})
		}
	}
	if depth != 0 || !seenRoot {
		return nil, false
	}
	return ts, true
}
