// Package ccm binds the CompilePipeline / PrefixScope specifications to the real
// compiler: it compiles a set of YANG texts through compile.CompileParseTrees,
// records the phase/key events of the verif hooks, and renders the returned
// ModelSet as a canonical dump.  (Own small dumper on purpose: the families
// C11/C15 must not depend on the fuller dumper of other families.)
package ccm

import (
	"encoding/json"
	"fmt"
	"regexp"
	"sort"
	"strings"
	"sync"

	"github.com/sdcio/yang-parser/compile"
	"github.com/sdcio/yang-parser/parse"
	"github.com/sdcio/yang-parser/schema"
	"github.com/sdcio/yang-parser/xpath"
)

// Mod is one YANG text; File is the name given to the parser (it appears in
// error locations), Name the module / submodule name.
type Mod struct {
	Name string `json:"name"`
	File string `json:"file"`
	Text string `json:"text"`
}

type Event struct {
	Phase string `json:"phase"`
	Key   string `json:"key"`
}

// Xp is one compiled expression found in the schema.
type Xp struct {
	Path  string   `json:"path"`  // /module:node/... of the node carrying it
	Kind  string   `json:"kind"`  // must | when | path
	Expr  string   `json:"expr"`  // Machine.GetExpr()
	Names []string `json:"names"` // "namespace local" of every Name-Push, in program order
}

type Result struct {
	Verdict string  `json:"verdict"` // ok | error | parse-error
	Err     string  `json:"err"`
	Dump    string  `json:"dump"` // canonical (unordered collections sorted)
	Raw     string  `json:"raw"`  // same, collections in the order the API returns them
	Events  []Event `json:"events"`
	Xps     []Xp    `json:"xps"`
}

// feats enables every feature except those whose local name is listed.
type feats struct{ off map[string]bool }

func (f feats) Status(name string) compile.FeatureStatus {
	if i := strings.LastIndex(name, ":"); i >= 0 && f.off[name[i+1:]] {
		return compile.DISABLED
	}
	return compile.ENABLED
}

var hookMu sync.Mutex

// Compile parses the texts and inserts the trees into the input map in the
// given order (indices into mods), then compiles.  Panics of the compiler are
// NOT recovered here: the caller runs this in a child process and a crash is
// attributed to the case.
func Compile(mods []Mod, order []int, off []string, wantXp bool) Result {
	hookMu.Lock()
	defer hookMu.Unlock()
	var res Result
	res.Events = []Event{}
	res.Xps = []Xp{}
	trees := make(map[string]*parse.Tree)
	for _, i := range order {
		m := mods[i]
		t, err := parse.Parse(m.File, m.Text, nil)
		if err != nil {
			res.Verdict, res.Err = "parse-error", err.Error()
			return res
		}
		trees[t.Root.Argument().String()] = t
	}
	compile.VerifSetPhaseTracer(func(phase, key string) {
		res.Events = append(res.Events, Event{phase, key})
	})
	defer compile.VerifSetPhaseTracer(nil)
	fc := feats{off: map[string]bool{}}
	for _, o := range off {
		fc.off[o] = true
	}
	ms, err := compile.CompileParseTrees(nil, trees, fc, false, nil)
	if err != nil {
		res.Verdict, res.Err = "error", err.Error()
		return res
	}
	res.Verdict = "ok"
	res.Dump = mustJSON(DumpModelSet(ms, true, nil))
	var xps []Xp
	res.Raw = mustJSON(DumpModelSet(ms, false, &xps))
	if wantXp {
		res.Xps = append(res.Xps, xps...)
	}
	return res
}

func mustJSON(v interface{}) string {
	b, err := json.Marshal(v)
	if err != nil {
		panic(err)
	}
	return string(b)
}

// ---- canonical dump ----

type D = map[string]interface{}

func DumpModelSet(ms schema.ModelSet, canon bool, xps *[]Xp) D {
	names := []string{}
	for n := range ms.Modules() {
		names = append(names, n)
	}
	sort.Strings(names)
	mods := []interface{}{}
	for _, n := range names {
		m := ms.Modules()[n]
		feats := append([]string{}, m.Features()...)
		devs := append([]string{}, m.Deviations()...)
		if canon {
			sort.Strings(feats)
			sort.Strings(devs)
		}
		rpcs := []string{}
		for r := range m.Rpcs() {
			rpcs = append(rpcs, r)
		}
		sort.Strings(rpcs)
		mods = append(mods, D{"module": n, "ns": m.Namespace(), "version": m.Version(), "features": feats,
			"deviations": devs, "rpcs": rpcs, "children": dumpChildren(m, "", canon, xps)})
	}
	subs := []string{}
	for s := range ms.Submodules() {
		subs = append(subs, s)
	}
	sort.Strings(subs)
	return D{"modules": mods, "submodules": subs}
}

func kindOf(n schema.Node) string {
	switch n.(type) {
	case schema.Container:
		return "container"
	case schema.List:
		return "list"
	case schema.LeafList:
		return "leaf-list"
	case schema.Leaf:
		return "leaf"
	case schema.Choice:
		return "choice"
	case schema.Case:
		return "case"
	}
	return fmt.Sprintf("%T", n)
}

func dumpChildren(n schema.Node, path string, canon bool, xps *[]Xp) []interface{} {
	chs := append([]schema.Node{}, n.Children()...)
	if canon {
		sort.SliceStable(chs, func(i, j int) bool {
			if chs[i].Name() != chs[j].Name() {
				return chs[i].Name() < chs[j].Name()
			}
			return chs[i].Namespace() < chs[j].Namespace()
		})
	}
	out := []interface{}{}
	for _, c := range chs {
		out = append(out, dumpNode(c, path, canon, xps))
	}
	return out
}

var reName = regexp.MustCompile(`(?m)^Name-Push\t\{(\S*) (\S+)\}$`)

func machNames(m *xpath.Machine) []string {
	out := []string{}
	for _, g := range reName.FindAllStringSubmatch(m.PrintMachine(), -1) {
		out = append(out, g[1]+" "+g[2])
	}
	return out
}

func dumpMach(m *xpath.Machine) D {
	if m == nil {
		return D{"expr": "<nil>"}
	}
	return D{"expr": m.GetExpr(), "prog": m.PrintMachine()}
}

func dumpNode(n schema.Node, path string, canon bool, xps *[]Xp) D {
	p := path + "/" + n.Module() + ":" + n.Name()
	d := D{"kind": kindOf(n), "name": n.Name(), "ns": n.Namespace(), "module": n.Module(), "submodule": n.Submodule(),
		"config": n.Config(), "status": n.Status().String(), "presence": n.HasPresence(), "mandatory": n.Mandatory(),
		"ordby": n.OrdBy()}
	if l, ok := n.(schema.Leaf); ok {
		def, has := l.Default()
		d["default"] = []interface{}{def, has}
	}
	if l, ok := n.(schema.List); ok {
		d["keys"] = l.Keys()
	}
	if c, ok := n.(schema.Choice); ok {
		d["defcase"] = c.DefaultCase()
	}
	musts := []interface{}{}
	for _, m := range n.Musts() {
		musts = append(musts, D{"m": dumpMach(m.Mach), "ns": m.Namespace, "msg": m.ErrMsg})
		if xps != nil && m.Mach != nil {
			*xps = append(*xps, Xp{p, "must", m.Mach.GetExpr(), machNames(m.Mach)})
		}
	}
	d["musts"] = musts
	whens := []interface{}{}
	for _, w := range n.Whens() {
		whens = append(whens, D{"m": dumpMach(w.Mach), "ns": w.Namespace, "asParent": w.RunAsParent})
		if xps != nil && w.Mach != nil {
			*xps = append(*xps, Xp{p, "when", w.Mach.GetExpr(), machNames(w.Mach)})
		}
	}
	d["whens"] = whens
	switch n.(type) {
	case schema.Leaf, schema.LeafList:
		if t := n.Type(); t != nil {
			d["type"] = dumpType(t, p, canon, xps)
		}
	}
	d["children"] = dumpChildren(n, p, canon, xps)
	return d
}

func dumpType(t schema.Type, p string, canon bool, xps *[]Xp) D {
	def, has := t.Default()
	d := D{"go": strings.TrimPrefix(fmt.Sprintf("%T", t), "*schema."), "name": t.Name().Space + ":" + t.Name().Local,
		"default": []interface{}{def, has}}
	switch x := t.(type) {
	case schema.Identityref:
		ids := []string{}
		for _, i := range x.Identities() {
			ids = append(ids, i.Module+"|"+i.Namespace+"|"+i.Val+"|"+i.Value)
		}
		if canon {
			sort.Strings(ids)
		}
		d["identities"] = ids
	case schema.Union:
		ts := []interface{}{}
		for _, m := range x.Typs() {
			ts = append(ts, dumpType(m, p, canon, xps))
		}
		d["members"] = ts
	case schema.Leafref:
		d["path"] = dumpMach(x.Mach())
		if xps != nil && x.Mach() != nil {
			*xps = append(*xps, Xp{p, "path", x.Mach().GetExpr(), machNames(x.Mach())})
		}
	case schema.Integer:
		d["ranges"] = fmt.Sprintf("%v", x.Ranges())
	case schema.Uinteger:
		d["ranges"] = fmt.Sprintf("%v", x.Ranges())
	case schema.Decimal64:
		d["ranges"] = fmt.Sprintf("%v %v", x.Fd(), x.Ranges())
	case schema.String:
		pats := []string{}
		for _, ps := range x.Pats() {
			for _, q := range ps {
				pats = append(pats, q.Pattern)
			}
		}
		d["patterns"] = pats
		if l := x.Len(); l != nil {
			d["length"] = fmt.Sprintf("%v", l.Lbs)
		}
	case schema.Enumeration:
		es := []string{}
		for _, e := range x.Enums() {
			es = append(es, e.Val)
		}
		d["enums"] = es
	}
	return d
}
