// Package tym binds the YangTypes specification to the real compiler and type
// validators: it renders an abstract typedef chain (the JSON form written by
// TLC) to YANG modules, compiles them with the repository's compiler and
// observes Type().Validate / Default() of the compiled leaf.  It contains no
// expectations: every verdict is judged by the specification.
package tym

import (
	"fmt"
	"strings"

	"github.com/danos/mgmterror"
	"github.com/danos/utils/pathutil"
	"github.com/sdcio/yang-parser/compile"
	"github.com/sdcio/yang-parser/parse"
	"github.com/sdcio/yang-parser/schema"
)

type Cps []int32

func (c Cps) String() string { return string([]rune(c)) }

func ToCps(s string) Cps {
	out := Cps{}
	for _, r := range s {
		out = append(out, r)
	}
	return out
}

type PartSpec struct {
	Lo     Cps  `json:"lo"`
	Hi     Cps  `json:"hi"`
	Single bool `json:"single"`
}

type PatSpec struct {
	Txt Cps    `json:"txt"`
	Msg string `json:"msg"`
	Tag string `json:"tag"`
	// re (the abstract syntax) is only read by the specification
	Re interface{} `json:"re"`
}

type IdName struct {
	M string `json:"m"`
	N string `json:"n"`
}

type Level struct {
	Fd      int        `json:"fd"`
	Enums   []Cps      `json:"enums"`
	Members []Chain    `json:"members"`
	IdBase  IdName     `json:"idbase"`
	Rng     []PartSpec `json:"rng"`
	Rmsg    string     `json:"rmsg"`
	Rtag    string     `json:"rtag"`
	Len     []PartSpec `json:"len"`
	Lmsg    string     `json:"lmsg"`
	Ltag    string     `json:"ltag"`
	Pats    []PatSpec  `json:"pats"`
	HasDef  bool       `json:"hasDef"`
	Def     Cps        `json:"def"`
}

type Ident struct {
	M  string `json:"m"`
	N  string `json:"n"`
	Bm string `json:"bm"`
	Bn string `json:"bn"`
}

type Chain struct {
	K      string  `json:"k"`
	Mod    string  `json:"mod"`
	Lay    string  `json:"lay"`
	Idents []Ident `json:"idents"`
	Levels []Level `json:"levels"`
}

func quote(s string) string {
	s = strings.ReplaceAll(s, `\`, `\\`)
	s = strings.ReplaceAll(s, `"`, `\"`)
	return `"` + s + `"`
}

func parts(ps []PartSpec) string {
	var out []string
	for _, p := range ps {
		if p.Single {
			out = append(out, p.Lo.String())
		} else {
			out = append(out, p.Lo.String()+".."+p.Hi.String())
		}
	}
	return strings.Join(out, " | ")
}

func errSubs(msg, tag string) string {
	if msg == "" && tag == "" {
		return ";"
	}
	s := " {"
	if msg != "" {
		s += " error-message " + quote(msg) + ";"
	}
	if tag != "" {
		s += " error-app-tag " + quote(tag) + ";"
	}
	return s + " }"
}

type renderer struct {
	typedefs map[string][]string // module -> typedef statements
	n        int
}

func ref(ctxMod, m, n string) string {
	if m == ctxMod {
		return n
	}
	return m + ":" + n
}

// typeStmt renders `type <name> { ... }` for one level, written in module ctxMod
func (r *renderer) typeStmt(ctxMod, name string, l Level) string {
	var b strings.Builder
	if l.Fd != 0 {
		fmt.Fprintf(&b, " fraction-digits %d;", l.Fd)
	}
	if len(l.Rng) > 0 {
		b.WriteString(" range " + quote(parts(l.Rng)) + errSubs(l.Rmsg, l.Rtag))
	}
	if len(l.Len) > 0 {
		b.WriteString(" length " + quote(parts(l.Len)) + errSubs(l.Lmsg, l.Ltag))
	}
	for _, p := range l.Pats {
		b.WriteString(" pattern '" + p.Txt.String() + "'" + errSubs(p.Msg, p.Tag))
	}
	for _, e := range l.Enums {
		b.WriteString(" enum " + quote(e.String()) + ";")
	}
	if l.IdBase.N != "" {
		b.WriteString(" base " + ref(ctxMod, l.IdBase.M, l.IdBase.N) + ";")
	}
	for _, m := range l.Members {
		b.WriteString(" " + r.chainType(ctxMod, m, false))
	}
	if b.Len() == 0 {
		return "type " + name + ";"
	}
	return "type " + name + " {" + b.String() + " }"
}

func defStmt(l Level) string {
	if !l.HasDef {
		return ""
	}
	return " default " + quote(l.Def.String()) + ";"
}

// chainType emits the typedefs of all levels but the last and returns the type
// statement of the last level, written in module ctxMod.  With xmod the
// innermost typedef is written in module a and referenced through the prefix.
func (r *renderer) chainType(ctxMod string, c Chain, xmod bool) string {
	name := c.K
	for i, l := range c.Levels {
		if i == len(c.Levels)-1 {
			return r.typeStmt(ctxMod, name, l)
		}
		tm := ctxMod
		if xmod && i == 0 {
			tm = "a"
		}
		r.n++
		td := fmt.Sprintf("t%d", r.n)
		r.typedefs[tm] = append(r.typedefs[tm], fmt.Sprintf("typedef %s { %s%s }\n", td, r.typeStmt(tm, name, l), defStmt(l)))
		name = ref(ctxMod, tm, td)
	}
	return "type " + name + ";"
}

// Render gives the YANG modules of a chain: module name -> text.  The leaf is
// /c/x in module c.Mod.
func Render(c Chain) map[string]string {
	mods := map[string]string{}
	names := []string{"a"}
	if len(c.Idents) > 0 || c.Mod == "b" {
		names = append(names, "b")
	}
	r := &renderer{typedefs: map[string][]string{}}
	last := c.Levels[len(c.Levels)-1]
	ts := r.chainType(c.Mod, c, c.Lay == "xmod" && c.Mod == "b")
	for _, m := range names {
		var b strings.Builder
		fmt.Fprintf(&b, "module %s {\n  namespace \"urn:%s\";\n  prefix %s;\n", m, m, m)
		if m == "b" {
			b.WriteString("  import a { prefix a; }\n")
		}
		for _, id := range c.Idents {
			if id.M != m {
				continue
			}
			if id.Bn == "" {
				fmt.Fprintf(&b, "  identity %s;\n", id.N)
			} else {
				fmt.Fprintf(&b, "  identity %s { base %s; }\n", id.N, ref(m, id.Bm, id.Bn))
			}
		}
		local := c.Lay == "local" && m == c.Mod
		if !local {
			for _, td := range r.typedefs[m] {
				b.WriteString("  " + td)
			}
		}
		if m == c.Mod {
			b.WriteString("  container c {\n")
			if local {
				for _, td := range r.typedefs[m] {
					b.WriteString("    " + td)
				}
			}
			fmt.Fprintf(&b, "    leaf x { %s%s }\n  }\n", ts, defStmt(last))
		}
		b.WriteString("}\n")
		mods[m] = b.String()
	}
	return mods
}

// ProbeObs is what a caller of Type().Validate sees for one lexeme.
type ProbeObs struct {
	Ok   bool   `json:"ok"`
	Pc   string `json:"pc"` // where the error path points: value | leaf | other | none
	Path string `json:"path"`
	Msg  string `json:"msg"`
	Tag  string `json:"tag"`
	Err  string `json:"err,omitempty"`
}

// Obs is what the compiler and the compiled leaf show for one chain.
type Obs struct {
	Compiled bool              `json:"compiled"`
	Cerr     string            `json:"cerr,omitempty"`
	Panic    string            `json:"panic,omitempty"`
	HasDef   bool              `json:"hasDef"`
	Def      Cps               `json:"def"`
	TypeDef  bool              `json:"typeHasDef"`
	Probes   []ProbeObs        `json:"probes"`
	Yang     map[string]string `json:"yang,omitempty"`
}

type vctx struct{}

func (vctx) ErrorHelpText() []string    { return nil }
func (vctx) AllowIncompletePaths() bool { return false }

func ascii(s string) string {
	var b strings.Builder
	for _, r := range s {
		if r < 32 || r > 126 || r == '"' || r == '\\' {
			b.WriteByte('?')
		} else {
			b.WriteRune(r)
		}
	}
	return b.String()
}

func compileMods(mods map[string]string) (ms schema.ModelSet, err error, panicked string) {
	defer func() {
		if r := recover(); r != nil {
			panicked = fmt.Sprint(r)
		}
	}()
	trees := map[string]*parse.Tree{}
	for n, t := range mods {
		pt, perr := parse.Parse(n+".yang", t, nil)
		if perr != nil {
			return nil, perr, ""
		}
		trees[n] = pt
	}
	ms, err = compile.CompileParseTrees(nil, trees, compile.FeaturesFromNames(true), false, nil)
	return
}

func validate(t schema.Type, path []string, v string) (err error, panicked string) {
	defer func() {
		if r := recover(); r != nil {
			panicked = fmt.Sprint(r)
		}
	}()
	return t.Validate(vctx{}, path, v), ""
}

// Observe compiles the chain and validates every lexeme against the leaf's type.
func Observe(c Chain, lexemes []Cps, keepYang bool) Obs {
	o := Obs{Def: Cps{}, Probes: []ProbeObs{}}
	mods := Render(c)
	if keepYang {
		o.Yang = mods
	}
	ms, err, pan := compileMods(mods)
	if pan != "" {
		o.Panic = ascii(pan)
		o.Cerr = "panic"
		return o
	}
	if err != nil {
		o.Cerr = ascii(err.Error())
		if len(o.Cerr) > 300 {
			o.Cerr = o.Cerr[:300]
		}
		return o
	}
	cont := ms.Child("c")
	if cont == nil || cont.Child("x") == nil {
		o.Cerr = "leaf /c/x not found in the compiled schema"
		return o
	}
	leaf, ok := cont.Child("x").(schema.Leaf)
	if !ok {
		o.Cerr = "/c/x is not a leaf"
		return o
	}
	o.Compiled = true
	d, has := leaf.Default()
	o.HasDef, o.Def = has, ToCps(d)
	_, o.TypeDef = leaf.Type().Default()
	leafPath := []string{"c", "x"}
	for _, lx := range lexemes {
		v := lx.String()
		vpath := []string{"c", "x", v}
		verr, vp := validate(leaf.Type(), vpath, v)
		p := ProbeObs{Ok: verr == nil && vp == "", Pc: "none"}
		if vp != "" {
			p.Err = "panic: " + ascii(vp)
			p.Pc = "other"
		} else if verr != nil {
			p.Err = ascii(verr.Error())
			if len(p.Err) > 200 {
				p.Err = p.Err[:200]
			}
			p.Pc = "other"
			if f, ok := verr.(mgmterror.Formattable); ok {
				p.Msg, p.Tag = ascii(f.GetMessage()), ascii(f.GetAppTag())
				switch f.GetPath() {
				case pathutil.Pathstr(vpath):
					p.Pc = "value"
				case pathutil.Pathstr(leafPath):
					p.Pc = "leaf"
				}
				p.Path = ascii(f.GetPath())
			}
		}
		o.Probes = append(o.Probes, p)
	}
	return o
}
