// Package tym binds the YangTypes specification to the real compiler and type
// validators: it renders an abstract typedef chain (the JSON form written by
// TLC) to YANG modules, compiles them with the repository's compiler and
// observes Type().Validate / Default() of the compiled leaf.  It contains no
// expectations: every verdict is judged by the specification.
package tym

import (
	"encoding/json"
	"fmt"
	"sort"
	"strings"
	"sync"

	"github.com/danos/mgmterror"
	"github.com/danos/utils/pathutil"
	"github.com/sdcio/yang-parser/compile"
	"github.com/sdcio/yang-parser/parse"
	"github.com/sdcio/yang-parser/schema"
)

type Cps []int32

func (c Cps) String() string { return string([]rune(c)) }

func ToCps(s string) Cps {
	out := Cps{}
	for _, r := range s {
		out = append(out, r)
	}
	return out
}

type PartSpec struct {
	Lo     Cps  `json:"lo"`
	Hi     Cps  `json:"hi"`
	Single bool `json:"single"`
}

type PatSpec struct {
	Txt Cps    `json:"txt"`
	Msg string `json:"msg"`
	Tag string `json:"tag"`
	// re (the abstract syntax) is only read by the specification
	Re interface{} `json:"re"`
}

type IdName struct {
	M string `json:"m"`
	N string `json:"n"`
}

type Level struct {
	Fd      int        `json:"fd"`
	Enums   []Cps      `json:"enums"`
	Members []Chain    `json:"members"`
	IdBase  IdName     `json:"idbase"`
	Rng     []PartSpec `json:"rng"`
	Rmsg    string     `json:"rmsg"`
	Rtag    string     `json:"rtag"`
	Len     []PartSpec `json:"len"`
	Lmsg    string     `json:"lmsg"`
	Ltag    string     `json:"ltag"`
	Pats    []PatSpec  `json:"pats"`
	HasDef  bool       `json:"hasDef"`
	Def     Cps        `json:"def"`
}

type Ident struct {
	M  string `json:"m"`
	N  string `json:"n"`
	Bm string `json:"bm"`
	Bn string `json:"bn"`
}

type Chain struct {
	K   string `json:"k"`
	Mod string `json:"mod"`
	Lay string `json:"lay"`
	// Ctx: what else the leaf statement carries and where it stands (mandatory, config false, status, if-feature,
	// inside a choice, under a list, through a grouping ...); "" = a plain leaf of the container
	Ctx    string  `json:"ctx"`
	Idents []Ident `json:"idents"`
	Levels []Level `json:"levels"`
}

func quote(s string) string {
	s = strings.ReplaceAll(s, `\`, `\\`)
	s = strings.ReplaceAll(s, `"`, `\"`)
	return `"` + s + `"`
}

func parts(ps []PartSpec) string {
	var out []string
	for _, p := range ps {
		if p.Single {
			out = append(out, p.Lo.String())
		} else {
			out = append(out, p.Lo.String()+".."+p.Hi.String())
		}
	}
	return strings.Join(out, " | ")
}

func errSubs(msg, tag string) string {
	if msg == "" && tag == "" {
		return ";"
	}
	s := " {"
	if msg != "" {
		s += " error-message " + quote(msg) + ";"
	}
	if tag != "" {
		s += " error-app-tag " + quote(tag) + ";"
	}
	return s + " }"
}

type typedefStmt struct {
	text  string
	local bool
}

type renderer struct {
	typedefs map[string][]typedefStmt // module -> typedef statements
	memo     map[string]string        // (module, scope, built-in, levels so far) -> typedef name
	cnt      map[string]int           // module -> typedefs named so far
}

func ref(ctxMod, m, n string) string {
	if m == ctxMod {
		return n
	}
	return m + ":" + n
}

// typeStmt renders `type <name> { ... }` for one level, written in module ctxMod
func (r *renderer) typeStmt(ctxMod, name string, l Level, local bool) string {
	var b strings.Builder
	if l.Fd != 0 {
		fmt.Fprintf(&b, " fraction-digits %d;", l.Fd)
	}
	if len(l.Rng) > 0 {
		b.WriteString(" range " + quote(parts(l.Rng)) + errSubs(l.Rmsg, l.Rtag))
	}
	if len(l.Len) > 0 {
		b.WriteString(" length " + quote(parts(l.Len)) + errSubs(l.Lmsg, l.Ltag))
	}
	for _, p := range l.Pats {
		b.WriteString(" pattern '" + p.Txt.String() + "'" + errSubs(p.Msg, p.Tag))
	}
	for _, e := range l.Enums {
		b.WriteString(" enum " + quote(e.String()) + ";")
	}
	if l.IdBase.N != "" {
		b.WriteString(" base " + ref(ctxMod, l.IdBase.M, l.IdBase.N) + ";")
	}
	for _, m := range l.Members {
		// a member written in module b may reach its innermost typedef in module a (lay xmod), like a leaf's chain
		b.WriteString(" " + r.chainType(ctxMod, m, m.Lay == "xmod" && ctxMod == "b", local))
	}
	if b.Len() == 0 {
		return "type " + name + ";"
	}
	return "type " + name + " {" + b.String() + " }"
}

func defStmt(l Level) string {
	if !l.HasDef {
		return ""
	}
	return " default " + quote(l.Def.String()) + ";"
}

// chainType emits the typedefs of all levels but the last and returns the type
// statement of the last level, written in module ctxMod.  With xmod the
// innermost typedef is written in module a and referenced through the prefix.
// Chains of one module set that start with the same levels share those
// typedefs (the same typedef refined by several leaves).
func (r *renderer) chainType(ctxMod string, c Chain, xmod, local bool) string {
	name := c.K
	for i, l := range c.Levels {
		if i == len(c.Levels)-1 {
			return r.typeStmt(ctxMod, name, l, local)
		}
		tm, tlocal := ctxMod, local
		if xmod && i == 0 {
			tm, tlocal = "a", false
		}
		prefix, _ := json.Marshal(c.Levels[:i+1])
		key := fmt.Sprintf("%s|%v|%v|%s|%s", tm, tlocal, xmod && i > 0, c.K, prefix)
		td, ok := r.memo[key]
		if !ok {
			// typedefs are numbered per module: a:t1 and b:t1 are different types with the same local name
			r.cnt[tm]++
			td = fmt.Sprintf("t%d", r.cnt[tm])
			r.memo[key] = td
			r.typedefs[tm] = append(r.typedefs[tm], typedefStmt{
				text:  fmt.Sprintf("typedef %s { %s%s }\n", td, r.typeStmt(tm, name, l, tlocal), defStmt(l)),
				local: tlocal})
		}
		name = ref(ctxMod, tm, td)
	}
	return "type " + name + ";"
}

// ContainerOf is the container that holds the leaves of a module.
func ContainerOf(mod string) string {
	if mod == "b" {
		return "d"
	}
	return "c"
}

// leafPlace renders leaf x<i> of a chain in its context and gives the data path of the leaf.  body is the text
// between the braces of the leaf statement (type and default).  The context only adds what a leaf may carry
// besides its type (mandatory, config, status, if-feature) or puts the leaf somewhere else in the container
// (choice / case, list entry, presence container, grouping + uses, refine); needsFeature: the module must define
// feature ft.
func leafPlace(ctx string, i int, cont, body string) (stmt string, path []string, needsFeature bool) {
	x := fmt.Sprintf("x%d", i)
	leaf := func(extra string) string { return fmt.Sprintf("leaf %s { %s%s }", x, body, extra) }
	path = []string{cont, x}
	switch ctx {
	case "", "plain":
		stmt = leaf("")
	case "mandatory":
		stmt = leaf(" mandatory true;")
	case "config-false":
		stmt = leaf(" config false;")
	case "state-mandatory":
		stmt = leaf(" config false; mandatory true;")
	case "deprecated":
		stmt = leaf(" status deprecated;")
	case "obsolete":
		stmt = leaf(" status obsolete;")
	case "if-feature":
		stmt, needsFeature = leaf(" if-feature ft;"), true
	case "mandatory-if-feature":
		stmt, needsFeature = leaf(" if-feature ft; mandatory true;"), true
	case "case":
		stmt = fmt.Sprintf("choice ch%d { case k%d { %s } case o%d { leaf y%d { type string; } } }", i, i, leaf(""), i, i)
	case "short-case":
		stmt = fmt.Sprintf("choice ch%d { %s leaf y%d { type string; } }", i, leaf(""), i)
	case "case-mandatory":
		stmt = fmt.Sprintf("choice ch%d { case k%d { %s } case o%d { leaf y%d { type string; } } }", i, i, leaf(" mandatory true;"), i, i)
	case "default-case":
		stmt = fmt.Sprintf("choice ch%d { default k%d; case k%d { %s } case o%d { leaf y%d { type string; } } }", i, i, i, leaf(""), i, i)
	case "list":
		stmt = fmt.Sprintf("list l%d { key \"k\"; leaf k { type string; } %s }", i, leaf(""))
		path = []string{cont, fmt.Sprintf("l%d", i), "e1", x}
	case "list-mandatory":
		stmt = fmt.Sprintf("list l%d { key \"k\"; leaf k { type string; } %s }", i, leaf(" mandatory true;"))
		path = []string{cont, fmt.Sprintf("l%d", i), "e1", x}
	case "presence":
		stmt = fmt.Sprintf("container p%d { presence \"p\"; %s }", i, leaf(""))
		path = []string{cont, fmt.Sprintf("p%d", i), x}
	case "presence-mandatory":
		stmt = fmt.Sprintf("container p%d { presence \"p\"; %s }", i, leaf(" mandatory true;"))
		path = []string{cont, fmt.Sprintf("p%d", i), x}
	case "uses":
		stmt = fmt.Sprintf("grouping g%d { %s } uses g%d;", i, leaf(""), i)
	case "uses-mandatory":
		stmt = fmt.Sprintf("grouping g%d { %s } uses g%d;", i, leaf(" mandatory true;"), i)
	case "refine-mandatory":
		stmt = fmt.Sprintf("grouping g%d { %s } uses g%d { refine %s { mandatory true; } }", i, leaf(""), i, x)
	default:
		stmt = leaf(" verif-unknown-context " + quote(ctx) + ";")
	}
	return
}

// LeafPath is the data path of leaf x<i> (1-based) of chain c.
func LeafPath(c Chain, i int) []string {
	_, p, _ := leafPlace(c.Ctx, i, ContainerOf(c.Mod), "")
	return p
}

// Render gives the YANG modules of a group of chains: module name -> text.
// Chain i becomes leaf x<i> in container /c (module a) or /d (module b), in the
// order given, placed as its context says.
func Render(cs []Chain) map[string]string {
	mods := map[string]string{}
	names := []string{"a"}
	var idents []Ident
	needB := false
	for _, c := range cs {
		if len(c.Idents) > len(idents) {
			idents = c.Idents
		}
		needB = needB || len(c.Idents) > 0 || c.Mod == "b"
	}
	if needB {
		names = append(names, "b")
	}
	r := &renderer{typedefs: map[string][]typedefStmt{}, memo: map[string]string{}, cnt: map[string]int{}}
	leaves := map[string][]string{}
	feature := map[string]bool{}
	for i, c := range cs {
		last := c.Levels[len(c.Levels)-1]
		ts := r.chainType(c.Mod, c, c.Lay == "xmod" && c.Mod == "b", c.Lay == "local")
		stmt, _, nf := leafPlace(c.Ctx, i+1, ContainerOf(c.Mod), ts+defStmt(last))
		feature[c.Mod] = feature[c.Mod] || nf
		leaves[c.Mod] = append(leaves[c.Mod], "    "+stmt+"\n")
	}
	for _, m := range names {
		var b strings.Builder
		fmt.Fprintf(&b, "module %s {\n  namespace \"urn:%s\";\n  prefix %s;\n", m, m, m)
		if m == "b" {
			b.WriteString("  import a { prefix a; }\n")
		}
		if feature[m] {
			b.WriteString("  feature ft;\n")
		}
		for _, id := range idents {
			if id.M != m {
				continue
			}
			if id.Bn == "" {
				fmt.Fprintf(&b, "  identity %s;\n", id.N)
			} else {
				fmt.Fprintf(&b, "  identity %s { base %s; }\n", id.N, ref(m, id.Bm, id.Bn))
			}
		}
		for _, td := range r.typedefs[m] {
			if !td.local {
				b.WriteString("  " + td.text)
			}
		}
		if len(leaves[m]) > 0 {
			fmt.Fprintf(&b, "  container %s {\n", ContainerOf(m))
			for _, td := range r.typedefs[m] {
				if td.local {
					b.WriteString("    " + td.text)
				}
			}
			for _, l := range leaves[m] {
				b.WriteString(l)
			}
			b.WriteString("  }\n")
		}
		b.WriteString("}\n")
		mods[m] = b.String()
	}
	return mods
}

// findLeaf walks the compiled schema along the data path of a leaf (a list
// answers any entry name with its entry node).
func findLeaf(ms schema.ModelSet, path []string) (schema.Leaf, string) {
	var n schema.Node = ms.Child(path[0])
	for k := 1; n != nil && k < len(path); k++ {
		n = n.Child(path[k])
	}
	if n == nil {
		return nil, fmt.Sprintf("leaf /%s not found in the compiled schema", strings.Join(path, "/"))
	}
	leaf, ok := n.(schema.Leaf)
	if !ok {
		return nil, fmt.Sprintf("/%s is not a leaf", strings.Join(path, "/"))
	}
	return leaf, ""
}

// ProbeObs is what a caller of Type().Validate sees for one lexeme.
type ProbeObs struct {
	Ok   bool   `json:"ok"`
	Pc   string `json:"pc"` // where the error path points: value | leaf | other | none
	Path string `json:"path"`
	Msg  string `json:"msg"`
	Tag  string `json:"tag"`
	Err  string `json:"err,omitempty"`
}

// Obs is what the compiler and the compiled leaf show for one chain.
type Obs struct {
	Compiled bool              `json:"compiled"`
	Cerr     string            `json:"cerr,omitempty"`
	Panic    string            `json:"panic,omitempty"`
	HasDef   bool              `json:"hasDef"`
	Def      Cps               `json:"def"`
	TypeDef  bool              `json:"typeHasDef"`
	Passes   [][]ProbeObs      `json:"passes"` // one list per pass, each in the order of the lexemes
	Yang     map[string]string `json:"yang,omitempty"`
}

type vctx struct{}

func (vctx) ErrorHelpText() []string    { return nil }
func (vctx) AllowIncompletePaths() bool { return false }

func ascii(s string) string {
	var b strings.Builder
	for _, r := range s {
		if r < 32 || r > 126 || r == '"' || r == '\\' {
			b.WriteByte('?')
		} else {
			b.WriteRune(r)
		}
	}
	return b.String()
}

// compileMods parses the modules with shared interners (as compile.ParseModules
// does for a set of files) and compiles them together.
func compileMods(mods map[string]string) (ms schema.ModelSet, err error, panicked string) {
	defer func() {
		if r := recover(); r != nil {
			panicked = fmt.Sprint(r)
		}
	}()
	names := []string{}
	for n := range mods {
		names = append(names, n)
	}
	sort.Strings(names)
	si, ai := parse.NewStringInterner(), parse.NewArgInterner()
	trees := map[string]*parse.Tree{}
	for _, n := range names {
		pt, perr := parse.ParseWithInterners(n+".yang", mods[n], nil, si, ai)
		if perr != nil {
			return nil, perr, ""
		}
		trees[n] = pt
	}
	ms, err = compile.CompileParseTrees(nil, trees, compile.FeaturesFromNames(true, "a:ft", "b:ft"), false, nil)
	return
}

func validate(t schema.Type, path []string, v string) (err error, panicked string) {
	defer func() {
		if r := recover(); r != nil {
			panicked = fmt.Sprint(r)
		}
	}()
	return t.Validate(vctx{}, path, v), ""
}

// kept is what one Validate call returned, inspected only after the whole pass.
type kept struct {
	err error
	pan string
}

func inspect(k kept, vpath, leafPath []string) ProbeObs {
	p := ProbeObs{Ok: k.err == nil && k.pan == "", Pc: "none"}
	if k.pan != "" {
		p.Err = "panic: " + ascii(k.pan)
		p.Pc = "other"
	} else if k.err != nil {
		p.Err = ascii(k.err.Error())
		if len(p.Err) > 200 {
			p.Err = p.Err[:200]
		}
		p.Pc = "other"
		if f, ok := k.err.(mgmterror.Formattable); ok {
			p.Msg, p.Tag = ascii(f.GetMessage()), ascii(f.GetAppTag())
			switch f.GetPath() {
			case pathutil.Pathstr(vpath):
				p.Pc = "value"
			case pathutil.Pathstr(leafPath):
				p.Pc = "leaf"
			}
			p.Path = ascii(f.GetPath())
		}
	}
	return p
}

func validateTree(ms schema.ModelSet, vpath []string) (err error, panicked string) {
	defer func() {
		if r := recover(); r != nil {
			panicked = fmt.Sprint(r)
		}
	}()
	return ms.Validate(vctx{}, []string{}, vpath), ""
}

// Observe compiles the group of chains as one module set and validates, for
// every chain, its lexemes against the type of its own leaf.
//
// The outcome of Validate(type, path, value) is a function of its arguments
// only.  Every lexeme is therefore validated at a path of its own, a whole
// pass is run keeping every returned error, and the kept errors are inspected
// only after the pass: pass 1 calls leaf.Type().Validate in the given order,
// pass 2 calls ModelSet.Validate with the full path in reverse order.  Module
// sets with identities are compiled several times (the compiler walks the
// identities in map order) and every compilation is probed.  Each pass is
// reported in the order of the lexemes.
func Observe(cs []Chain, lexemes [][]Cps, keepYang bool) []Obs {
	out := make([]Obs, len(cs))
	for i := range out {
		out[i] = Obs{Def: Cps{}, Passes: [][]ProbeObs{}}
	}
	fail := func(cerr, pan string) []Obs {
		for i := range out {
			out[i].Compiled, out[i].Cerr, out[i].Panic, out[i].Passes = false, cerr, pan, [][]ProbeObs{}
		}
		return out
	}
	mods := Render(cs)
	if keepYang {
		for i := range out {
			out[i].Yang = mods
		}
	}
	repeats := 1
	for _, c := range cs {
		if len(c.Idents) > 0 {
			repeats = 4
		}
	}
	for rep := 0; rep < repeats; rep++ {
		ms, err, pan := compileMods(mods)
		if pan != "" {
			return fail("panic", ascii(pan))
		}
		if err != nil {
			cerr := ascii(err.Error())
			if len(cerr) > 300 {
				cerr = cerr[:300]
			}
			if rep > 0 {
				cerr = "repeated compilation of the same modules gave a different verdict: " + cerr
			}
			return fail(cerr, "")
		}
		leaves := make([]schema.Leaf, len(cs))
		for i, c := range cs {
			leaf, why := findLeaf(ms, LeafPath(c, i+1))
			if leaf == nil {
				return fail(why, "")
			}
			leaves[i] = leaf
		}
		for i, c := range cs {
			o, leaf := &out[i], leaves[i]
			d, has := leaf.Default()
			if rep == 0 {
				o.Compiled = true
				o.HasDef, o.Def = has, ToCps(d)
				_, o.TypeDef = leaf.Type().Default()
			} else if has != o.HasDef || d != o.Def.String() {
				return fail("repeated compilation of the same modules gave a different default", "")
			}
			leafPath := LeafPath(c, i+1)
			n := len(lexemes[i])
			vpaths := make([][]string, n)
			for k, lx := range lexemes[i] {
				vpaths[k] = append(append([]string{}, leafPath...), lx.String())
			}
			held := make([]kept, n)
			for k := 0; k < n; k++ {
				held[k].err, held[k].pan = validate(leaf.Type(), vpaths[k], vpaths[k][len(vpaths[k])-1])
			}
			pass := make([]ProbeObs, n)
			for k := 0; k < n; k++ {
				pass[k] = inspect(held[k], vpaths[k], leafPath)
			}
			o.Passes = append(o.Passes, pass)
			for k := n - 1; k >= 0; k-- {
				held[k].err, held[k].pan = validateTree(ms, vpaths[k])
			}
			pass = make([]ProbeObs, n)
			for k := 0; k < n; k++ {
				pass[k] = inspect(held[k], vpaths[k], leafPath)
			}
			o.Passes = append(o.Passes, pass)
		}
	}
	return out
}

// ObserveConcurrent validates the lexemes from many goroutines at once on a
// freshly compiled type (first use), for several compilations.  It reports two
// passes in the order of the lexemes: the conjunction and the disjunction of
// all verdicts seen for a lexeme (they are equal iff every goroutine of every
// round saw the same verdict); the error details are those of the first
// rejection seen.
func ObserveConcurrent(c Chain, lexemes []Cps, rounds, procs int, keepYang bool) Obs {
	o := Obs{Def: Cps{}, Passes: [][]ProbeObs{}}
	mods := Render([]Chain{c})
	if keepYang {
		o.Yang = mods
	}
	n := len(lexemes)
	leafPath := LeafPath(c, 1)
	vpaths := make([][]string, n)
	for k, lx := range lexemes {
		vpaths[k] = append(append([]string{}, leafPath...), lx.String())
	}
	all, some := make([]bool, n), make([]bool, n)
	first := make([]kept, n)
	for k := range all {
		all[k] = true
	}
	for r := 0; r < rounds; r++ {
		ms, err, pan := compileMods(mods)
		if pan != "" || err != nil {
			o.Compiled, o.Panic = false, ascii(pan)
			o.Cerr = "panic"
			if err != nil {
				o.Cerr = ascii(err.Error())
			}
			return o
		}
		leaf, why := findLeaf(ms, leafPath)
		if leaf == nil {
			o.Cerr = why
			return o
		}
		o.Compiled = true
		d, has := leaf.Default()
		o.HasDef, o.Def = has, ToCps(d)
		typ := leaf.Type()
		res := make([][]kept, procs)
		start := make(chan struct{})
		var wg sync.WaitGroup
		for g := 0; g < procs; g++ {
			wg.Add(1)
			go func(g int) {
				defer wg.Done()
				mine := make([]kept, n)
				<-start
				for j := 0; j < n; j++ {
					k := (j*7 + g*(n/procs+1)) % n // every goroutine walks the lexemes in an order of its own
					if n%7 == 0 {
						k = (j + g*(n/procs+1)) % n
					}
					mine[k].err, mine[k].pan = validate(typ, vpaths[k], vpaths[k][len(vpaths[k])-1])
				}
				res[g] = mine
			}(g)
		}
		close(start)
		wg.Wait()
		for g := 0; g < procs; g++ {
			for k := 0; k < n; k++ {
				ok := res[g][k].err == nil && res[g][k].pan == ""
				all[k] = all[k] && ok
				some[k] = some[k] || ok
				if !ok && first[k].err == nil && first[k].pan == "" {
					first[k] = res[g][k]
				}
			}
		}
	}
	pa, pb := make([]ProbeObs, n), make([]ProbeObs, n)
	for k := 0; k < n; k++ {
		rej := inspect(first[k], vpaths[k], leafPath)
		if all[k] {
			pa[k] = ProbeObs{Ok: true, Pc: "none"}
		} else {
			pa[k] = rej
		}
		if some[k] {
			pb[k] = ProbeObs{Ok: true, Pc: "none"}
		} else {
			pb[k] = rej
		}
	}
	o.Passes = [][]ProbeObs{pa, pb}
	return o
}
