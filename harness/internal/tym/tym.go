// Package tym binds the YangTypes specification to the real compiler and type
// validators: it renders an abstract typedef chain (the JSON form written by
// TLC) to YANG modules, compiles them with the repository's compiler and
// observes Type().Validate / Default() of the compiled leaf.  It contains no
// expectations: every verdict is judged by the specification.
package tym

import (
	"encoding/json"
	"fmt"
	"sort"
	"strings"
	"sync"

	"github.com/danos/mgmterror"
	"github.com/danos/utils/pathutil"
	"github.com/sdcio/yang-parser/compile"
	"github.com/sdcio/yang-parser/parse"
	"github.com/sdcio/yang-parser/schema"
)

type Cps []int32

func (c Cps) String() string { return string([]rune(c)) }

func ToCps(s string) Cps {
	out := Cps{}
	for _, r := range s {
		out = append(out, r)
	}
	return out
}

type PartSpec struct {
	Lo     Cps  `json:"lo"`
	Hi     Cps  `json:"hi"`
	Single bool `json:"single"`
}

type PatSpec struct {
	Txt Cps    `json:"txt"`
	Msg string `json:"msg"`
	Tag string `json:"tag"`
	// re (the abstract syntax) is only read by the specification
	Re interface{} `json:"re"`
}

type IdName struct {
	M string `json:"m"`
	N string `json:"n"`
}

type Level struct {
	Fd      int        `json:"fd"`
	Enums   []Cps      `json:"enums"`
	Members []Chain    `json:"members"`
	IdBase  IdName     `json:"idbase"`
	Rng     []PartSpec `json:"rng"`
	Rmsg    string     `json:"rmsg"`
	Rtag    string     `json:"rtag"`
	Len     []PartSpec `json:"len"`
	Lmsg    string     `json:"lmsg"`
	Ltag    string     `json:"ltag"`
	Pats    []PatSpec  `json:"pats"`
	HasDef  bool       `json:"hasDef"`
	Def     Cps        `json:"def"`
}

type Ident struct {
	M  string `json:"m"`
	N  string `json:"n"`
	Bm string `json:"bm"`
	Bn string `json:"bn"`
}

type Chain struct {
	K   string `json:"k"`
	Mod string `json:"mod"`
	Lay string `json:"lay"`
	// Ctx: what else the leaf statement carries and where it stands (mandatory, config false, status, if-feature,
	// inside a choice, under a list, through a grouping ...); "" = a plain leaf of the container
	Ctx    string  `json:"ctx"`
	Idents []Ident `json:"idents"`
	Levels []Level `json:"levels"`
}

func quote(s string) string {
	s = strings.ReplaceAll(s, `\`, `\\`)
	s = strings.ReplaceAll(s, `"`, `\"`)
	return `"` + s + `"`
}

func parts(ps []PartSpec) string {
	var out []string
	for _, p := range ps {
		if p.Single {
			out = append(out, p.Lo.String())
		} else {
			out = append(out, p.Lo.String()+".."+p.Hi.String())
		}
	}
	return strings.Join(out, " | ")
}

func errSubs(msg, tag string) string {
	if msg == "" && tag == "" {
		return ";"
	}
	s := " {"
	if msg != "" {
		s += " error-message " + quote(msg) + ";"
	}
	if tag != "" {
		s += " error-app-tag " + quote(tag) + ";"
	}
	return s + " }"
}

type typedefStmt struct {
	text  string
	local bool
}

type renderer struct {
	typedefs map[string][]typedefStmt   // module -> typedef statements
	memo     map[string]string          // (module, scope, naming, link spelling, referenced type, built-in, levels so far) -> typedef name
	cnt      map[string]int             // module -> typedefs numbered so far ("" = over all modules)
	taken    map[string]map[string]bool // module -> typedef names in use
}

// layout says where the typedefs of a chain are written and how they are named and referred to.  The meaning of a
// chain does not depend on it (the specification never looks inside).
//
//	top                          every typedef at module level of the module that holds the type statement
//	local                        every typedef inside the container of the leaf
//	xmod                         = xm-1-same-bare
//	xm-<s>-<naming>-<spelling>   the s innermost typedefs in module a, the others (and the type statement) in module
//	                             b; naming: same = typedefs are numbered per module (a:t1 and b:t1 are different
//	                             types with one local name), mirror = the typedefs of module b take the local names
//	                             of those of module a in reverse order (b:t2 <- b:t1 <- a:t1 <- a:t2 ...), uniq = no
//	                             local name occurs twice; spelling of a reference inside one module: bare (t1) or
//	                             own (with the module's own prefix, a:t1); a reference into the other module always
//	                             carries the prefix
type layout struct {
	split  int
	naming string
	own    bool
	local  bool
	bad    bool
	// the type statement itself stands in a submodule: whatever it refers to carries the prefix (belongs-to prefix)
	sub bool
}

func parseLay(lay string) layout {
	switch lay {
	case "", "top":
		return layout{naming: "same"}
	case "local":
		return layout{naming: "same", local: true}
	case "xmod":
		return layout{split: 1, naming: "same"}
	}
	f := strings.Split(lay, "-")
	lo := layout{naming: "same", bad: true}
	if len(f) == 4 && f[0] == "xm" && len(f[1]) == 1 && f[1][0] >= '0' && f[1][0] <= '9' {
		lo.split = int(f[1][0] - '0')
		lo.naming = f[2]
		lo.own = f[3] == "own"
		lo.bad = !(f[2] == "same" || f[2] == "mirror" || f[2] == "uniq") || !(f[3] == "own" || f[3] == "bare")
	}
	return lo
}

// ref: how module ctxMod refers to definition n of module m
func ref(ctxMod, m, n string, own bool) string {
	if m == ctxMod && !own {
		return n
	}
	return m + ":" + n
}

// typeStmt renders `type <name> { ... }` for one level, written in module ctxMod
func (r *renderer) typeStmt(ctxMod, name string, l Level, lo layout) string {
	var b strings.Builder
	if l.Fd != 0 {
		fmt.Fprintf(&b, " fraction-digits %d;", l.Fd)
	}
	if len(l.Rng) > 0 {
		b.WriteString(" range " + quote(parts(l.Rng)) + errSubs(l.Rmsg, l.Rtag))
	}
	if len(l.Len) > 0 {
		b.WriteString(" length " + quote(parts(l.Len)) + errSubs(l.Lmsg, l.Ltag))
	}
	for _, p := range l.Pats {
		b.WriteString(" pattern '" + p.Txt.String() + "'" + errSubs(p.Msg, p.Tag))
	}
	for _, e := range l.Enums {
		b.WriteString(" enum " + quote(e.String()) + ";")
	}
	if l.IdBase.N != "" {
		b.WriteString(" base " + ref(ctxMod, l.IdBase.M, l.IdBase.N, lo.own) + ";")
	}
	for _, m := range l.Members {
		// a member has a layout of its own (a member written in module b may reach typedefs of module a, like a
		// leaf's chain); the scope and a forced prefix come from the statement that holds it
		mlo := parseLay(m.Lay)
		mlo.local, mlo.sub = lo.local, lo.own && !mlo.own
		b.WriteString(" " + r.chainType(ctxMod, m, mlo))
	}
	if b.Len() == 0 {
		return "type " + name + ";"
	}
	return "type " + name + " {" + b.String() + " }"
}

func defStmt(l Level) string {
	if !l.HasDef {
		return ""
	}
	return " default " + quote(l.Def.String()) + ";"
}

// fresh gives a typedef name that is not in use in module tm: numbered per module (t1, t2 ...; the same local
// names come up in every module) or, with uniq, over all modules (u1, u2 ...).
func (r *renderer) fresh(tm string, uniq bool) string {
	for {
		var n string
		if uniq {
			r.cnt[""]++
			n = fmt.Sprintf("u%d", r.cnt[""])
		} else {
			r.cnt[tm]++
			n = fmt.Sprintf("t%d", r.cnt[tm])
		}
		if !r.taken[tm][n] {
			return n
		}
	}
}

// chainType emits the typedefs of all levels but the last and returns the type
// statement of the last level, written in module ctxMod; lo says in which
// module each typedef goes, how it is named and how the links are spelt.
// Chains of one module set that start with the same levels (in the same
// layout) share those typedefs (the same typedef refined by several leaves).
func (r *renderer) chainType(ctxMod string, c Chain, lo layout) string {
	if lo.bad {
		return "type verif-unknown-layout-" + c.Lay + ";"
	}
	split := lo.split
	if ctxMod != "b" {
		split = 0 // module a does not import module b
	}
	if split > len(c.Levels)-1 {
		split = len(c.Levels) - 1
	}
	pm, pn := "", c.K // the type the next level refers to: module ("" = built-in) and name
	names := make([]string, len(c.Levels))
	for i, l := range c.Levels {
		wm, wlocal := ctxMod, lo.local // where level i is written
		if i < split {
			wm, wlocal = "a", false
		}
		last := i == len(c.Levels)-1
		name := pn
		if pm != "" {
			name = ref(wm, pm, pn, lo.own || (last && lo.sub))
		}
		wlo := lo
		wlo.local, wlo.sub = wlocal, false
		if last {
			wlo.own = lo.own || lo.sub
			return r.typeStmt(ctxMod, name, l, wlo)
		}
		prefix, _ := json.Marshal(c.Levels[:i+1])
		key := fmt.Sprintf("%s|%v|%s|%v|%s|%s|%s", wm, wlocal, lo.naming, lo.own, name, c.K, prefix)
		td, ok := r.memo[key]
		if !ok {
			if r.taken[wm] == nil {
				r.taken[wm] = map[string]bool{}
			}
			td = ""
			if lo.naming == "mirror" && i >= split && 2*split-1-i >= 0 && !r.taken[wm][names[2*split-1-i]] {
				td = names[2*split-1-i]
			}
			if td == "" {
				td = r.fresh(wm, lo.naming == "uniq")
			}
			r.taken[wm][td] = true
			r.memo[key] = td
			r.typedefs[wm] = append(r.typedefs[wm], typedefStmt{
				text:  fmt.Sprintf("typedef %s { %s%s }\n", td, r.typeStmt(wm, name, l, wlo), defStmt(l)),
				local: wlocal})
		}
		names[i] = td
		pm, pn = wm, td
	}
	return "type " + pn + ";"
}

// ContainerOf is the container that holds the leaves of a module.
func ContainerOf(mod string) string {
	if mod == "b" {
		return "d"
	}
	return "c"
}

// leafPlace renders leaf x<i> of a chain in its context and gives the data path of the leaf.  body is the text
// between the braces of the leaf statement (type and default).  The context only adds what a leaf may carry
// besides its type (mandatory, config, status, if-feature) or puts the leaf somewhere else in the container
// (choice / case, list entry, presence container, grouping + uses, refine); needsFeature: the module must define
// feature ft.
//
// Contexts in which the leaf statement is WRITTEN somewhere else than in the container of its module mod (the leaf
// still belongs to mod: a node belongs to the module whose statements put it into the data tree): top gives the
// statements that go to the top level of another file (module a, or the submodule <mod>s of mod), stmt what stays in
// the container of mod (possibly nothing).
//
//	uses-foreign*    grouping written in module a, used in the container of module b (mod must be b)
//	augment          the leaf is added to container /c of module a by an augment statement of mod
//	submodule        the leaf stands in a container of its own in the submodule of mod
//	submodule-uses   grouping written in the submodule of mod, used in the container of mod
func leafPlace(ctx string, i int, mod, body string) (stmt string, path []string, needsFeature bool, top map[string]string) {
	cont := ContainerOf(mod)
	x := fmt.Sprintf("x%d", i)
	leaf := func(extra string) string { return fmt.Sprintf("leaf %s { %s%s }", x, body, extra) }
	path = []string{cont, x}
	top = map[string]string{}
	if WrittenIn(ctx, mod) != mod && WrittenIn(ctx, mod) != mod+"s" && mod != "b" {
		// module a does not import module b: not a context for a leaf of module a (the specification does not generate it)
		return leaf(" verif-context-needs-module-b " + quote(ctx) + ";"), path, false, top
	}
	switch ctx {
	case "uses-foreign":
		top["a"] = fmt.Sprintf("grouping gf%d { %s }", i, leaf(""))
		stmt = fmt.Sprintf("uses a:gf%d;", i)
	case "uses-foreign-mandatory":
		top["a"] = fmt.Sprintf("grouping gf%d { %s }", i, leaf(" mandatory true;"))
		stmt = fmt.Sprintf("uses a:gf%d;", i)
	case "uses-foreign-nested":
		top["a"] = fmt.Sprintf("grouping gi%d { %s } grouping go%d { uses gi%d; }", i, leaf(""), i, i)
		stmt = fmt.Sprintf("uses a:go%d;", i)
	case "uses-foreign-container":
		top["a"] = fmt.Sprintf("grouping gc%d { container w%d { %s } }", i, i, leaf(""))
		stmt = fmt.Sprintf("uses a:gc%d;", i)
		path = []string{cont, fmt.Sprintf("w%d", i), x}
	case "augment":
		top[mod] = fmt.Sprintf("augment \"/a:c\" { %s }", leaf(""))
		path = []string{"c", x}
	case "submodule":
		top[mod+"s"] = fmt.Sprintf("container s%d { %s }", i, leaf(""))
		path = []string{fmt.Sprintf("s%d", i), x}
	case "submodule-uses":
		top[mod+"s"] = fmt.Sprintf("grouping gs%d { %s }", i, leaf(""))
		stmt = fmt.Sprintf("uses gs%d;", i)
	case "", "plain":
		stmt = leaf("")
	case "mandatory":
		stmt = leaf(" mandatory true;")
	case "config-false":
		stmt = leaf(" config false;")
	case "state-mandatory":
		stmt = leaf(" config false; mandatory true;")
	case "deprecated":
		stmt = leaf(" status deprecated;")
	case "obsolete":
		stmt = leaf(" status obsolete;")
	case "if-feature":
		stmt, needsFeature = leaf(" if-feature ft;"), true
	case "mandatory-if-feature":
		stmt, needsFeature = leaf(" if-feature ft; mandatory true;"), true
	case "case":
		stmt = fmt.Sprintf("choice ch%d { case k%d { %s } case o%d { leaf y%d { type string; } } }", i, i, leaf(""), i, i)
	case "short-case":
		stmt = fmt.Sprintf("choice ch%d { %s leaf y%d { type string; } }", i, leaf(""), i)
	case "case-mandatory":
		stmt = fmt.Sprintf("choice ch%d { case k%d { %s } case o%d { leaf y%d { type string; } } }", i, i, leaf(" mandatory true;"), i, i)
	case "default-case":
		stmt = fmt.Sprintf("choice ch%d { default k%d; case k%d { %s } case o%d { leaf y%d { type string; } } }", i, i, i, leaf(""), i, i)
	case "list":
		stmt = fmt.Sprintf("list l%d { key \"k\"; leaf k { type string; } %s }", i, leaf(""))
		path = []string{cont, fmt.Sprintf("l%d", i), "e1", x}
	case "list-mandatory":
		stmt = fmt.Sprintf("list l%d { key \"k\"; leaf k { type string; } %s }", i, leaf(" mandatory true;"))
		path = []string{cont, fmt.Sprintf("l%d", i), "e1", x}
	case "presence":
		stmt = fmt.Sprintf("container p%d { presence \"p\"; %s }", i, leaf(""))
		path = []string{cont, fmt.Sprintf("p%d", i), x}
	case "presence-mandatory":
		stmt = fmt.Sprintf("container p%d { presence \"p\"; %s }", i, leaf(" mandatory true;"))
		path = []string{cont, fmt.Sprintf("p%d", i), x}
	case "uses":
		stmt = fmt.Sprintf("grouping g%d { %s } uses g%d;", i, leaf(""), i)
	case "uses-mandatory":
		stmt = fmt.Sprintf("grouping g%d { %s } uses g%d;", i, leaf(" mandatory true;"), i)
	case "refine-mandatory":
		stmt = fmt.Sprintf("grouping g%d { %s } uses g%d { refine %s { mandatory true; } }", i, leaf(""), i, x)
	default:
		stmt = leaf(" verif-unknown-context " + quote(ctx) + ";")
	}
	return
}

// WrittenIn is the file (module or submodule) that holds the leaf statement - and so its type statement - of a leaf
// of module mod in context ctx.
func WrittenIn(ctx, mod string) string {
	switch ctx {
	case "uses-foreign", "uses-foreign-mandatory", "uses-foreign-nested", "uses-foreign-container":
		return "a"
	case "submodule", "submodule-uses":
		return mod + "s"
	}
	return mod
}

// LeafPath is the data path of leaf x<i> (1-based) of chain c.
func LeafPath(c Chain, i int) []string {
	_, p, _, _ := leafPlace(c.Ctx, i, c.Mod, "")
	return p
}

// Render gives the YANG modules of a group of chains: module name -> text.
// Chain i becomes leaf x<i> in container /c (module a) or /d (module b), in the
// order given, placed as its context says.
func Render(cs []Chain) map[string]string {
	mods := map[string]string{}
	names := []string{"a"}
	var idents []Ident
	needB := false
	for _, c := range cs {
		if len(c.Idents) > len(idents) {
			idents = c.Idents
		}
		needB = needB || len(c.Idents) > 0 || c.Mod == "b"
	}
	if needB {
		names = append(names, "b")
	}
	r := &renderer{typedefs: map[string][]typedefStmt{}, memo: map[string]string{}, cnt: map[string]int{}, taken: map[string]map[string]bool{}}
	leaves := map[string][]string{}
	tops := map[string][]string{} // file -> statements at its top level
	feature := map[string]bool{}
	needC := false
	for i, c := range cs {
		last := c.Levels[len(c.Levels)-1]
		lo := parseLay(c.Lay)
		// the type statement is written in module a (foreign grouping), in the leaf's module, or in the submodule of the
		// leaf's module: from a submodule the definitions of its module are reached through the belongs-to prefix;
		// typedefs are module-level definitions unless the leaf statement stands in the container of its module
		wr := WrittenIn(c.Ctx, c.Mod)
		tm := c.Mod
		if wr == "a" {
			tm = "a"
		}
		if wr != c.Mod {
			lo.local = false
		}
		if wr == c.Mod+"s" {
			lo.sub = true
		}
		ts := r.chainType(tm, c, lo)
		stmt, path, nf, top := leafPlace(c.Ctx, i+1, c.Mod, ts+defStmt(last))
		feature[c.Mod] = feature[c.Mod] || nf
		if stmt != "" {
			leaves[c.Mod] = append(leaves[c.Mod], "    "+stmt+"\n")
		}
		for f, t := range top {
			tops[f] = append(tops[f], "  "+t+"\n")
		}
		needC = needC || path[0] == "c"
	}
	for _, m := range names {
		var b strings.Builder
		fmt.Fprintf(&b, "module %s {\n  namespace \"urn:%s\";\n  prefix %s;\n", m, m, m)
		if m == "b" {
			b.WriteString("  import a { prefix a; }\n")
		}
		if len(tops[m+"s"]) > 0 {
			fmt.Fprintf(&b, "  include %ss;\n", m)
		}
		if feature[m] {
			b.WriteString("  feature ft;\n")
		}
		for _, id := range idents {
			if id.M != m {
				continue
			}
			if id.Bn == "" {
				fmt.Fprintf(&b, "  identity %s;\n", id.N)
			} else {
				fmt.Fprintf(&b, "  identity %s { base %s; }\n", id.N, ref(m, id.Bm, id.Bn, false))
			}
		}
		for _, td := range r.typedefs[m] {
			if !td.local {
				b.WriteString("  " + td.text)
			}
		}
		for _, t := range tops[m] {
			b.WriteString(t)
		}
		if len(leaves[m]) > 0 || (m == "a" && needC) {
			fmt.Fprintf(&b, "  container %s {\n", ContainerOf(m))
			for _, td := range r.typedefs[m] {
				if td.local {
					b.WriteString("    " + td.text)
				}
			}
			for _, l := range leaves[m] {
				b.WriteString(l)
			}
			b.WriteString("  }\n")
		}
		b.WriteString("}\n")
		mods[m] = b.String()
		if len(tops[m+"s"]) > 0 {
			var sb strings.Builder
			fmt.Fprintf(&sb, "submodule %ss {\n  belongs-to %s { prefix %s; }\n", m, m, m)
			if m == "b" {
				sb.WriteString("  import a { prefix a; }\n")
			}
			for _, t := range tops[m+"s"] {
				sb.WriteString(t)
			}
			sb.WriteString("}\n")
			mods[m+"s"] = sb.String()
		}
	}
	return mods
}

// findLeaf walks the compiled schema along the data path of a leaf (a list
// answers any entry name with its entry node).
func findLeaf(ms schema.ModelSet, path []string) (schema.Leaf, string) {
	var n schema.Node = ms.Child(path[0])
	for k := 1; n != nil && k < len(path); k++ {
		n = n.Child(path[k])
	}
	if n == nil {
		return nil, fmt.Sprintf("leaf /%s not found in the compiled schema", strings.Join(path, "/"))
	}
	leaf, ok := n.(schema.Leaf)
	if !ok {
		return nil, fmt.Sprintf("/%s is not a leaf", strings.Join(path, "/"))
	}
	return leaf, ""
}

// ProbeObs is what a caller of Type().Validate sees for one lexeme.
type ProbeObs struct {
	Ok   bool   `json:"ok"`
	Pc   string `json:"pc"` // where the error path points: value | leaf | other | none
	Path string `json:"path"`
	Msg  string `json:"msg"`
	Tag  string `json:"tag"`
	Err  string `json:"err,omitempty"`
}

// Obs is what the compiler and the compiled leaf show for one chain.
type Obs struct {
	Compiled bool              `json:"compiled"`
	Cerr     string            `json:"cerr,omitempty"`
	Panic    string            `json:"panic,omitempty"`
	HasDef   bool              `json:"hasDef"`
	Def      Cps               `json:"def"`
	TypeDef  bool              `json:"typeHasDef"`
	Passes   [][]ProbeObs      `json:"passes"` // one list per pass, each in the order of the lexemes
	Yang     map[string]string `json:"yang,omitempty"`
}

type vctx struct{}

func (vctx) ErrorHelpText() []string    { return nil }
func (vctx) AllowIncompletePaths() bool { return false }

func ascii(s string) string {
	var b strings.Builder
	for _, r := range s {
		if r < 32 || r > 126 || r == '"' || r == '\\' {
			b.WriteByte('?')
		} else {
			b.WriteRune(r)
		}
	}
	return b.String()
}

// compileMods parses the modules with shared interners (as compile.ParseModules
// does for a set of files) and compiles them together.
func compileMods(mods map[string]string) (ms schema.ModelSet, err error, panicked string) {
	defer func() {
		if r := recover(); r != nil {
			panicked = fmt.Sprint(r)
		}
	}()
	names := []string{}
	for n := range mods {
		names = append(names, n)
	}
	sort.Strings(names)
	si, ai := parse.NewStringInterner(), parse.NewArgInterner()
	trees := map[string]*parse.Tree{}
	for _, n := range names {
		pt, perr := parse.ParseWithInterners(n+".yang", mods[n], nil, si, ai)
		if perr != nil {
			return nil, perr, ""
		}
		trees[n] = pt
	}
	ms, err = compile.CompileParseTrees(nil, trees, compile.FeaturesFromNames(true, "a:ft", "b:ft"), false, nil)
	return
}

func validate(t schema.Type, path []string, v string) (err error, panicked string) {
	defer func() {
		if r := recover(); r != nil {
			panicked = fmt.Sprint(r)
		}
	}()
	return t.Validate(vctx{}, path, v), ""
}

// kept is what one Validate call returned, inspected only after the whole pass.
type kept struct {
	err error
	pan string
}

func inspect(k kept, vpath, leafPath []string) ProbeObs {
	p := ProbeObs{Ok: k.err == nil && k.pan == "", Pc: "none"}
	if k.pan != "" {
		p.Err = "panic: " + ascii(k.pan)
		p.Pc = "other"
	} else if k.err != nil {
		p.Err = ascii(k.err.Error())
		if len(p.Err) > 200 {
			p.Err = p.Err[:200]
		}
		p.Pc = "other"
		if f, ok := k.err.(mgmterror.Formattable); ok {
			p.Msg, p.Tag = ascii(f.GetMessage()), ascii(f.GetAppTag())
			switch f.GetPath() {
			case pathutil.Pathstr(vpath):
				p.Pc = "value"
			case pathutil.Pathstr(leafPath):
				p.Pc = "leaf"
			}
			p.Path = ascii(f.GetPath())
		}
	}
	return p
}

func validateTree(ms schema.ModelSet, vpath []string) (err error, panicked string) {
	defer func() {
		if r := recover(); r != nil {
			panicked = fmt.Sprint(r)
		}
	}()
	return ms.Validate(vctx{}, []string{}, vpath), ""
}

// Observe compiles the group of chains as one module set and validates, for
// every chain, its lexemes against the type of its own leaf.
//
// The outcome of Validate(type, path, value) is a function of its arguments
// only.  Every lexeme is therefore validated at a path of its own, a whole
// pass is run keeping every returned error, and the kept errors are inspected
// only after the pass: pass 1 calls leaf.Type().Validate in the given order,
// pass 2 calls ModelSet.Validate with the full path in reverse order.  Module
// sets with identities are compiled several times (the compiler walks the
// identities in map order) and every compilation is probed.  Each pass is
// reported in the order of the lexemes.
func Observe(cs []Chain, lexemes [][]Cps, keepYang bool) []Obs {
	out := make([]Obs, len(cs))
	for i := range out {
		out[i] = Obs{Def: Cps{}, Passes: [][]ProbeObs{}}
	}
	fail := func(cerr, pan string) []Obs {
		for i := range out {
			out[i].Compiled, out[i].Cerr, out[i].Panic, out[i].Passes = false, cerr, pan, [][]ProbeObs{}
		}
		return out
	}
	mods := Render(cs)
	if keepYang {
		for i := range out {
			out[i].Yang = mods
		}
	}
	repeats := 1
	for _, c := range cs {
		if len(c.Idents) > 0 {
			repeats = 4
		}
	}
	for rep := 0; rep < repeats; rep++ {
		ms, err, pan := compileMods(mods)
		if pan != "" {
			return fail("panic", ascii(pan))
		}
		if err != nil {
			cerr := ascii(err.Error())
			if len(cerr) > 300 {
				cerr = cerr[:300]
			}
			if rep > 0 {
				cerr = "repeated compilation of the same modules gave a different verdict: " + cerr
			}
			return fail(cerr, "")
		}
		leaves := make([]schema.Leaf, len(cs))
		for i, c := range cs {
			leaf, why := findLeaf(ms, LeafPath(c, i+1))
			if leaf == nil {
				return fail(why, "")
			}
			leaves[i] = leaf
		}
		for i, c := range cs {
			o, leaf := &out[i], leaves[i]
			d, has := leaf.Default()
			if rep == 0 {
				o.Compiled = true
				o.HasDef, o.Def = has, ToCps(d)
				_, o.TypeDef = leaf.Type().Default()
			} else if has != o.HasDef || d != o.Def.String() {
				return fail("repeated compilation of the same modules gave a different default", "")
			}
			leafPath := LeafPath(c, i+1)
			n := len(lexemes[i])
			vpaths := make([][]string, n)
			for k, lx := range lexemes[i] {
				vpaths[k] = append(append([]string{}, leafPath...), lx.String())
			}
			held := make([]kept, n)
			for k := 0; k < n; k++ {
				held[k].err, held[k].pan = validate(leaf.Type(), vpaths[k], vpaths[k][len(vpaths[k])-1])
			}
			pass := make([]ProbeObs, n)
			for k := 0; k < n; k++ {
				pass[k] = inspect(held[k], vpaths[k], leafPath)
			}
			o.Passes = append(o.Passes, pass)
			for k := n - 1; k >= 0; k-- {
				held[k].err, held[k].pan = validateTree(ms, vpaths[k])
			}
			pass = make([]ProbeObs, n)
			for k := 0; k < n; k++ {
				pass[k] = inspect(held[k], vpaths[k], leafPath)
			}
			o.Passes = append(o.Passes, pass)
		}
	}
	return out
}

// Try compiles hand-written modules and reports, line by line, the compile
// verdict, the default of the leaf and what its type says to every value.
func Try(mods map[string]string, path, vals []string) []string {
	ms, err, pan := compileMods(mods)
	if pan != "" {
		return []string{"panic: " + pan}
	}
	if err != nil {
		return []string{"refused: " + err.Error()}
	}
	leaf, why := findLeaf(ms, path)
	if leaf == nil {
		return []string{"compiled; " + why}
	}
	d, has := leaf.Default()
	out := []string{fmt.Sprintf("compiled; default %q %v", d, has)}
	for _, v := range vals {
		e, p := validate(leaf.Type(), append(append([]string{}, path...), v), v)
		switch {
		case p != "":
			out = append(out, fmt.Sprintf("%q: panic %s", v, p))
		case e != nil:
			out = append(out, fmt.Sprintf("%q: rejected", v))
		default:
			out = append(out, fmt.Sprintf("%q: accepted", v))
		}
	}
	return out
}

// ObserveConcurrent validates the lexemes from many goroutines at once on a
// freshly compiled type (first use), for several compilations.  It reports two
// passes in the order of the lexemes: the conjunction and the disjunction of
// all verdicts seen for a lexeme (they are equal iff every goroutine of every
// round saw the same verdict); the error details are those of the first
// rejection seen.
func ObserveConcurrent(c Chain, lexemes []Cps, rounds, procs int, keepYang bool) Obs {
	o := Obs{Def: Cps{}, Passes: [][]ProbeObs{}}
	mods := Render([]Chain{c})
	if keepYang {
		o.Yang = mods
	}
	n := len(lexemes)
	leafPath := LeafPath(c, 1)
	vpaths := make([][]string, n)
	for k, lx := range lexemes {
		vpaths[k] = append(append([]string{}, leafPath...), lx.String())
	}
	all, some := make([]bool, n), make([]bool, n)
	first := make([]kept, n)
	for k := range all {
		all[k] = true
	}
	for r := 0; r < rounds; r++ {
		ms, err, pan := compileMods(mods)
		if pan != "" || err != nil {
			o.Compiled, o.Panic = false, ascii(pan)
			o.Cerr = "panic"
			if err != nil {
				o.Cerr = ascii(err.Error())
			}
			return o
		}
		leaf, why := findLeaf(ms, leafPath)
		if leaf == nil {
			o.Cerr = why
			return o
		}
		o.Compiled = true
		d, has := leaf.Default()
		o.HasDef, o.Def = has, ToCps(d)
		typ := leaf.Type()
		res := make([][]kept, procs)
		start := make(chan struct{})
		var wg sync.WaitGroup
		for g := 0; g < procs; g++ {
			wg.Add(1)
			go func(g int) {
				defer wg.Done()
				mine := make([]kept, n)
				<-start
				for j := 0; j < n; j++ {
					k := (j*7 + g*(n/procs+1)) % n // every goroutine walks the lexemes in an order of its own
					if n%7 == 0 {
						k = (j + g*(n/procs+1)) % n
					}
					mine[k].err, mine[k].pan = validate(typ, vpaths[k], vpaths[k][len(vpaths[k])-1])
				}
				res[g] = mine
			}(g)
		}
		close(start)
		wg.Wait()
		for g := 0; g < procs; g++ {
			for k := 0; k < n; k++ {
				ok := res[g][k].err == nil && res[g][k].pan == ""
				all[k] = all[k] && ok
				some[k] = some[k] || ok
				if !ok && first[k].err == nil && first[k].pan == "" {
					first[k] = res[g][k]
				}
			}
		}
	}
	pa, pb := make([]ProbeObs, n), make([]ProbeObs, n)
	for k := 0; k < n; k++ {
		rej := inspect(first[k], vpaths[k], leafPath)
		if all[k] {
			pa[k] = ProbeObs{Ok: true, Pc: "none"}
		} else {
			pa[k] = rej
		}
		if some[k] {
			pb[k] = ProbeObs{Ok: true, Pc: "none"}
		} else {
			pb[k] = rej
		}
	}
	o.Passes = [][]ProbeObs{pa, pb}
	return o
}
