// Package dvm binds the SchemaPath / DataValidate specifications (C17, C18) to
// the real schema package: schema records written by TLC are rendered to YANG
// text and compiled by the real compiler; data trees are built with
// datanode.CreateDataNode; errors are decoded into the terms of the spec.
package dvm

import (
	"fmt"
	"sort"
	"strings"

	"github.com/sdcio/yang-parser/compile"
	"github.com/sdcio/yang-parser/data/datanode"
	"github.com/sdcio/yang-parser/parse"
	"github.com/sdcio/yang-parser/schema"
)

// SNode is one schema node record of the spec (SchemaNodes.tla).
type SNode struct {
	Kind      string       `json:"kind"` // container list leaf leaflist choice case
	Name      string       `json:"name"`
	Presence  bool         `json:"presence"`
	Typ       string       `json:"typ"`  // string int8 empty boolean enum union or a typedef of one (t...), "-" for interior nodes
	Key       string       `json:"key"`  // key leaf of a single-key list
	Keys      []string     `json:"keys"` // the key statement (names in its order); empty in older records: Key alone
	Mandatory bool         `json:"mandatory"`
	Def       string       `json:"def"` // leaf default / default case, "" = none
	Min       int          `json:"min"`
	Max       int          `json:"max"` // 0 = unbounded
	Uniq      [][][]string `json:"uniq"`
	Kids      []SNode      `json:"kids"`
}

// Shape is a whole schema: the top-level nodes of one module.
type Shape struct {
	ID   int     `json:"id"`
	Kids []SNode `json:"kids"`
}

func renderNode(b *strings.Builder, n SNode, ind string) {
	w := func(f string, a ...interface{}) { fmt.Fprintf(b, ind+f+"\n", a...) }
	typ := func() {
		switch n.Typ {
		case "string", "int8", "empty", "boolean": // boolean: key leaves of the multi-key path shapes
			w("  type %s;", n.Typ)
		case "tstring", "tint8", "tempty", "tbool", "tenum", "tunion": // the same types reached through a typedef of the module
			w("  type %s;", n.Typ)
		case "enum", "union":
			w("  type %s", typeText[n.Typ])
		default:
			panic("dvm: unknown type " + n.Typ)
		}
	}
	kids := func() {
		for _, k := range n.Kids {
			renderNode(b, k, ind+"  ")
		}
	}
	minmax := func() {
		if n.Min > 0 {
			w("  min-elements %d;", n.Min)
		}
		if n.Max > 0 {
			w("  max-elements %d;", n.Max)
		}
	}
	switch n.Kind {
	case "container":
		w("container %s {", n.Name)
		if n.Presence {
			w("  presence \"p\";")
		}
		kids()
	case "list":
		w("list %s {", n.Name)
		w("  key \"%s\";", strings.Join(n.KeyStmt(), " "))
		for _, u := range n.Uniq {
			ps := []string{}
			for _, p := range u {
				ps = append(ps, strings.Join(p, "/"))
			}
			w("  unique \"%s\";", strings.Join(ps, " "))
		}
		minmax()
		kids()
	case "leaf":
		w("leaf %s {", n.Name)
		typ()
		if n.Mandatory {
			w("  mandatory true;")
		}
		if n.Def != "" {
			w("  default \"%s\";", n.Def)
		}
	case "leaflist":
		w("leaf-list %s {", n.Name)
		typ()
		minmax()
	case "choice":
		w("choice %s {", n.Name)
		if n.Mandatory {
			w("  mandatory true;")
		}
		if n.Def != "" {
			w("  default %s;", n.Def)
		}
		kids()
	case "case":
		w("case %s {", n.Name)
		kids()
	default:
		panic("dvm: unknown node kind " + n.Kind)
	}
	w("}")
}

// typeText: the YANG text of the types of SchemaNodes.tla that take sub-statements.
var typeText = map[string]string{
	"enum":  "enumeration { enum on; enum off; }",
	"union": "union { type int8; type boolean; }",
}

// KeyStmt: the key names of a list in the order of its key statement.
func (n SNode) KeyStmt() []string {
	if len(n.Keys) > 0 {
		return n.Keys
	}
	return []string{n.Key}
}

// RenderYang renders the schema records as the text of one YANG module.
func RenderYang(sh Shape) string {
	var b strings.Builder
	fmt.Fprintf(&b, "module v%d {\n  namespace \"urn:v%d\";\n  prefix v;\n", sh.ID, sh.ID)
	b.WriteString("  typedef tstring { type string; }\n  typedef tint8 { type int8; }\n  typedef tempty { type empty; }\n")
	b.WriteString("  typedef tbool { type boolean; }\n  typedef tenum { type " + typeText["enum"] + " }\n  typedef tunion { type " + typeText["union"] + " }\n")
	for _, k := range sh.Kids {
		renderNode(&b, k, "  ")
	}
	b.WriteString("}\n")
	return b.String()
}

// Compile parses and compiles the module with the real parser and compiler.
func Compile(sh Shape) (ms schema.ModelSet, err error) {
	defer func() {
		if r := recover(); r != nil {
			err = fmt.Errorf("panic while compiling: %v", r)
		}
	}()
	name := fmt.Sprintf("v%d", sh.ID)
	t, err := parse.Parse(name+".yang", RenderYang(sh), nil)
	if err != nil {
		return nil, err
	}
	return compile.CompileParseTrees(nil, map[string]*parse.Tree{name: t}, compile.FeaturesFromNames(true), false, nil)
}

// BaseType: a type reached through a typedef has the value space of its base.
func BaseType(t string) string {
	switch t {
	case "tstring":
		return "string"
	case "tint8":
		return "int8"
	case "tempty":
		return "empty"
	case "tbool":
		return "boolean"
	case "tenum":
		return "enum"
	case "tunion":
		return "union"
	}
	return t
}

// DNode is a data node of the spec: name, values (leaf, leaf-list), children.
type DNode struct {
	Name string   `json:"name"`
	Vals []string `json:"vals"`
	Kids []DNode  `json:"kids"`
}

// Build makes the real data tree; the synthetic root is named "root".
func Build(kids []DNode) datanode.DataNode {
	return datanode.CreateDataNode("root", buildKids(kids), nil)
}

func buildKids(kids []DNode) []datanode.DataNode {
	out := []datanode.DataNode{}
	for _, k := range kids {
		var vals []string
		if len(k.Vals) > 0 {
			vals = append(vals, k.Vals...)
		}
		out = append(out, datanode.CreateDataNode(k.Name, buildKids(k.Kids), vals))
	}
	return out
}

// Walk reads a (possibly decorated) data tree back through the DataNode interface.
func Walk(n datanode.DataNode) []DNode {
	out := []DNode{}
	for _, c := range n.YangDataChildren() {
		vals := append([]string{}, c.YangDataValues()...)
		out = append(out, DNode{Name: c.YangDataName(), Vals: vals, Kids: Walk(c)})
	}
	return out
}

// Canon: children of a node form a set in the spec; order them by name (and content)
// so that two trees can be compared.  Leaf-list value order is kept.
func Canon(kids []DNode) []DNode {
	out := make([]DNode, 0, len(kids))
	for _, k := range kids {
		v := k.Vals
		if v == nil {
			v = []string{}
		}
		out = append(out, DNode{Name: k.Name, Vals: v, Kids: Canon(k.Kids)})
	}
	sort.SliceStable(out, func(i, j int) bool { return Key(out[i]) < Key(out[j]) })
	return out
}

// Key is a canonical text of a (canonicalised) data node.
func Key(d DNode) string {
	var b strings.Builder
	b.WriteString("(" + d.Name)
	for _, v := range d.Vals {
		fmt.Fprintf(&b, " %q", v)
	}
	b.WriteString(" [")
	for _, k := range d.Kids {
		b.WriteString(Key(k))
	}
	b.WriteString("])")
	return b.String()
}

func KeyOf(kids []DNode) string {
	var b strings.Builder
	for _, k := range Canon(kids) {
		b.WriteString(Key(k))
	}
	return b.String()
}

// findChild: the schema child a data node name designates, looking through choices
// and cases (they do not appear in data).
func findChild(kids []SNode, name string) *SNode {
	for i := range kids {
		k := &kids[i]
		if k.Kind == "choice" || k.Kind == "case" {
			if r := findChild(k.Kids, name); r != nil {
				return r
			}
		} else if k.Name == name {
			return k
		}
	}
	return nil
}

// PruneNP removes non-presence containers without children (bottom-up): they carry no
// information in a YANG data tree, so a decorated tree with or without them is the same tree.
func PruneNP(sk []SNode, kids []DNode) []DNode {
	out := []DNode{}
	for _, d := range kids {
		s := findChild(sk, d.Name)
		if s == nil {
			out = append(out, d)
			continue
		}
		switch s.Kind {
		case "container":
			nk := PruneNP(s.Kids, d.Kids)
			if len(nk) == 0 && !s.Presence {
				continue
			}
			out = append(out, DNode{Name: d.Name, Vals: d.Vals, Kids: nk})
		case "list":
			es := []DNode{}
			for _, e := range d.Kids {
				es = append(es, DNode{Name: e.Name, Vals: e.Vals, Kids: PruneNP(s.Kids, e.Kids)})
			}
			out = append(out, DNode{Name: d.Name, Vals: d.Vals, Kids: es})
		default:
			out = append(out, d)
		}
	}
	return out
}
