package dvm

import (
	"math/rand"
)

// Seeded generators of inputs for the code -> model direction.  They only choose
// inputs; what the code answers is judged by the trace specifications.

// Visible: the data nodes directly addressable below kids (choices / cases looked through).
func Visible(kids []SNode) []SNode {
	out := []SNode{}
	for _, k := range kids {
		if k.Kind == "choice" || k.Kind == "case" {
			out = append(out, Visible(k.Kids)...)
		} else {
			out = append(out, k)
		}
	}
	return out
}

func allNames(kids []SNode, acc *[]string) {
	for _, k := range kids {
		*acc = append(*acc, k.Name)
		allNames(k.Kids, acc)
	}
}

// keyType: the type of the key leaf named name.
func keyType(l SNode, name string) string {
	for _, k := range Visible(l.Kids) {
		if k.Name == name {
			return k.Typ
		}
	}
	return "string"
}

var intToks = []string{"5", "7", "-3"}

// string values include tokens with URL-significant characters (errors render paths with an escaper)
var specialToks = []string{"a+b", "a b", "%2F/:@", "=&$?#;,", "x%y+z w"}
var strToks = append([]string{"5", "bad", "kv", "7", ""}, specialToks...)

func validValue(r *rand.Rand, typ string) string {
	switch BaseType(typ) {
	case "int8":
		return intToks[r.Intn(len(intToks))]
	case "empty":
		return "" // the one lexical value of type empty
	case "boolean":
		return []string{"true", "false"}[r.Intn(2)]
	case "enum":
		return []string{"on", "off"}[r.Intn(2)]
	case "union": // of int8 and boolean
		return append([]string{"true", "false"}, intToks...)[r.Intn(2+len(intToks))]
	}
	return strToks[r.Intn(len(strToks))]
}

// RandPath: a random walk down the schema giving a valid (possibly incomplete) path,
// then with some probability one corrupted token and / or an over-long tail.
func RandPath(r *rand.Rand, sh Shape) []string {
	names := []string{}
	allNames(sh.Kids, &names)
	junk := func() string {
		switch r.Intn(10) {
		case 9:
			return []string{"true", "on"}[r.Intn(2)] // values of boolean / union / enumeration only (and strings)
		case 7:
			return specialToks[r.Intn(len(specialToks))]
		case 0:
			return "zz"
		case 1:
			return "bad"
		case 2:
			return "5"
		case 3:
			return ""
		default:
			return names[r.Intn(len(names))]
		}
	}
	p := []string{}
	kids := sh.Kids
walk:
	for {
		vis := Visible(kids)
		if len(vis) == 0 || (len(p) > 0 && r.Intn(8) == 0) {
			break
		}
		c := vis[r.Intn(len(vis))]
		p = append(p, c.Name)
		switch c.Kind {
		case "container":
			kids = c.Kids
		case "list":
			if r.Intn(8) == 0 {
				break walk
			}
			// the token after the list name: a value of one of the list's keys (a list with several keys
			// has key leaves of several types; which of them the token has to fit is the specification's
			// business).  What follows the first key value of such a list is not specified: mostly the
			// walk ends there, sometimes it goes on like in an entry.
			ks := c.KeyStmt()
			p = append(p, validValue(r, keyType(c, ks[r.Intn(len(ks))])))
			if len(ks) > 1 && r.Intn(4) != 0 {
				break walk
			}
			kids = c.Kids
		default:
			// a leaf or leaf-list of any type: mostly with a value, sometimes the name ends the path
			// (type empty: half the time, its only value being the empty token)
			if r.Intn(5) != 0 && (BaseType(c.Typ) != "empty" || r.Intn(2) == 0) {
				p = append(p, validValue(r, c.Typ))
			}
			break walk
		}
	}
	if r.Intn(2) == 0 && len(p) > 0 { // one-token corruption
		i := r.Intn(len(p))
		switch r.Intn(4) {
		case 0: // replace
			p[i] = junk()
		case 1: // insert
			p = append(p[:i], append([]string{junk()}, p[i:]...)...)
		case 2: // delete
			p = append(p[:i], p[i+1:]...)
		default: // swap with the next
			if i+1 < len(p) {
				p[i], p[i+1] = p[i+1], p[i]
			} else {
				p[i] = junk()
			}
		}
	}
	if r.Intn(3) == 0 { // over-long tail
		for n := 1 + r.Intn(3); n > 0; n-- {
			p = append(p, junk())
		}
	}
	if len(p) == 0 {
		p = append(p, junk())
	}
	return p
}

// ---- mutations of data trees (C18, code -> model) ----

func Clone(kids []DNode) []DNode {
	out := make([]DNode, 0, len(kids))
	for _, k := range kids {
		out = append(out, DNode{Name: k.Name, Vals: append([]string{}, k.Vals...), Kids: Clone(k.Kids)})
	}
	return out
}

type site struct {
	parent *[]DNode
	idx    int
	s      *SNode
	isKey  bool
	direct bool // the schema node is not a member of a case
}

func isDirect(sk []SNode, name string) bool {
	for _, k := range sk {
		if k.Kind != "choice" && k.Kind != "case" && k.Name == name {
			return true
		}
	}
	return false
}

func collect(sk []SNode, kids *[]DNode, key string, acc *[]site) {
	for i := range *kids {
		d := &(*kids)[i]
		s := findChild(sk, d.Name)
		if s == nil {
			continue
		}
		*acc = append(*acc, site{kids, i, s, key != "" && d.Name == key, isDirect(sk, d.Name)})
		switch s.Kind {
		case "container":
			collect(s.Kids, &d.Kids, "", acc)
		case "list":
			for j := range d.Kids {
				collect(s.Kids, &d.Kids[j].Kids, s.Key, acc)
			}
		}
	}
}

// Normalize keeps a mutated tree inside the judged domain: no list without entries, no
// leaf-list without values, no non-presence container without children.
func Normalize(sk []SNode, kids []DNode) []DNode {
	out := []DNode{}
	for _, d := range kids {
		s := findChild(sk, d.Name)
		if s == nil {
			out = append(out, d)
			continue
		}
		switch s.Kind {
		case "container":
			nk := Normalize(s.Kids, d.Kids)
			if len(nk) == 0 && !s.Presence {
				continue
			}
			out = append(out, DNode{Name: d.Name, Vals: d.Vals, Kids: nk})
		case "list":
			es := []DNode{}
			for _, e := range d.Kids {
				es = append(es, DNode{Name: e.Name, Vals: e.Vals, Kids: Normalize(s.Kids, e.Kids)})
			}
			if len(es) == 0 {
				continue
			}
			out = append(out, DNode{Name: d.Name, Vals: d.Vals, Kids: es})
		case "leaflist":
			if len(d.Vals) == 0 {
				continue
			}
			out = append(out, d)
		default:
			out = append(out, d)
		}
	}
	return out
}

// Mutate returns a seeded variation of the data tree: a node deleted, a list entry
// duplicated under the new key "11", a value appended to a leaf-list, or a list / leaf-list /
// non-presence container (outside cases) left present but emptied.
func Mutate(r *rand.Rand, sk []SNode, data []DNode) (string, []DNode) {
	d := Clone(data)
	sites := []site{}
	collect(sk, &d, "", &sites)
	if len(sites) == 0 {
		return "", nil
	}
	for try := 0; try < 8; try++ {
		st := sites[r.Intn(len(sites))]
		node := &(*st.parent)[st.idx]
		switch r.Intn(4) {
		case 3:
			np := st.s.Kind == "container" && !st.s.Presence
			if !st.direct || !(st.s.Kind == "list" || st.s.Kind == "leaflist" || np) {
				continue
			}
			node.Kids, node.Vals = []DNode{}, []string{}
			return "empty " + st.s.Name, d
		case 0:
			if st.isKey {
				continue
			}
			*st.parent = append((*st.parent)[:st.idx], (*st.parent)[st.idx+1:]...)
			return "delete " + st.s.Name, Normalize(sk, d)
		case 1:
			if st.s.Kind != "list" || len(node.Kids) == 0 {
				continue
			}
			dup := false
			for _, e := range node.Kids {
				if e.Name == "11" {
					dup = true
				}
			}
			if dup {
				continue
			}
			e := Clone([]DNode{node.Kids[r.Intn(len(node.Kids))]})[0]
			e.Name = "11"
			for i := range e.Kids {
				if e.Kids[i].Name == st.s.Key {
					e.Kids[i].Vals = []string{"11"}
				}
			}
			node.Kids = append(node.Kids, e)
			return "dup-entry " + st.s.Name, d
		default:
			if st.s.Kind != "leaflist" {
				continue
			}
			node.Vals = append(node.Vals, "11")
			return "append-value " + st.s.Name, d
		}
	}
	return "", nil
}
