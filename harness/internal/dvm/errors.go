package dvm

import (
	"fmt"
	"net/url"
	"regexp"
	"strings"

	"github.com/danos/mgmterror"
	"github.com/sdcio/yang-parser/schema"
)

// Vctx is the validation context of ModelSet.Validate.
type Vctx struct{ Inc bool }

func (v Vctx) ErrorHelpText() []string    { return nil }
func (v Vctx) AllowIncompletePaths() bool { return v.Inc }

// clean makes an error text safe to travel through TLC's output (the driver greps it for "Error:").
func clean(s string) string {
	return strings.ReplaceAll(strings.ReplaceAll(s, "\n", "|"), "Error:", "E:")
}

func splitPath(p string) []string {
	p = strings.Trim(p, "/")
	if p == "" {
		return []string{}
	}
	return strings.Split(p, "/")
}

// splitPathExact inverts pathutil.Pathstr ("/" + escaped element, for every element), keeping
// empty elements: the empty string is a legitimate path token (the value of type empty).
func splitPathExact(p string) []string {
	if p == "" {
		return []string{}
	}
	out := strings.Split(strings.TrimPrefix(p, "/"), "/")
	for i, e := range out {
		if u, err := url.QueryUnescape(e); err == nil {
			out[i] = u
		}
	}
	return out
}

// PathVerdict is what ModelSet.Validate said about a path, in the terms of the spec:
// accepted, or the 1-based index of the element the error identifies (len+1 = something
// is missing after the last token) and that element.
type PathVerdict struct {
	Ok   bool   `json:"ok"`
	At   int    `json:"at"`
	Tok  string `json:"tok"`  // the token the error names ("" when something is missing)
	Form string `json:"form"` // how the error identified it (diagnostic only)
	Err  string `json:"err"`
}

var missingValueMsg = func() string {
	if e, ok := schema.NewMissingValueError(nil).(*mgmterror.InvalidValueApplicationError); ok {
		return e.Message
	}
	return "Node requires a value"
}()

// ValidatePath runs the real path validation under a panic trap and decodes the error.
func ValidatePath(ms schema.ModelSet, p []string, inc bool) (v PathVerdict) {
	var err error
	func() {
		defer func() {
			if r := recover(); r != nil {
				err = fmt.Errorf("PANIC %v", r)
			}
		}()
		err = ms.Validate(Vctx{inc}, nil, append([]string{}, p...))
	}()
	if err == nil {
		return PathVerdict{Ok: true}
	}
	v.Err = clean(err.Error())
	switch e := err.(type) {
	case *mgmterror.UnknownElementApplicationError:
		// Path = the elements before the offending one, info = the offending element
		v.At = len(splitPathExact(e.Path)) + 1
		if len(e.Info) > 0 {
			v.Tok = e.Info[0].Value
		}
		v.Form = "unknown-element"
	case *mgmterror.InvalidValueApplicationError:
		pp := splitPathExact(e.Path)
		if e.Message == missingValueMsg {
			v.At = len(pp) + 1
			v.Form = "missing-value"
		} else {
			v.At = len(pp)
			if len(pp) > 0 {
				v.Tok = pp[len(pp)-1]
			}
			v.Form = "invalid-value"
		}
	case *mgmterror.MissingElementApplicationError:
		v.At = len(splitPathExact(e.Path)) + 1
		v.Form = "missing-element"
	default:
		v.At = -1
		v.Form = fmt.Sprintf("%T", err)
	}
	return v
}

// Viol is one violation of the structural constraints, in the terms of the spec:
// k = missing (mandatory leaf, or list / leaf-list with min-elements, absent),
// choice (mandatory choice without an active case), count (min-/max-elements),
// unique; n = the schema node concerned ("" for a choice: the error does not name it);
// path = data path of the existing ancestor (through non-presence containers).
// A cardinality error carries the schema path (no list entry names): sp in the spec.
type Viol struct {
	K    string   `json:"k"`
	N    string   `json:"n"`
	Path []string `json:"path"`
	Sp   []string `json:"sp,omitempty"`
}

var (
	reMissing = regexp.MustCompile(`^Missing mandatory node (\S+)$`)
	reChoice  = regexp.MustCompile(`^Missing mandatory node requires one of `)
	reCount   = regexp.MustCompile(`^Invalid number of nodes: `)
	reUnique  = regexp.MustCompile(`^The following (path|set of paths) must be unique:`)
)

// DecodeViol maps one error of ValidateSchema to the spec's terms.
func DecodeViol(err error) Viol {
	switch e := err.(type) {
	case *mgmterror.ExecError:
		p := splitPath(e.Path)
		switch {
		case reChoice.MatchString(e.Message):
			return Viol{K: "choice", N: "", Path: p}
		case reMissing.MatchString(e.Message):
			return Viol{K: "missing", N: reMissing.FindStringSubmatch(e.Message)[1], Path: p}
		case reUnique.MatchString(e.Message):
			if len(p) == 0 {
				return Viol{K: "unique", N: "", Path: p}
			}
			return Viol{K: "unique", N: p[len(p)-1], Path: p[:len(p)-1]}
		}
	case *mgmterror.TooFewElementsError:
		if reCount.MatchString(e.Message) {
			p := splitPath(e.Path)
			if len(p) > 0 {
				return Viol{K: "count", N: p[len(p)-1], Path: p[:len(p)-1]}
			}
		}
	case *mgmterror.TooManyElementsError:
		if reCount.MatchString(e.Message) {
			p := splitPath(e.Path)
			if len(p) > 0 {
				return Viol{K: "count", N: p[len(p)-1], Path: p[:len(p)-1]}
			}
		}
	}
	return Viol{K: "other", N: fmt.Sprintf("%T: %s", err, clean(err.Error())), Path: []string{}}
}
