package dvm

import (
	"encoding/json"
	"fmt"
	"net/url"
	"regexp"
	"strings"

	"github.com/danos/mgmterror"
	"github.com/sdcio/yang-parser/schema"
)

// Errors are decoded by their Go type and structured fields (Path, info tag) only.  The wording
// of a message is not part of C17 / C18; it is used at most as an optional refinement that applies
// when it matches a known pattern and is silently skipped otherwise.

// Vctx is the validation context of ModelSet.Validate.
type Vctx struct{ Inc bool }

func (v Vctx) ErrorHelpText() []string    { return nil }
func (v Vctx) AllowIncompletePaths() bool { return v.Inc }

// clean makes an implementation text safe to travel through TLC's output: the driver greps that
// output for "Error", so the word is broken wherever it occurs (any case), and line breaks go.
var reErr = regexp.MustCompile(`(?i)err(or)`)

func clean(s string) string {
	return reErr.ReplaceAllString(strings.ReplaceAll(s, "\n", "|"), "err_$1")
}

// splitXPath splits the rendering of an xutils.PathType ("/a/b/c", no escaping, no entry names).
func splitXPath(p string) []string {
	p = strings.Trim(p, "/")
	if p == "" {
		return []string{}
	}
	return strings.Split(p, "/")
}

// splitPathExact inverts pathutil.Pathstr ("/" + query-escaped element with %20 for a space, for
// every element): the decoding of pathutil.Makepath, but empty elements are kept (the empty string
// is a legitimate path token, the value of type empty).
func splitPathExact(p string) []string {
	if p == "" {
		return []string{}
	}
	out := strings.Split(strings.TrimPrefix(p, "/"), "/")
	for i, e := range out {
		if u, err := url.QueryUnescape(e); err == nil {
			out[i] = u
		}
	}
	return out
}

// PathVerdict is what ModelSet.Validate said about a path: accepted, or how the structured error
// identifies an element:
//
//	form "unknown"  UnknownElement error: Path = the elements before the offending one, info tag = it
//	form "value"    InvalidValue error: Path ends with the offending value - or, when Path is the
//	                whole input, possibly a value is missing after it (same type, same fields);
//	                MV is the optional refinement: the message is the one of the code's own
//	                schema.NewMissingValueError, so it is the missing-value reading
//	form "missing"  MissingElement error: Path = the whole input, something is missing after it
//	form "other"    any other error: identifies nothing
type PathVerdict struct {
	Ok    bool     `json:"ok"`
	Form  string   `json:"form"`
	Epath []string `json:"epath"` // decoded Path of the error
	Tok   string   `json:"tok"`   // info tag of an unknown-element error
	MV    bool     `json:"mv"`
	Err   string   `json:"err"`
}

var missingValueMsg = func() string {
	if e, ok := schema.NewMissingValueError(nil).(*mgmterror.InvalidValueApplicationError); ok {
		return e.Message
	}
	return "\x00"
}()

// ValidatePath runs the real path validation under a panic trap and decodes the error.
func ValidatePath(ms schema.ModelSet, p []string, inc bool) (v PathVerdict) {
	var err error
	func() {
		defer func() {
			if r := recover(); r != nil {
				err = fmt.Errorf("PANIC %v", r)
			}
		}()
		err = ms.Validate(Vctx{inc}, nil, append([]string{}, p...))
	}()
	v.Epath = []string{}
	if err == nil {
		v.Ok = true
		return v
	}
	v.Err = clean(err.Error())
	switch e := err.(type) {
	case *mgmterror.UnknownElementApplicationError:
		v.Form = "unknown"
		v.Epath = splitPathExact(e.Path)
		if len(e.Info) > 0 {
			v.Tok = e.Info[0].Value
		}
	case *mgmterror.InvalidValueApplicationError:
		v.Form = "value"
		v.Epath = splitPathExact(e.Path)
		v.MV = e.Message == missingValueMsg
	case *mgmterror.MissingElementApplicationError:
		v.Form = "missing"
		v.Epath = splitPathExact(e.Path)
	default:
		v.Form = "other"
	}
	return v
}

func isPrefix(a, p []string) bool {
	if len(a) > len(p) {
		return false
	}
	for i := range a {
		if a[i] != p[i] {
			return false
		}
	}
	return true
}

// Ats: the positions (1-based, len(p)+1 = after the end) the error may be read as identifying, or
// nil when its decoded path is not the input's own prefix / its info tag is not the input's token.
// The same rule is written in SchemaPathTrace (Identifies).
func (v PathVerdict) Ats(p []string) []int {
	l := len(v.Epath)
	if !isPrefix(v.Epath, p) {
		return nil
	}
	switch v.Form {
	case "unknown":
		if l < len(p) && v.Tok == p[l] {
			return []int{l + 1}
		}
	case "missing":
		if l == len(p) {
			return []int{l + 1}
		}
	case "value":
		switch {
		case l == len(p) && v.MV:
			return []int{l + 1}
		case l == len(p) && l > 0:
			return []int{l, l + 1}
		case l == len(p):
			return []int{l + 1}
		case l > 0:
			return []int{l}
		}
	}
	return nil
}

// Viol is one violation of the structural constraints.  In a vector (written by the spec):
// k = missing | choice | count | unique, n = the schema node, path = data path of the parent
// (existing ancestor + non-presence containers looked through), sp = the same without list
// entry names, u = which unique statement / value tuple.  Decoded from an error:
// t = the error's type class and path as the error carries it; k, n only when the optional
// message refinement applied.
type Viol struct {
	K    string          `json:"k"`
	N    string          `json:"n"`
	Path []string        `json:"path"`
	Sp   []string        `json:"sp,omitempty"`
	U    json.RawMessage `json:"u,omitempty"`
	T    string          `json:"t,omitempty"` // decoded errors: exec | count | other
}

// Key: how an error can identify a violation by type and path alone.  missing / choice: an
// ExecError at the parent's path; unique: an ExecError at the list's path; count: a
// TooFew / TooManyElements error at the list's schema path.
func (v Viol) Key() string {
	if v.T != "" { // decoded
		return v.T + "|" + strings.Join(v.Path, "/")
	}
	switch v.K {
	case "unique":
		return "exec|" + strings.Join(append(append([]string{}, v.Path...), v.N), "/")
	case "count":
		return "count|" + strings.Join(append(append([]string{}, v.Sp...), v.N), "/")
	}
	return "exec|" + strings.Join(v.Path, "/")
}

// Known wordings (optional refinement; an unknown wording leaves K empty).
var (
	reMissing = regexp.MustCompile(`^Missing mandatory node (\S+)$`)
	reChoice  = regexp.MustCompile(`^Missing mandatory node requires one of `)
	reUnique  = regexp.MustCompile(`^The following (path|set of paths) must be unique:`)
)

// DecodeViol maps one error of ValidateSchema to type class and path.
func DecodeViol(err error) Viol {
	switch e := err.(type) {
	case *mgmterror.ExecError:
		v := Viol{T: "exec", Path: splitPathExact(e.Path)}
		switch {
		case reChoice.MatchString(e.Message):
			v.K = "choice"
		case reMissing.MatchString(e.Message):
			v.K, v.N = "missing", reMissing.FindStringSubmatch(e.Message)[1]
		case reUnique.MatchString(e.Message):
			v.K = "unique"
		}
		return v
	case *mgmterror.TooFewElementsError:
		return Viol{T: "count", Path: splitXPath(e.Path)}
	case *mgmterror.TooManyElementsError:
		return Viol{T: "count", Path: splitXPath(e.Path)}
	}
	return Viol{T: "other", N: fmt.Sprintf("%T", err), Path: []string{}}
}
