// Package pem binds the PathEval* TLA+ modules to the real packages: listing parser of path_eval
// machines, the YANG holder modules of the compile.go stage, a mock data tree for NodeRef / FindNode.
package pem

import (
	"encoding/xml"
	"fmt"
	"regexp"
	"strings"

	"github.com/sdcio/yang-parser/xpath/xutils"
)

// Ins is the interchange form of one path_eval instruction: [i, s, ns] of PathEval.tla.
type Ins struct {
	I  string `json:"i"`
	S  string `json:"s"`
	Ns string `json:"ns"`
}

var reName = regexp.MustCompile(`^Name-Push\t\{(\S*) (\S+)\}$`)

// ParseListing turns Machine.PrintMachine() of a path_eval machine into instructions.  known = every line
// is one of the five instructions of PathEval.tla in the debug text this fork prints; otherwise (reworded
// debug text) the listing is not compared and the machine is judged by what running it shows.
func ParseListing(listing string) (prog []Ins, known bool) {
	prog = []Ins{}
	known = true
	for _, l := range strings.Split(listing, "\n") {
		if strings.HasPrefix(l, "---") || l == "" {
			continue
		}
		switch {
		case reName.MatchString(l):
			m := reName.FindStringSubmatch(l)
			prog = append(prog, Ins{I: "name", S: m[2], Ns: m[1]})
		case strings.HasPrefix(l, "PathOper-Push\t"):
			switch strings.TrimPrefix(l, "PathOper-Push\t") {
			case "/", "/ (2f)":
				prog = append(prog, Ins{I: "root"})
			case "..":
				prog = append(prog, Ins{I: "dotdot"})
			default:
				prog = append(prog, Ins{I: l})
				known = false
			}
		case l == "locPathExists" || l == "storePathEval":
			prog = append(prog, Ins{I: l})
		default:
			prog = append(prog, Ins{I: l})
			known = false
		}
	}
	return
}

func SameProg(a, b []Ins) bool {
	if len(a) != len(b) {
		return false
	}
	for i := range a {
		if a[i] != b[i] {
			return false
		}
	}
	return true
}

// ErrClass maps a run error to the error values of PathEval.tla.
func ErrClass(err error) string {
	if err == nil {
		return "none"
	}
	s := err.Error()
	switch {
	case strings.Contains(s, "zero length path"):
		return "zerolen"
	case strings.Contains(s, "nil pointer dereference"):
		return "nilptr"
	}
	return "run: " + s
}

// ---------------------------------------------------------------- holder modules (compile.go stage)

// SafeForYang: the expression can stand inside a double-quoted YANG string as it is.
func SafeForYang(expr string) bool {
	for _, r := range expr {
		if r < 0x20 || r > 0x7e || r == '"' || r == '\\' {
			return false
		}
	}
	return true
}

const ModP = `module mp { namespace "urn:p"; prefix p; }`
const ModQ = `module mq { namespace "urn:q"; prefix q; }`

// HolderModule: the schema tree SchemaPaths of PathEval.tla with the statement on the holder node.
// stmt == "" gives the plain tree (used for the runs of the machine on schema nodes).
func HolderModule(holder, stmt, expr string) string {
	st := ""
	if stmt != "" {
		st = fmt.Sprintf("%s \"%s\";", stmt, expr)
	}
	onLeaf, onCont := "", ""
	if holder == "leaf" {
		onLeaf = st
	} else {
		onCont = st
	}
	bProps, cProps, dProps := `presence "b";`, "", `presence "d";`
	switch holder {
	case "np":
		bProps = ""
	case "npdef":
		bProps, cProps = "", `default "x";`
	case "npchild":
		bProps, dProps = "", ""
	}
	return `module m {
  namespace "urn:self";
  prefix m;
  import mp { prefix p; }
  import mq { prefix q; }
  container a {
    presence "a";
    container b {
      ` + bProps + `
      ` + onCont + `
      leaf c { type string; ` + cProps + ` ` + onLeaf + ` }
      leaf z { type string; }
      container d { ` + dProps + ` leaf e { type string; } }
    }
    leaf z { type string; }
    leaf vnum { type string; }
  }
  leaf b { type string; }
  leaf z { type string; }
  leaf vnum { type string; }
  leaf vabs { type string; }
}`
}

// ---------------------------------------------------------------- mock data tree (NodeRef, FindNode)

type TNode struct {
	Parent int         `json:"parent"`
	Name   string      `json:"name"`
	Keys   [][2]string `json:"keys"`
}

type DNode struct {
	tree []TNode
	idx  int // 1-based
	all  []*DNode
}

func BuildTree(tree []TNode) []*DNode {
	all := make([]*DNode, len(tree)+1)
	for i := range tree {
		all[i+1] = &DNode{tree: tree, idx: i + 1}
	}
	for _, n := range all[1:] {
		n.all = all
	}
	return all
}

func (n *DNode) Index() int { return n.idx }
func (n *DNode) XParent() xutils.XpathNode {
	p := n.tree[n.idx-1].Parent
	if p == 0 {
		return nil
	}
	return n.all[p]
}
func (n *DNode) XChildren(filter xutils.XFilter, sortSpec xutils.SortSpec) []xutils.XpathNode {
	var out []xutils.XpathNode
	for i, t := range n.tree {
		if t.Parent == n.idx {
			out = append(out, n.all[i+1])
		}
	}
	return out
}
func (n *DNode) XPath() xutils.PathType  { return xutils.PathType{"/"} }
func (n *DNode) XRoot() xutils.XpathNode { return n.all[1] }
func (n *DNode) XName() string           { return n.tree[n.idx-1].Name }
func (n *DNode) XValue() string          { return "" }
func (n *DNode) XIsLeaf() bool           { return false }
func (n *DNode) XIsLeafList() bool       { return false }
func (n *DNode) XIsNonPresCont() bool    { return false }
func (n *DNode) XIsEphemeral() bool      { return false }
func (n *DNode) XListKeyMatches(key xml.Name, val string) bool {
	for _, k := range n.tree[n.idx-1].Keys {
		if k[0] == key.Local && k[1] == val {
			return true
		}
	}
	return false
}
func (n *DNode) XListKeys() []xutils.NodeRefKey {
	ks := n.tree[n.idx-1].Keys
	if len(ks) == 0 {
		return nil
	}
	var out []xutils.NodeRefKey
	for _, k := range ks {
		out = append(out, xutils.NewNodeRefKey(k[0], k[1]))
	}
	return out
}
