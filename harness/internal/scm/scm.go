// Package scm binds the statement trees of spec/YangSchema.tla to the real
// compiler: it renders a tree ({"kw","arg","subs"}, arg = list of strings) as
// YANG text, parses and compiles a module set with a feature set and a schema
// filter, and returns the canonical dump.
package scm

import (
	"fmt"
	"os"
	"path/filepath"
	"runtime"
	"strings"
	"sync/atomic"

	"github.com/sdcio/yang-parser/compile"
	"github.com/sdcio/yang-parser/parse"
	"github.com/sdcio/yang-parser/schema"

	"verif/harness/internal/schemadump"
)

// Stmt is one YANG statement.  Arg is a list of strings whose reading depends
// on the keyword: a plain argument is Arg[0]; an identifier reference (uses,
// if-feature, type, base) is [prefix, name]; a schema node path (augment,
// refine, deviation) is [prefix1, name1, prefix2, name2, ...]; key and unique
// are lists of names.
type Stmt struct {
	Kw   string   `json:"kw"`
	Arg  []string `json:"arg"`
	Subs []Stmt   `json:"subs"`
}

var idref = map[string]bool{"uses": true, "if-feature": true, "type": true, "base": true}
var header = map[string]int{"yang-version": 0, "namespace": 1, "prefix": 2, "belongs-to": 3, "import": 4, "include": 5,
	"organization": 6, "contact": 7, "revision": 8}

func quote(s string) string {
	s = strings.ReplaceAll(s, `\`, `\\`)
	s = strings.ReplaceAll(s, `"`, `\"`)
	return `"` + s + `"`
}

func pname(p, n string) string {
	if p == "" {
		return n
	}
	return p + ":" + n
}

func argText(s Stmt, parent string) string {
	switch {
	case len(s.Arg) == 0:
		return ""
	case idref[s.Kw]:
		if len(s.Arg) == 1 {
			return s.Arg[0]
		}
		return pname(s.Arg[0], s.Arg[1])
	case s.Kw == "augment" || s.Kw == "deviation" || s.Kw == "refine":
		steps := []string{}
		for i := 0; i+1 < len(s.Arg); i += 2 {
			steps = append(steps, pname(s.Arg[i], s.Arg[i+1]))
		}
		p := strings.Join(steps, "/")
		if s.Kw == "deviation" || (s.Kw == "augment" && parent != "uses") {
			p = "/" + p
		}
		return quote(p)
	case s.Kw == "key" || s.Kw == "unique":
		return quote(strings.Join(s.Arg, " "))
	case s.Kw == "deviate":
		return s.Arg[0]
	}
	return quote(s.Arg[0])
}

func render(b *strings.Builder, s Stmt, parent, ind string) {
	b.WriteString(ind + s.Kw)
	if a := argText(s, parent); a != "" {
		b.WriteString(" " + a)
	}
	if len(s.Subs) == 0 {
		b.WriteString(";\n")
		return
	}
	b.WriteString(" {\n")
	subs := s.Subs
	if s.Kw == "module" || s.Kw == "submodule" {
		// header and linkage statements first (YANG fixes the section order), body in the given order
		var hs, bs []Stmt
		for rank := 0; rank <= 8; rank++ {
			for _, c := range subs {
				if r, ok := header[c.Kw]; ok && r == rank {
					hs = append(hs, c)
				}
			}
		}
		for _, c := range subs {
			if _, ok := header[c.Kw]; !ok {
				bs = append(bs, c)
			}
		}
		subs = append(hs, bs...)
	}
	for _, c := range subs {
		render(b, c, s.Kw, ind+"  ")
	}
	b.WriteString(ind + "}\n")
}

// Render writes one module or submodule as YANG text.
func Render(m Stmt) string {
	var b strings.Builder
	render(&b, m, "", "")
	return b.String()
}

// Filter is a schema filter expression: {"op":"none"} (no filter), {"op":"config"|"state"|"opd"},
// {"op":"include"|"exclude","fs":[...]}, {"op":"includestate","b":true|false}, {"op":"configorstate"}.
type Filter struct {
	Op string   `json:"op"`
	Fs []Filter `json:"fs"`
	B  bool     `json:"b"`
}

// Build maps a filter expression to the combinators of compile_filters.go.
func (f Filter) Build() (compile.SchemaFilter, error) {
	switch f.Op {
	case "none", "":
		return nil, nil
	case "config":
		return compile.IsConfig, nil
	case "state":
		return compile.IsState, nil
	case "opd":
		return compile.IsOpd, nil
	case "yconfig", "ystate", "yopd":
		// the same predicates supplied by the caller, yielding the processor on every third question (widens the
		// windows in which concurrent compilations that share one filter value interleave)
		inner := map[string]compile.SchemaFilter{"yconfig": compile.IsConfig, "ystate": compile.IsState, "yopd": compile.IsOpd}[f.Op]
		var calls atomic.Int64
		return func(sn schema.Node) bool {
			if calls.Add(1)%3 == 0 {
				runtime.Gosched()
			}
			return inner(sn)
		}, nil
	case "configorstate":
		return compile.IsConfigOrState(), nil
	case "includestate":
		return compile.IncludeState(f.B), nil
	case "include", "exclude":
		var fs []compile.SchemaFilter
		for _, g := range f.Fs {
			x, err := g.Build()
			if err != nil {
				return nil, err
			}
			fs = append(fs, x)
		}
		if f.Op == "include" {
			return compile.Include(fs...), nil
		}
		return compile.Exclude(fs...), nil
	}
	return nil, fmt.Errorf("unknown filter op %q", f.Op)
}

// String names a filter expression compactly (used in signatures).
func (f Filter) String() string {
	switch f.Op {
	case "include", "exclude":
		parts := []string{}
		for _, g := range f.Fs {
			parts = append(parts, g.String())
		}
		return f.Op + "(" + strings.Join(parts, ",") + ")"
	case "includestate":
		return fmt.Sprintf("includestate(%v)", f.B)
	case "":
		return "none"
	}
	return f.Op
}

// Result of compiling one module set.
type Result struct {
	OK    bool             // compiled
	Stage string           // "parse" or "compile" when !OK
	Err   string           // error text when !OK
	Panic bool             // the compiler panicked with a run-time error
	Dump  *schemadump.Node // canonical dump when OK
	Texts []string         // the YANG texts that were compiled
}

// Compile renders, parses and compiles a module set.  features are
// "module:feature" names that are enabled; everything else is disabled.
func Compile(mods []Stmt, features []string, filter Filter) (res Result) {
	flt, err := filter.Build()
	if err != nil {
		res.Stage, res.Err = "harness", err.Error()
		return
	}
	return CompileWith(mods, features, flt)
}

// CompileFrom is Compile with a feature source.
func CompileFrom(mods []Stmt, src Src, filter Filter) (res Result) {
	flt, err := filter.Build()
	if err != nil {
		res.Stage, res.Err = "harness", err.Error()
		return
	}
	return CompileSrc(mods, src, flt)
}

// Yielding replaces the three basic predicates of a filter expression by their yielding twins.
func (f Filter) Yielding() Filter {
	out := Filter{Op: f.Op, B: f.B}
	switch f.Op {
	case "config", "state", "opd":
		out.Op = "y" + f.Op
	}
	for _, g := range f.Fs {
		out.Fs = append(out.Fs, g.Yielding())
	}
	return out
}

// Src is a feature source of spec/YangSchema.tla (SrcStatus): where the set of enabled features comes from.
//
//	nil     no checker
//	names   compile.FeaturesFromNames(B, Xs...)
//	table   a FeaturesChecker of the caller: Enabled for Xs, Disabled for Ys, NotPresent otherwise
//	dirs    compile.FeaturesFromLocations(true, loc1[, loc2]) with a file loc1/<module>/<feature> for Xs, loc2/... for Ys
//	multi   compile.MultiFeatureCheckers(Ms...)
//	config  compile.Config{CapsLocation: directory with files for Xs, Features: Ms[0]} compiled with compile.CompileDir
//
// Feature ids are [module, feature] pairs.
type Src struct {
	Op string     `json:"op"`
	B  bool       `json:"b"`
	Xs [][]string `json:"xs"`
	Ys [][]string `json:"ys"`
	Ms []Src      `json:"ms"`
}

// NamesSrc is the plain source: exactly the named "module:feature" features are enabled.
func NamesSrc(features []string) Src {
	s := Src{Op: "names", B: true}
	for _, f := range features {
		if i := strings.Index(f, ":"); i > 0 {
			s.Xs = append(s.Xs, []string{f[:i], f[i+1:]})
		}
	}
	return s
}

// String names the shape of a feature source compactly (used in reports).
func (s Src) String() string {
	switch s.Op {
	case "names", "":
		if s.B {
			return fmt.Sprintf("names+%d", len(s.Xs))
		}
		return fmt.Sprintf("names-%d", len(s.Xs))
	case "table":
		return fmt.Sprintf("table(+%d,-%d)", len(s.Xs), len(s.Ys))
	case "dirs":
		return fmt.Sprintf("dirs(%d,%d)", len(s.Xs), len(s.Ys))
	case "multi", "config":
		parts := []string{}
		for _, m := range s.Ms {
			parts = append(parts, m.String())
		}
		if s.Op == "config" {
			return fmt.Sprintf("Config{caps:%d,Features:%s}", len(s.Xs), strings.Join(parts, ","))
		}
		return "Multi(" + strings.Join(parts, ",") + ")"
	}
	return s.Op
}

// Norm makes every list an empty array instead of null (the TLA+ JSON reader rejects null).
func (s Src) Norm() Src {
	out := Src{Op: s.Op, B: s.B, Xs: [][]string{}, Ys: [][]string{}, Ms: []Src{}}
	out.Xs = append(out.Xs, s.Xs...)
	out.Ys = append(out.Ys, s.Ys...)
	for _, m := range s.Ms {
		out.Ms = append(out.Ms, m.Norm())
	}
	return out
}

func names(ids [][]string) []string {
	out := []string{}
	for _, id := range ids {
		if len(id) == 2 {
			out = append(out, id[0]+":"+id[1])
		}
	}
	return out
}

// tableChecker is a FeaturesChecker supplied by the caller of the library.
type tableChecker map[string]compile.FeatureStatus

func (t tableChecker) Status(feature string) compile.FeatureStatus {
	if s, ok := t[feature]; ok {
		return s
	}
	return compile.NOTPRESENT
}

// capsDir writes a capability directory (one empty file <dir>/<module>/<feature> per id) below tmp.
func capsDir(tmp *string, ids [][]string) (string, error) {
	if *tmp == "" {
		d, err := os.MkdirTemp(".", "featsrc")
		if err != nil {
			return "", err
		}
		*tmp = d
	}
	dir, err := os.MkdirTemp(*tmp, "caps")
	if err != nil {
		return "", err
	}
	for _, id := range ids {
		if len(id) != 2 {
			continue
		}
		if err := os.MkdirAll(filepath.Join(dir, id[0]), 0o755); err != nil {
			return "", err
		}
		if err := os.WriteFile(filepath.Join(dir, id[0], id[1]), nil, 0o644); err != nil {
			return "", err
		}
	}
	return dir, nil
}

// checker builds the FeaturesChecker of a source (nil for "nil"); directories are created below *tmp.
func (s Src) checker(tmp *string) (compile.FeaturesChecker, error) {
	switch s.Op {
	case "nil":
		return nil, nil
	case "names", "":
		return compile.FeaturesFromNames(s.B, names(s.Xs)...), nil
	case "table":
		t := tableChecker{}
		for _, n := range names(s.Ys) {
			t[n] = compile.DISABLED
		}
		for _, n := range names(s.Xs) { // (a feature listed in both is Enabled, as in SrcStatus)
			t[n] = compile.ENABLED
		}
		return t, nil
	case "dirs":
		l1, err := capsDir(tmp, s.Xs)
		if err != nil {
			return nil, err
		}
		if len(s.Ys) == 0 {
			return compile.FeaturesFromLocations(true, l1), nil
		}
		l2, err := capsDir(tmp, s.Ys)
		if err != nil {
			return nil, err
		}
		return compile.FeaturesFromLocations(true, l1, l2), nil
	case "multi":
		var ms []compile.FeaturesChecker
		for _, m := range s.Ms {
			c, err := m.checker(tmp)
			if err != nil {
				return nil, err
			}
			ms = append(ms, c)
		}
		return compile.MultiFeatureCheckers(ms...), nil
	}
	return nil, fmt.Errorf("feature source %q cannot be a member of another", s.Op)
}

// CompileWith is Compile with a filter value the caller built (and may share between compilations).
func CompileWith(mods []Stmt, features []string, flt compile.SchemaFilter) (res Result) {
	return CompileSrc(mods, NamesSrc(features), flt)
}

// CompileSrc compiles a module set with the enabled features coming from src: through compile.CompileParseTrees with
// the checker of the source, or - for a "config" source - from files through compile.CompileDir with a compile.Config.
func CompileSrc(mods []Stmt, src Src, flt compile.SchemaFilter) (res Result) {
	var err error
	tmp := ""
	defer func() {
		if tmp != "" {
			os.RemoveAll(tmp)
		}
	}()
	trees := map[string]*parse.Tree{}
	for _, m := range mods {
		text := Render(m)
		res.Texts = append(res.Texts, text)
		name := ""
		if len(m.Arg) > 0 {
			name = m.Arg[0]
		}
		t, err := parse.Parse(name+".yang", text, nil)
		if err != nil {
			res.Stage, res.Err = "parse", err.Error()
			return
		}
		trees[name] = t
	}
	var run func() (schema.ModelSet, error)
	if src.Op == "config" {
		if len(src.Ms) != 1 {
			res.Stage, res.Err = "harness", "config source needs exactly one Features member"
			return
		}
		feat, err := src.Ms[0].checker(&tmp)
		if err != nil {
			res.Stage, res.Err = "harness", err.Error()
			return
		}
		caps, err := capsDir(&tmp, src.Xs)
		if err != nil {
			res.Stage, res.Err = "harness", err.Error()
			return
		}
		ydir, err := os.MkdirTemp(tmp, "yang")
		if err != nil {
			res.Stage, res.Err = "harness", err.Error()
			return
		}
		for i, m := range mods {
			name := fmt.Sprintf("m%d", i)
			if len(m.Arg) > 0 {
				name = m.Arg[0]
			}
			if err := os.WriteFile(filepath.Join(ydir, name+".yang"), []byte(res.Texts[i]), 0o644); err != nil {
				res.Stage, res.Err = "harness", err.Error()
				return
			}
		}
		cfg := &compile.Config{YangDir: ydir, CapsLocation: caps, Filter: flt}
		if feat != nil {
			cfg.Features = feat
		}
		run = func() (schema.ModelSet, error) { return compile.CompileDir(nil, cfg) }
	} else {
		chk, err := src.checker(&tmp)
		if err != nil {
			res.Stage, res.Err = "harness", err.Error()
			return
		}
		run = func() (schema.ModelSet, error) { return compile.CompileParseTrees(nil, trees, chk, false, flt) }
	}
	var ms schema.ModelSet
	func() {
		defer func() {
			if r := recover(); r != nil {
				res.Panic = true
				err = fmt.Errorf("panic: %v", r)
			}
		}()
		ms, err = run()
	}()
	if err != nil {
		res.Stage, res.Err = "compile", err.Error()
		return
	}
	// walking the compiled schema through its public API must not panic either: a panic here belongs to this
	// module set (a violation for the vector), it is not a failure of the harness
	func() {
		defer func() {
			if r := recover(); r != nil {
				res.Panic = true
				res.Stage, res.Err = "dump", fmt.Sprintf("panic while walking the compiled schema: %v", r)
			}
		}()
		res.Dump = schemadump.Dump(ms)
		res.OK = true
	}()
	return
}
