// Package ysm binds the YangStmt specification to the real parser and compiler:
// it renders abstract statement trees to YANG text (one statement per line, so that
// a line number identifies a statement), runs parse.Parse and - where asked -
// compile.CompileParseTrees, and reports what a caller can observe: the two
// verdicts, the error text, the statement the error is located at and the
// keywords the error text names.  It never decides whether that is right.
package ysm

import (
	"fmt"
	"regexp"
	"sort"
	"strconv"
	"strings"

	"github.com/sdcio/yang-parser/compile"
	"github.com/sdcio/yang-parser/parse"
)

// NoArg is the argument value of a statement written without an argument.
const NoArg = "<none>"

// Stmt is the abstract statement tree shared with YangStmt.tla.
type Stmt struct {
	Kw   string  `json:"kw"`
	Arg  string  `json:"arg"`
	Subs []*Stmt `json:"subs"`
}

// placeholders for characters that cannot travel through TLC's JSON reader/writer
var placeholders = strings.NewReplacer(
	"~e", "é", // e-acute: UTF-8 C3 A9
	"~u", "ê", // e-circumflex: UTF-8 C3 AA (both bytes are Latin-1 letters)
	"~t", "\t",
	"~n", "\n",
	// white space that is not YANG optsep
	"~f", "\f",
	"~v", "\v",
	"~N", "\u0085", // NEL
	"~b", "\u00a0", // NBSP
	"~L", "\u2028", // LINE SEPARATOR
	"~I", "\u3000", // IDEOGRAPHIC SPACE
)

// Concrete turns a spec argument into the concrete argument string.
func Concrete(a string) string {
	a = placeholders.Replace(a)
	// ~xHH is the raw byte HH (decoded last, so that a decoded '~' can never start a placeholder)
	if !strings.Contains(a, "~x") {
		return a
	}
	var b []byte
	for i := 0; i < len(a); i++ {
		if a[i] == '~' && i+3 < len(a) && a[i+1] == 'x' {
			if v, err := strconv.ParseUint(a[i+2:i+4], 16, 8); err == nil {
				b = append(b, byte(v))
				i += 3
				continue
			}
		}
		b = append(b, a[i])
	}
	return string(b)
}

func quote(a string) string {
	a = strings.ReplaceAll(a, `\`, `\\`)
	a = strings.ReplaceAll(a, `"`, `\"`)
	a = strings.ReplaceAll(a, "\t", `\t`)
	a = strings.ReplaceAll(a, "\n", `\n`)
	return `"` + a + `"`
}

// Rendered is the YANG text of a tree with the line of every statement.
type Rendered struct {
	Text   string
	LineOf map[string]int // path ("" root, "2", "2.1", ... 1-based child indexes) -> line
	PathAt map[int]string // line -> path of the statement starting there
	KwAt   map[int]string
}

func PathKey(p []int) string {
	s := make([]string, len(p))
	for i, x := range p {
		s[i] = strconv.Itoa(x)
	}
	return strings.Join(s, ".")
}

// Render lays the tree out one statement per line, closing braces on their own line.
func Render(t *Stmt) *Rendered {
	r := &Rendered{LineOf: map[string]int{}, PathAt: map[int]string{}, KwAt: map[int]string{}}
	var b strings.Builder
	line := 1
	var rec func(s *Stmt, path []int, depth int)
	rec = func(s *Stmt, path []int, depth int) {
		key := PathKey(path)
		r.LineOf[key] = line
		r.PathAt[line] = key
		r.KwAt[line] = s.Kw
		b.WriteString(strings.Repeat("  ", depth))
		b.WriteString(s.Kw)
		if s.Arg != NoArg {
			b.WriteString(" ")
			b.WriteString(quote(Concrete(s.Arg)))
		}
		if len(s.Subs) == 0 {
			if s.Arg == NoArg && strings.Contains(s.Kw, ":") {
				b.WriteString(";\n") // an extension statement without argument
				line++
			} else if s.Arg == NoArg {
				b.WriteString(" {\n")
				line++
				b.WriteString(strings.Repeat("  ", depth) + "}\n")
				line++
			} else {
				b.WriteString(";\n")
				line++
			}
			return
		}
		b.WriteString(" {\n")
		line++
		for i, c := range s.Subs {
			rec(c, append(append([]int{}, path...), i+1), depth+1)
		}
		b.WriteString(strings.Repeat("  ", depth) + "}\n")
		line++
	}
	rec(t, nil, 0)
	r.Text = b.String()
	return r
}

// Obs is what the real code did with one text.
type Obs struct {
	ParseOk     bool     `json:"parseOk"`
	ParseErr    string   `json:"parseErr"`
	Compiled    bool     `json:"compiled"` // compile was attempted
	CompileOk   bool     `json:"compileOk"`
	CompileErr  string   `json:"compileErr"`
	Panic       string   `json:"panic"`
	Located     bool     `json:"located"` // the error text carries name:line:col
	ErrLine     int      `json:"errLine"`
	ErrPath     string   `json:"errPath"` // path of the statement starting at ErrLine ("-" if none)
	ErrPathSeq  []int    `json:"errPathSeq"`
	ErrAtKw     string   `json:"errAtKw"`
	Named       []string `json:"named"` // statement keywords named by the error text
	RootKw      string   `json:"rootKw"`
	NumChildren int      `json:"numChildren"`
}

const ParseName = "probe"

var locRe = regexp.MustCompile(`\b` + ParseName + `:(\d+):(\d+)`)
var wordRe = regexp.MustCompile(`[A-Za-z][A-Za-z0-9-]*(?::[A-Za-z][A-Za-z0-9-]*)?`)

func local(a string) string {
	if i := strings.LastIndex(a, ":"); i >= 0 {
		return a[i+1:]
	}
	return a
}

// CompileRisky reports trees in which a typedef may refer to a typedef through a type inside a
// typedef, or a grouping to a grouping through a uses inside a grouping.  A reference cycle makes
// the compiler overflow its stack (fatal, not recoverable; recorded under property C11), so such
// mutants are parsed only and the event says so.
func CompileRisky(t *Stmt) bool {
	tnames, gnames := map[string]bool{}, map[string]bool{}
	var collect func(s *Stmt)
	collect = func(s *Stmt) {
		switch s.Kw {
		case "typedef":
			tnames[s.Arg] = true
		case "grouping":
			gnames[s.Arg] = true
		}
		for _, c := range s.Subs {
			collect(c)
		}
	}
	collect(t)
	risky := false
	var walk func(s *Stmt, inT, inG bool)
	walk = func(s *Stmt, inT, inG bool) {
		if inT && s.Kw == "type" && tnames[local(s.Arg)] {
			risky = true
		}
		if inG && s.Kw == "uses" && gnames[local(s.Arg)] {
			risky = true
		}
		for _, c := range s.Subs {
			walk(c, inT || s.Kw == "typedef", inG || s.Kw == "grouping")
		}
	}
	walk(t, false, false)
	return risky
}

// KeywordKnown: does the parser's keyword table map kw to a statement type of its own
// (anything else is silently treated as an extension statement)?
func KeywordKnown(kw string) bool {
	return parse.NodeTypeFromName(kw, "") != parse.NodeUnknown
}

func nilCard(parse.NodeType) map[parse.NodeType]parse.Cardinality {
	return map[parse.NodeType]parse.Cardinality{}
}

// Interners is one shared pair of interners, as compile.ParseModules keeps across the files it parses.
type Interners struct {
	S *parse.StringInterner
	A *parse.ArgInterner
}

func NewInterners() *Interners {
	return &Interners{S: parse.NewStringInterner(), A: parse.NewArgInterner()}
}

// ExtCell is one cell of an extension cardinality function: extension statement C may occur Min..Max
// times under parent P (Max >= 2 means "n").
type ExtCell struct {
	P   string `json:"p"`
	C   string `json:"c"`
	Min int    `json:"min"`
	Max int    `json:"max"`
}

// ExtCard is the third argument of parse.Parse: Nil = no function at all; otherwise a function built
// from the cells (no cells: a function that returns an empty map for every statement).
type ExtCard struct {
	Nil   bool
	Cells []ExtCell
}

// Func builds the parse.NodeCardinality the code is given.
func (e *ExtCard) Func() parse.NodeCardinality {
	if e == nil {
		return nilCard
	}
	if e.Nil {
		return nil
	}
	tab := map[parse.NodeType]map[parse.NodeType]parse.Cardinality{}
	for _, c := range e.Cells {
		p, k := parse.NodeTypeFromName(c.P, ""), parse.NodeTypeFromName(c.C, "")
		if tab[p] == nil {
			tab[p] = map[parse.NodeType]parse.Cardinality{}
		}
		card := parse.Cardinality{Start: '0', End: '1'}
		if c.Min >= 1 {
			card.Start = '1'
		}
		if c.Max >= 2 {
			card.End = 'n'
		}
		tab[p][k] = card
	}
	return func(t parse.NodeType) map[parse.NodeType]parse.Cardinality {
		out := map[parse.NodeType]parse.Cardinality{} // a fresh map per call: callers may keep what they get
		for k, v := range tab[t] {
			out[k] = v
		}
		return out
	}
}

func doParse(text string, in *Interners, ext *ExtCard) (t *parse.Tree, err error, pan string) {
	defer func() {
		if r := recover(); r != nil {
			pan = fmt.Sprint(r)
		}
	}()
	if in != nil {
		t, err = parse.ParseWithInterners(ParseName, text, ext.Func(), in.S, in.A)
	} else {
		t, err = parse.Parse(ParseName, text, ext.Func())
	}
	return
}

// Directive: the text must contain N copies in total of the child at Path (placed directly after it);
// with Rename the copies get distinct arguments.
type Directive struct {
	Path   []int `json:"path"`
	N      int   `json:"n"`
	Rename bool  `json:"rename"`
}

// Expand performs the directives of a large-multiplicity probe (see YangStmtTpl.tla Replicate).
func Expand(t *Stmt, ds []Directive) *Stmt {
	by := map[string]Directive{}
	for _, d := range ds {
		by[PathKey(d.Path)] = d
	}
	var rec func(s *Stmt, path []int) *Stmt
	rec = func(s *Stmt, path []int) *Stmt {
		c := &Stmt{Kw: s.Kw, Arg: s.Arg, Subs: []*Stmt{}}
		for i, k := range s.Subs {
			kp := append(append([]int{}, path...), i+1)
			kid := rec(k, kp)
			d, ok := by[PathKey(kp)]
			if !ok {
				c.Subs = append(c.Subs, kid)
				continue
			}
			for j := 1; j <= d.N; j++ {
				cp := kid
				if d.Rename && j > 1 {
					cp = &Stmt{Kw: kid.Kw, Arg: kid.Arg + "x" + strconv.Itoa(j), Subs: kid.Subs}
				}
				c.Subs = append(c.Subs, cp)
			}
		}
		return c
	}
	return rec(t, nil)
}

func doCompile(trees map[string]*parse.Tree) (err error, pan string) {
	defer func() {
		if r := recover(); r != nil {
			pan = fmt.Sprint(r)
		}
	}()
	_, err = compile.CompileParseTrees(nil, trees, nil, false, compile.IsConfigOrState())
	return
}

// Companion modules available to every compile (import targets, the module a
// submodule belongs to).  They are parsed once per use; the probe is always "probe".
var Companions = map[string]string{}

// Run parses the text and, if parsing succeeded and wantCompile, compiles it.
func Run(r *Rendered, wantCompile bool, companions []string) Obs {
	return RunWith(r, wantCompile, companions, nil)
}

// RunWith is Run with the parse done through a shared pair of interners (nil: fresh ones).
func RunWith(r *Rendered, wantCompile bool, companions []string, in *Interners) Obs {
	return RunExt(r, wantCompile, companions, in, nil)
}

// RunExt is RunWith with the extension cardinality function the parse is given (nil: the harness's
// default, a function that returns an empty map).
func RunExt(r *Rendered, wantCompile bool, companions []string, in *Interners, ext *ExtCard) Obs {
	var o Obs
	o.ErrPath = "-"
	o.ErrPathSeq = []int{}
	o.Named = []string{}
	t, err, pan := doParse(r.Text, in, ext)
	if pan != "" {
		o.Panic = "parse: " + pan
		return o
	}
	if err != nil {
		o.ParseErr = err.Error()
		locate(&o, r, o.ParseErr)
		return o
	}
	o.ParseOk = true
	if t != nil && t.Root != nil {
		o.RootKw = t.Root.Statement()
		o.NumChildren = len(t.Root.Children())
	}
	if !wantCompile {
		return o
	}
	o.Compiled = true
	trees := map[string]*parse.Tree{t.Root.Argument().String(): t}
	for _, c := range companions {
		ct, cerr, cpan := doParse2(c)
		if cerr != nil || cpan != "" {
			o.Panic = fmt.Sprintf("companion module does not parse: %v %s", cerr, cpan)
			return o
		}
		trees[ct.Root.Argument().String()] = ct
	}
	cerr, cpan := doCompile(trees)
	if cpan != "" {
		o.Panic = "compile: " + cpan
		return o
	}
	if cerr != nil {
		o.CompileErr = cerr.Error()
		locate(&o, r, o.CompileErr)
		return o
	}
	o.CompileOk = true
	return o
}

var companionSeq int

func doParse2(text string) (t *parse.Tree, err error, pan string) {
	defer func() {
		if r := recover(); r != nil {
			pan = fmt.Sprint(r)
		}
	}()
	companionSeq++
	t, err = parse.Parse("companion", text, nilCard)
	return
}

func locate(o *Obs, r *Rendered, msg string) {
	if m := locRe.FindStringSubmatch(msg); m != nil {
		o.Located = true
		o.ErrLine, _ = strconv.Atoi(m[1])
		if p, ok := r.PathAt[o.ErrLine]; ok {
			o.ErrPath = p
			if p != "" {
				for _, x := range strings.Split(p, ".") {
					n, _ := strconv.Atoi(x)
					o.ErrPathSeq = append(o.ErrPathSeq, n)
				}
			}
			o.ErrAtKw = r.KwAt[o.ErrLine]
		}
	}
	// words of the message after the location
	rest := msg
	if i := strings.Index(msg, ParseName+":"); i >= 0 {
		rest = msg[i:]
	}
	seen := map[string]bool{}
	for _, w := range wordRe.FindAllString(rest, -1) {
		if w != ParseName && !seen[w] {
			seen[w] = true
			o.Named = append(o.Named, w)
		}
	}
	sort.Strings(o.Named)
}
