// Package ypm binds the YANG parser (package parse) to the TLA+ specs
// YangLexer*, YangString*, YangTree* (properties C07, C08, C10).
package ypm

import (
	"unicode/utf8"
)

// InvalidBase + b is the code of a byte b that is not part of a valid UTF-8
// sequence (same convention as spec/YangChars.tla).
const InvalidBase = 1114112

// FromCPs builds the text denoted by a sequence of code points.
func FromCPs(cps []int) string {
	b := make([]byte, 0, len(cps)+8)
	for _, c := range cps {
		if c >= InvalidBase {
			b = append(b, byte(c-InvalidBase))
		} else {
			b = utf8.AppendRune(b, rune(c))
		}
	}
	return string(b)
}

// ToCPs is the inverse: runes as the Go decoder sees them, undecodable bytes one by one.
func ToCPs(s string) []int {
	out := make([]int, 0, len(s))
	for i := 0; i < len(s); {
		r, w := utf8.DecodeRuneInString(s[i:])
		if r == utf8.RuneError && w <= 1 {
			out = append(out, InvalidBase+int(s[i]))
			i++
			continue
		}
		out = append(out, int(r))
		i += w
	}
	return out
}

// CharIndex maps byte offsets of s to 0-based character offsets (len(s) maps to the
// number of characters); an offset inside a character maps to -1.
func CharIndex(s string) []int {
	idx := make([]int, len(s)+1)
	for i := range idx {
		idx[i] = -1
	}
	n := 0
	for i := 0; i < len(s); {
		idx[i] = n
		r, w := utf8.DecodeRuneInString(s[i:])
		if r == utf8.RuneError && w <= 1 {
			w = 1
		}
		i += w
		n++
	}
	idx[len(s)] = n
	return idx
}
