package ypm

import (
	"encoding/json"
	"flag"
	"fmt"
	"os"
	"regexp"
	"runtime"
	"strconv"
	"strings"

	"github.com/sdcio/yang-parser/parse"
)

func usage() {
	fmt.Fprintln(os.Stderr, "usage: yp run7|run8|run10 -out FILE [-trace FILE] [-workers N] VECTORS...  |  yp gen8 -n N -out FILE  |  yp hooks")
	os.Exit(2)
}

// Main is the entry point of cmd/yp (no hooks) and cmd/ypt (lexer hooks bridged).
func Main() {
	if len(os.Args) < 2 {
		usage()
	}
	switch os.Args[1] {
	case "hooks":
		fmt.Println(InstallTracer != nil)
	case "gen8":
		fs := flag.NewFlagSet("gen8", flag.ExitOnError)
		out := fs.String("out", "", "output file (ndjson)")
		n := fs.Int("n", 100, "number of texts")
		fs.Parse(os.Args[2:])
		seed, _ := strconv.ParseInt(os.Getenv("VERIF_SEED"), 10, 64)
		if err := gen8(*n, seed, *out); err != nil {
			fmt.Fprintln(os.Stderr, "yp:", err)
			os.Exit(2)
		}
	case "child":
		if len(os.Args) < 3 {
			usage()
		}
		runtime.GOMAXPROCS(2)
		switch os.Args[2] {
		case "run7":
			childLoop(handle7)
		case "run8":
			childLoop(handle8)
		case "run10":
			childLoop(handle10)
		default:
			usage()
		}
	case "run7", "run8", "run10":
		fs := flag.NewFlagSet(os.Args[1], flag.ExitOnError)
		out := fs.String("out", "", "result file (ndjson)")
		trace := fs.String("trace", "", "trace file (ndjson; run7 with hooks)")
		workers := fs.Int("workers", 12, "worker processes")
		solo := fs.Bool("solo", false, "confirmation run: one case at a time, a fresh worker process for each, limits ten times larger")
		fs.Parse(os.Args[2:])
		if *solo {
			*workers = 1
			os.Setenv("YP_SOLO", "1")
			limits = SoloLimits
		}
		if *out == "" || fs.NArg() == 0 {
			usage()
		}
		vecs, err := readVectors(fs.Args())
		if err != nil {
			fmt.Fprintln(os.Stderr, "yp:", err)
			os.Exit(2)
		}
		if *trace != "" && InstallTracer == nil {
			fmt.Fprintln(os.Stderr, "yp: this binary has no hook bridge (use ypt)")
			os.Exit(2)
		}
		if *trace != "" {
			os.Setenv("YP_TRACE", "1")
		}
		if err := runPool(os.Args[1], vecs, *workers, *out, *trace); err != nil {
			fmt.Fprintln(os.Stderr, "yp:", err)
			os.Exit(2)
		}
	default:
		usage()
	}
}

var limits = CurrentLimits()

var leakedSoFar int

func stopFor(o *Outcome) string {
	if o.Ret == "hang" {
		return "hang"
	}
	leakedSoFar += o.Leak
	if leakedSoFar > 64 || limits.Solo {
		return "restart" // keep goroutine dumps small on a leaking parser; solo: a fresh process for every case
	}
	return ""
}

// ---------------------------------------------------------------- C07

type vec7 struct {
	Text  []int  `json:"text"`
	Lines []int  `json:"lines"`
	Entry string `json:"entry"` // which way into the parser (entry.go); absent = parse.Parse
	First []int  `json:"first"` // entry "Reparse": the text the same Tree has parsed before
}

type traceEv struct {
	Ev     string `json:"ev"`
	ID     int    `json:"id"`
	Text   []int  `json:"text"`
	Typ    string `json:"typ"`
	Pos    int    `json:"pos"`
	End    int    `json:"end"`
	Ret    string `json:"ret"`
	Root   bool   `json:"root"`
	Exited bool   `json:"exited"`
	Leak   int    `json:"leak"`
}

func handle7(id int, raw json.RawMessage) result {
	var v vec7
	if err := json.Unmarshal(raw, &v); err != nil {
		return result{R: json.RawMessage(`{"ret":"bad-vector","verdict":"bad-vector"}`)}
	}
	text := FromCPs(v.Text)
	want := os.Getenv("YP_TRACE") != ""
	o := GuardedWith(text, limits, want, entryOf(v.Entry, v.First).Prepare())
	var bad []string
	switch o.Ret {
	case "hang":
		bad = append(bad, "hang")
	case "panic":
		bad = append(bad, "panic")
	case "err":
		if !o.HasLoc {
			bad = append(bad, "error-without-location")
		} else if o.Line < 1 || o.Line > len(v.Lines) || o.Col < 0 || o.Col > v.Lines[o.Line-1] {
			bad = append(bad, "error-location-outside-input")
		}
	case "ok":
		if !o.Root {
			bad = append(bad, "no-error-and-no-root")
		}
	}
	if o.Leak > 0 {
		bad = append(bad, "lexer-goroutine-left")
	}
	verdict := "ok"
	if len(bad) > 0 {
		verdict = strings.Join(bad, "+")
	}
	r := map[string]interface{}{"ret": o.Ret, "err": clip(o.Err + o.PanicVal), "root": o.Root, "leak": o.Leak, "exited": o.Exited,
		"hasLoc": o.HasLoc, "line": o.Line, "col": o.Col, "verdict": verdict, "events": len(o.Events), "why": o.Why, "solo": limits.Solo}
	b, _ := json.Marshal(r)
	res := result{R: b, Stop: stopFor(&o)}
	if want {
		res.Trace = traceOf(id, text, v.Text, &o)
	}
	return res
}

func clip(s string) string {
	if len(s) > 300 {
		return s[:300]
	}
	return s
}

// traceOf puts the recorded channel events of one call into the order of the rendezvous
// they witness: "recv" is logged after the receive, so the k-th receive (which completed
// the k-th send) is placed directly after the k-th "emit" (logged before that send).
func traceOf(id int, text string, cps []int, o *Outcome) []json.RawMessage {
	idx := CharIndex(text)
	ci := func(b int) int {
		if b < 0 || b > len(text) {
			return -2
		}
		return idx[b]
	}
	var emits, recvs []LexEvent
	exits := 0
	lexers := map[string]bool{}
	for _, e := range o.Events {
		lexers[e.Lexer] = true
		switch e.Ev {
		case "emit":
			emits = append(emits, e)
		case "recv":
			recvs = append(recvs, e)
		case "exit":
			exits++
		}
	}
	var out []json.RawMessage
	add := func(t traceEv) {
		t.ID = id
		if t.Text == nil {
			t.Text = []int{}
		}
		b, _ := json.Marshal(t)
		out = append(out, b)
	}
	add(traceEv{Ev: "init", Text: cps})
	mk := func(ev string, e LexEvent) traceEv {
		return traceEv{Ev: ev, Typ: e.Typ, Pos: ci(e.Pos), End: ci(e.End)}
	}
	for k, e := range emits {
		add(mk("emit", e))
		if k < len(recvs) {
			add(mk("recv", recvs[k]))
		}
	}
	for k := len(emits); k < len(recvs); k++ { // receives without a send (cannot happen with a sound channel)
		add(mk("recv", recvs[k]))
	}
	for k := 0; k < exits; k++ {
		add(traceEv{Ev: "exit"})
	}
	if len(lexers) > 1 {
		add(traceEv{Ev: "extra-lexer"})
	}
	if o.Overflow {
		add(traceEv{Ev: "event-overflow"})
	}
	add(traceEv{Ev: "ret", Ret: o.Ret, Root: o.Root, Exited: o.Exited, Leak: o.Leak})
	return out
}

// ---------------------------------------------------------------- C08

type vec8 struct {
	Text   []int  `json:"text"`
	Path   []int  `json:"path"` // child indexes (1-based) from the root statement to the statement under test
	Expect []int  `json:"expect"`
	Before []int  `json:"before"` // optional: a module parsed first, with the string and argument interners the text under test then shares
	Entry  string `json:"entry"`  // which way into the parser (entry.go); absent = parse.Parse
	First  []int  `json:"first"`  // entry "Reparse": the text the same Tree has parsed before
}

func handle8(id int, raw json.RawMessage) result {
	var v vec8
	if err := json.Unmarshal(raw, &v); err != nil {
		return result{R: json.RawMessage(`{"ret":"bad-vector"}`)}
	}
	var o Outcome
	if len(v.Before) > 0 {
		// as compile.ParseModules does: several files, one pair of interners
		si, ai := parse.NewStringInterner(), parse.NewArgInterner()
		first := GuardedWith(FromCPs(v.Before), limits, false, func(name, text string) (*parse.Tree, error) {
			return parse.ParseWithInterners("before.yang", text, nil, si, ai)
		})
		if first.Ret != "ok" {
			b, _ := json.Marshal(map[string]interface{}{"ret": "before-" + first.Ret, "err": clip(first.Err + first.PanicVal)})
			return result{R: b, Stop: stopFor(&first)}
		}
		o = GuardedWith(FromCPs(v.Text), limits, false, func(name, text string) (*parse.Tree, error) {
			return parse.ParseWithInterners(name, text, nil, si, ai)
		})
	} else {
		o = GuardedWith(FromCPs(v.Text), limits, false, entryOf(v.Entry, v.First).Prepare())
	}
	r := map[string]interface{}{"ret": o.Ret, "err": clip(o.Err + o.PanicVal), "leak": o.Leak}
	if o.Ret == "ok" && o.Root {
		n := o.Tree.Root
		okPath := true
		for _, k := range v.Path {
			ch := n.Children()
			if k < 1 || k > len(ch) {
				okPath = false
				break
			}
			n = ch[k-1]
		}
		if !okPath {
			r["ret"] = "no-such-statement"
		} else {
			got := ToCPs(n.Argument().String())
			r["got"] = got
			r["kw"] = n.Statement()
			r["equal"] = equalInts(got, v.Expect)
		}
	}
	b, _ := json.Marshal(r)
	return result{R: b, Stop: stopFor(&o)}
}

func equalInts(a, b []int) bool {
	if len(a) != len(b) {
		return false
	}
	for i := range a {
		if a[i] != b[i] {
			return false
		}
	}
	return true
}

// ---------------------------------------------------------------- C10

// WTree is a statement tree as the spec writes it and as the walker reads it.
type WTree struct {
	Kw    []int   `json:"kw"`
	KwAlt []int   `json:"kwAlt,omitempty"` // spec side: the other acceptable reading of the keyword (first word after a byte order mark)
	Arg   []int   `json:"arg"`
	ArgJ  *bool   `json:"argJ,omitempty"` // spec side: the argument is judged (absent = judged)
	Line  int     `json:"line"`
	Col   int     `json:"col"`
	ColJ  bool    `json:"colJ"` // spec side: the column is judged (ASCII line prefix)
	Subs  []WTree `json:"subs"`
}

type vec10 struct {
	Text    []int  `json:"text"`
	Tree    *WTree `json:"tree"`
	HasTree bool   `json:"hasTree"`
	Entry   string `json:"entry"` // which way into the parser (entry.go); absent = parse.Parse
	First   []int  `json:"first"` // entry "Reparse": the text the same Tree has parsed before
}

var ctxRe = regexp.MustCompile(`^` + regexp.QuoteMeta(InputName) + `:(\d+):(\d+)(?::|$)`)

func walk(n parse.Node) WTree {
	w := WTree{Kw: ToCPs(n.Statement()), Arg: []int{}, Line: -1, Col: -1, Subs: []WTree{}}
	if a := n.Argument(); a != nil {
		w.Arg = ToCPs(a.String())
	}
	loc, _ := n.ErrorContext()
	if m := ctxRe.FindStringSubmatch(loc); m != nil {
		w.Line, _ = strconv.Atoi(m[1])
		w.Col, _ = strconv.Atoi(m[2])
	}
	for _, c := range n.Children() {
		cw := walk(c)
		// Under a choice the parser wraps a shorthand member X in a node `case X` that is not in the source: it has
		// exactly the member as child and sits at the member's own position.  Such a wrapper counts as the member.
		if n.Statement() == "choice" && c.Statement() == "case" && len(cw.Subs) == 1 &&
			cw.Line == cw.Subs[0].Line && cw.Col == cw.Subs[0].Col && equalInts(cw.Arg, cw.Subs[0].Arg) {
			cw = cw.Subs[0]
		}
		w.Subs = append(w.Subs, cw)
	}
	return w
}

func walkGuarded(n parse.Node) (w WTree, pv string) {
	defer func() {
		if p := recover(); p != nil {
			pv = "panic while walking the tree: " + fmt.Sprint(p)
		}
	}()
	return walk(n), ""
}

// first difference between the tree the spec prescribes and the walked tree
func diffTree(want, got *WTree, path string) map[string]interface{} {
	d := func(field string, w, g interface{}) map[string]interface{} {
		return map[string]interface{}{"path": path, "field": field, "want": w, "got": g}
	}
	if !equalInts(want.Kw, got.Kw) && !(len(want.KwAlt) > 0 && equalInts(want.KwAlt, got.Kw)) {
		return d("keyword", FromCPs(want.Kw), FromCPs(got.Kw))
	}
	if (want.ArgJ == nil || *want.ArgJ) && !equalInts(want.Arg, got.Arg) {
		return d("argument", want.Arg, got.Arg)
	}
	if want.Line != got.Line {
		return d("line", want.Line, got.Line)
	}
	if want.ColJ && want.Col != got.Col {
		return d("column", want.Col, got.Col)
	}
	for i := range want.Subs {
		if i >= len(got.Subs) {
			return d("missing-substatement", FromCPs(want.Subs[i].Kw), "")
		}
		if x := diffTree(&want.Subs[i], &got.Subs[i], fmt.Sprintf("%s/%d", path, i+1)); x != nil {
			return x
		}
	}
	if len(got.Subs) > len(want.Subs) {
		return d("extra-substatement", "", FromCPs(got.Subs[len(want.Subs)].Kw))
	}
	return nil
}

// shape: the walked tree without positions (all layouts of one tree must agree on it)
func shape(w *WTree, sb *strings.Builder) {
	fmt.Fprintf(sb, "(%v %v", w.Kw, w.Arg)
	for i := range w.Subs {
		shape(&w.Subs[i], sb)
	}
	sb.WriteString(")")
}

func handle10(id int, raw json.RawMessage) result {
	var v vec10
	if err := json.Unmarshal(raw, &v); err != nil {
		return result{R: json.RawMessage(`{"ret":"bad-vector"}`)}
	}
	o := GuardedWith(FromCPs(v.Text), limits, false, entryOf(v.Entry, v.First).Prepare())
	r := map[string]interface{}{"ret": o.Ret, "err": clip(o.Err + o.PanicVal), "leak": o.Leak}
	if o.Ret == "ok" && o.Root {
		w, pv := walkGuarded(o.Tree.Root)
		if pv != "" {
			// the walk through the public API (Children / Statement / Argument / ErrorContext) must not panic on an accepted text
			r["ret"] = "walk-panic"
			r["err"] = clip(pv)
			b, _ := json.Marshal(r)
			return result{R: b, Stop: stopFor(&o)}
		}
		var sb strings.Builder
		shape(&w, &sb)
		r["shape"] = sb.String()
		if v.HasTree && v.Tree != nil {
			if d := diffTree(v.Tree, &w, ""); d != nil {
				r["diff"] = d
			}
		} else {
			r["walked"] = w
		}
	}
	b, _ := json.Marshal(r)
	return result{R: b, Stop: stopFor(&o)}
}

// ---------------------------------------------------------------- random long strings (inputs only)

// gen8 writes n modules whose description is a long multi-line concatenation of quoted
// strings drawn with a seeded generator.  These are inputs: what each must decode to is
// decided by the spec (YangTreeTrace reads the same text).
func gen8(n int, seed int64, out string) error {
	rnd := newRand(seed)
	f, err := os.Create(out)
	if err != nil {
		return err
	}
	defer f.Close()
	words := []string{"alpha", "b", "", "  two  words", "x;y{z}", "//nc", "/*nc*/", "it's", "é€", "tab\there", `\"q\"`, `\\`, "a+b", "'", "end.", "no\u00a0break", "\u2028", "\f"}
	for i := 0; i < n; i++ {
		var sb strings.Builder
		sb.WriteString("module m {\n  namespace \"urn:m\";\n  prefix m;\n")
		ind := []string{"", "  ", "\t", "      ", " \t"}[rnd.Intn(5)]
		sb.WriteString(ind + "description")
		sb.WriteString([]string{" ", "\n    ", "\n\t", "\t", "\n", " /* c */ ", "\r\n  "}[rnd.Intn(7)])
		pieces := 1 + rnd.Intn(4)
		for p := 0; p < pieces; p++ {
			if p > 0 {
				sb.WriteString([]string{" + ", "+", "\n   + ", " +\n\t", " // c\n + ", "\t+\t/* c */"}[rnd.Intn(6)])
			}
			if rnd.Intn(4) == 0 {
				sb.WriteString("'")
				for l, nl := 0, 1+rnd.Intn(3); l < nl; l++ {
					if l > 0 {
						sb.WriteString("\n" + strings.Repeat(" ", rnd.Intn(6)))
					}
					w := words[rnd.Intn(len(words))]
					sb.WriteString(strings.ReplaceAll(w, "'", ""))
				}
				sb.WriteString("'")
				continue
			}
			eol := []string{"\n", "\n", "\r\n"}[rnd.Intn(3)]
			sb.WriteString("\"")
			for l, nl := 0, 1+rnd.Intn(8); l < nl; l++ {
				if l > 0 {
					// (blanks of Unicode that are ordinary characters to YANG: inputs like everything here, the spec reads them)
					sb.WriteString([]string{"", " ", "\t ", "  ", "\u00a0", " \u00a0", "\f ", "\u3000\t", "\v", "\u2028 "}[rnd.Intn(10)] + eol)
					switch rnd.Intn(5) {
					case 4:
						sb.WriteString(strings.Repeat(" ", rnd.Intn(20)) + []string{"\u00a0", "\f", "\u3000", "\u2028", "\v", "\ufeff"}[rnd.Intn(6)] + strings.Repeat(" ", rnd.Intn(3)))
					case 0:
						sb.WriteString(strings.Repeat("\t", rnd.Intn(3)) + strings.Repeat(" ", rnd.Intn(5)))
					case 1:
						sb.WriteString(strings.Repeat(" ", rnd.Intn(4)) + "\t" + strings.Repeat(" ", rnd.Intn(3)))
					default:
						sb.WriteString(strings.Repeat(" ", rnd.Intn(26)))
					}
				}
				for k, nw := 0, rnd.Intn(4); k < nw; k++ {
					if k > 0 {
						sb.WriteString(" ")
					}
					w := words[rnd.Intn(len(words))]
					if !strings.Contains(w, `\`) {
						w = strings.ReplaceAll(w, `"`, `\"`)
					}
					sb.WriteString(w)
				}
			}
			sb.WriteString("\"")
		}
		sb.WriteString([]string{";", " ;", "\n  ;"}[rnd.Intn(3)])
		sb.WriteString("\n}\n")
		b, _ := json.Marshal(map[string]interface{}{"text": ToCPs(sb.String()), "hasTree": false, "base": 0})
		f.Write(append(b, '\n'))
	}
	return nil
}
