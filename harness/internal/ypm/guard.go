package ypm

import (
	"fmt"
	"os"
	"regexp"
	"runtime"
	"strconv"
	"strings"
	"sync"
	"syscall"
	"time"

	"github.com/sdcio/yang-parser/parse"
)

// LexEvent mirrors parse.VerifLexEvent (only available when the repository carries
// the lexer hooks; cmd/ypt installs the bridge).
type LexEvent struct {
	Lexer, Name, Ev, Typ string
	Pos, End             int
}

// InstallTracer is set by cmd/ypt; nil when the binary was built without hook support.
var InstallTracer func(func(LexEvent))

const InputName = "in.yang"

// no text of the checks comes near this many channel events
const maxEvents = 200000

// Outcome of one guarded parse.Parse call.
type Outcome struct {
	Ret      string // "ok" (nil error), "err", "panic", "hang"
	Err      string
	Root     bool
	Tree     *parse.Tree
	Leak     int  // lexer goroutines left behind by this call (after a short grace period)
	Exited   bool // lexer exit event seen (only with hooks)
	Events   []LexEvent
	HasLoc   bool
	Line     int
	Col      int
	NLexers  int
	Overflow bool   // more than maxEvents channel events: the rest was not recorded
	Why      string // what a time-dependent verdict (hang, goroutine left) rests on
	PanicVal string
}

var locRe = regexp.MustCompile(`(?:^|[ :])` + regexp.QuoteMeta(InputName) + `:(\d+):(\d+)(?::|$)`)

// Limits are the wall-clock limits behind the verdicts "hang", "lexer goroutine left" and "no exit
// event".  The normal limits only raise a suspicion: a starved goroutine on a loaded machine can
// exceed them on correct code.  Every suspect case is run again alone (Solo: one fresh worker process per
// case, nothing else of the harness running) with limits ten times larger, and only what shows again
// there is reported.  Two observations that do not depend on the clock end the waiting early, in
// either mode: a goroutine that is *blocked* (channel operation, select, lock) in several consecutive
// dumps while no goroutine of the call is runnable cannot be a starved one, and a call that has burnt
// seconds of CPU time on a text of a few kilobytes is spinning, however slow the machine is.
type Limits struct {
	Watchdog time.Duration // Parse has not returned
	Grace    time.Duration // after the return: lexer exit event / lexer goroutine still there
	Silent   time.Duration // (pool) a worker that says nothing at all
	Solo     bool
}

var (
	NormalLimits = Limits{Watchdog: 2 * time.Second, Grace: 250 * time.Millisecond, Silent: 10 * time.Second}
	SoloLimits   = Limits{Watchdog: 20 * time.Second, Grace: 5 * time.Second, Silent: 90 * time.Second, Solo: true}
)

// CurrentLimits: solo mode is handed to the workers through the environment.
func CurrentLimits() Limits {
	if os.Getenv("YP_SOLO") != "" {
		return SoloLimits
	}
	if os.Getenv("YP_TEST_TIGHT") != "" {
		// test of the confirmation machinery: limits so tight that correct code trips them all the time
		return Limits{Watchdog: 60 * time.Microsecond, Grace: 0, Silent: 10 * time.Second}
	}
	return NormalLimits
}

const spinCPU = 3 * time.Second // CPU time no parse of a test text comes near

func cpuTime() time.Duration {
	var ru syscall.Rusage
	if syscall.Getrusage(syscall.RUSAGE_SELF, &ru) != nil {
		return 0
	}
	return time.Duration(ru.Utime.Nano() + ru.Stime.Nano())
}

// census of the goroutines of the call under test in a dump: lexer goroutines, the goroutine inside
// parse.Parse, and how many of each are blocked (not running, not runnable)
type census struct {
	lexers, lexersBlocked   int
	parsers, parsersBlocked int
}

func isBlockedState(st string) bool {
	for _, p := range []string{"chan send", "chan receive", "select", "semacquire", "sync."} {
		if strings.HasPrefix(st, p) {
			return true
		}
	}
	return false
}

func takeCensus() census {
	buf := make([]byte, 1<<16)
	for {
		n := runtime.Stack(buf, true)
		if n < len(buf) {
			buf = buf[:n]
			break
		}
		buf = make([]byte, 2*len(buf))
	}
	var c census
	for _, blk := range strings.Split(string(buf), "\n\n") {
		if !strings.HasPrefix(blk, "goroutine ") {
			continue
		}
		st := ""
		if i := strings.Index(blk, "["); i >= 0 {
			if j := strings.IndexAny(blk[i:], ",]"); j > 0 {
				st = blk[i+1 : i+j]
			}
		}
		switch {
		case strings.Contains(blk, "parse.(*lexer).run"):
			c.lexers++
			if isBlockedState(st) {
				c.lexersBlocked++
			}
		case strings.Contains(blk, "parse.ParseWithInterners") || strings.Contains(blk, "parse.Parse(") || strings.Contains(blk, "parse.(*Tree).Parse("):
			c.parsers++
			if isBlockedState(st) {
				c.parsersBlocked++
			}
		}
	}
	return c
}

func lexerGoroutines() int { return takeCensus().lexers }

// Guarded runs parse.Parse under a watchdog, with a panic trap, a check for lexer
// goroutines left behind and (with hooks) the channel events of the call.
func Guarded(text string, lim Limits, wantEvents bool) Outcome {
	return GuardedWith(text, lim, wantEvents, func(name, text string) (*parse.Tree, error) { return parse.Parse(name, text, nil) })
}

// GuardedWith is Guarded for a caller-supplied way of parsing (e.g. with interners shared with an earlier parse).
func GuardedWith(text string, lim Limits, wantEvents bool, parseFn func(name, text string) (*parse.Tree, error)) Outcome {
	var o Outcome
	var mu sync.Mutex
	var events []LexEvent
	overflow := false
	exitSeen := make(chan struct{}, 4)
	if wantEvents && InstallTracer != nil {
		InstallTracer(func(e LexEvent) {
			mu.Lock()
			if len(events) < maxEvents {
				events = append(events, e)
			} else {
				overflow = true
			}
			mu.Unlock()
			if e.Ev == "exit" {
				select {
				case exitSeen <- struct{}{}:
				default:
				}
			}
		})
		defer InstallTracer(nil)
	}
	before := lexerGoroutines()
	type res struct {
		t   *parse.Tree
		err error
		pv  interface{}
	}
	ch := make(chan res, 1)
	go func() {
		var r res
		defer func() {
			if p := recover(); p != nil {
				r.pv = p
			}
			ch <- r
		}()
		r.t, r.err = parseFn(InputName, text)
	}()
	cpu0 := cpuTime()
	start := time.Now()
	var got *res
	stuck := 0 // consecutive dumps in which everything of the call was blocked
	every := 100 * time.Millisecond
	if lim.Watchdog < 2*every {
		every = lim.Watchdog / 2
	}
	tick := time.NewTicker(every)
	defer tick.Stop()
wait:
	for {
		select {
		case r := <-ch:
			got = &r
			break wait
		case <-tick.C:
			if time.Since(start) > lim.Watchdog {
				o.Why = fmt.Sprintf("no return within %v", lim.Watchdog)
				break wait
			}
			if cpuTime()-cpu0 > spinCPU {
				o.Why = fmt.Sprintf("no return after %v of CPU time: spinning", spinCPU)
				break wait
			}
			if c := takeCensus(); c.parsers > 0 && c.parsersBlocked == c.parsers && c.lexersBlocked == c.lexers {
				// (a leftover lexer of an earlier call in this process is blocked for good and counts as such)
				if stuck++; stuck >= 5 {
					o.Why = "no return: the parser and every lexer goroutine are blocked"
					break wait
				}
			} else {
				stuck = 0
			}
		}
	}
	if got == nil {
		o.Ret = "hang"
		mu.Lock()
		if len(events) > 300 { // a spinning lexer emits without end: the beginning is enough to place the hang
			events = events[:300]
		}
		o.Events = append([]LexEvent(nil), events...)
		mu.Unlock()
		return o
	}
	switch {
	case got.pv != nil:
		o.Ret, o.PanicVal = "panic", fmt.Sprint(got.pv)
	case got.err != nil:
		o.Ret, o.Err = "err", got.err.Error()
	default:
		o.Ret = "ok"
	}
	o.Tree = got.t
	o.Root = got.t != nil && got.t.Root != nil
	// after the return: the lexer's exit event (with hooks) and its goroutine.  A lexer that is just
	// returning is waited for (Grace); one that is blocked in three dumps in a row will never go.
	tracing := wantEvents && InstallTracer != nil
	deadline := time.Now().Add(lim.Grace)
	blocked := 0
	for {
		if tracing && !o.Exited {
			select {
			case <-exitSeen:
				o.Exited = true
			default:
			}
		}
		c := takeCensus()
		o.Leak = c.lexers - before
		if o.Leak <= 0 && (o.Exited || !tracing) {
			break
		}
		if o.Leak > 0 && c.lexersBlocked >= c.lexers {
			if blocked++; blocked >= 3 {
				o.Why = "lexer goroutine blocked after the return"
				break
			}
		} else {
			blocked = 0
		}
		if time.Now().After(deadline) {
			if o.Leak > 0 {
				o.Why = fmt.Sprintf("lexer goroutine still there %v after the return", lim.Grace)
			}
			break
		}
		time.Sleep(2 * time.Millisecond)
	}
	if o.Leak < 0 {
		o.Leak = 0
	}
	mu.Lock()
	o.Events = append([]LexEvent(nil), events...)
	o.Overflow = overflow
	mu.Unlock()
	if o.Ret == "err" {
		if m := locRe.FindStringSubmatch(o.Err); m != nil {
			o.HasLoc = true
			o.Line, _ = strconv.Atoi(m[1])
			o.Col, _ = strconv.Atoi(m[2])
		}
	}
	return o
}
