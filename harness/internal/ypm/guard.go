package ypm

import (
	"fmt"
	"regexp"
	"runtime"
	"strconv"
	"strings"
	"sync"
	"time"

	"github.com/sdcio/yang-parser/parse"
)

// LexEvent mirrors parse.VerifLexEvent (only available when the repository carries
// the lexer hooks; cmd/ypt installs the bridge).
type LexEvent struct {
	Lexer, Name, Ev, Typ string
	Pos, End             int
}

// InstallTracer is set by cmd/ypt; nil when the binary was built without hook support.
var InstallTracer func(func(LexEvent))

const InputName = "in.yang"

// no text of the checks comes near this many channel events
const maxEvents = 200000

// Outcome of one guarded parse.Parse call.
type Outcome struct {
	Ret      string // "ok" (nil error), "err", "panic", "hang"
	Err      string
	Root     bool
	Tree     *parse.Tree
	Leak     int  // lexer goroutines left behind by this call (after a short grace period)
	Exited   bool // lexer exit event seen (only with hooks)
	Events   []LexEvent
	HasLoc   bool
	Line     int
	Col      int
	NLexers  int
	Overflow bool // more than maxEvents channel events: the rest was not recorded
	PanicVal string
}

var locRe = regexp.MustCompile(`(?:^|[ :])` + regexp.QuoteMeta(InputName) + `:(\d+):(\d+)(?::|$)`)

func lexerGoroutines() int {
	buf := make([]byte, 1<<16)
	for {
		n := runtime.Stack(buf, true)
		if n < len(buf) {
			return strings.Count(string(buf[:n]), "parse.(*lexer).run")
		}
		buf = make([]byte, 2*len(buf))
	}
}

// Guarded runs parse.Parse under a watchdog, with a panic trap, a check for lexer
// goroutines left behind and (with hooks) the channel events of the call.
func Guarded(text string, watchdog time.Duration, wantEvents bool) Outcome {
	var o Outcome
	var mu sync.Mutex
	var events []LexEvent
	overflow := false
	exitSeen := make(chan struct{}, 4)
	if wantEvents && InstallTracer != nil {
		InstallTracer(func(e LexEvent) {
			mu.Lock()
			if len(events) < maxEvents {
				events = append(events, e)
			} else {
				overflow = true
			}
			mu.Unlock()
			if e.Ev == "exit" {
				select {
				case exitSeen <- struct{}{}:
				default:
				}
			}
		})
		defer InstallTracer(nil)
	}
	before := lexerGoroutines()
	type res struct {
		t   *parse.Tree
		err error
		pv  interface{}
	}
	ch := make(chan res, 1)
	go func() {
		var r res
		defer func() {
			if p := recover(); p != nil {
				r.pv = p
			}
			ch <- r
		}()
		r.t, r.err = parse.Parse(InputName, text, nil)
	}()
	select {
	case r := <-ch:
		switch {
		case r.pv != nil:
			o.Ret, o.PanicVal = "panic", fmt.Sprint(r.pv)
		case r.err != nil:
			o.Ret, o.Err = "err", r.err.Error()
		default:
			o.Ret = "ok"
		}
		o.Tree = r.t
		o.Root = r.t != nil && r.t.Root != nil
	case <-time.After(watchdog):
		o.Ret = "hang"
		mu.Lock()
		if len(events) > 300 { // a spinning lexer emits without end: the beginning is enough to place the hang
			events = events[:300]
		}
		o.Events = append([]LexEvent(nil), events...)
		mu.Unlock()
		return o
	}
	if wantEvents && InstallTracer != nil {
		select {
		case <-exitSeen:
			o.Exited = true
		case <-time.After(250 * time.Millisecond):
		}
	}
	// goroutines: poll briefly so that a lexer that is just returning is not counted
	deadline := time.Now().Add(250 * time.Millisecond)
	for {
		o.Leak = lexerGoroutines() - before
		if o.Leak <= 0 || time.Now().After(deadline) {
			break
		}
		time.Sleep(200 * time.Microsecond)
	}
	if o.Leak < 0 {
		o.Leak = 0
	}
	mu.Lock()
	o.Events = append([]LexEvent(nil), events...)
	o.Overflow = overflow
	mu.Unlock()
	if o.Ret == "err" {
		if m := locRe.FindStringSubmatch(o.Err); m != nil {
			o.HasLoc = true
			o.Line, _ = strconv.Atoi(m[1])
			o.Col, _ = strconv.Atoi(m[2])
		}
	}
	return o
}
