package ypm

import (
	"bufio"
	"bytes"
	"encoding/json"
	"fmt"
	"io"
	"os"
	"os/exec"
	"sort"
	"strings"
	"sync"
	"syscall"
	"time"
)

const failBudget = 20

// job/result framing between the parent and its worker processes: one JSON object per line.
type job struct {
	ID int             `json:"id"`
	V  json.RawMessage `json:"v"`
}

type result struct {
	ID    int               `json:"id"`
	R     json.RawMessage   `json:"r"`
	Trace []json.RawMessage `json:"trace,omitempty"`
	Stop  string            `json:"stop,omitempty"` // "hang" | "restart": the worker ends after this result
}

const maxLine = 64 << 20

func readVectors(files []string) ([]json.RawMessage, error) {
	var out []json.RawMessage
	for _, f := range files {
		fh, err := os.Open(f)
		if err != nil {
			return nil, err
		}
		sc := bufio.NewScanner(fh)
		sc.Buffer(make([]byte, 1<<20), maxLine)
		for sc.Scan() {
			b := bytes.TrimSpace(sc.Bytes())
			if len(b) == 0 {
				continue
			}
			out = append(out, append(json.RawMessage(nil), b...))
		}
		fh.Close()
		if err := sc.Err(); err != nil {
			return nil, err
		}
	}
	return out, nil
}

// runPool distributes the vectors over worker processes (this binary, "child <mode>").
// A worker that dies or stops answering is replaced and the case it was working on is
// reported as crash/hang, so that one bad input never hides the others.
func runPool(mode string, vecs []json.RawMessage, workers int, outPath, tracePath string) error {
	results := make([]*result, len(vecs))
	var wg sync.WaitGroup
	var mu sync.Mutex
	hangs := 0
	// once failBudget cases have timed out or killed their worker, no more cases are fed: the workers
	// are killed and what was found is reported (a hanging parser must not cost a watchdog period per text)
	abort := make(chan struct{})
	bump := func() {
		mu.Lock()
		hangs++
		if hangs == failBudget && !limits.Solo { // a confirmation run is small and runs to its end
			close(abort)
		}
		mu.Unlock()
	}
	for w := 0; w < workers; w++ {
		var mine []int
		for i := w; i < len(vecs); i += workers {
			mine = append(mine, i)
		}
		wg.Add(1)
		go func(mine []int) {
			defer wg.Done()
			for len(mine) > 0 {
				tooMany := false
				select {
				case <-abort:
					tooMany = true
				default:
				}
				if tooMany {
					for _, i := range mine {
						results[i] = &result{ID: i, R: json.RawMessage(`{"ret":"skipped","verdict":"skipped"}`), Trace: synthTrace(tracePath, i, vecs[i], "skipped")}
					}
					return
				}
				done, fatal, stop := runWorker(mode, vecs, mine, results, abort)
				mine = mine[done:]
				if stop == "hang" {
					bump()
				}
				if stop == "aborted" {
					continue
				}
				if len(mine) > 0 && fatal != "" {
					// the worker ended without an answer for the next case
					verdict := "crash"
					if strings.Contains(fatal, "DATA RACE") {
						verdict = "data-race" // reported by the Go race detector (binary built with -race, GORACE=halt_on_error=1)
					}
					b, _ := json.Marshal(map[string]string{"ret": "crash", "verdict": verdict, "err": fatal})
					results[mine[0]] = &result{ID: mine[0], R: b, Trace: synthTrace(tracePath, mine[0], vecs[mine[0]], "crash")}
					mine = mine[1:]
					bump()
				}
			}
		}(mine)
	}
	wg.Wait()
	out, err := os.Create(outPath)
	if err != nil {
		return err
	}
	bw := bufio.NewWriterSize(out, 1<<20)
	var tw *bufio.Writer
	if tracePath != "" {
		tf, err := os.Create(tracePath)
		if err != nil {
			return err
		}
		defer tf.Close()
		tw = bufio.NewWriterSize(tf, 1<<20)
		defer tw.Flush()
	}
	for i, r := range results {
		if r == nil {
			r = &result{ID: i, R: json.RawMessage(`{"ret":"missing","verdict":"missing"}`)}
		}
		fmt.Fprintf(bw, `{"id":%d,"r":%s}`+"\n", i, r.R)
		if tw != nil {
			for _, t := range r.Trace {
				tw.Write(t)
				tw.WriteByte('\n')
			}
		}
	}
	bw.Flush()
	return out.Close()
}

// synthTrace: the trace of a case the worker did not answer (init + ret), so that every vector has a run in the trace.
func synthTrace(tracePath string, id int, vec json.RawMessage, ret string) []json.RawMessage {
	if tracePath == "" {
		return nil
	}
	var v struct {
		Text []int `json:"text"`
	}
	json.Unmarshal(vec, &v)
	if v.Text == nil {
		v.Text = []int{}
	}
	a, _ := json.Marshal(traceEv{Ev: "init", ID: id, Text: v.Text})
	b, _ := json.Marshal(traceEv{Ev: "ret", ID: id, Text: []int{}, Ret: ret})
	return []json.RawMessage{a, b}
}

// runWorker starts one worker on the cases mine[...]; returns how many cases were answered
// and, when the worker ended early without saying why, what is known about its end.
func runWorker(mode string, vecs []json.RawMessage, mine []int, results []*result, abort chan struct{}) (int, string, string) {
	cmd := exec.Command(os.Args[0], "child", mode)
	cmd.Env = os.Environ()
	cmd.SysProcAttr = &syscall.SysProcAttr{Pdeathsig: syscall.SIGKILL} // a worker never outlives this process
	stdin, _ := cmd.StdinPipe()
	stdout, _ := cmd.StdoutPipe()
	var stderr bytes.Buffer
	cmd.Stderr = &limitWriter{w: &stderr, n: 1 << 16}
	if err := cmd.Start(); err != nil {
		return 0, "cannot start worker: " + err.Error(), ""
	}
	go func() {
		bw := bufio.NewWriterSize(stdin, 1<<16)
		for _, i := range mine {
			b, _ := json.Marshal(job{ID: i, V: vecs[i]})
			if _, err := bw.Write(append(b, '\n')); err != nil {
				break
			}
		}
		bw.Flush()
		stdin.Close()
	}()
	lines := make(chan []byte, 16)
	go func() {
		sc := bufio.NewScanner(stdout)
		sc.Buffer(make([]byte, 1<<20), maxLine)
		for sc.Scan() {
			lines <- append([]byte(nil), sc.Bytes()...)
		}
		close(lines)
	}()
	done := 0
	stopped := ""
	for {
		var line []byte
		var ok bool
		select {
		case line, ok = <-lines:
		case <-abort:
			cmd.Process.Kill() // SIGKILL: the worker may be spinning
			cmd.Wait()
			return done, "", "aborted"
		case <-time.After(limits.Silent):
			cmd.Process.Kill()
			cmd.Wait()
			return done, fmt.Sprintf("worker silent for %v (process-level hang)", limits.Silent), ""
		}
		if !ok {
			break
		}
		var r result
		if err := json.Unmarshal(line, &r); err != nil {
			continue
		}
		results[r.ID] = &r
		done++
		if r.Stop != "" {
			stopped = r.Stop
			break
		}
	}
	if stopped != "" {
		cmd.Process.Kill()
		cmd.Wait()
		return done, "", stopped
	}
	err := cmd.Wait()
	if done < len(mine) {
		msg := "worker ended"
		if err != nil {
			msg += ": " + err.Error()
		}
		tail := stderr.String()
		if len(tail) > 2500 {
			tail = tail[:2500]
		}
		return done, msg + "\n" + tail, ""
	}
	return done, "", ""
}

type limitWriter struct {
	w io.Writer
	n int
}

func (l *limitWriter) Write(p []byte) (int, error) {
	if l.n > 0 {
		q := p
		if len(q) > l.n {
			q = q[:l.n]
		}
		l.w.Write(q)
		l.n -= len(q)
	}
	return len(p), nil
}

// childLoop runs in a worker: one job per input line, one result per output line.
func childLoop(handle func(id int, v json.RawMessage) result) {
	parent := os.Getppid()
	go func() { // a worker whose parent is gone ends itself, also while a parse spins
		for {
			time.Sleep(300 * time.Millisecond)
			if os.Getppid() != parent {
				os.Exit(3)
			}
		}
	}()
	sc := bufio.NewScanner(os.Stdin)
	sc.Buffer(make([]byte, 1<<20), maxLine)
	out := bufio.NewWriterSize(os.Stdout, 1<<16)
	for sc.Scan() {
		var j job
		if err := json.Unmarshal(sc.Bytes(), &j); err != nil {
			continue
		}
		r := handle(j.ID, j.V)
		r.ID = j.ID
		b, _ := json.Marshal(r)
		out.Write(b)
		out.WriteByte('\n')
		out.Flush()
		if r.Stop != "" {
			os.Exit(0)
		}
	}
}

func sortedKeys(m map[string]int) []string {
	ks := make([]string, 0, len(m))
	for k := range m {
		ks = append(ks, k)
	}
	sort.Strings(ks)
	return ks
}
