package ypm

import (
	"github.com/sdcio/yang-parser/parse"
)

// The package has several ways into the parser.  A vector names the one to use (field
// "entry", with "first" = the text parsed before; which entries a text gets is decided by the generator of the specification):
//
//	""  "Parse"                 parse.Parse(name, text, nil)
//	"ParseWithInterners"        parse.ParseWithInterners(name, text, nil, fresh interners)
//	"New.Parse"                 parse.New(name, nil).Parse(text)
//	"NewWithInterners.Parse"    parse.NewWithInterners(name, nil, fresh interners).Parse(text)
//	"Reparse"                   t := parse.New(name, nil); t.Parse(first); t.Parse(text)  - the call
//	                            under test is the second one, on a Tree that has parsed another text
//
// What is required of the call under test is the same through every entry (the properties speak of
// "parsing a text"): the outcome refers to the text of this call.
type Entry struct {
	Name  string
	First string
}

func entryOf(name string, first []int) Entry {
	return Entry{Name: name, First: FromCPs(first)}
}

// Prepare does what precedes the call under test (outside the watchdog's clock and outside the
// lexer tracer) and returns the call under test.
func (e Entry) Prepare() func(name, text string) (*parse.Tree, error) {
	switch e.Name {
	case "", "Parse":
		return func(name, text string) (*parse.Tree, error) { return parse.Parse(name, text, nil) }
	case "ParseWithInterners":
		return func(name, text string) (*parse.Tree, error) {
			return parse.ParseWithInterners(name, text, nil, parse.NewStringInterner(), parse.NewArgInterner())
		}
	case "New.Parse":
		return func(name, text string) (*parse.Tree, error) { return parse.New(name, nil).Parse(text) }
	case "NewWithInterners.Parse":
		return func(name, text string) (*parse.Tree, error) {
			return parse.NewWithInterners(name, nil, parse.NewStringInterner(), parse.NewArgInterner()).Parse(text)
		}
	case "Reparse":
		t := parse.New(InputName, nil)
		func() {
			defer func() { recover() }() // the first call is not the one under test
			t.Parse(e.First)
		}()
		return func(name, text string) (*parse.Tree, error) {
			t.ParseName = name
			return t.Parse(text)
		}
	}
	return func(name, text string) (*parse.Tree, error) { panic("harness: unknown entry " + e.Name) }
}
