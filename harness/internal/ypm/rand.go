package ypm

import "math/rand"

func newRand(seed int64) *rand.Rand { return rand.New(rand.NewSource(seed)) }
