// Package wkm binds the SchemaWalk* specifications (extension module X-walk) to the real code:
// a recording implementation of compile.Extensions (this file), the observation of
// ModelSet.FindOrWalk (walk.go) and of schema.FilterTree (filter.go).  Everything here is an
// observation function; expected behaviour comes from TLC evaluating spec/SchemaWalk*.tla.
package wkm

import (
	"fmt"
	"sort"

	"github.com/sdcio/yang-parser/parse"
	"github.com/sdcio/yang-parser/schema"
)

// Call is one hook invocation seen by the Recorder.
type Call struct {
	Seq   int    `json:"seq"`
	Hook  string `json:"hook"`  // container list leaf leaflist choice case tree rpc notification model modelset type must
	Stmt  string `json:"stmt"`  // keyword of the parse node handed to the hook ("" for nil)
	Arg   string `json:"arg"`   // its argument (node name / type name / must expression)
	Name  string `json:"name"`  // Name() of the schema node handed over ("" where it has none)
	Base  string `json:"base"`  // ExtendType: "nil" or Name() of the base type; ExtendMust: keyword+name of p
	Id    int    `json:"id"`    // identity of the wrapper returned (0 = nothing wrapped)
	Built int    `json:"built"` // number of wrappers found among the children of the node handed over
}

// Wrapped is implemented by every wrapper the Recorder returns.
type Wrapped interface{ WkID() int }

type wContainer struct {
	schema.Container
	id int
}
type wList struct {
	schema.List
	id int
}
type wLeaf struct {
	schema.Leaf
	id int
}
type wLeafList struct {
	schema.LeafList
	id int
}
type wChoice struct {
	schema.Choice
	id int
}
type wCase struct {
	schema.Case
	id int
}
type wTree struct {
	schema.Tree
	id int
}
type wRpc struct {
	schema.Rpc
	id int
}
type wNotification struct {
	schema.Notification
	id int
}
type wModel struct {
	schema.Model
	id int
}
type wModelSet struct {
	schema.ModelSet
	id int
}

func (w *wContainer) WkID() int    { return w.id }
func (w *wList) WkID() int         { return w.id }
func (w *wLeaf) WkID() int         { return w.id }
func (w *wLeafList) WkID() int     { return w.id }
func (w *wChoice) WkID() int       { return w.id }
func (w *wCase) WkID() int         { return w.id }
func (w *wTree) WkID() int         { return w.id }
func (w *wRpc) WkID() int          { return w.id }
func (w *wNotification) WkID() int { return w.id }
func (w *wModel) WkID() int        { return w.id }
func (w *wModelSet) WkID() int     { return w.id }

// Recorder implements compile.Extensions.  Mode "wrap": every hook returns a fresh wrapper around
// the node it was given (types and musts are only recorded); mode "identity": every hook returns
// its argument; FailHook != "": that hook returns an error for the node named FailName.
type Recorder struct {
	Mode     string
	FailHook string
	FailName string
	MustExt  string // replacement expression returned by ExtendMust ("" = none)
	Calls    []Call
	Types    []schema.Type // the type handed to the n-th ExtendType call (by Seq)
	TypeSeq  []int
	next     int
}

func pstmt(p parse.Node) (string, string) {
	if p == nil {
		return "", ""
	}
	return p.Statement(), p.Name()
}

func (r *Recorder) rec(hook string, p parse.Node, name string, kids []schema.Node) (int, error) {
	st, arg := pstmt(p)
	c := Call{Seq: len(r.Calls) + 1, Hook: hook, Stmt: st, Arg: arg, Name: name}
	for _, k := range kids {
		if _, ok := k.(Wrapped); ok {
			c.Built++
		}
	}
	if r.FailHook == hook && (r.FailName == name || r.FailName == arg) {
		r.Calls = append(r.Calls, c)
		return 0, fmt.Errorf("wk: hook %s refuses %s", hook, name)
	}
	if r.Mode == "wrap" {
		r.next++
		c.Id = r.next
	}
	r.Calls = append(r.Calls, c)
	return c.Id, nil
}

func (r *Recorder) NodeCardinality(parse.NodeType) map[parse.NodeType]parse.Cardinality { return nil }

func (r *Recorder) ExtendModelSet(m schema.ModelSet) (schema.ModelSet, error) {
	id, err := r.rec("modelset", nil, "", m.Children())
	if err != nil || id == 0 {
		return m, err
	}
	return &wModelSet{m, id}, nil
}
func (r *Recorder) ExtendModel(p parse.Node, m schema.Model, t schema.Tree) (schema.Model, error) {
	id, err := r.rec("model", p, m.Identifier(), []schema.Node{t})
	if err != nil || id == 0 {
		return m, err
	}
	return &wModel{m, id}, nil
}
func (r *Recorder) ExtendRpc(p parse.Node, x schema.Rpc) (schema.Rpc, error) {
	id, err := r.rec("rpc", p, "", []schema.Node{x.Input(), x.Output()})
	if err != nil || id == 0 {
		return x, err
	}
	return &wRpc{x, id}, nil
}
func (r *Recorder) ExtendNotification(p parse.Node, x schema.Notification) (schema.Notification, error) {
	id, err := r.rec("notification", p, "", []schema.Node{x.Schema()})
	if err != nil || id == 0 {
		return x, err
	}
	return &wNotification{x, id}, nil
}
func (r *Recorder) ExtendTree(p parse.Node, x schema.Tree) (schema.Tree, error) {
	id, err := r.rec("tree", p, x.Name(), x.Children())
	if err != nil || id == 0 {
		return x, err
	}
	return &wTree{x, id}, nil
}
func (r *Recorder) ExtendContainer(p parse.Node, x schema.Container) (schema.Container, error) {
	id, err := r.rec("container", p, x.Name(), x.Children())
	if err != nil || id == 0 {
		return x, err
	}
	return &wContainer{x, id}, nil
}
func (r *Recorder) ExtendList(p parse.Node, x schema.List) (schema.List, error) {
	id, err := r.rec("list", p, x.Name(), x.Children())
	if err != nil || id == 0 {
		return x, err
	}
	return &wList{x, id}, nil
}
func (r *Recorder) ExtendLeaf(p parse.Node, x schema.Leaf) (schema.Leaf, error) {
	id, err := r.rec("leaf", p, x.Name(), nil)
	if err != nil || id == 0 {
		return x, err
	}
	return &wLeaf{x, id}, nil
}
func (r *Recorder) ExtendLeafList(p parse.Node, x schema.LeafList) (schema.LeafList, error) {
	id, err := r.rec("leaflist", p, x.Name(), nil)
	if err != nil || id == 0 {
		return x, err
	}
	return &wLeafList{x, id}, nil
}
func (r *Recorder) ExtendChoice(p parse.Node, x schema.Choice) (schema.Choice, error) {
	id, err := r.rec("choice", p, x.Name(), x.Choices())
	if err != nil || id == 0 {
		return x, err
	}
	return &wChoice{x, id}, nil
}
func (r *Recorder) ExtendCase(p parse.Node, x schema.Case) (schema.Case, error) {
	id, err := r.rec("case", p, x.Name(), x.Children())
	if err != nil || id == 0 {
		return x, err
	}
	return &wCase{x, id}, nil
}
func (r *Recorder) ExtendType(p parse.Node, base schema.Type, t schema.Type) (schema.Type, error) {
	st, arg := pstmt(p)
	c := Call{Seq: len(r.Calls) + 1, Hook: "type", Stmt: st, Arg: arg, Name: t.Name().Local, Base: "nil"}
	if base != nil {
		c.Base = base.Name().Local
	}
	r.Calls = append(r.Calls, c)
	r.Types = append(r.Types, t)
	r.TypeSeq = append(r.TypeSeq, c.Seq)
	if r.FailHook == "type" && r.FailName == arg {
		return nil, fmt.Errorf("wk: hook type refuses %s", arg)
	}
	return t, nil
}
func (r *Recorder) ExtendMust(p parse.Node, m parse.Node) (string, error) {
	st, arg := pstmt(m)
	pst, parg := pstmt(p)
	c := Call{Seq: len(r.Calls) + 1, Hook: "must", Stmt: st, Arg: arg, Name: parg, Base: pst}
	r.Calls = append(r.Calls, c)
	if r.FailHook == "must" && r.FailName == parg {
		return "", fmt.Errorf("wk: hook must refuses %s", parg)
	}
	return r.MustExt, nil
}
func (r *Recorder) ExtendOpdCommand(p parse.Node, x schema.OpdCommand) (schema.OpdCommand, error) {
	r.rec("opdcommand", p, x.Name(), nil)
	return x, nil
}
func (r *Recorder) ExtendOpdOption(p parse.Node, x schema.OpdOption) (schema.OpdOption, error) {
	r.rec("opdoption", p, x.Name(), nil)
	return x, nil
}
func (r *Recorder) ExtendOpdArgument(p parse.Node, x schema.OpdArgument) (schema.OpdArgument, error) {
	r.rec("opdargument", p, x.Name(), nil)
	return x, nil
}

// Placed is a wrapper found in the compiled model set: where it is.
type Placed struct {
	Id   int      `json:"id"`
	Kind string   `json:"kind"`
	Path []string `json:"path"` // data tree: names from the top, choices and cases included; rpc / notification
	// trees are rooted at "rpc:<name>:input|output" / "notification:<name>"; module trees at "module:<name>"
	Via string `json:"via"` // which accessor reached it: "set" (merged tree of the model set), "module", "rpc", "notification"
}

func kindOf(n interface{}) string {
	switch n.(type) {
	case *wContainer:
		return "container"
	case *wList:
		return "list"
	case *wLeaf:
		return "leaf"
	case *wLeafList:
		return "leaflist"
	case *wChoice:
		return "choice"
	case *wCase:
		return "case"
	case *wTree:
		return "tree"
	case *wRpc:
		return "rpc"
	case *wNotification:
		return "notification"
	case *wModel:
		return "model"
	case *wModelSet:
		return "modelset"
	}
	return ""
}

// schemaKids: the schema-level children of a node (choices and cases as nodes; data children that are
// not lifted out of a choice).  Children() flattens choices; Choices() has the choice nodes.
func schemaKids(n schema.Node) []schema.Node {
	lifted := map[schema.Node]bool{}
	var mark func(c schema.Node)
	mark = func(c schema.Node) {
		for _, k := range c.Children() {
			lifted[k] = true
		}
	}
	out := []schema.Node{}
	for _, c := range n.Choices() {
		mark(c)
		out = append(out, c)
	}
	for _, k := range n.Children() {
		if !lifted[k] {
			out = append(out, k)
		}
	}
	sort.SliceStable(out, func(i, j int) bool { return out[i].Name() < out[j].Name() })
	return out
}

func place(n schema.Node, path []string, via string, out *[]Placed) {
	for _, k := range schemaKids(n) {
		p := append(append([]string{}, path...), k.Name())
		if w, ok := k.(Wrapped); ok {
			*out = append(*out, Placed{Id: w.WkID(), Kind: kindOf(k), Path: p, Via: via})
		} else {
			*out = append(*out, Placed{Id: 0, Kind: "unwrapped", Path: p, Via: via})
		}
		place(k, p, via, out)
	}
}

// Locate finds every wrapper reachable from the compiled model set through the public accessors.
func Locate(ms schema.ModelSet) []Placed {
	out := []Placed{}
	if w, ok := ms.(Wrapped); ok {
		out = append(out, Placed{Id: w.WkID(), Kind: "modelset", Path: []string{}, Via: "set"})
	}
	place(ms, []string{}, "set", &out)
	mods := []string{}
	for name := range ms.Modules() {
		mods = append(mods, name)
	}
	sort.Strings(mods)
	for _, name := range mods {
		m := ms.Modules()[name]
		root := []string{"module:" + name}
		if w, ok := m.(Wrapped); ok {
			out = append(out, Placed{Id: w.WkID(), Kind: "model", Path: root, Via: "module"})
		}
		if wm, ok := m.(*wModel); ok {
			// the tree a model was built from is the Tree embedded in it
			if inner, ok2 := wm.Model.(interface{ WkID() int }); ok2 {
				_ = inner
			}
		}
		place(m, root, "module", &out)
		rn := []string{}
		for r := range m.Rpcs() {
			rn = append(rn, r)
		}
		sort.Strings(rn)
		for _, r := range rn {
			x := m.Rpcs()[r]
			rr := []string{"rpc:" + r}
			if w, ok := x.(Wrapped); ok {
				out = append(out, Placed{Id: w.WkID(), Kind: "rpc", Path: rr, Via: "rpc"})
			}
			for _, io := range []struct {
				n string
				t schema.Tree
			}{{"input", x.Input()}, {"output", x.Output()}} {
				p := []string{"rpc:" + r + ":" + io.n}
				if w, ok := io.t.(Wrapped); ok {
					out = append(out, Placed{Id: w.WkID(), Kind: "tree", Path: p, Via: "rpc"})
				}
				place(io.t, p, "rpc", &out)
			}
		}
		nn := []string{}
		for r := range m.Notifications() {
			nn = append(nn, r)
		}
		sort.Strings(nn)
		for _, r := range nn {
			x := m.Notifications()[r]
			p := []string{"notification:" + r}
			if w, ok := x.(Wrapped); ok {
				out = append(out, Placed{Id: w.WkID(), Kind: "notification", Path: p, Via: "notification"})
			}
			if w, ok := x.Schema().(Wrapped); ok {
				out = append(out, Placed{Id: w.WkID(), Kind: "tree", Path: append(p, "tree"), Via: "notification"})
			}
			place(x.Schema(), p, "notification", &out)
		}
	}
	return out
}
