// Package wkm binds the SchemaWalk* specifications (extension module X-walk) to the real code:
// a recording implementation of compile.Extensions (this file), the observation of
// ModelSet.FindOrWalk (walk.go) and of schema.FilterTree (filter.go).  Everything here is an
// observation function; expected behaviour comes from TLC evaluating spec/SchemaWalk*.tla.
package wkm

import (
	"fmt"
	"sort"
	"strings"

	"github.com/sdcio/yang-parser/parse"
	"github.com/sdcio/yang-parser/schema"

	"verif/harness/internal/schemadump"
)

// Call is one hook invocation seen by the Recorder.
type Call struct {
	Seq   int    `json:"seq"`
	Hook  string `json:"hook"`  // container list leaf leaflist choice case tree rpc notification model modelset type must
	Stmt  string `json:"stmt"`  // keyword of the parse node handed to the hook ("" for nil)
	Arg   string `json:"arg"`   // its argument (node name / type name / must expression)
	Name  string `json:"name"`  // Name() of the schema node handed over ("" where it has none)
	Base  string `json:"base"`  // ExtendType: "nil" or Name() of the base type; ExtendMust: keyword+name of p
	Id    int    `json:"id"`    // identity of the wrapper returned (0 = nothing wrapped)
	Built int    `json:"built"` // number of wrappers found among the children of the node handed over
}

// Wrapped is implemented by every wrapper the Recorder returns.
type Wrapped interface{ WkID() int }

type wContainer struct {
	schema.Container
	id int
}
type wList struct {
	schema.List
	id int
}
type wLeaf struct {
	schema.Leaf
	id int
}
type wLeafList struct {
	schema.LeafList
	id int
}
type wChoice struct {
	schema.Choice
	id int
}
type wCase struct {
	schema.Case
	id int
}
type wTree struct {
	schema.Tree
	id int
}
type wRpc struct {
	schema.Rpc
	id int
}
type wNotification struct {
	schema.Notification
	id int
}
type wModel struct {
	schema.Model
	id int
}
type wModelSet struct {
	schema.ModelSet
	id int
}

func (w *wContainer) WkID() int    { return w.id }
func (w *wList) WkID() int         { return w.id }
func (w *wLeaf) WkID() int         { return w.id }
func (w *wLeafList) WkID() int     { return w.id }
func (w *wChoice) WkID() int       { return w.id }
func (w *wCase) WkID() int         { return w.id }
func (w *wTree) WkID() int         { return w.id }
func (w *wRpc) WkID() int          { return w.id }
func (w *wNotification) WkID() int { return w.id }
func (w *wModel) WkID() int        { return w.id }
func (w *wModelSet) WkID() int     { return w.id }

// Recorder implements compile.Extensions.  Mode "wrap": every hook returns a fresh wrapper around
// the node it was given (types and musts are only recorded); mode "identity": every hook returns
// its argument; FailHook != "": that hook returns an error for the node named FailName.
type Recorder struct {
	Mode     string
	FailHook string
	FailName string
	MustExt  string // replacement expression returned by ExtendMust ("" = none)
	Calls    []Call
	PNodes   []parse.Node // per call: the parse node that owns it (node hooks: p; must: the owner p; type: nil)
	TreeOf   map[int]int  // id of a model wrapper -> id of the tree wrapper it was built from
	next     int
}

func pstmt(p parse.Node) (string, string) {
	if p == nil {
		return "", ""
	}
	return p.Statement(), p.Name()
}

func (r *Recorder) rec(hook string, p parse.Node, name string, kids []schema.Node) (int, error) {
	st, arg := pstmt(p)
	c := Call{Seq: len(r.Calls) + 1, Hook: hook, Stmt: st, Arg: arg, Name: name}
	for _, k := range kids {
		if _, ok := k.(Wrapped); ok {
			c.Built++
		}
	}
	r.PNodes = append(r.PNodes, p)
	if r.FailHook == hook && r.FailName == arg {
		r.Calls = append(r.Calls, c)
		return 0, fmt.Errorf("wk: hook %s refuses %s", hook, name)
	}
	if r.Mode == "wrap" {
		r.next++
		c.Id = r.next
	}
	r.Calls = append(r.Calls, c)
	return c.Id, nil
}

func (r *Recorder) NodeCardinality(parse.NodeType) map[parse.NodeType]parse.Cardinality { return nil }

func (r *Recorder) ExtendModelSet(m schema.ModelSet) (schema.ModelSet, error) {
	id, err := r.rec("modelset", nil, "", m.Children())
	if err != nil || id == 0 {
		return m, err
	}
	return &wModelSet{m, id}, nil
}
func (r *Recorder) ExtendModel(p parse.Node, m schema.Model, t schema.Tree) (schema.Model, error) {
	id, err := r.rec("model", p, m.Identifier(), []schema.Node{t})
	if err != nil || id == 0 {
		return m, err
	}
	if w, ok := t.(Wrapped); ok {
		if r.TreeOf == nil {
			r.TreeOf = map[int]int{}
		}
		r.TreeOf[id] = w.WkID()
	}
	return &wModel{m, id}, nil
}
func (r *Recorder) ExtendRpc(p parse.Node, x schema.Rpc) (schema.Rpc, error) {
	id, err := r.rec("rpc", p, "", []schema.Node{x.Input(), x.Output()})
	if err != nil || id == 0 {
		return x, err
	}
	return &wRpc{x, id}, nil
}
func (r *Recorder) ExtendNotification(p parse.Node, x schema.Notification) (schema.Notification, error) {
	id, err := r.rec("notification", p, "", []schema.Node{x.Schema()})
	if err != nil || id == 0 {
		return x, err
	}
	return &wNotification{x, id}, nil
}
func (r *Recorder) ExtendTree(p parse.Node, x schema.Tree) (schema.Tree, error) {
	id, err := r.rec("tree", p, x.Name(), x.Children())
	if err != nil || id == 0 {
		return x, err
	}
	return &wTree{x, id}, nil
}
func (r *Recorder) ExtendContainer(p parse.Node, x schema.Container) (schema.Container, error) {
	id, err := r.rec("container", p, x.Name(), x.Children())
	if err != nil || id == 0 {
		return x, err
	}
	return &wContainer{x, id}, nil
}
func (r *Recorder) ExtendList(p parse.Node, x schema.List) (schema.List, error) {
	id, err := r.rec("list", p, x.Name(), x.Children())
	if err != nil || id == 0 {
		return x, err
	}
	return &wList{x, id}, nil
}
func (r *Recorder) ExtendLeaf(p parse.Node, x schema.Leaf) (schema.Leaf, error) {
	id, err := r.rec("leaf", p, x.Name(), nil)
	if err != nil || id == 0 {
		return x, err
	}
	return &wLeaf{x, id}, nil
}
func (r *Recorder) ExtendLeafList(p parse.Node, x schema.LeafList) (schema.LeafList, error) {
	id, err := r.rec("leaflist", p, x.Name(), nil)
	if err != nil || id == 0 {
		return x, err
	}
	return &wLeafList{x, id}, nil
}
func (r *Recorder) ExtendChoice(p parse.Node, x schema.Choice) (schema.Choice, error) {
	id, err := r.rec("choice", p, x.Name(), x.Choices())
	if err != nil || id == 0 {
		return x, err
	}
	return &wChoice{x, id}, nil
}
func (r *Recorder) ExtendCase(p parse.Node, x schema.Case) (schema.Case, error) {
	id, err := r.rec("case", p, x.Name(), x.Children())
	if err != nil || id == 0 {
		return x, err
	}
	return &wCase{x, id}, nil
}
func (r *Recorder) ExtendType(p parse.Node, base schema.Type, t schema.Type) (schema.Type, error) {
	st, arg := pstmt(p)
	c := Call{Seq: len(r.Calls) + 1, Hook: "type", Stmt: st, Arg: arg, Name: t.Name().Local, Base: "nil"}
	if base != nil {
		c.Base = base.Name().Local
	}
	r.Calls = append(r.Calls, c)
	r.PNodes = append(r.PNodes, nil)
	if r.FailHook == "type" && r.FailName == arg {
		return nil, fmt.Errorf("wk: hook type refuses %s", arg)
	}
	return t, nil
}
func (r *Recorder) ExtendMust(p parse.Node, m parse.Node) (string, error) {
	st, arg := pstmt(m)
	pst, parg := pstmt(p)
	c := Call{Seq: len(r.Calls) + 1, Hook: "must", Stmt: st, Arg: arg, Name: parg, Base: pst}
	r.Calls = append(r.Calls, c)
	r.PNodes = append(r.PNodes, p)
	if r.FailHook == "must" && r.FailName == arg {
		return "", fmt.Errorf("wk: hook must refuses %s", parg)
	}
	return r.MustExt, nil
}
func (r *Recorder) ExtendOpdCommand(p parse.Node, x schema.OpdCommand) (schema.OpdCommand, error) {
	r.rec("opdcommand", p, x.Name(), nil)
	return x, nil
}
func (r *Recorder) ExtendOpdOption(p parse.Node, x schema.OpdOption) (schema.OpdOption, error) {
	r.rec("opdoption", p, x.Name(), nil)
	return x, nil
}
func (r *Recorder) ExtendOpdArgument(p parse.Node, x schema.OpdArgument) (schema.OpdArgument, error) {
	r.rec("opdargument", p, x.Name(), nil)
	return x, nil
}

// Placed is a schema object found in the compiled model set: where it is (path in the terms of
// spec/SchemaWalkExt.tla) and which wrapper it is (Id 0: an object no hook returned).
type Placed struct {
	Id   int      `json:"id"`
	Kind string   `json:"kind"`
	Path []string `json:"path"`
}

func kindOf(n interface{}) string {
	switch n.(type) {
	case *wContainer:
		return "container"
	case *wList:
		return "list"
	case *wLeaf:
		return "leaf"
	case *wLeafList:
		return "leaflist"
	case *wChoice:
		return "choice"
	case *wCase:
		return "case"
	case *wTree:
		return "tree"
	case *wRpc:
		return "rpc"
	case *wNotification:
		return "notification"
	case *wModel:
		return "model"
	case *wModelSet:
		return "modelset"
	}
	if sn, ok := n.(schema.Node); ok {
		return "unwrapped-" + walkKind(sn)
	}
	return "unwrapped"
}

func idOf(n interface{}) int {
	if w, ok := n.(Wrapped); ok {
		return w.WkID()
	}
	return 0
}

func cp(path []string, more ...string) []string {
	return append(append([]string{}, path...), more...)
}

func place(n schema.Node, path []string, out *[]Placed) {
	kids, _ := schemadump.SchemaChildren(n)
	sort.SliceStable(kids, func(i, j int) bool { return kids[i].Name() < kids[j].Name() })
	for _, k := range kids {
		p := cp(path, k.Name())
		*out = append(*out, Placed{Id: idOf(k), Kind: kindOf(k), Path: p})
		place(k, p, out)
	}
}

// Locate finds every schema object reachable from the compiled model set through the public
// accessors, module by module.  merged: the ids of the data nodes found through the model set's own
// (merged) tree, for comparison with those found through the modules.
func Locate(ms schema.ModelSet) (out []Placed, merged []int) {
	out = append(out, Placed{Id: idOf(ms), Kind: kindOf(ms), Path: []string{}})
	var viaSet []Placed
	place(ms, []string{}, &viaSet)
	for _, p := range viaSet {
		merged = append(merged, p.Id)
	}
	mods := []string{}
	for name := range ms.Modules() {
		mods = append(mods, name)
	}
	sort.Strings(mods)
	for _, name := range mods {
		m := ms.Modules()[name]
		root := []string{"m:" + name}
		out = append(out, Placed{Id: idOf(m), Kind: kindOf(m), Path: root})
		place(m, root, &out)
		rn := []string{}
		for r := range m.Rpcs() {
			rn = append(rn, r)
		}
		sort.Strings(rn)
		for _, r := range rn {
			x := m.Rpcs()[r]
			rp := cp(root, "rpc:", r)
			out = append(out, Placed{Id: idOf(x), Kind: kindOf(x), Path: rp})
			out = append(out, Placed{Id: idOf(x.Input()), Kind: kindOf(x.Input()), Path: cp(rp, "input")})
			place(x.Input(), cp(rp, "input"), &out)
			out = append(out, Placed{Id: idOf(x.Output()), Kind: kindOf(x.Output()), Path: cp(rp, "output")})
			place(x.Output(), cp(rp, "output"), &out)
		}
		nn := []string{}
		for r := range m.Notifications() {
			nn = append(nn, r)
		}
		sort.Strings(nn)
		for _, r := range nn {
			x := m.Notifications()[r]
			np := cp(root, "notification:", r)
			out = append(out, Placed{Id: idOf(x), Kind: kindOf(x), Path: np})
			out = append(out, Placed{Id: idOf(x.Schema()), Kind: kindOf(x.Schema()), Path: np})
			place(x.Schema(), np, &out)
		}
	}
	return out, merged
}

// MustNode is the must expressions a node ended up with.
type MustNode struct {
	Path  []string `json:"path"`
	Texts []string `json:"texts"`
}

func mustText(msg string) string {
	const p = "'must' condition is false: '"
	if strings.HasPrefix(msg, p) && strings.HasSuffix(msg, "'") {
		return msg[len(p) : len(msg)-1]
	}
	return "msg:" + msg
}

func musts(n schema.Node, path []string, out *[]MustNode) {
	kids, _ := schemadump.SchemaChildren(n)
	for _, k := range kids {
		p := cp(path, k.Name())
		if ms := k.Musts(); len(ms) > 0 {
			mn := MustNode{Path: p, Texts: []string{}}
			for _, m := range ms {
				mn.Texts = append(mn.Texts, mustText(m.ErrMsg))
			}
			*out = append(*out, mn)
		}
		musts(k, p, out)
	}
}

// MustsOf lists the must expressions of the data nodes of every module.
func MustsOf(ms schema.ModelSet) []MustNode {
	out := []MustNode{}
	for name, m := range ms.Modules() {
		musts(m, []string{"m:" + name}, &out)
	}
	return out
}
