package wkm

import (
	"fmt"
	"regexp"

	"github.com/sdcio/yang-parser/compile"
	"github.com/sdcio/yang-parser/data/datanode"
	"github.com/sdcio/yang-parser/parse"
	"github.com/sdcio/yang-parser/schema"

	"verif/harness/internal/dvm"
)

// FShape is a schema of the FilterTree part: SchemaNodes records plus the names of config false nodes.
type FShape struct {
	ID   int         `json:"id"`
	Kids []dvm.SNode `json:"kids"`
	RO   []string    `json:"ro"`
}

// YangOf renders the shape (dvm.RenderYang) and marks the nodes named in RO `config false`.
func YangOf(sh FShape) string {
	text := dvm.RenderYang(dvm.Shape{ID: sh.ID, Kids: sh.Kids})
	for _, n := range sh.RO {
		re := regexp.MustCompile(`(?m)^(\s*)(container|list|leaf|leaf-list) ` + regexp.QuoteMeta(n) + ` \{$`)
		text = re.ReplaceAllString(text, "${0}\n${1}  config false;")
	}
	return text
}

// CompileShape compiles the shape with the real parser and compiler (no Extensions).
func CompileShape(sh FShape) (ms schema.ModelSet, err error) {
	defer func() {
		if r := recover(); r != nil {
			err = fmt.Errorf("panic while compiling: %v", r)
		}
	}()
	name := fmt.Sprintf("v%d", sh.ID)
	t, err := parse.Parse(name+".yang", YangOf(sh), nil)
	if err != nil {
		return nil, err
	}
	return compile.CompileParseTrees(nil, map[string]*parse.Tree{name: t}, compile.FeaturesFromNames(true), false, nil)
}

// ONode is an ordered data node (SchemaWalkFilter.tla: [name, vals, kids]).
type ONode struct {
	Name string   `json:"name"`
	Vals []string `json:"vals"`
	Kids []ONode  `json:"kids"`
}

// BuildOrdered makes the real data tree, children in the given order.
func BuildOrdered(d ONode) datanode.DataNode {
	kids := []datanode.DataNode{}
	for _, k := range d.Kids {
		kids = append(kids, BuildOrdered(k))
	}
	var vals []string
	if len(d.Vals) > 0 {
		vals = append(vals, d.Vals...)
	}
	return datanode.CreateDataNode(d.Name, kids, vals)
}

// ReadTree reads a data tree (or a view) back through the DataNode interface.  nosort: through the
// NoSorting accessors.
func ReadTree(n datanode.DataNode, nosort bool) ONode {
	out := ONode{Name: n.YangDataName(), Vals: []string{}, Kids: []ONode{}}
	vals := n.YangDataValues()
	kids := n.YangDataChildren()
	if nosort {
		vals = n.YangDataValuesNoSorting()
		kids = n.YangDataChildrenNoSorting()
	}
	out.Vals = append(out.Vals, vals...)
	for _, c := range kids {
		if c == nil {
			out.Kids = append(out.Kids, ONode{Name: "?nil-child", Vals: []string{}, Kids: []ONode{}})
			continue
		}
		out.Kids = append(out.Kids, ReadTree(c, nosort))
	}
	return out
}

// Pred is a predicate of the menu (Keep in SchemaWalkFilter.tla).
type Pred struct {
	ID    string   `json:"id"`
	Names []string `json:"names"`
	Kinds []string `json:"kinds"`
}

// KeepCall is one invocation of the predicate as the specification records it.
type KeepCall struct {
	Name string `json:"name"`
	Kind string `json:"kind"`
	Cfg  bool   `json:"cfg"`
	Nk   int    `json:"nk"`
}

func filterKind(s schema.Node) string {
	switch s.(type) {
	case nil:
		return "nil"
	case schema.ListEntry:
		return "entry"
	case schema.List:
		return "list"
	case schema.Container:
		return "container"
	case schema.LeafList:
		return "leaflist"
	case schema.Leaf:
		return "leaf"
	case schema.LeafValue:
		return "leafvalue"
	case schema.Tree:
		return "tree"
	}
	return "other"
}

func has(xs []string, x string) bool {
	for _, y := range xs {
		if x == y {
			return true
		}
	}
	return false
}

// MakeFilter is the Go twin of Keep(p, s, d, has); every call is appended to log.
func MakeFilter(p Pred, log *[]KeepCall) schema.Filter {
	return func(s schema.Node, d datanode.DataNode, children []datanode.DataNode) bool {
		c := KeepCall{Name: d.YangDataName(), Kind: filterKind(s), Nk: len(children)}
		if s != nil {
			c.Cfg = s.Config()
		}
		*log = append(*log, c)
		hasKids := len(children) != 0
		switch p.ID {
		case "all":
			return true
		case "none":
			return false
		case "config":
			return c.Cfg
		case "state":
			return !c.Cfg || hasKids
		case "kids":
			return hasKids
		case "val":
			return hasKids || has(d.YangDataValues(), "2")
		case "named":
			return has(p.Names, c.Name)
		case "namedkids":
			return hasKids || has(p.Names, c.Name)
		case "kind":
			return has(p.Kinds, c.Kind)
		}
		return false
	}
}

// FilterObs is everything observed about one (tree, predicate) pair.
type FilterObs struct {
	View    ONode      `json:"view"`
	NoSort  ONode      `json:"nosort"`
	Keeps   []KeepCall `json:"keeps"`
	View2   ONode      `json:"view2"`  // the view filtered again
	After   ONode      `json:"after"`  // the underlying tree read again after all of this
	After2  ONode      `json:"after2"` // the first view read again after it was filtered itself
	Panic   string     `json:"panic"`
	NilView bool       `json:"nilview"`
}

// RunFilter calls the real FilterTree on a fresh tree.
func RunFilter(ms schema.ModelSet, d ONode, p Pred) (obs FilterObs) {
	defer func() {
		if r := recover(); r != nil {
			obs.Panic = fmt.Sprint(r)
		}
	}()
	obs.Keeps = []KeepCall{}
	root := BuildOrdered(d)
	view := schema.FilterTree(ms, root, MakeFilter(p, &obs.Keeps))
	if view == nil {
		obs.NilView = true
		return
	}
	obs.View = ReadTree(view, false)
	obs.NoSort = ReadTree(view, true)
	var log2 []KeepCall
	view2 := schema.FilterTree(ms, view, MakeFilter(p, &log2))
	if view2 != nil {
		obs.View2 = ReadTree(view2, false)
	}
	obs.After2 = ReadTree(view, false)
	obs.After = ReadTree(root, false)
	return
}
